#!/usr/bin/env python3
"""Fills the generated tables of DESIGN.md (between <!-- TABLE:x --> markers) from
known_findings.json, the /repo commit log and seeded/*/meta.json."""
import json, os, re, subprocess, glob
R = os.path.dirname(os.path.abspath(__file__))
s = open(os.path.join(R, "DESIGN.md")).read()

def put(name, body):
    global s
    a = "<!-- TABLE:%s -->" % name; b = "<!-- /TABLE -->"
    i = s.index(a) + len(a); j = s.index(b, i)
    s = s[:i] + "\n" + body.rstrip() + "\n" + s[j:]

log = subprocess.run(["git", "-C", "/repo", "log", "--reverse", "--format=%h\t%s"], capture_output=True, text=True).stdout.splitlines()
hooks = [l.split("\t", 1) for l in log if "\tverif-hook:" in l]
rows = ["| commit | hook |", "|---|---|"] + ["| `%s` | %s |" % (h, m.replace("verif-hook: ", "")) for h, m in hooks]
put("hooks", "\n".join(rows))

kf = json.load(open(os.path.join(R, "known_findings.json")))["findings"]
rows = ["| property | finding | status | what failed |", "|---|---|---|---|"]
for f in kf:
    d = f["description"]
    d = re.sub(r"^fixed: property=C\d+ [0-9a-f]+ ", "", d)
    if len(d) > 330: d = d[:327] + "..."
    st = "fixed `%s`" % f["commit"] if f["status"] == "fixed" else "**open** (known finding)"
    rows.append("| %s | %s | %s | %s |" % (f["property"], f["id"], st, d.replace("|", "\\|")))
put("findings", "\n".join(rows))

rows = ["| id | property | what the change does / needs | detected by |", "|---|---|---|---|"]
for d in sorted(glob.glob(os.path.join(R, "seeded", "*", ""))):
    m = json.load(open(os.path.join(d, "meta.json")))
    summ = (m.get("summary") or "").replace("\n", " ").replace("|", "\\|")
    if len(summ) > 260: summ = summ[:257] + "..."
    needs = (m.get("needs") or "").replace("\n", " ").replace("|", "\\|")
    if len(needs) > 200: needs = needs[:197] + "..."
    rows.append("| %s | %s | %s **Needs:** %s | %s |" % (os.path.basename(d.rstrip("/")), m.get("property"), summ, needs, (m.get("detected_by") or "").replace("|", "\\|")))
put("seeded", "\n".join(rows))
open(os.path.join(R, "DESIGN.md"), "w").write(s)
print("tables written: %d hooks, %d findings, %d seeded" % (len(hooks), len(kf), len(rows) - 2))
