package c07

import (
	"math"
	"math/bits"

	"pgregory.net/rapid"
)

// The generator draws the whole history up-front. To make evictions after
// ban/unban/Open frequent it keeps a copy of the reference model, advances it
// with the canonical outcome of every drawn operation, and most of the time
// picks the key of an operation among the keys for which the operation is
// interesting in the predicted state (an absent key for Create, an incomplete
// one for MarkComplete, an evictable blob that is not most-recent for Open …).
// The prediction only biases the draw: every history is valid input, and the
// interpreter never relies on the prediction.

const maxOps = 60

// unif draws a (practically) uniform integer in [0,n). rapid's integer
// generators are deliberately skewed towards small magnitudes, which would skew
// every weighted choice below towards its first alternative; single bits are
// uniform, so the value is assembled from bits. It still shrinks towards 0.
func unif(t *rapid.T, label string, n int) int {
	if n <= 1 {
		return 0
	}
	nb := bits.Len(uint(n-1)) + 5
	v := 0
	for i := 0; i < nb; i++ {
		v <<= 1
		if rapid.Bool().Draw(t, label) {
			v |= 1
		}
	}
	return v % n
}

// unifRange draws uniformly from [lo,hi].
func unifRange(t *rapid.T, label string, lo, hi uint64) uint64 {
	if hi <= lo {
		return lo
	}
	return lo + uint64(unif(t, label, int(hi-lo+1)))
}

type sim struct {
	m     *model
	nkeys int
}

func (s *sim) pick(t *rapid.T, pred func(k string, b *mblob, present bool) bool) int {
	var cand []int
	for i := 0; i < s.nkeys; i++ {
		b, ok := s.m.blobs[keyNames[i]]
		if pred(keyNames[i], b, ok) {
			cand = append(cand, i)
		}
	}
	if len(cand) > 0 && unif(t, "guided", 10) < 8 {
		return cand[unif(t, "cand", len(cand))]
	}
	return unif(t, "key", s.nkeys)
}

func genData(t *rapid.T, max int) []byte {
	return rapid.SliceOfN(rapid.Byte(), 0, max).Draw(t, "data")
}

func (s *sim) genSize(t *rapid.T) uint64 {
	m := s.m
	capacity := m.cap
	free := capacity - m.size()
	var evictable uint64
	for _, k := range m.lru {
		evictable += m.blobs[k].reserved
	}
	w := unif(t, "sizeclass", 100)
	if evictable > 0 && w < 35 {
		// needs an eviction and can be satisfied by one: free < size <= free+evictable
		return free + unifRange(t, "pressure", 1, evictable)
	}
	switch {
	case w < 62:
		return unifRange(t, "small", 1, capacity/4+1)
	case w < 72:
		return unifRange(t, "large", capacity/4, capacity)
	case w < 77:
		return 0
	case w < 82:
		return unifRange(t, "boundary", capacity-2, capacity+4)
	case w < 92:
		// around the predicted free space: one less, exact fit, one more
		d := unifRange(t, "fit", 0, 2)
		if free+d >= 1 {
			return free + d - 1
		}
		return free
	case w < 96:
		return rapid.SampledFrom([]uint64{
			math.MaxUint64, math.MaxUint64 - 1, math.MaxUint64 - capacity, math.MaxUint64 - capacity + 1,
			math.MaxUint64 - capacity/2, 1 << 63, 1<<63 + capacity, 1 << 32, 1 << 31,
		}).Draw(t, "huge")
	default:
		return unifRange(t, "medium", 1, capacity/2+1)
	}
}

type weighted struct {
	op string
	w  int
}

// opWeights adapts the operation mix to the predicted state so that histories
// spend their steps where the property lives: keep a few complete evictable
// blobs around, perturb their order (Open of a not-most-recent blob, ban/unban),
// then create under space pressure.
func (s *sim) opWeights() []weighted {
	m := s.m
	incomplete, bannedN := 0, 0
	for _, b := range m.blobs {
		if !b.complete {
			incomplete++
		}
		if b.banned {
			bannedN++
		}
	}
	w := map[string]int{
		"create": 22, "markcomplete": 12, "open": 6, "openwrite": 3, "stat": 2,
		"delete": 3, "ban": 5, "unban": 4, "setmd": 10, "getmd": 2, "delmd": 3,
		"listmd": 1, "writeatmd": 5, "clean": 3, "createbad": 2,
	}
	if incomplete >= 1 {
		w["markcomplete"] += 8 * incomplete
	}
	if len(m.lru) >= 2 {
		if m.lruDiffersFromFifo() {
			w["create"] += 25
		} else {
			w["open"] += 20
			w["ban"] += 6
		}
	}
	if bannedN > 0 {
		w["unban"] += 8
	}
	if len(m.blobs) >= s.nkeys {
		w["create"] /= 3
		w["delete"] += 4
	}
	order := []string{"create", "markcomplete", "open", "openwrite", "stat", "delete", "ban", "unban",
		"setmd", "getmd", "delmd", "listmd", "writeatmd", "clean", "createbad"}
	out := make([]weighted, 0, len(order))
	for _, o := range order {
		out = append(out, weighted{o, w[o]})
	}
	return out
}

func (s *sim) genOpName(t *rapid.T) string {
	ws := s.opWeights()
	total := 0
	for _, w := range ws {
		total += w.w
	}
	// Draw a fraction rather than an index into the state-dependent total so that
	// the draw keeps its meaning when earlier operations shrink away.
	x := unif(t, "op", 8192) * total / 8192
	for _, w := range ws {
		if x < w.w {
			return w.op
		}
		x -= w.w
	}
	return "create"
}

// genScope: mostly the unscoped view; the scoped views are drawn so that both
// "in scope" and "hidden" outcomes are frequent.
func genScope(t *rapid.T) int {
	switch w := unif(t, "scope", 10); {
	case w < 5:
		return scopeAny
	case w < 8:
		return scopeComplete
	default:
		return scopeIncomplete
	}
}

func gen(t *rapid.T) Case {
	c := Case{
		Capacity: unifRange(t, "capacity", 16, 64),
		Shard:    unif(t, "shard", 3),
		Reboot:   rapid.Bool().Draw(t, "reboot"),
		ReadBack: unif(t, "readback", 4) == 0,
	}
	s := &sim{m: newModel(c.Capacity), nkeys: 4 + unif(t, "nkeys", len(keyNames)-3)}
	n := 1 + unif(t, "nops", maxOps)
	for i := 0; i < n; i++ {
		op := s.genOp(t)
		c.Ops = append(c.Ops, op)
		s.apply(op)
	}
	return c
}

func (s *sim) genOp(t *rapid.T) Op {
	m := s.m
	name := s.genOpName(t)
	op := Op{Op: name}
	switch name {
	case "create":
		op.Key = s.pick(t, func(k string, b *mblob, ok bool) bool { return !ok })
		op.Scope = genScope(t)
		op.Size = s.genSize(t)
		if op.Size <= 68 && unif(t, "exactlen", 4) == 0 {
			op.Data = rapid.SliceOfN(rapid.Byte(), int(op.Size), int(op.Size)).Draw(t, "data")
		} else {
			op.Data = genData(t, 12)
		}
	case "createbad":
		op.Op = "create"
		op.Key = badKeyIdx
		op.Size = s.genSize(t)
	case "markcomplete":
		op.Key = s.pick(t, func(k string, b *mblob, ok bool) bool { return ok && !b.complete })
		op.Scope = genScope(t)
	case "open":
		op.Key = s.pick(t, func(k string, b *mblob, ok bool) bool {
			i := m.lruIndex(k)
			return i >= 0 && i != len(m.lru)-1
		})
		op.Scope = genScope(t)
	case "openwrite":
		op.Key = s.pick(t, func(k string, b *mblob, ok bool) bool { return ok && !b.complete })
		op.Scope = genScope(t)
		op.Data = genData(t, 8)
		op.Off = int64(rapid.IntRange(0, 12).Draw(t, "off"))
	case "stat":
		op.Key = s.pick(t, func(k string, b *mblob, ok bool) bool { return ok })
		op.Scope = genScope(t)
	case "delete":
		op.Key = s.pick(t, func(k string, b *mblob, ok bool) bool { return ok })
		op.Scope = genScope(t)
	case "ban":
		op.Key = s.pick(t, func(k string, b *mblob, ok bool) bool { return ok && !b.banned })
		op.Scope = genScope(t)
	case "unban":
		op.Key = s.pick(t, func(k string, b *mblob, ok bool) bool { return ok && b.banned })
		op.Scope = genScope(t)
	case "setmd", "getmd", "delmd", "listmd", "writeatmd":
		op.MD = unif(t, "md", len(mdSuffixes))
		if name == "setmd" {
			op.Key = s.pick(t, func(k string, b *mblob, ok bool) bool { return ok })
		} else {
			op.Key = s.pick(t, func(k string, b *mblob, ok bool) bool { return ok && len(b.md) > 0 })
		}
		if b, ok := m.blobs[keyName(op.Key)]; ok && name != "setmd" && len(b.md) > 0 && unif(t, "mdguided", 10) < 8 {
			// aim at a metadata entry the blob is predicted to have
			var have []int
			for i, sfx := range mdSuffixes {
				if _, ok := b.md[sfx]; ok {
					have = append(have, i)
				}
			}
			op.MD = have[unif(t, "mdhave", len(have))]
		}
		op.Scope = genScope(t)
		if name == "setmd" || name == "writeatmd" {
			op.Data = genData(t, 8)
		}
		if name == "writeatmd" {
			op.Off = int64(rapid.IntRange(0, 10).Draw(t, "off"))
		}
	case "clean":
		switch w := unif(t, "targetclass", 20); {
		case w == 0:
			op.Target = rapid.SampledFrom([]int{-1, 100, 101, -50, 1000}).Draw(t, "badtarget")
		case w < 4:
			op.Target = 0
		case w < 14:
			// exactly the utilisation left after removing one or two of the live blobs:
			// the stopping rule is then exercised at equality
			left := m.size()
			keys := m.keys()
			for j := 0; j < 2 && len(keys) > 0; j++ {
				k := keys[unif(t, "cleanvictim", len(keys))]
				if r := m.blobs[k].reserved; r <= left && (j == 0 || unif(t, "second", 2) == 0) {
					left -= r
				}
			}
			op.Target = int((left*100 + m.cap - 1) / m.cap)
			if op.Target > 99 {
				op.Target = 99
			}
		case w < 17:
			// just below the predicted utilisation, so that few deletions suffice
			u := int(m.size() * 100 / m.cap)
			op.Target = u - unif(t, "below", 26)
			if op.Target < 0 {
				op.Target = 0
			}
			if op.Target > 99 {
				op.Target = 99
			}
		default:
			op.Target = unif(t, "target", 100)
		}
		op.Respect = rapid.Bool().Draw(t, "respect")
	}
	return op
}

// apply advances the generator's prediction with the canonical outcome of op.
func (s *sim) apply(op Op) {
	m := s.m
	name := keyName(op.Key)
	b, ok := m.blobs[name]
	visible := ok && inScope(b, op.Scope)
	switch op.Op {
	case "create":
		if ok {
			return
		}
		fits, victims := m.admission(op.Size)
		for _, v := range victims {
			m.remove(v)
		}
		if fits && op.Key != badKeyIdx {
			m.insert(name, op.Size, op.Data)
		}
	case "markcomplete":
		if ok {
			m.markComplete(name, nonMovableSuffixes())
		}
	case "open":
		if visible {
			m.touch(name)
		}
	case "delete":
		if visible {
			m.remove(name)
		}
	case "ban":
		if visible {
			m.ban(name)
		}
	case "unban":
		if visible {
			m.unban(name)
		}
	case "setmd":
		if visible {
			b.md[mdSuffixes[op.MD]] = op.Data
		}
	case "delmd":
		if visible {
			delete(b.md, mdSuffixes[op.MD])
		}
	case "clean":
		if op.Target >= 0 && op.Target < 100 {
			for _, k := range m.cleanCanonical(op.Target, op.Respect) {
				m.remove(k)
			}
		}
	}
}
