// C07 — the disk blob store behaves like its capacity-bounded LRU model.
package c07

import (
	"testing"

	"verif/internal/pbt"
)

func TestProp(t *testing.T) {
	pbt.Main(t, pbt.Spec{
		ID: "C07",
		Rule: "histories of 1-60 operations (Create with sizes from 0 to 2^64-1 incl. exact-fit and capacity+-k, write/read through handles, Open, Stat, MarkComplete, Delete, Ban/UnbanEviction, Set/Get/Delete/List/WriteAtMetadata with 2 movable + 1 non-movable type, Clean(target,respectBan), Create of an over-long name that fails in the file system) over 4-8 hex keys, capacity 16-64 bytes, shard length 0-2, RebootIncompleteBlobs on/off, every per-key call through a drawn view {unscoped, ScopeComplete, ScopeIncomplete}; the generator biases keys with a predicted model state. " +
			"Each call's result class (ok / not-exist / out-of-scope / exists / error) and value are compared with a reference model (reserved size = sum of Create sizes, LRU list of complete unbanned blobs: pushed on completion and un-ban, moved on Open, left on ban/delete/eviction; Create evicts the shortest LRU prefix that makes room, a refused Create may only have removed an LRU prefix; Clean judged by a validity predicate over the documented class order); after every step List and Has through all three views, Stat sizes, all metadata values, ListMetadata and the bytes of blobs outside the LRU list are compared; at the end a drain admits a probe filling the free space exactly (must evict nothing) and a probe one byte larger (must evict exactly the model's next victims) until nothing evictable is left (then it must be refused), which checks the exact reserved size and the whole LRU order. " +
			"Non-trivial = at least one eviction (by Create, Clean or the drain) happened while the LRU order differed from the completion order because of an Open, a ban or an un-ban; distinct by case hash.",
		Assumptions: []string{
			"reference model written from the property statement and the disk.Store documentation",
			"Clean is called through the unscoped store only; its deletions among incomplete and among banned blobs may come in any order (map iteration)",
			"a refused Create may have evicted any prefix of the LRU list (the statement does not say how many)",
			"repeating MarkComplete on a complete blob is a no-op (through the incomplete-only view out-of-scope is accepted too)",
			"writes through an opened handle are only issued for incomplete blobs",
			"store re-opening (NewStore on the same directory) is not part of this property (C06)",
		},
		Parts: []pbt.Part{pbt.NewPart("lru-model", 1, gen, run)},
	})
}
