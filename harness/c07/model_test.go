package c07

import "sort"

// Reference model of the capacity-bounded LRU blob store, written from the
// property statement and the documentation of disk.Store (scoped_store.go):
//
//   - a blob has a reserved size (given to Create), a completeness flag, an
//     eviction-ban flag, bytes and a metadata map;
//   - reserved space is the sum of the reserved sizes of the live blobs;
//   - the LRU list holds exactly the complete, not banned blobs; a blob enters
//     at the back on completion and on un-ban, moves to the back on Open, and
//     leaves on ban, delete and eviction;
//   - Create evicts from the front of the list until the new blob fits.
//
// The model is a plain state with primitive transitions; the interpreter
// (run_test.go) decides which transition the statement requires for an
// operation and compares the real store with the model after every step.
type mblob struct {
	reserved uint64
	complete bool
	banned   bool
	data     []byte
	md       map[string][]byte
	seq      int  // completion order (for the FIFO shadow, evidence only)
	touched  bool // moved by Open while not already most recent (evidence only)
	repushed bool // re-entered the list through UnbanEviction (evidence only)
}

type model struct {
	cap   uint64
	blobs map[string]*mblob
	lru   []string // front (index 0) is evicted next
	seq   int
}

func newModel(capacity uint64) *model {
	return &model{cap: capacity, blobs: map[string]*mblob{}}
}

func (m *model) size() uint64 {
	var s uint64
	for _, b := range m.blobs {
		s += b.reserved
	}
	return s
}

func (m *model) keys() []string {
	out := make([]string, 0, len(m.blobs))
	for k := range m.blobs {
		out = append(out, k)
	}
	sort.Strings(out)
	return out
}

func inScope(b *mblob, scope int) bool {
	switch scope {
	case scopeComplete:
		return b.complete
	case scopeIncomplete:
		return !b.complete
	}
	return true
}

func (m *model) keysInScope(scope int) []string {
	out := []string{}
	for k, b := range m.blobs {
		if inScope(b, scope) {
			out = append(out, k)
		}
	}
	sort.Strings(out)
	return out
}

// access is the result class every scoped per-key call must have before doing anything.
func (m *model) access(key string, scope int) string {
	b, ok := m.blobs[key]
	if !ok {
		return clsNotExist
	}
	if !inScope(b, scope) {
		return clsOutOfScope
	}
	return clsOK
}

func (m *model) lruIndex(key string) int {
	for i, k := range m.lru {
		if k == key {
			return i
		}
	}
	return -1
}

func (m *model) lruRemove(key string) {
	if i := m.lruIndex(key); i >= 0 {
		m.lru = append(m.lru[:i:i], m.lru[i+1:]...)
	}
}

// admission says whether a new blob of sz reserved bytes can be admitted and
// which blobs must be evicted for it: the shortest prefix of the LRU list whose
// removal makes size+sz <= capacity. If even evicting the whole list does not
// make room the creation must fail (victims = whole list = the most that may
// disappear). Arithmetic is overflow free for any sz.
func (m *model) admission(sz uint64) (fits bool, victims []string) {
	total := m.size()
	var evictable uint64
	for _, k := range m.lru {
		evictable += m.blobs[k].reserved
	}
	pinned := total - evictable
	if sz > m.cap || pinned > m.cap-sz {
		return false, append([]string(nil), m.lru...)
	}
	cur := total
	for i := 0; cur > m.cap-sz; i++ {
		victims = append(victims, m.lru[i])
		cur -= m.blobs[m.lru[i]].reserved
	}
	return true, victims
}

// fifoOrder is the order a queue sorted by completion time only (ignoring Open
// and un-ban) would have; used to label cases in which the LRU discipline is
// actually distinguishable from first-in-first-out.
func (m *model) fifoOrder() []string {
	out := append([]string(nil), m.lru...)
	sort.SliceStable(out, func(i, j int) bool { return m.blobs[out[i]].seq < m.blobs[out[j]].seq })
	return out
}

func (m *model) lruDiffersFromFifo() bool {
	f := m.fifoOrder()
	for i := range f {
		if f[i] != m.lru[i] {
			return true
		}
	}
	return false
}

func (m *model) remove(key string) {
	m.lruRemove(key)
	delete(m.blobs, key)
}

func (m *model) insert(key string, reserved uint64, data []byte) {
	m.blobs[key] = &mblob{reserved: reserved, data: append([]byte(nil), data...), md: map[string][]byte{}}
}

func (m *model) touch(key string) {
	if i := m.lruIndex(key); i >= 0 {
		if i != len(m.lru)-1 {
			m.blobs[key].touched = true
		}
		m.lruRemove(key)
		m.lru = append(m.lru, key)
	}
}

func (m *model) markComplete(key string, nonMovable []string) (dropped bool) {
	b := m.blobs[key]
	if b.complete {
		return false
	}
	b.complete = true
	m.seq++
	b.seq = m.seq
	if !b.banned {
		m.lru = append(m.lru, key)
	}
	for _, s := range nonMovable {
		if _, ok := b.md[s]; ok {
			delete(b.md, s)
			dropped = true
		}
	}
	return dropped
}

func (m *model) ban(key string) {
	b := m.blobs[key]
	if b.banned {
		return
	}
	b.banned = true
	m.lruRemove(key)
}

func (m *model) unban(key string) {
	b := m.blobs[key]
	if !b.banned {
		return
	}
	b.banned = false
	if b.complete {
		if len(m.lru) > 0 {
			b.repushed = true
		}
		m.lru = append(m.lru, key)
	}
}

func writeAt(old, p []byte, off int64) []byte {
	if len(p) == 0 {
		return old
	}
	end := int(off) + len(p)
	out := old
	if end > len(out) {
		out = append(append([]byte(nil), old...), make([]byte, end-len(old))...)
	} else {
		out = append([]byte(nil), old...)
	}
	copy(out[off:], p)
	return out
}

// reached: utilisation is at or below target percent.
func (m *model) reached(size uint64, target int) bool {
	return size*100 <= m.cap*uint64(target)
}

// cleanCategories splits the live blobs into the three documented Clean classes.
func (m *model) cleanCategories() (unbannedIncomplete, banned []string) {
	for _, k := range m.keys() {
		b := m.blobs[k]
		switch {
		case b.banned:
			banned = append(banned, k)
		case !b.complete:
			unbannedIncomplete = append(unbannedIncomplete, k)
		}
	}
	return
}

// cleanLRUPrefix is stage 1 of Clean: the shortest LRU prefix that reaches the
// target, or the whole list.
func (m *model) cleanLRUPrefix(target int) (prefix []string, sizeAfter uint64) {
	cur := m.size()
	for i := 0; i < len(m.lru) && !m.reached(cur, target); i++ {
		prefix = append(prefix, m.lru[i])
		cur -= m.blobs[m.lru[i]].reserved
	}
	return prefix, cur
}

// cleanCanonical is one valid resolution of Clean (used by the generator only).
func (m *model) cleanCanonical(target int, respect bool) []string {
	del, cur := m.cleanLRUPrefix(target)
	u, b := m.cleanCategories()
	for _, k := range u {
		if m.reached(cur, target) {
			return del
		}
		del = append(del, k)
		cur -= m.blobs[k].reserved
	}
	if respect {
		return del
	}
	for _, k := range b {
		if m.reached(cur, target) {
			return del
		}
		del = append(del, k)
		cur -= m.blobs[k].reserved
	}
	return del
}

// cleanValidate decides whether deleting exactly the set `deleted` is a valid
// outcome of Clean(target, respect) in the current state, per its documentation:
// complete unbanned blobs in LRU order first; then unbanned incomplete blobs in
// any order; then, only when bans are not respected, banned blobs in any order;
// stopping as soon as utilisation is at or below target. Returns "" when valid.
func (m *model) cleanValidate(target int, respect bool, deleted map[string]bool) (problem string, stages int) {
	rest := map[string]bool{}
	for k := range deleted {
		rest[k] = true
	}
	prefix, cur := m.cleanLRUPrefix(target)
	for _, k := range prefix {
		if !rest[k] {
			return "least-recently-used evictable blob " + short(k) + " was kept although the target was not reached", 0
		}
		delete(rest, k)
	}
	if len(prefix) > 0 {
		stages = 1
	}
	for _, k := range m.lru[len(prefix):] {
		if rest[k] {
			return "evictable blob " + short(k) + " deleted out of LRU order or after the target was reached", stages
		}
	}
	stage := func(name string, class []string, s int) (string, bool) {
		// returns problem, done
		inClass := map[string]bool{}
		for _, k := range class {
			inClass[k] = true
		}
		var chosen []string
		for k := range rest {
			if inClass[k] {
				chosen = append(chosen, k)
			}
		}
		if m.reached(cur, target) {
			if len(chosen) > 0 {
				return name + " blob deleted although the target was already reached", true
			}
			return "", true
		}
		after := cur
		for _, k := range chosen {
			after -= m.blobs[k].reserved
			delete(rest, k)
		}
		if len(chosen) > 0 {
			stages = s
		}
		if m.reached(after, target) {
			// some deletion order must reach the target only with its last element
			ok := false
			for _, k := range chosen {
				if !m.reached(after+m.blobs[k].reserved, target) {
					ok = true
				}
			}
			if !ok {
				return "more " + name + " blobs deleted than any order needs to reach the target", true
			}
			cur = after
			return "", true
		}
		if len(chosen) != len(class) {
			return name + " blob kept although the target was not reached", true
		}
		cur = after
		return "", false
	}
	u, b := m.cleanCategories()
	if p, done := stage("unbanned incomplete", u, 2); p != "" || done {
		if p == "" && len(rest) > 0 {
			p = "blob banned from eviction deleted although the earlier classes sufficed"
		}
		return p, stages
	}
	if respect {
		if len(rest) > 0 {
			return "blob banned from eviction deleted although respectEvictionBan=true", stages
		}
		return "", stages
	}
	if p, _ := stage("banned", b, 3); p != "" {
		return p, stages
	}
	if len(rest) > 0 {
		return "unexpected deletion", stages
	}
	return "", stages
}

func short(k string) string {
	if len(k) > 8 {
		return k[:8]
	}
	return k
}
