package c07

import (
	"bytes"
	"errors"
	"fmt"
	"io"
	"os"
	"path/filepath"
	"sort"
	"strings"
	"syscall"

	"github.com/uber-go/tally"
	storelib "github.com/uber/kraken/lib/store"
	"github.com/uber/kraken/lib/store/disk"
	"github.com/uber/kraken/lib/store/metadata"
	"github.com/uber/kraken/utils/log"
	"go.uber.org/zap"

	"verif/internal/pbt"
)

func init() {
	// The store logs an error for every refused admission; keep the run quiet.
	log.SetGlobalLogger(zap.NewNop().Sugar())
}

const (
	scopeAny = iota
	scopeComplete
	scopeIncomplete
)

const (
	clsOK         = "ok"
	clsNotExist   = "not-exist"
	clsOutOfScope = "out-of-scope"
	clsExist      = "exists"
	clsError      = "error"
)

// Keys are hex (directory sharding applies); several share one or both shard prefixes.
var keyNames = []string{
	"aa110001c07c07c0",
	"aa110002c07c07c0",
	"aa220003c07c07c0",
	"bb110004c07c07c0",
	"bb110005c07c07c0",
	"cc330006c07c07c0",
	"cc330007c07c07c0",
	"dd440008c07c07c0",
}

// badKey is a hex name longer than NAME_MAX: creating it always fails in the
// file system after the store has made room for it (a failed creation).
var badKey = strings.Repeat("ab", 150)

// probeKey is used only by the final drain.
const probeKey = "ee990000c07c07c0"

const badKeyIdx = 100
const probeKeyIdx = 101

type Op struct {
	Op      string `json:"op"`
	Key     int    `json:"key"`
	Scope   int    `json:"scope,omitempty"`
	Size    uint64 `json:"size,omitempty"`
	Data    []byte `json:"data,omitempty"`
	Off     int64  `json:"off,omitempty"`
	MD      int    `json:"md,omitempty"`
	Target  int    `json:"target,omitempty"`
	Respect bool   `json:"respect,omitempty"`
}

type Case struct {
	Capacity uint64 `json:"capacity"`
	Shard    int    `json:"shard"`
	Reboot   bool   `json:"reboot_incomplete"`
	ReadBack bool   `json:"final_read_back"` // read every live blob (an access) before the final drain
	Ops      []Op   `json:"ops"`
}

func keyName(i int) string {
	switch {
	case i == badKeyIdx:
		return badKey
	case i == probeKeyIdx:
		return probeKey
	case i >= 0 && i < len(keyNames):
		return keyNames[i]
	}
	if i < 0 {
		i = -i
	}
	return keyNames[i%len(keyNames)]
}

func classify(err error) string {
	switch {
	case err == nil:
		return clsOK
	case errors.Is(err, storelib.ErrOutOfScope):
		return clsOutOfScope
	case errors.Is(err, os.ErrNotExist):
		return clsNotExist
	case errors.Is(err, os.ErrExist):
		return clsExist
	}
	return clsError
}

type exec struct {
	m       *model
	views   [3]*disk.Store
	classes map[string]bool
	// evidence
	evictions          int
	evictionsReordered int // evictions performed while LRU order != completion order
	discard            bool
	inDrain            bool
}

func (e *exec) tag(s string) {
	if e.inDrain {
		s = "drain/" + s
	}
	e.classes[s] = true
}

var scopeNames = []string{"any", "complete", "incomplete"}

// disappeared returns the keys of the model that the store no longer lists.
func (e *exec) disappeared() map[string]bool {
	have := map[string]bool{}
	for _, k := range e.views[scopeAny].List() {
		have[k] = true
	}
	out := map[string]bool{}
	for k := range e.m.blobs {
		if !have[k] {
			out[k] = true
		}
	}
	return out
}

func setString(s map[string]bool) string {
	var l []string
	for k := range s {
		l = append(l, short(k))
	}
	sort.Strings(l)
	return fmt.Sprint(l)
}

func shorts(l []string) string {
	out := make([]string, len(l))
	for i, k := range l {
		out[i] = short(k)
	}
	return fmt.Sprint(out)
}

// noteEviction records evidence about an eviction of `victims` about to be applied to the model.
func (e *exec) noteEviction(victims []string, how string) {
	if len(victims) == 0 {
		return
	}
	m := e.m
	e.evictions++
	e.tag("evict:" + how)
	if m.lruDiffersFromFifo() {
		e.evictionsReordered++
		e.tag("evict-when-lru-order-differs-from-completion-order")
		f := m.fifoOrder()
		for i := range victims {
			if i < len(f) && f[i] != victims[i] {
				e.tag("evict-victim-differs-from-fifo-victim")
				break
			}
		}
	}
	for _, k := range m.lru {
		b := m.blobs[k]
		if b.repushed {
			e.tag("evict-after-unban-repush")
		}
		if b.touched {
			e.tag("evict-after-open-reorder")
		}
	}
	oldest := m.blobs[victims[len(victims)-1]].seq
	for _, b := range m.blobs {
		if b.complete && b.banned && b.seq < oldest {
			e.tag("evict-skips-older-banned-blob")
		}
	}
}

// isPrefix: set is exactly the first len(set) elements of list.
func isPrefix(list []string, set map[string]bool) bool {
	if len(set) > len(list) {
		return false
	}
	for i := 0; i < len(set); i++ {
		if !set[list[i]] {
			return false
		}
	}
	return true
}

func (e *exec) applyEvict(keys []string) {
	for _, k := range keys {
		e.m.remove(k)
	}
}

func setToPrefix(list []string, set map[string]bool) []string {
	return append([]string(nil), list[:len(set)]...)
}

// step executes one operation against the store and the model. It returns a
// violation message or "".
func (e *exec) step(op Op) string {
	m := e.m
	name := keyName(op.Key)
	sc := op.Scope
	if sc < 0 || sc > 2 {
		sc = 0
	}
	view := e.views[sc]
	mdi := op.MD
	if mdi < 0 || mdi >= len(mdSuffixes) {
		mdi = 0
	}
	acc := m.access(name, sc)
	if acc == clsOutOfScope && op.Op != "create" && op.Op != "markcomplete" {
		e.tag("op-on-hidden-blob:" + op.Op)
	}
	where := fmt.Sprintf("%s(%s) via scope %s", op.Op, short(name), scopeNames[sc])

	switch op.Op {
	case "create":
		_, exists := m.blobs[name]
		lruBefore := append([]string(nil), m.lru...)
		f, err := view.Create(name, op.Size)
		cls := classify(err)
		if err == nil && f == nil {
			return where + ": nil file without error"
		}
		closeF := func() {
			if f != nil && err == nil {
				f.Close()
			}
		}
		if exists {
			closeF()
			if cls != clsExist {
				return fmt.Sprintf("Create of an existing key returned %s, want %s (%v)", cls, clsExist, err)
			}
			e.tag("create-existing")
			return ""
		}
		fits, victims := m.admission(op.Size)
		if op.Key == badKeyIdx {
			// The file system refuses the name: creation must fail; whatever was evicted
			// to make room is an LRU prefix no longer than admission needed.
			closeF()
			if cls == clsOK {
				return "Create with an over-long name succeeded"
			}
			gone := e.disappeared()
			if !isPrefix(lruBefore, gone) || len(gone) > len(victims) {
				return fmt.Sprintf("failed Create removed %s; LRU order was %s, admission needed %s", setString(gone), shorts(lruBefore), shorts(victims))
			}
			ev := setToPrefix(lruBefore, gone)
			e.noteEviction(ev, "failed-create")
			e.applyEvict(ev)
			e.tag("create-fs-failure")
			return ""
		}
		if !fits {
			closeF()
			if cls == clsOK {
				return fmt.Sprintf("Create admitted beyond capacity (size %d, capacity %d, reserved by unevictable blobs %d)", op.Size, m.cap, m.size()-sumReserved(m, m.lru))
			}
			if cls != clsError {
				return fmt.Sprintf("Create without room returned %s (%v)", cls, err)
			}
			gone := e.disappeared()
			if !isPrefix(lruBefore, gone) {
				return fmt.Sprintf("refused Create removed %s which is not a prefix of the LRU order %s", setString(gone), shorts(lruBefore))
			}
			ev := setToPrefix(lruBefore, gone)
			if len(ev) > 0 {
				e.tag("create-refused-after-evicting")
			}
			e.noteEviction(ev, "refused-create")
			e.applyEvict(ev)
			e.tag("create-refused-no-space")
			if op.Size > m.cap {
				e.tag("create-larger-than-capacity")
			}
			if op.Size > 1<<62 {
				e.tag("create-huge-size")
			}
			return ""
		}
		if cls != clsOK {
			return fmt.Sprintf("Create refused (%s: %v) although the blob fits: size %d, capacity %d, reserved %d of which evictable %d", cls, err, op.Size, m.cap, m.size(), sumReserved(m, m.lru))
		}
		if len(op.Data) > 0 {
			if _, werr := f.Write(op.Data); werr != nil {
				f.Close()
				if errors.Is(werr, syscall.ENOSPC) {
					e.discard = true
					return ""
				}
				return fmt.Sprintf("write to created file failed: %v", werr)
			}
		}
		if cerr := f.Close(); cerr != nil {
			return fmt.Sprintf("close of created file failed: %v", cerr)
		}
		e.noteEviction(victims, "create")
		e.applyEvict(victims)
		m.insert(name, op.Size, op.Data)
		if uint64(len(op.Data)) != op.Size {
			e.tag("written-length-differs-from-reserved")
		}
		if op.Size == 0 {
			e.tag("create-zero-size")
		}
		if m.size() == m.cap {
			e.tag("store-exactly-full")
		}
		return ""

	case "open", "openwrite":
		f, err := view.Open(name)
		cls := classify(err)
		if cls != acc {
			if f != nil && err == nil {
				f.Close()
			}
			return fmt.Sprintf("%s returned %s, want %s (%v)", where, cls, acc, err)
		}
		if acc != clsOK {
			return ""
		}
		defer f.Close()
		b := m.blobs[name]
		if op.Op == "openwrite" && !b.complete && len(op.Data) > 0 && op.Off >= 0 {
			if _, werr := f.WriteAt(op.Data, op.Off); werr != nil {
				if errors.Is(werr, syscall.ENOSPC) {
					e.discard = true
					return ""
				}
				return fmt.Sprintf("%s: WriteAt failed: %v", where, werr)
			}
			b.data = writeAt(b.data, op.Data, op.Off)
			e.tag("write-through-opened-handle")
		}
		got, rerr := io.ReadAll(f)
		if rerr != nil {
			return fmt.Sprintf("%s: read failed: %v", where, rerr)
		}
		if !bytes.Equal(got, b.data) {
			return fmt.Sprintf("%s: bytes differ from what was written (got %d bytes %x, want %d bytes %x)", where, len(got), got, len(b.data), b.data)
		}
		if sz := f.Size(); sz != int64(len(b.data)) {
			return fmt.Sprintf("%s: File.Size %d, want %d", where, sz, len(b.data))
		}
		if i := m.lruIndex(name); i >= 0 && i != len(m.lru)-1 {
			e.tag("open-reorders-lru")
		}
		m.touch(name)
		return ""

	case "stat":
		fi, err := view.Stat(name)
		cls := classify(err)
		if cls != acc {
			return fmt.Sprintf("%s returned %s, want %s (%v)", where, cls, acc, err)
		}
		if acc == clsOK && fi.Size() != int64(len(m.blobs[name].data)) {
			return fmt.Sprintf("%s: size %d, want %d", where, fi.Size(), len(m.blobs[name].data))
		}
		return ""

	case "markcomplete":
		err := view.MarkComplete(name)
		cls := classify(err)
		b, ok := m.blobs[name]
		if !ok {
			if cls != clsNotExist {
				return fmt.Sprintf("%s returned %s, want %s (%v)", where, cls, clsNotExist, err)
			}
			return ""
		}
		if b.complete {
			// Repeating MarkComplete is a no-op. Through the incomplete-only view the
			// documentation also allows the out-of-scope answer.
			if cls == clsOK || (sc == scopeIncomplete && cls == clsOutOfScope) {
				e.tag("markcomplete-repeated")
				return ""
			}
			return fmt.Sprintf("%s on a complete blob returned %s (%v)", where, cls, err)
		}
		if cls != clsOK {
			return fmt.Sprintf("%s returned %s, want ok (%v)", where, cls, err)
		}
		hadMovable := false
		for i, s := range mdSuffixes {
			if _, ok := b.md[s]; ok && mdMovable[i] {
				hadMovable = true
			}
		}
		if m.markComplete(name, nonMovableSuffixes()) {
			e.tag("non-movable-metadata-dropped-on-completion")
		}
		if hadMovable {
			e.tag("movable-metadata-survives-completion")
		}
		if b.banned {
			e.tag("complete-while-banned")
		}
		return ""

	case "delete":
		err := view.Delete(name)
		cls := classify(err)
		if cls != acc {
			return fmt.Sprintf("%s returned %s, want %s (%v)", where, cls, acc, err)
		}
		if acc == clsOK {
			if m.blobs[name].complete {
				e.tag("delete-complete")
			} else {
				e.tag("delete-incomplete")
			}
			m.remove(name)
		}
		return ""

	case "ban":
		err := view.BanEviction(name)
		cls := classify(err)
		if cls != acc {
			return fmt.Sprintf("%s returned %s, want %s (%v)", where, cls, acc, err)
		}
		if acc == clsOK {
			b := m.blobs[name]
			if b.complete && !b.banned {
				e.tag("ban-complete")
			}
			m.ban(name)
		}
		return ""

	case "unban":
		err := view.UnbanEviction(name)
		cls := classify(err)
		if cls != acc {
			return fmt.Sprintf("%s returned %s, want %s (%v)", where, cls, acc, err)
		}
		if acc == clsOK {
			b := m.blobs[name]
			if b.complete && b.banned {
				e.tag("unban-complete")
			}
			if !b.banned {
				e.tag("unban-not-banned")
			}
			m.unban(name)
		}
		return ""

	case "setmd":
		err := view.SetMetadata(name, newMD(mdi, op.Data))
		cls := classify(err)
		if cls != acc {
			return fmt.Sprintf("%s returned %s, want %s (%v)", where, cls, acc, err)
		}
		if acc == clsOK {
			b := m.blobs[name]
			if _, ok := b.md[mdSuffixes[mdi]]; ok {
				e.tag("metadata-overwritten")
			}
			b.md[mdSuffixes[mdi]] = append([]byte{}, op.Data...)
		}
		return ""

	case "getmd":
		md := newMD(mdi, nil)
		ok, err := view.GetMetadata(name, md)
		cls := classify(err)
		if cls != acc {
			return fmt.Sprintf("%s returned %s, want %s (%v)", where, cls, acc, err)
		}
		if acc != clsOK {
			if ok {
				return where + ": reports metadata present together with an error"
			}
			return ""
		}
		want, has := m.blobs[name].md[mdSuffixes[mdi]]
		if ok != has {
			return fmt.Sprintf("%s %s: present=%v, want %v", where, mdSuffixes[mdi], ok, has)
		}
		if has && !bytes.Equal(md.content, want) {
			return fmt.Sprintf("%s %s: value %x, want last value set %x", where, mdSuffixes[mdi], md.content, want)
		}
		return ""

	case "delmd":
		err := view.DeleteMetadata(name, mdSuffixes[mdi])
		cls := classify(err)
		if cls != acc {
			return fmt.Sprintf("%s returned %s, want %s (%v)", where, cls, acc, err)
		}
		if acc == clsOK {
			if _, ok := m.blobs[name].md[mdSuffixes[mdi]]; ok {
				e.tag("metadata-deleted")
			}
			delete(m.blobs[name].md, mdSuffixes[mdi])
		}
		return ""

	case "listmd":
		l, err := view.ListMetadata(name)
		cls := classify(err)
		if cls != acc {
			return fmt.Sprintf("%s returned %s, want %s (%v)", where, cls, acc, err)
		}
		if acc == clsOK {
			if p := compareMDList(l, m.blobs[name]); p != "" {
				return where + ": " + p
			}
		}
		return ""

	case "writeatmd":
		if op.Off < 0 {
			return ""
		}
		err := view.WriteAtMetadata(name, newMD(mdi, nil), op.Data, op.Off)
		cls := classify(err)
		if acc != clsOK {
			if cls != acc {
				return fmt.Sprintf("%s returned %s, want %s (%v)", where, cls, acc, err)
			}
			return ""
		}
		b := m.blobs[name]
		old, has := b.md[mdSuffixes[mdi]]
		if !has {
			if cls == clsOK {
				return fmt.Sprintf("%s %s succeeded although the metadata does not exist", where, mdSuffixes[mdi])
			}
			if cls == clsOutOfScope {
				return fmt.Sprintf("%s %s returned out-of-scope for a blob in scope", where, mdSuffixes[mdi])
			}
			e.tag("writeat-missing-metadata")
			return ""
		}
		if cls != clsOK {
			return fmt.Sprintf("%s %s returned %s (%v)", where, mdSuffixes[mdi], cls, err)
		}
		b.md[mdSuffixes[mdi]] = writeAt(old, op.Data, op.Off)
		e.tag("metadata-patched")
		return ""

	case "clean":
		return e.clean(op)
	}
	return ""
}

func sumReserved(m *model, keys []string) uint64 {
	var s uint64
	for _, k := range keys {
		s += m.blobs[k].reserved
	}
	return s
}

func compareMDList(l []metadata.Metadata, b *mblob) string {
	var got []string
	for _, md := range l {
		if md == nil {
			return "nil metadata in list"
		}
		got = append(got, md.GetSuffix())
	}
	sort.Strings(got)
	var want []string
	for s := range b.md {
		want = append(want, s)
	}
	sort.Strings(want)
	if fmt.Sprint(got) != fmt.Sprint(want) {
		return fmt.Sprintf("ListMetadata %v, want %v", got, want)
	}
	return ""
}

func (e *exec) clean(op Op) string {
	m := e.m
	st := e.views[scopeAny]
	util, err := st.Clean(op.Target, op.Respect)
	if op.Target < 0 || op.Target >= 100 {
		if err == nil {
			return fmt.Sprintf("Clean(%d) accepted an invalid target", op.Target)
		}
		e.tag("clean-invalid-target")
		return "" // observe() checks that nothing changed
	}
	if err != nil {
		return fmt.Sprintf("Clean(%d,%v) failed: %v", op.Target, op.Respect, err)
	}
	gone := e.disappeared()
	problem, stages := m.cleanValidate(op.Target, op.Respect, gone)
	if problem != "" {
		u, b := m.cleanCategories()
		return fmt.Sprintf("Clean(%d, respectBan=%v) deleted %s: %s (reserved %d of %d; LRU %s; unbanned incomplete %s; banned %s)",
			op.Target, op.Respect, setString(gone), problem, m.size(), m.cap, shorts(m.lru), shorts(u), shorts(b))
	}
	prefix, _ := m.cleanLRUPrefix(op.Target)
	e.noteEviction(prefix, "clean")
	for k := range gone {
		m.remove(k)
	}
	switch stages {
	case 0:
		e.tag("clean-noop")
	case 1:
		e.tag("clean-lru-only")
	case 2:
		e.tag("clean-deletes-incomplete")
	case 3:
		e.tag("clean-deletes-banned")
	}
	if !m.reached(m.size(), op.Target) {
		e.tag("clean-target-unreachable")
	}
	if want := int(m.size() * 100 / m.cap); util != want {
		return fmt.Sprintf("Clean(%d,%v) reported utilisation %d%%, want %d%% (reserved %d of %d)", op.Target, op.Respect, util, want, m.size(), m.cap)
	}
	return ""
}

// observe compares everything that can be observed without changing the LRU
// order: listings and Has through every view, sizes, metadata.
func (e *exec) observe() string {
	m := e.m
	for sc := 0; sc < 3; sc++ {
		got := append([]string(nil), e.views[sc].List()...)
		sort.Strings(got)
		want := m.keysInScope(sc)
		if fmt.Sprint(got) != fmt.Sprint(want) {
			return fmt.Sprintf("List through scope %s is %s, model has %s (model LRU order %s)", scopeNames[sc], shorts(got), shorts(want), shorts(m.lru))
		}
	}
	all := append(append([]string(nil), keyNames...), probeKey, badKey)
	for _, k := range all {
		b, present := m.blobs[k]
		for sc := 0; sc < 3; sc++ {
			inStore, inSc := e.views[sc].Has(k)
			wantScope := present && inScope(b, sc)
			if inStore != present || inSc != wantScope {
				return fmt.Sprintf("Has(%s) through scope %s = (%v,%v), want (%v,%v)", short(k), scopeNames[sc], inStore, inSc, present, wantScope)
			}
		}
		if !present {
			continue
		}
		fi, err := e.views[scopeAny].Stat(k)
		if err != nil {
			return fmt.Sprintf("Stat(%s) failed for a live blob: %v", short(k), err)
		}
		if fi.Size() != int64(len(b.data)) {
			return fmt.Sprintf("Stat(%s) size %d, want %d", short(k), fi.Size(), len(b.data))
		}
		for i, s := range mdSuffixes {
			md := newMD(i, nil)
			ok, err := e.views[scopeAny].GetMetadata(k, md)
			if err != nil {
				return fmt.Sprintf("GetMetadata(%s,%s) failed: %v", short(k), s, err)
			}
			want, has := b.md[s]
			if ok != has {
				return fmt.Sprintf("GetMetadata(%s,%s) present=%v, want %v (complete=%v)", short(k), s, ok, has, b.complete)
			}
			if has && !bytes.Equal(md.content, want) {
				return fmt.Sprintf("GetMetadata(%s,%s) = %x, want last value set %x", short(k), s, md.content, want)
			}
		}
		l, err := e.views[scopeAny].ListMetadata(k)
		if err != nil {
			return fmt.Sprintf("ListMetadata(%s) failed: %v", short(k), err)
		}
		if p := compareMDList(l, b); p != "" {
			return fmt.Sprintf("%s for %s", p, short(k))
		}
		if !b.complete {
			// Opening an incomplete blob does not affect eviction order: check bytes now.
			if p := e.readBack(k); p != "" {
				return p
			}
		}
	}
	if m.size() > m.cap {
		return fmt.Sprintf("model reserved %d exceeds capacity %d", m.size(), m.cap)
	}
	return ""
}

func (e *exec) readBack(k string) string {
	f, err := e.views[scopeAny].Open(k)
	if err != nil {
		return fmt.Sprintf("Open(%s) failed for a live blob: %v", short(k), err)
	}
	got, rerr := io.ReadAll(f)
	f.Close()
	if rerr != nil {
		return fmt.Sprintf("read of %s failed: %v", short(k), rerr)
	}
	if want := e.m.blobs[k].data; !bytes.Equal(got, want) {
		return fmt.Sprintf("bytes of %s differ from what was written (got %x, want %x)", short(k), got, want)
	}
	e.m.touch(k)
	return ""
}

// drain checks the exact reserved size and the complete LRU order at the end of
// a history using only admission: a probe that exactly fills the free space
// must be admitted without eviction; a probe one byte larger must evict exactly
// the model's next victims; with nothing evictable left it must be refused.
func (e *exec) drain() string {
	m := e.m
	for round := 0; round < 64; round++ {
		free := m.cap - m.size()
		before := len(m.blobs)
		if p := e.step(Op{Op: "create", Key: probeKeyIdx, Size: free}); p != "" {
			return "drain (probe filling the free space exactly): " + p
		}
		if p := e.observe(); p != "" {
			return "drain (probe filling the free space exactly): " + p
		}
		if len(m.blobs) != before+1 {
			return "drain: probe filling the free space evicted something"
		}
		if p := e.step(Op{Op: "delete", Key: probeKeyIdx}); p != "" {
			return "drain: " + p
		}
		last := len(m.lru) == 0
		if p := e.step(Op{Op: "create", Key: probeKeyIdx, Size: free + 1}); p != "" {
			return "drain (probe one byte larger than the free space): " + p
		}
		if p := e.observe(); p != "" {
			return "drain (probe one byte larger than the free space): " + p
		}
		if last {
			return ""
		}
		if p := e.step(Op{Op: "delete", Key: probeKeyIdx}); p != "" {
			return "drain: " + p
		}
	}
	return "drain does not terminate"
}

func run(c Case) pbt.Verdict {
	if c.Capacity == 0 || c.Capacity > 1<<20 || c.Shard < 0 || c.Shard > 4 {
		return pbt.Verdict{Discard: true}
	}
	dir, err := os.MkdirTemp("", "c07-")
	if err != nil {
		return pbt.Verdict{Discard: true}
	}
	defer os.RemoveAll(dir)
	st, err := disk.NewStore(&disk.Config{
		CapacityBytes:         c.Capacity,
		RootDir:               filepath.Join(dir, "store"),
		RebootIncompleteBlobs: c.Reboot,
		ShardLength:           c.Shard,
	}, tally.NoopScope)
	if err != nil {
		return pbt.Fail("NewStore on an empty directory failed: %v", err)
	}
	e := &exec{m: newModel(c.Capacity), classes: map[string]bool{}}
	e.views = [3]*disk.Store{st, st.ScopeComplete(), st.ScopeIncomplete()}
	if len(c.Ops)%2 == 1 {
		// Scoped(scope) is documented as the general form of the two shorthands.
		e.views = [3]*disk.Store{st.Scoped(storelib.BlobScopeAny), st.Scoped(storelib.BlobScopeComplete), st.Scoped(storelib.BlobScopeIncomplete)}
	}
	for i, op := range c.Ops {
		if op.Key == probeKeyIdx {
			continue
		}
		if op.Key == badKeyIdx && op.Op != "create" {
			continue
		}
		if p := e.step(op); p != "" {
			return pbt.Fail("%s\n  at step %d %+v", p, i, op)
		}
		if e.discard {
			return pbt.Verdict{Discard: true}
		}
		if p := e.observe(); p != "" {
			return pbt.Fail("%s\n  after step %d %+v", p, i, op)
		}
	}
	// Final phase. Reading a blob is an access and would overwrite the very order the
	// drain is about to verify, so the case says whether to read everything back first
	// (bytes of all blobs checked, order reset in store and model alike) or to drain
	// the order the history left behind (only blobs outside the LRU list are read).
	for _, k := range e.m.keys() {
		if c.ReadBack || e.m.lruIndex(k) < 0 {
			if p := e.readBack(k); p != "" {
				return pbt.Fail("final read-back: %s", p)
			}
		}
	}
	if len(e.m.lru) > 1 {
		e.tag("drain-checks-order-of->=2-evictable")
		if e.m.lruDiffersFromFifo() {
			e.tag("drain-checks-reordered-lru")
		}
	}
	e.inDrain = true
	if p := e.drain(); p != "" {
		return pbt.Fail("%s", p)
	}
	if e.discard {
		return pbt.Verdict{Discard: true}
	}
	var cl []string
	for k := range e.classes {
		cl = append(cl, k)
	}
	sort.Strings(cl)
	v := pbt.OK(e.evictionsReordered > 0, cl...)
	return v
}
