package c07

import (
	"regexp"

	"github.com/uber/kraken/lib/store/metadata"
)

// Harness-registered metadata types with raw byte payloads: two movable, one
// non-movable. Suffixes are anchored and do not contain any suffix registered by
// kraken itself, so metadata.CreateFromSuffix resolves them unambiguously.
var mdSuffixes = []string{"_c07mva", "_c07mvb", "_c07fix"}
var mdMovable = []bool{true, true, false}

type rawMD struct {
	suffix  string
	movable bool
	content []byte
}

func (m *rawMD) GetSuffix() string          { return m.suffix }
func (m *rawMD) Movable() bool              { return m.movable }
func (m *rawMD) Serialize() ([]byte, error) { return m.content, nil }
func (m *rawMD) Deserialize(b []byte) error { m.content = append([]byte(nil), b...); return nil }

type rawFactory struct {
	movable bool
}

func (f rawFactory) Create(suffix string) metadata.Metadata {
	return &rawMD{suffix: suffix, movable: f.movable}
}

func newMD(i int, content []byte) *rawMD {
	return &rawMD{suffix: mdSuffixes[i], movable: mdMovable[i], content: content}
}

func nonMovableSuffixes() []string {
	var out []string
	for i, s := range mdSuffixes {
		if !mdMovable[i] {
			out = append(out, s)
		}
	}
	return out
}

func init() {
	for i, s := range mdSuffixes {
		metadata.Register(regexp.MustCompile("^"+s+"$"), rawFactory{movable: mdMovable[i]})
	}
}
