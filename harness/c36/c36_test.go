// C36 — backend name/path mapping round-trips for every name.
//
// For each storage path scheme (docker_tag, sharded_docker_blob, identity), any
// root directory a deployment may configure and any valid name of that scheme,
// NameFromBlobPath(BlobPath(name)) == name — also for the path forms the
// backends feed back from listings.
package c36

import (
	"path"
	"path/filepath"
	"strings"
	"testing"

	"github.com/uber/kraken/lib/backend/namepath"
	"pgregory.net/rapid"

	"verif/internal/pbt"
)

// Case is one (scheme, root, name) triple.
type Case struct {
	Scheme string `json:"scheme"`
	Root   string `json:"root"`
	Name   string `json:"name"`
}

// ---------------------------------------------------------------- generators

const lower = "abcdefghijklmnopqrstuvwxyz"
const digits = "0123456789"
const alnumLower = lower + digits
const rootAlphabet = lower + "ABCDEFGHIJKLMNOPQRSTUVWXYZ" + digits + "_.-"

func strOf(alphabet string, min, max int) *rapid.Generator[string] {
	return rapid.Custom(func(t *rapid.T) string {
		n := rapid.IntRange(min, max).Draw(t, "n")
		var sb strings.Builder
		for i := 0; i < n; i++ {
			sb.WriteByte(alphabet[rapid.IntRange(0, len(alphabet)-1).Draw(t, "c")])
		}
		return sb.String()
	})
}

// Words that also occur in the storage layouts, so that roots and names collide
// with the literal parts of the paths.
var layoutWords = []string{"docker", "registry", "v2", "repositories", "blobs", "sha256", "data",
	"tags", "current", "link", "manifests", "kraken", "default", "infra"}

// rootSegment draws one directory name over [A-Za-z0-9_.-] that is neither "." nor "..".
func rootSegment(t *rapid.T) string {
	switch rapid.IntRange(0, 9).Draw(t, "rootSegKind") {
	case 0, 1:
		return rapid.SampledFrom(layoutWords).Draw(t, "word")
	case 2:
		return rapid.SampledFrom([]string{"_manifests", "test-bucket", "a.b", "x_y", "..."}).Draw(t, "special")
	case 3:
		// segment with a dot inside (a regexp metacharacter within the stated alphabet)
		return strOf(alnumLower, 1, 3).Draw(t, "l") + "." + strOf(alnumLower, 1, 3).Draw(t, "r")
	default:
		s := strOf(rootAlphabet, 1, 6).Draw(t, "seg")
		if s == "." || s == ".." {
			s = "d" + s
		}
		return s
	}
}

// Root shapes.
const (
	shapeAbs      = "abs"       // /a/b
	shapeAbsSlash = "abs-slash" // /a/b/
	shapeFSRoot   = "fsroot"    // /
	shapeRel      = "rel"       // a/b      (testfs deployments: "blobs", "tags")
	shapeRelSlash = "rel-slash" // a/b/
	shapeEmpty    = "empty"     // ""       (lib/dockerregistry/transfer uses namepath.New("", DockerTag))
)

func genRoot(t *rapid.T) string {
	shape := rapid.SampledFrom([]string{
		shapeAbs, shapeAbs, shapeAbs, shapeAbsSlash, shapeAbsSlash, shapeAbsSlash,
		shapeFSRoot, shapeRel, shapeRelSlash, shapeEmpty,
	}).Draw(t, "rootShape")
	switch shape {
	case shapeFSRoot:
		return "/"
	case shapeEmpty:
		return ""
	}
	depth := rapid.IntRange(1, 4).Draw(t, "depth")
	segs := make([]string, depth)
	for i := range segs {
		segs[i] = rootSegment(t)
	}
	r := strings.Join(segs, "/")
	if shape == shapeAbs || shape == shapeAbsSlash {
		r = "/" + r
	}
	if shape == shapeAbsSlash || shape == shapeRelSlash {
		r += "/"
	}
	return r
}

// repoComponent follows the Docker grammar: alpha-numeric ((.|_|__|-+) alpha-numeric)*.
func repoComponent(t *rapid.T) string {
	if rapid.IntRange(0, 3).Draw(t, "dict") == 0 {
		return rapid.SampledFrom(layoutWords).Draw(t, "word")
	}
	s := strOf(alnumLower, 1, 5).Draw(t, "head")
	for i, n := 0, rapid.IntRange(0, 2).Draw(t, "groups"); i < n; i++ {
		s += rapid.SampledFrom([]string{".", "_", "__", "-", "--"}).Draw(t, "sep") + strOf(alnumLower, 1, 4).Draw(t, "tail")
	}
	return s
}

func genRepo(t *rapid.T) string {
	n := rapid.IntRange(1, 4).Draw(t, "components")
	cs := make([]string, n)
	for i := range cs {
		cs[i] = repoComponent(t)
	}
	return strings.Join(cs, "/")
}

// genTag follows the Docker grammar [A-Za-z0-9_][A-Za-z0-9_.-]{0,127} (bounded length).
func genTag(t *rapid.T) string {
	if rapid.IntRange(0, 3).Draw(t, "dict") == 0 {
		return rapid.SampledFrom([]string{"latest", "current", "link", "tags", "_manifests", "_uploads", "_layers",
			"v1.0.0", "current.link", "index", "1", "_"}).Draw(t, "word")
	}
	const first = lower + "ABCDEFGHIJKLMNOPQRSTUVWXYZ" + digits + "_"
	return strOf(first, 1, 1).Draw(t, "first") + strOf(first+".-", 0, 12).Draw(t, "rest")
}

func genHex64(t *rapid.T) string { return strOf("0123456789abcdef", 64, 64).Draw(t, "hex") }

// identitySegment: any file name over [A-Za-z0-9_.-] other than "." and "..".
func identitySegment(t *rapid.T) string {
	switch rapid.IntRange(0, 5).Draw(t, "idSegKind") {
	case 0:
		return rapid.SampledFrom(layoutWords).Draw(t, "word")
	case 1:
		return rapid.SampledFrom([]string{"...", "_x", "-", "a.b", "foo", "bar"}).Draw(t, "special")
	default:
		s := strOf(rootAlphabet, 1, 8).Draw(t, "seg")
		if s == "." || s == ".." {
			s = "n" + s
		}
		return s
	}
}

func genIdentityName(t *rapid.T) string {
	if rapid.IntRange(0, 4).Draw(t, "digestName") == 0 {
		return genHex64(t) // identity is what origins use for blobs addressed by digest
	}
	n := rapid.IntRange(1, 4).Draw(t, "segments")
	ss := make([]string, n)
	for i := range ss {
		ss[i] = identitySegment(t)
	}
	return strings.Join(ss, "/")
}

func gen(t *rapid.T) Case {
	c := Case{Scheme: rapid.SampledFrom([]string{namepath.DockerTag, namepath.ShardedDockerBlob, namepath.Identity, namepath.Identity}).Draw(t, "scheme")}
	c.Root = genRoot(t)
	switch c.Scheme {
	case namepath.DockerTag:
		c.Name = genRepo(t) + ":" + genTag(t)
	case namepath.ShardedDockerBlob:
		c.Name = genHex64(t)
	default:
		c.Name = genIdentityName(t)
	}
	return c
}

// -------------------------------------------------------------------- oracle

func rootShape(root string) string {
	switch {
	case root == "":
		return shapeEmpty
	case root == "/":
		return shapeFSRoot
	case strings.HasPrefix(root, "/") && strings.HasSuffix(root, "/"):
		return shapeAbsSlash
	case strings.HasPrefix(root, "/"):
		return shapeAbs
	case strings.HasSuffix(root, "/"):
		return shapeRelSlash
	default:
		return shapeRel
	}
}

// listingForms returns the textual forms in which the backends hand a stored
// blob path back to NameFromBlobPath when listing (read off the List methods of
// s3backend, gcsbackend, hdfsbackend and testfs).
func listingForms(root, bp string) map[string]string {
	forms := map[string]string{}
	if path.IsAbs(root) {
		// s3backend (requires an absolute root): lists keys without the leading
		// slash (Prefix = path.Join(BasePath, prefix)[1:]) and feeds back
		// path.Join("/", key). Keys are uploaded as the blob path itself.
		forms["s3-key-without-slash"] = path.Join("/", strings.TrimPrefix(bp, "/"))
		forms["s3-key-with-slash"] = path.Join("/", bp)
		// hdfsbackend (absolute root): walks directories from
		// path.Join(BasePath, prefix) and feeds back path.Join(dir, entry).
		dir, file := path.Split(bp)
		forms["hdfs-dir-join-entry"] = path.Join(dir, file)
		// gcsbackend (absolute root): object names are the blob paths.
		forms["gcs-object-name"] = bp
	} else {
		// testfs (deployed with relative roots "blobs"/"tags"): the server stores
		// <dir>/<blob path> and lists filepath.Rel(<dir>, file).
		const dir = "/srv/testfs"
		if rel, err := filepath.Rel(dir, filepath.Join(dir, bp)); err == nil {
			forms["testfs-relative"] = rel
		}
	}
	return forms
}

func run(c Case) pbt.Verdict {
	p, err := namepath.New(c.Root, c.Scheme)
	if err != nil {
		return pbt.Fail("New rejected scheme (scheme=%s root=%q): %v", c.Scheme, c.Root, err)
	}
	bp, err := p.BlobPath(c.Name)
	if err != nil {
		return pbt.Fail("BlobPath rejected a valid name (scheme=%s root=%q name=%q): %v", c.Scheme, c.Root, c.Name, err)
	}
	back, err := p.NameFromBlobPath(bp)
	if err != nil {
		return pbt.Fail("NameFromBlobPath rejected the path BlobPath produced (scheme=%s root=%q name=%q path=%q): %v", c.Scheme, c.Root, c.Name, bp, err)
	}
	if back != c.Name {
		return pbt.Fail("name does not round-trip through its blob path (scheme=%s root=%q name=%q path=%q got=%q)", c.Scheme, c.Root, c.Name, bp, back)
	}
	// Listings enumerate everything below path.Join(BasePath(), prefix); an
	// uploaded blob can only be reported if its path lies below the base path.
	base := path.Join(p.BasePath(), "")
	if base != "" {
		under := base
		if !strings.HasSuffix(under, "/") {
			under += "/"
		}
		if !strings.HasPrefix(bp, under) {
			return pbt.Fail("blob path is not below the base path listings start from (scheme=%s root=%q name=%q path=%q base=%q)", c.Scheme, c.Root, c.Name, bp, base)
		}
	}
	classes := []string{"scheme:" + c.Scheme, "root:" + rootShape(c.Root)}
	for form, fp := range listingForms(c.Root, bp) {
		got, err := p.NameFromBlobPath(fp)
		if err != nil {
			return pbt.Fail("listing form %s of the blob path is rejected (scheme=%s root=%q name=%q listed=%q): %v", form, c.Scheme, c.Root, c.Name, fp, err)
		}
		if got != c.Name {
			return pbt.Fail("listing form %s reports a different name than was uploaded (scheme=%s root=%q name=%q listed=%q got=%q)", form, c.Scheme, c.Root, c.Name, fp, got)
		}
		classes = append(classes, "form:"+form)
	}
	nested := strings.Contains(strings.SplitN(c.Name, ":", 2)[0], "/")
	if nested {
		classes = append(classes, "name:nested")
	}
	if strings.Contains(c.Root, ".") {
		classes = append(classes, "root:has-dot")
	}
	depth := len(strings.Split(strings.Trim(c.Root, "/"), "/"))
	if strings.Trim(c.Root, "/") == "" {
		depth = 0
	}
	if depth >= 2 {
		classes = append(classes, "root:depth>=2")
	}
	// The unit tests cover a depth-1 absolute root without trailing slash and a flat
	// or two-level name; everything else is beyond them.
	nontrivial := rootShape(c.Root) != shapeAbs || depth != 1 || nested
	return pbt.OK(nontrivial, classes...)
}

func TestProp(t *testing.T) {
	pbt.Main(t, pbt.Spec{
		ID: "C36",
		Rule: "scheme drawn from docker_tag/sharded_docker_blob/identity; root of depth 0-4 over [A-Za-z0-9_.-] segments (biased to layout words and dotted names), " +
			"absolute or relative, with or without trailing slash, plus \"/\" and \"\"; name valid for the scheme (Docker-grammar repo:tag with nested repos and layout-word components, " +
			"64-hex digest, identity name of 1-4 clean segments or a digest). Oracle: BlobPath accepts the name, NameFromBlobPath(BlobPath(name)) == name, the same for every path form " +
			"the S3/GCS/HDFS/testfs listings feed back, and the blob path lies below path.Join(BasePath()). Non-trivial = anything other than the unit-test shape " +
			"(depth-1 absolute root without trailing slash and a flat name); distinct by case hash",
		Assumptions: []string{
			"names are valid for their scheme: Docker-grammar repo:tag (no registry host:port prefix), lowercase 64-hex digests, identity names made of path-clean segments (no empty, '.' or '..' segments)",
			"roots are made of segments over [A-Za-z0-9_.-] other than '.'/'..', separated by single slashes; regexp metacharacters other than '.' are out of domain",
			"listing path forms are transcribed from the List methods of the s3, gcs, hdfs and testfs backends",
		},
		Parts: []pbt.Part{pbt.NewPart("roundtrip", 1, gen, run)},
	})
}
