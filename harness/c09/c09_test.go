//go:build verif

// C09 — the tiered store never loses or corrupts a completed blob or metadata update.
//
// The background flush workers are stopped; the harness runs each flush itself on
// a goroutine that parks at the scheduling points of the verif hook (before the
// memory open, before disk create, before the copy, before/after disk completion,
// before every metadata flush, before the dirty bookkeeping is removed, before the
// deferred eviction unban). The generated case interleaves client operations with
// "advance the flusher to its next scheduling point" steps.
package c09

import (
	"bytes"
	"errors"
	"fmt"
	"io"
	"os"
	"regexp"
	"runtime"
	"sort"
	"strconv"
	"strings"
	"sync"
	"testing"
	"time"

	"github.com/uber-go/tally"
	"github.com/uber/kraken/lib/store/disk"
	"github.com/uber/kraken/lib/store/memory"
	"github.com/uber/kraken/lib/store/metadata"
	"github.com/uber/kraken/lib/store/tiered"
	"github.com/uber/kraken/utils/log"
	"go.uber.org/zap"
	"pgregory.net/rapid"

	"verif/internal/pbt"
)

type md struct{ V []byte }

func (m *md) GetSuffix() string          { return "_vmv" }
func (m *md) Movable() bool              { return true }
func (m *md) Serialize() ([]byte, error) { return append([]byte{}, m.V...), nil }
func (m *md) Deserialize(b []byte) error { m.V = append([]byte{}, b...); return nil }

type mdFactory struct{}

func (mdFactory) Create(string) metadata.Metadata { return &md{} }

func init() {
	metadata.Register(regexp.MustCompile(`^_vmv$`), mdFactory{})
	log.SetGlobalLogger(zap.NewNop().Sugar())
}

// Step kinds: create, complete, setmd, delmd, delete, read, hold (open a handle and read the
// first half), resume (read the rest through the held handle), pressure, flush.
type Step struct {
	Kind string `json:"kind"`
	Key  int    `json:"key,omitempty"`
	Size int    `json:"size,omitempty"`
	Val  int    `json:"val,omitempty"`
	W    int    `json:"w,omitempty"` // flush: which of the two flush goroutines moves
	// setmd / delmd / delete: the client operation is parked at its client-side scheduling point
	// (between the update in memory and the flusher being told; inside Delete between the abort
	// of the flush and the removal of the disk entry) while flush goroutine W moves During steps.
	During int `json:"during,omitempty"`
}

type Case struct {
	MemBlobs int    `json:"mem_blobs"` // memory capacity in units of 16 bytes
	Steps    []Step `json:"steps"`
}

var keys = []string{"aa11", "bb22", "cc33"}

func gen(t *rapid.T) Case {
	c := Case{MemBlobs: rapid.IntRange(2, 3).Draw(t, "mem")}
	kinds := []string{"create", "create", "complete", "complete", "setmd", "setmd", "setmd", "delmd", "delete", "read", "hold", "hold", "resume", "resume", "pressure", "pressure",
		"flush", "flush", "flush", "flush", "flush", "flush", "flush", "flush", "flushall"}
	n := rapid.IntRange(4, 48).Draw(t, "n")
	for i := 0; i < n; i++ {
		s := Step{Kind: rapid.SampledFrom(kinds).Draw(t, "kind"), Key: rapid.IntRange(0, len(keys)-1).Draw(t, "key")}
		switch s.Kind {
		case "create":
			s.Size = rapid.IntRange(0, 16).Draw(t, "size")
			s.Val = rapid.IntRange(1, 250).Draw(t, "val")
		case "delete":
			if rapid.IntRange(0, 2).Draw(t, "split") == 0 {
				s.During = rapid.IntRange(1, 4).Draw(t, "during")
				if rapid.IntRange(0, 3).Draw(t, "w") == 0 {
					s.W = 1
				}
			}
		case "setmd", "delmd":
			if s.Kind == "setmd" {
				s.Val = rapid.IntRange(1, 250).Draw(t, "val")
			}
			if rapid.IntRange(0, 2).Draw(t, "split") == 0 {
				s.During = rapid.IntRange(1, 4).Draw(t, "during")
				if rapid.IntRange(0, 3).Draw(t, "w") == 0 {
					s.W = 1
				}
			}
		case "flush":
			// mostly the first flush goroutine, so that single flushes still get far
			if rapid.IntRange(0, 3).Draw(t, "w") == 0 {
				s.W = 1
			}
		}
		c.Steps = append(c.Steps, s)
	}
	return c
}

type pause struct{ point, key string }

// worker is one harness-run flush goroutine.
type worker struct {
	arrived chan pause
	release chan struct{}
	done    chan struct{}
	running bool
	cur     pause
}

// flusherCtl runs up to two flushes at a time, each on its own goroutine that parks at
// the hook's scheduling points; the case decides which of them moves next.
type flusherCtl struct {
	st  *tiered.Store
	mu  sync.Mutex
	byG map[uint64]*worker
	w   [2]*worker

	// a client metadata operation that is to be parked at store.beforeMarkMetadataDirty
	clientG   uint64
	clientArr chan struct{}
	clientRel chan struct{}
}

// splitClientOp runs op (a SetMetadata / DeleteMetadata) on its own goroutine, parks it
// between its update in memory and the flusher notification, lets flush goroutine w move
// up to n steps, and lets op finish. parked reports whether op reached the point (it does
// not when the blob is not in the memory tier).
func (f *flusherCtl) splitClientOp(op func() error, w, n int, note func(string)) (err error, parked bool, stuck bool) {
	done := make(chan error, 1)
	ready := make(chan struct{})
	f.mu.Lock()
	f.clientArr, f.clientRel = make(chan struct{}), make(chan struct{})
	f.mu.Unlock()
	go func() {
		f.mu.Lock()
		f.clientG = gid()
		f.mu.Unlock()
		close(ready)
		e := op()
		f.mu.Lock()
		f.clientG = 0
		f.mu.Unlock()
		done <- e
	}()
	<-ready
	select {
	case e := <-done:
		return e, false, false
	case <-f.clientArr:
	case <-time.After(20 * time.Second):
		return nil, false, true
	}
	for i := 0; i < n; i++ {
		r := f.step(w % 2)
		note(r)
		if r == "STUCK" {
			close(f.clientRel)
			<-done
			return nil, true, true
		}
		if r == "idle" {
			break
		}
	}
	close(f.clientRel)
	select {
	case e := <-done:
		return e, true, false
	case <-time.After(20 * time.Second):
		return nil, true, true
	}
}

func newFlusherCtl(st *tiered.Store) *flusherCtl {
	f := &flusherCtl{st: st, byG: map[uint64]*worker{}}
	for i := range f.w {
		f.w[i] = &worker{arrived: make(chan pause), release: make(chan struct{})}
	}
	return f
}

// gid returns the id of the calling goroutine (to tell the two flush goroutines apart
// inside the process-wide yield hook).
func gid() uint64 {
	var buf [64]byte
	n := runtime.Stack(buf[:], false)
	f := bytes.Fields(buf[:n])
	if len(f) < 2 {
		return 0
	}
	id, _ := strconv.ParseUint(string(f[1]), 10, 64)
	return id
}

func (f *flusherCtl) yield(point, key string) {
	g := gid()
	f.mu.Lock()
	w := f.byG[g]
	client := f.clientG != 0 && f.clientG == g
	arr, rel := f.clientArr, f.clientRel
	f.mu.Unlock()
	if client && strings.HasPrefix(point, "store.") {
		arr <- struct{}{}
		<-rel
		return
	}
	if w == nil {
		return
	}
	w.arrived <- pause{point, key}
	<-w.release
}

// step advances flush goroutine i by one scheduling point (starting a flush of the next
// queued entry if it is not running). It returns a description.
func (f *flusherCtl) step(i int) string {
	w := f.w[i]
	if !w.running {
		if f.st.VerifQueueLen() == 0 {
			return "idle"
		}
		w.running = true
		w.done = make(chan struct{})
		ready := make(chan struct{})
		go func() {
			g := gid()
			f.mu.Lock()
			f.byG[g] = w
			f.mu.Unlock()
			close(ready)
			f.st.VerifFlushNext()
			f.mu.Lock()
			delete(f.byG, g)
			f.mu.Unlock()
			close(w.done)
		}()
		<-ready
	} else {
		w.release <- struct{}{}
	}
	select {
	case p := <-w.arrived:
		w.cur = p
		return p.point + "(" + p.key + ")"
	case <-w.done:
		w.running = false
		w.cur = pause{}
		return "flush-finished"
	case <-time.After(20 * time.Second):
		return "STUCK"
	}
}

func (f *flusherCtl) anyRunning() bool { return f.w[0].running || f.w[1].running }

// inFlushOf reports whether some flush goroutine is parked inside a flush of key.
func (f *flusherCtl) inFlushOf(key string) bool {
	for _, w := range f.w {
		if w.running && w.cur.key == key {
			return true
		}
	}
	return false
}

// quiesce runs both flush goroutines (alternating) until nothing is running or queued.
func (f *flusherCtl) quiesce() bool {
	idle := 0
	for i := 0; i < 4000; i++ {
		r := f.step(i % 2)
		if r == "STUCK" {
			return false
		}
		if r == "idle" {
			idle++
			if idle >= 2 && !f.anyRunning() {
				return true
			}
		} else {
			idle = 0
		}
	}
	return false
}

type mblob struct {
	complete bool
	data     []byte
	md       []byte // nil = absent
}

func run(c Case) pbt.Verdict {
	dir, err := os.MkdirTemp("", "c09-")
	if err != nil {
		return pbt.Verdict{Discard: true}
	}
	defer os.RemoveAll(dir)
	memCap := uint64(c.MemBlobs * 16)
	st, _, err := tiered.NewStore(&tiered.Config{
		DiskConfig:      &disk.Config{CapacityBytes: 1 << 20, RootDir: dir},
		MemConfig:       &memory.Config{CapacityBytes: memCap, GOMEMLIMITBytes: 32 << 30},
		NumFlushWorkers: 1,
	}, tally.NoopScope)
	if err != nil {
		return pbt.Verdict{Discard: true, Classes: []string{"setup-failed"}}
	}
	st.VerifStopWorkers()
	fc := newFlusherCtl(st)
	tiered.VerifSetYield(fc.yield)
	defer func() {
		// let a parked flusher finish so that no goroutine outlives the case
		for i := 0; fc.anyRunning() && i < 4000; i++ {
			if fc.step(i%2) == "STUCK" {
				break
			}
		}
		tiered.VerifSetYield(nil)
	}()

	model := map[int]*mblob{}
	gen := map[int]int{} // generation of each key (bumped by create and delete)
	type heldHandle struct {
		f    *tiered.File
		gen  int
		read int
	}
	held := map[int]*heldHandle{}
	defer func() {
		for _, hh := range held {
			hh.f.Close()
		}
	}()
	var hist []string
	note := func(f string, a ...interface{}) { hist = append(hist, fmt.Sprintf(f, a...)) }
	history := func() string {
		s := ""
		for _, l := range hist {
			s += "\n    " + l
		}
		return s
	}
	classes := map[string]bool{}
	filler := 0

	readAll := func(key string) ([]byte, error) {
		f, err := st.Open(key)
		if err != nil {
			return nil, err
		}
		defer f.Close()
		return io.ReadAll(f)
	}
	check := func(where string) string {
		list := st.List()
		sort.Strings(list)
		for k, name := range keys {
			b := model[k]
			inStore, _ := st.Has(name)
			listed := false
			for _, l := range list {
				if l == name {
					listed = true
				}
			}
			if b == nil {
				if inStore {
					return fmt.Sprintf("%s: key %s was deleted (or never created) but Has reports it", where, name)
				}
				if listed {
					return fmt.Sprintf("%s: key %s was deleted (or never created) but List reports it", where, name)
				}
				continue
			}
			if !b.complete {
				// An upload in progress (possibly of a re-created key) stays, and stays an upload.
				if !inStore {
					return fmt.Sprintf("%s: blob %s was created and not deleted, but it is gone before it could be marked complete (Has=false)", where, name)
				}
				if _, asComplete := st.ScopeComplete().Has(name); asComplete {
					return fmt.Sprintf("%s: blob %s was never marked complete but the store shows it as a completed blob", where, name)
				}
				continue
			}
			if !inStore {
				return fmt.Sprintf("%s: completed blob %s is gone (Has=false)", where, name)
			}
			got, err := readAll(name)
			if err != nil {
				return fmt.Sprintf("%s: completed blob %s cannot be opened/read: %v", where, name, err)
			}
			if !bytes.Equal(got, b.data) {
				return fmt.Sprintf("%s: completed blob %s reads %x, want %x", where, name, got, b.data)
			}
			var m md
			ok, err := st.GetMetadata(name, &m)
			if err != nil {
				return fmt.Sprintf("%s: GetMetadata of completed blob %s fails: %v", where, name, err)
			}
			if b.md == nil && ok {
				return fmt.Sprintf("%s: metadata of completed blob %s was deleted (or never set) but reads %x", where, name, m.V)
			}
			if b.md != nil && (!ok || !bytes.Equal(m.V, b.md)) {
				return fmt.Sprintf("%s: metadata of completed blob %s: last successful update was %x, store reports present=%v value=%x", where, name, b.md, ok, m.V)
			}
		}
		return ""
	}

	for si, s := range c.Steps {
		name := keys[s.Key]
		b := model[s.Key]
		duringFlushOfSameKey := fc.inFlushOf(name)
		switch s.Kind {
		case "flushall":
			if !fc.quiesce() {
				return pbt.Verdict{Discard: true, Classes: []string{"flusher-stuck"}}
			}
			note("%d: flusher run to quiescence", si)
			continue
		case "flush":
			r := fc.step(s.W % 2)
			note("%d: flusher %d -> %s", si, s.W%2, r)
			if fc.w[0].running && fc.w[1].running {
				classes["two-flushes-in-flight"] = true
				if fc.w[0].cur.key == fc.w[1].cur.key {
					classes["two-flushes-of-one-key-in-flight"] = true
				}
			}
			if r == "STUCK" {
				return pbt.Verdict{Discard: true, Classes: []string{"flusher-stuck"}}
			}
			continue
		case "create":
			data := bytes.Repeat([]byte{byte(s.Val)}, s.Size)
			f, err := st.Create(name, uint64(s.Size))
			if b != nil {
				if err == nil {
					f.Close()
					return pbt.Fail("Create of existing key %s succeeded at step %d\n  history:%s", name, si, history())
				}
				note("%d: create %s -> exists", si, name)
				continue
			}
			if err != nil {
				return pbt.Fail("a deleted (or never created) key cannot be created: Create(%s) at step %d: %v\n  history:%s", name, si, err, history())
			}
			if _, err := f.Write(data); err != nil {
				f.Close()
				return pbt.Fail("write to new blob %s fails at step %d: %v\n  history:%s", name, si, err, history())
			}
			f.Close()
			model[s.Key] = &mblob{data: data}
			gen[s.Key]++
			note("%d: create %s (%d bytes of %02x)", si, name, s.Size, s.Val)
		case "complete":
			err := st.MarkComplete(name)
			if b == nil {
				note("%d: complete %s (absent) -> %v", si, name, err)
				continue
			}
			if err != nil {
				return pbt.Fail("MarkComplete(%s) fails at step %d: %v\n  history:%s", name, si, err, history())
			}
			b.complete = true
			note("%d: complete %s", si, name)
		case "setmd":
			var err error
			if s.During > 0 {
				var parked, stuck bool
				err, parked, stuck = fc.splitClientOp(func() error { return st.SetMetadata(name, &md{V: []byte{byte(s.Val)}}) }, s.W, s.During,
					func(r string) {
						note("%d:   (setmd %s parked before telling the flusher) flusher %d -> %s", si, name, s.W%2, r)
					})
				if stuck {
					return pbt.Verdict{Discard: true, Classes: []string{"flusher-stuck"}}
				}
				if parked {
					classes["md-update-parked-before-flusher-notification"] = true
				}
			} else {
				err = st.SetMetadata(name, &md{V: []byte{byte(s.Val)}})
			}
			if b == nil {
				note("%d: setmd %s (absent) -> %v", si, name, err)
				continue
			}
			if err != nil {
				return pbt.Fail("SetMetadata(%s) fails at step %d: %v\n  history:%s", name, si, err, history())
			}
			b.md = []byte{byte(s.Val)}
			note("%d: setmd %s = %02x", si, name, s.Val)
			if b.complete && duringFlushOfSameKey {
				classes["md-update-during-flush-of-same-key"] = true
			}
		case "delmd":
			var err error
			if s.During > 0 {
				var parked, stuck bool
				err, parked, stuck = fc.splitClientOp(func() error { return st.DeleteMetadata(name, "_vmv") }, s.W, s.During,
					func(r string) {
						note("%d:   (delmd %s parked before telling the flusher) flusher %d -> %s", si, name, s.W%2, r)
					})
				if stuck {
					return pbt.Verdict{Discard: true, Classes: []string{"flusher-stuck"}}
				}
				if parked {
					classes["md-update-parked-before-flusher-notification"] = true
				}
			} else {
				err = st.DeleteMetadata(name, "_vmv")
			}
			if b == nil {
				continue
			}
			if err != nil {
				return pbt.Fail("DeleteMetadata(%s) fails at step %d: %v\n  history:%s", name, si, err, history())
			}
			b.md = nil
			note("%d: delmd %s", si, name)
		case "delete":
			var err error
			if s.During > 0 {
				var parked, stuck bool
				err, parked, stuck = fc.splitClientOp(func() error { return st.Delete(name) }, s.W, s.During,
					func(r string) { note("%d:   (delete %s parked inside Delete) flusher %d -> %s", si, name, s.W%2, r) })
				if stuck {
					return pbt.Verdict{Discard: true, Classes: []string{"flusher-stuck"}}
				}
				if parked {
					classes["delete-parked-between-abort-and-disk-removal"] = true
				}
			} else {
				err = st.Delete(name)
			}
			if b == nil {
				if err == nil {
					return pbt.Fail("Delete of absent key %s succeeded at step %d\n  history:%s", name, si, history())
				}
				continue
			}
			if err != nil {
				return pbt.Fail("Delete(%s) fails at step %d: %v\n  history:%s", name, si, err, history())
			}
			delete(model, s.Key)
			gen[s.Key]++
			note("%d: delete %s", si, name)
			if duringFlushOfSameKey {
				classes["delete-during-flush-of-same-key"] = true
			}
		case "read":
			// covered by the check below
		case "hold":
			if b == nil || !b.complete || held[s.Key] != nil {
				continue
			}
			f, err := st.Open(name)
			if err != nil {
				return pbt.Fail("completed blob %s cannot be opened at step %d: %v\n  history:%s", name, si, err, history())
			}
			half := len(b.data) / 2
			buf := make([]byte, half)
			if _, err := io.ReadFull(f, buf); err != nil {
				f.Close()
				return pbt.Fail("reading the first %d bytes of completed blob %s fails at step %d: %v\n  history:%s", half, name, si, err, history())
			}
			if !bytes.Equal(buf, b.data[:half]) {
				f.Close()
				return pbt.Fail("first half of completed blob %s reads %x, want %x (step %d)\n  history:%s", name, buf, b.data[:half], si, history())
			}
			held[s.Key] = &heldHandle{f: f, gen: gen[s.Key], read: half}
			note("%d: hold %s (read %d of %d bytes)", si, name, half, len(b.data))
		case "resume":
			hh := held[s.Key]
			if hh == nil {
				continue
			}
			delete(held, s.Key)
			if b == nil || hh.gen != gen[s.Key] {
				hh.f.Close() // the blob was deleted (and maybe re-created) since: the handle is not judged
				continue
			}
			rest, err := io.ReadAll(hh.f)
			hh.f.Close()
			if err != nil {
				return pbt.Fail("a handle opened on completed blob %s cannot be read on after %d bytes (step %d): %v\n  history:%s", name, hh.read, si, err, history())
			}
			if !bytes.Equal(rest, b.data[hh.read:]) {
				return pbt.Fail("a handle opened on completed blob %s continues after %d bytes with %x, want %x (step %d)\n  history:%s", name, hh.read, rest, b.data[hh.read:], si, history())
			}
			classes["held-handle-read-on"] = true
			note("%d: resume %s (rest %d bytes ok)", si, name, len(rest))
		case "pressure":
			filler++
			fn := fmt.Sprintf("ff%02d", filler)
			f, err := st.Create(fn, memCap)
			if err == nil {
				f.Close()
				if derr := st.Delete(fn); derr != nil && !errors.Is(derr, os.ErrNotExist) {
					return pbt.Verdict{Discard: true, Classes: []string{"filler-delete-failed"}}
				}
			}
			note("%d: memory pressure (filler of %d bytes: %v)", si, memCap, err)
			classes["memory-pressure"] = true
		}
		if duringFlushOfSameKey {
			classes["client-op-during-flush-of-same-key"] = true
		}
		if msg := check(fmt.Sprintf("after step %d (%s %s)", si, s.Kind, name)); msg != "" {
			return pbt.Fail("%s\n  history:%s", msg, history())
		}
	}
	// Quiescence: finish all flushes, flood the memory tier, check again (now served from disk).
	if !fc.quiesce() {
		return pbt.Verdict{Discard: true, Classes: []string{"flusher-stuck"}}
	}
	note("end: flusher quiescent")
	if msg := check("after the flusher went quiescent"); msg != "" {
		return pbt.Fail("%s\n  history:%s", msg, history())
	}
	for i := 0; i < 2; i++ {
		filler++
		fn := fmt.Sprintf("ff%02d", filler)
		if f, err := st.Create(fn, memCap); err == nil {
			f.Close()
			st.Delete(fn)
		}
	}
	note("end: memory flooded")
	if msg := check("after the flusher went quiescent and the memory tier was flooded"); msg != "" {
		return pbt.Fail("%s\n  history:%s", msg, history())
	}
	// Every key can be created again after deletion.
	for k, name := range keys {
		if model[k] != nil {
			if err := st.Delete(name); err != nil {
				return pbt.Fail("final Delete(%s) fails: %v\n  history:%s", name, err, history())
			}
		}
		f, err := st.Create(name, 1)
		if err != nil {
			return pbt.Fail("key %s cannot be created again at the end: %v\n  history:%s", name, err, history())
		}
		f.Close()
	}
	v := pbt.Verdict{NonTrivial: classes["client-op-during-flush-of-same-key"]}
	for k := range classes {
		v.Classes = append(v.Classes, k)
	}
	sort.Strings(v.Classes)
	return v
}

func TestProp(t *testing.T) {
	pbt.Main(t, pbt.Spec{
		ID:   "C09",
		Rule: "rapid generates histories over 3 keys on a tiered store (disk capacity 1 MiB so disk never evicts; memory capacity 2-3 blobs): client ops {create+write, complete, set/delete metadata, delete, read, hold (open a handle and read half) / resume (read the rest through the held handle, possibly after the blob left the memory tier), memory pressure (a filler as large as the memory tier is created and deleted)} interleaved with 'advance flush goroutine 0|1 to its next scheduling point' steps (and an occasional 'run the flusher to quiescence'); background workers are stopped and the harness runs up to two flushes at a time, each on a goroutine that parks at 13 lock-free scheduling points (verif hook), so a stale flush of a deleted key can overlap the flush of its re-creation; one metadata update or Delete in three is itself parked at a client-side scheduling point (between the update in memory and the flusher being told; inside Delete between aborting the flush and removing the disk entry) while a flush goroutine moves 1-4 steps. Model: key -> absent | incomplete | complete{bytes, metadata}; after every client op and again after quiescence + memory flood: completed blobs are present, read back exactly, and metadata equals the last successful update; blobs created and not yet completed are present and not shown as completed; absent keys are invisible and can be created. non-trivial = a client op on key k executes while the flusher is parked inside a flush of k; distinct by case hash",
		Assumptions: []string{
			"interleavings are owned at the granularity of the hook's scheduling points (all outside critical sections); at most two flushes in flight (kraken's default is 10 workers)",
			"disk never evicts in this configuration, so any disappearance of a completed blob is a loss",
		},
		Parts: []pbt.Part{pbt.NewPart("schedule", 1, gen, run)},
	})
}
