// C25 — cluster clients contact a bounded sample of current hosts.
package c25

import (
	"errors"
	"fmt"
	"io"
	"net"
	"net/http"
	"sort"
	"strconv"
	"strings"
	"sync"
	"testing"

	"github.com/uber/kraken/build-index/tagclient"
	"github.com/uber/kraken/core"
	"github.com/uber/kraken/origin/blobclient"
	"github.com/uber/kraken/utils/stringset"
	"pgregory.net/rapid"

	"verif/internal/pbt"
)

func host(i int) string { return fmt.Sprintf("h%02d:80", i) }

func minInt(a, b int) int {
	if a < b {
		return a
	}
	return b
}

func sorted(s stringset.Set) []string {
	out := s.ToSlice()
	sort.Strings(out)
	return out
}

// ---------------------------------------------------------------- part sample

type SampleCase struct {
	Size int   `json:"size"` // hosts in the set
	Ns   []int `json:"ns"`   // successive Sample(n) calls on the same set
}

func genSample(t *rapid.T) SampleCase {
	size := rapid.IntRange(0, 30).Draw(t, "size")
	// n around 0, around the set size, and anywhere up to 35.
	nGen := rapid.OneOf(rapid.IntRange(0, 35), rapid.IntRange(0, 4), rapid.IntRange(maxInt(size-2, 0), size+2))
	return SampleCase{Size: size, Ns: rapid.SliceOfN(nGen, 1, 6).Draw(t, "ns")}
}

func maxInt(a, b int) int {
	if a > b {
		return a
	}
	return b
}

func runSample(c SampleCase) pbt.Verdict {
	if c.Size < 0 || c.Size > 1000 || len(c.Ns) == 0 {
		return pbt.Verdict{Discard: true}
	}
	s := stringset.New()
	for i := 0; i < c.Size; i++ {
		s.Add(host(i))
	}
	orig := s.Copy()
	classes := map[string]bool{}
	nt := false
	for k, n := range c.Ns {
		if n < 0 {
			return pbt.Verdict{Discard: true}
		}
		got := s.Sample(n)
		want := minInt(n, c.Size)
		if len(got) != want {
			return pbt.Fail("Sample returns the wrong number of members\ncall %d: Sample(%d) on a set of %d returned %d members, want %d", k, n, c.Size, len(got), want)
		}
		for x := range got {
			if !orig.Has(x) {
				return pbt.Fail("Sample returns a member that is not in the set\ncall %d: Sample(%d) on a set of %d returned %q", k, n, c.Size, x)
			}
		}
		// The sampled list is the live host list of its owner (Monitor.Resolve hands out its own set):
		// sampling must not change it.
		if !stringset.Equal(s, orig) {
			return pbt.Fail("Sample changed the set it samples from\ncall %d: Sample(%d) on a set of %d left %d members", k, n, c.Size, len(s))
		}
		switch {
		case n == 0:
			classes["n=0"] = true
		case n < c.Size:
			classes["n<size"] = true
			nt = true
		case n == c.Size:
			classes["n=size"] = true
		default:
			classes["n>size"] = true
		}
		if c.Size == 0 {
			classes["empty-set"] = true
		}
	}
	var cl []string
	for k := range classes {
		cl = append(cl, k)
	}
	sort.Strings(cl)
	v := pbt.OK(nt, cl...)
	v.Evals = len(c.Ns)
	return v
}

// ---------------------------------------------------------------- part locations

// Outcome of one host for one request.
const (
	bNet    = 0 // network error (connection refused)
	bOK     = 1 // 200 with a well-formed body
	b404    = 2
	b500    = 3
	b503    = 4
	nBehavs = 5
)

type LocCase struct {
	Behav []int   `json:"behav"` // per host of the universe: bNet => Locations fails, anything else => answers
	Lists [][]int `json:"lists"` // one Locations request per entry: the cluster list at that time (ascending indices)
}

func genList(t *rapid.T, universe int) []int {
	keep := rapid.SampledFrom([]int{10, 10, 7, 4, 1}).Draw(t, "keep")
	l := []int{}
	for h := 0; h < universe; h++ {
		if keep == 10 || rapid.IntRange(0, 9).Draw(t, "in") < keep {
			l = append(l, h)
		}
	}
	return l
}

func genBehav(t *rapid.T, universe int, alts []int) []int {
	netBias := rapid.SampledFrom([]int{2, 5, 8, 10}).Draw(t, "netBias")
	b := make([]int, universe)
	for h := range b {
		if rapid.IntRange(0, 9).Draw(t, "net") < netBias {
			b[h] = bNet
		} else {
			b[h] = rapid.SampledFrom(alts).Draw(t, "b")
		}
	}
	return b
}

func genLoc(t *rapid.T) LocCase {
	u := rapid.IntRange(0, 30).Draw(t, "universe")
	c := LocCase{Behav: genBehav(t, u, []int{bOK})}
	n := rapid.IntRange(1, 4).Draw(t, "requests")
	for i := 0; i < n; i++ {
		c.Lists = append(c.Lists, genList(t, u))
	}
	return c
}

func validLists(universe int, lists [][]int) bool {
	for _, l := range lists {
		for i, h := range l {
			if h < 0 || h >= universe || (i > 0 && l[i-1] >= h) {
				return false
			}
		}
	}
	return true
}

// recList is the host list handed to the clients; it records what it resolved to.
type recList struct {
	mu       sync.Mutex
	cur      stringset.Set
	resolved []stringset.Set
	failed   []string
}

func (l *recList) Resolve() stringset.Set {
	l.mu.Lock()
	defer l.mu.Unlock()
	l.resolved = append(l.resolved, l.cur.Copy())
	return l.cur.Copy()
}

func (l *recList) Failed(addr string) {
	l.mu.Lock()
	l.failed = append(l.failed, addr)
	l.mu.Unlock()
}

func (l *recList) set(idx []int) {
	l.mu.Lock()
	l.cur = stringset.New()
	for _, h := range idx {
		l.cur.Add(host(h))
	}
	l.resolved = nil
	l.failed = nil
	l.mu.Unlock()
}

// fakeOrigin is a blobclient.Client of which only Locations/Addr are implemented (nothing else is
// reachable from blobclient.Locations).
type fakeOrigin struct {
	blobclient.Client
	addr string
	p    *fakeProvider
}

func (o *fakeOrigin) Addr() string { return o.addr }

func (o *fakeOrigin) Locations(d core.Digest) ([]string, error) {
	o.p.mu.Lock()
	defer o.p.mu.Unlock()
	o.p.contacted = append(o.p.contacted, o.addr)
	if b, ok := o.p.behav[o.addr]; !ok || b == bNet {
		return nil, errors.New("scripted: origin unreachable")
	}
	return []string{"loc-of-" + o.addr}, nil
}

type fakeProvider struct {
	mu        sync.Mutex
	behav     map[string]int
	contacted []string
}

func (p *fakeProvider) Provide(addr string) blobclient.Client { return &fakeOrigin{addr: addr, p: p} }

// judgeContacts applies the part of the oracle shared by both clients. contacted = hosts in the order
// they were contacted (one entry per request sent).
//
// A contact is one request sent; final(i) says whether contact i was answered with a successful answer that
// completes the whole request (for a multi-page listing only the page without a next link does), netFail(i)
// whether contact i failed at network level. For hosts with one fixed outcome these are functions of the
// host alone; for paginated listings and hosts that go away mid-request they are per contact.
func judgeContacts(what string, limit int, list stringset.Set, resolved []stringset.Set, contacted []string,
	final, netFail func(i int) bool, err error) (string, []string) {

	ctx := func() string {
		return fmt.Sprintf("%s: list(%d)=%v contacted=%v err=%v", what, len(list), sorted(list), contacted, err)
	}
	distinct := stringset.New()
	for _, h := range contacted {
		distinct.Add(h)
	}
	allowed := stringset.New()
	for _, r := range resolved {
		for h := range r {
			allowed.Add(h)
		}
	}
	for h := range distinct {
		if !allowed.Has(h) {
			return "contacted a host that is not in the current host list\n" + ctx(), nil
		}
	}
	if len(distinct) > limit {
		return fmt.Sprintf("contacted more than %d distinct hosts for one request\n%s", limit, ctx()), nil
	}
	if len(list) == 0 {
		if err == nil {
			return "request on an empty host list reported success\n" + ctx(), nil
		}
		return "", []string{"empty-list"}
	}
	// A request is over once a host answered it successfully (and completely).
	sawOK := false
	for i := range contacted {
		if sawOK {
			return "contacted another host after one had answered successfully\n" + ctx(), nil
		}
		if final(i) {
			sawOK = true
		}
	}
	if sawOK && err != nil {
		return "a host answered successfully but the request reported failure\n" + ctx(), nil
	}
	// "Every tried host failed at network level" = the last thing heard from each tried host is a network
	// failure (a host may have served some pages of a listing before it went away).
	lastNet := map[string]bool{}
	for i, h := range contacted {
		lastNet[h] = netFail(i)
	}
	allNet := true
	for _, n := range lastNet {
		if !n {
			allNet = false
		}
	}
	var cl []string
	if allNet {
		if err == nil {
			return "every contacted host failed but the request reported success\n" + ctx(), nil
		}
		// Gave up: that needs min(limit, size) distinct hosts tried.
		if want := minInt(limit, len(list)); len(distinct) != want {
			return fmt.Sprintf("gave up after trying %d distinct hosts, expected %d\n%s", len(distinct), want, ctx()), nil
		}
		cl = append(cl, "gave-up-after-all-failed")
		if len(list) > limit {
			cl = append(cl, "gave-up-with-untried-hosts-left")
		}
	}
	if sawOK && len(contacted) > 1 {
		cl = append(cl, "success-after-retry")
	}
	if len(list) > limit {
		cl = append(cl, "list-larger-than-limit")
	}
	return "", cl
}

func runLoc(c LocCase) pbt.Verdict {
	u := len(c.Behav)
	if u > 1000 || !validLists(u, c.Lists) || len(c.Lists) == 0 {
		return pbt.Verdict{Discard: true}
	}
	behav := map[string]int{}
	for h, b := range c.Behav {
		behav[host(h)] = b
	}
	d, _ := core.NewSHA256DigestFromHex(strings.Repeat("ab", 32))
	classes := map[string]bool{}
	nt := false
	for i, l := range c.Lists {
		p := &fakeProvider{behav: behav}
		cluster := &recList{}
		cluster.set(l)
		locs, err := blobclient.Locations(p, cluster, d)
		contacted := p.contacted
		msg, cl := judgeContacts(fmt.Sprintf("request %d blobclient.Locations", i), 3, cluster.cur, cluster.resolved, contacted,
			func(k int) bool { return behav[contacted[k]] != bNet }, func(k int) bool { return behav[contacted[k]] == bNet }, err)
		if msg != "" {
			return pbt.Fail("%s", msg)
		}
		if err == nil {
			last := p.contacted[len(p.contacted)-1]
			if len(locs) != 1 || locs[0] != "loc-of-"+last {
				return pbt.Fail("Locations returned an answer that is not the answering host's\nrequest %d: contacted=%v locs=%v", i, p.contacted, locs)
			}
		}
		for _, x := range cl {
			classes[x] = true
			if x == "list-larger-than-limit" {
				nt = nt || len(p.contacted) > 1
			}
		}
	}
	var cl []string
	for k := range classes {
		cl = append(cl, k)
	}
	sort.Strings(cl)
	v := pbt.OK(nt, cl...)
	v.Evals = len(c.Lists)
	return v
}

// ---------------------------------------------------------------- part tagclient

// Methods of the build-index cluster client.
const (
	mPut = iota
	mPutAndReplicate
	mGet
	mHas
	mList
	mListRepository
	mReplicate
	mOrigin
	mCheckReadiness // single attempt
	mListWithPagination
	mListRepositoryWithPagination
	nMethods
)

var methodNames = []string{"Put", "PutAndReplicate", "Get", "Has", "List", "ListRepository", "Replicate", "Origin", "CheckReadiness",
	"ListWithPagination", "ListRepositoryWithPagination"}

const maxPages = 12

type TagCall struct {
	Method int   `json:"m"`
	List   []int `json:"list"`
	// Pages is the number of pages the servers cut a listing into (every page but the last carries a next
	// link); 0 and 1 both mean a single page. Only listing methods look at it. For the *WithPagination
	// methods Offset is the page asked for.
	Pages  int `json:"pages,omitempty"`
	Offset int `json:"offset,omitempty"`
}

type TagCase struct {
	Behav []int `json:"behav"` // per host of the universe
	// Die, when present, gives per host the number of requests of one call it still serves according to
	// Behav before it goes away (every later request of that call fails at network level); 0 = stays.
	Die   []int     `json:"die,omitempty"`
	Calls []TagCall `json:"calls"`
}

func isListing(m int) bool {
	return m == mList || m == mListRepository || m == mListWithPagination || m == mListRepositoryWithPagination
}

func genTag(t *rapid.T) TagCase {
	u := rapid.IntRange(0, 30).Draw(t, "universe")
	c := TagCase{Behav: genBehav(t, u, []int{bOK, bOK, bOK, b404, b500, b503})}
	// Hosts that go away in the middle of a request (only a multi-page listing sends a host more than one
	// request, so only there it matters).
	if dieBias := rapid.SampledFrom([]int{0, 4, 8}).Draw(t, "dieBias"); dieBias > 0 {
		c.Die = make([]int, u)
		for h := range c.Die {
			if rapid.IntRange(0, 9).Draw(t, "dies") < dieBias {
				c.Die[h] = rapid.IntRange(1, 4).Draw(t, "dieAfter")
			}
		}
	}
	n := rapid.IntRange(1, 5).Draw(t, "calls")
	for i := 0; i < n; i++ {
		m := rapid.SampledFrom([]int{mPut, mPutAndReplicate, mGet, mHas, mList, mList, mListRepository, mListRepository, mReplicate, mOrigin,
			mListWithPagination, mListRepositoryWithPagination, mCheckReadiness, mCheckReadiness, mCheckReadiness}).Draw(t, "m")
		call := TagCall{Method: m, List: genList(t, u)}
		if isListing(m) {
			call.Pages = rapid.SampledFrom([]int{1, 2, 3, 4, 5, 6, 8, maxPages}).Draw(t, "pages")
			if m == mListWithPagination || m == mListRepositoryWithPagination {
				call.Offset = rapid.IntRange(0, call.Pages-1).Draw(t, "offset")
			}
		}
		c.Calls = append(c.Calls, call)
	}
	return c
}

// Outcome of one contact (one request sent).
const (
	oNet    = iota // failed at network level
	oOK            // 200; for a listing: the last page (no next link)
	oOKMore        // 200 listing page that carries a next link
	oStatus        // HTTP error status
)

// scriptTransport stands in for the network: http.DefaultTransport is what the tag client's HTTP layer
// uses when no TLS is configured. It records the host and the outcome of every request sent.
type scriptTransport struct {
	mu        sync.Mutex
	behav     map[string]int
	die       map[string]int // requests served per call before the host goes away; absent/0 = stays
	pages     int            // pages of a listing during the current call
	served    map[string]int // requests received per host during the current call
	contacted []string
	outcome   []int
	malformed string // set when a listing request carried an offset the servers never handed out
}

const digestBody = "sha256:abababababababababababababababababababababababababababababababab"

func (s *scriptTransport) reset(pages int) {
	s.mu.Lock()
	s.pages = pages
	s.served = map[string]int{}
	s.contacted = nil
	s.outcome = nil
	s.malformed = ""
	s.mu.Unlock()
}

func (s *scriptTransport) RoundTrip(req *http.Request) (*http.Response, error) {
	h := req.URL.Host
	p := req.URL.Path
	listing := strings.HasPrefix(p, "/list/") || strings.HasPrefix(p, "/repositories/")

	s.mu.Lock()
	b, ok := s.behav[h]
	s.served[h]++
	if d := s.die[h]; d > 0 && s.served[h] > d {
		b = bNet
	}
	status := map[int]int{bOK: 200, b404: 404, b500: 500, b503: 503}[b]
	body := ""
	out := oStatus
	switch {
	case !ok || b == bNet:
		out = oNet
	case status == 200:
		out = oOK
		switch {
		case req.Method == http.MethodHead:
		case strings.HasPrefix(p, "/tags/") && req.Method == http.MethodGet:
			body = digestBody
		case listing:
			// The servers cut the listing into s.pages pages addressed by the offset token they hand
			// out in the next link (tagmodels.ListResponse; the Links struct has no json tag).
			page := 0
			if o := req.URL.Query().Get("offset"); o != "" {
				n, err := strconv.Atoi(o)
				if err != nil || n < 0 || n >= s.pages {
					s.malformed = fmt.Sprintf("%s %s", h, req.URL.String())
					n = 0
				}
				page = n
			}
			if page+1 < s.pages {
				out = oOKMore
				body = fmt.Sprintf(`{"Links":{"next":"%s?offset=%d"},"size":1,"result":["repo:tag-%d"]}`, req.URL.EscapedPath(), page+1, page)
			} else {
				body = fmt.Sprintf(`{"size":1,"result":["repo:tag-%d"]}`, page)
			}
		case p == "/origin":
			body = "origin-of-" + h
		}
	}
	s.contacted = append(s.contacted, h)
	s.outcome = append(s.outcome, out)
	s.mu.Unlock()

	if req.Body != nil {
		io.Copy(io.Discard, req.Body)
		req.Body.Close()
	}
	if out == oNet {
		return nil, &net.OpError{Op: "dial", Net: "tcp", Err: errors.New("connect: connection refused")}
	}
	return &http.Response{
		Status:        fmt.Sprintf("%d %s", status, http.StatusText(status)),
		StatusCode:    status,
		Proto:         "HTTP/1.1",
		ProtoMajor:    1,
		ProtoMinor:    1,
		Header:        http.Header{},
		Body:          io.NopCloser(strings.NewReader(body)),
		ContentLength: int64(len(body)),
		Request:       req,
	}, nil
}

var transportMu sync.Mutex

func runTag(c TagCase) pbt.Verdict {
	u := len(c.Behav)
	if u > 1000 || len(c.Calls) == 0 || (len(c.Die) != 0 && len(c.Die) != u) {
		return pbt.Verdict{Discard: true}
	}
	var lists [][]int
	for _, call := range c.Calls {
		if call.Method < 0 || call.Method >= nMethods || call.Pages < 0 || call.Pages > 64 || call.Offset < 0 ||
			(call.Offset > 0 && call.Offset >= call.Pages) {
			return pbt.Verdict{Discard: true}
		}
		lists = append(lists, call.List)
	}
	if !validLists(u, lists) {
		return pbt.Verdict{Discard: true}
	}
	for _, b := range c.Behav {
		if b < 0 || b >= nBehavs {
			return pbt.Verdict{Discard: true}
		}
	}
	behav := map[string]int{}
	for h, b := range c.Behav {
		behav[host(h)] = b
	}
	die := map[string]int{}
	for h, d := range c.Die {
		if d < 0 {
			return pbt.Verdict{Discard: true}
		}
		die[host(h)] = d
	}
	tr := &scriptTransport{behav: behav, die: die}
	tr.reset(1)
	transportMu.Lock()
	saved := http.DefaultTransport
	http.DefaultTransport = tr
	defer func() {
		http.DefaultTransport = saved
		transportMu.Unlock()
	}()

	hosts := &recList{}
	hosts.set(nil)
	cc := tagclient.NewClusterClient(hosts, nil)
	d, _ := core.NewSHA256DigestFromHex(strings.Repeat("ab", 32))

	classes := map[string]bool{}
	nt := false
	for i, call := range c.Calls {
		hosts.set(call.List)
		pages := call.Pages
		if pages < 1 || !isListing(call.Method) {
			pages = 1
		}
		tr.reset(pages)
		var err error
		switch call.Method {
		case mPut:
			err = cc.Put("repo:tag", d)
		case mPutAndReplicate:
			err = cc.PutAndReplicate("repo:tag", d)
		case mGet:
			_, err = cc.Get("repo:tag")
		case mHas:
			_, err = cc.Has("repo:tag")
		case mList:
			_, err = cc.List("repo")
		case mListRepository:
			_, err = cc.ListRepository("repo")
		case mListWithPagination, mListRepositoryWithPagination:
			f := tagclient.ListFilter{}
			if call.Offset > 0 {
				f.Offset = strconv.Itoa(call.Offset)
			}
			if call.Method == mListWithPagination {
				_, err = cc.ListWithPagination("repo", f)
			} else {
				_, err = cc.ListRepositoryWithPagination("repo", f)
			}
		case mReplicate:
			err = cc.Replicate("repo:tag")
		case mOrigin:
			_, err = cc.Origin()
		case mCheckReadiness:
			err = cc.CheckReadiness()
		}
		limit := 3
		if call.Method == mCheckReadiness {
			limit = 1
		}
		tr.mu.Lock()
		contacted := append([]string(nil), tr.contacted...)
		outcome := append([]int(nil), tr.outcome...)
		malformed := tr.malformed
		tr.mu.Unlock()
		what := fmt.Sprintf("call %d tagclient cluster %s", i, methodNames[call.Method])
		if pages > 1 {
			what += fmt.Sprintf(" (listing served in %d pages)", pages)
		}
		if malformed != "" {
			// Harness precondition, not the property: every offset comes from a next link we served.
			return pbt.Verdict{Discard: true}
		}
		// A whole-listing call (List / ListRepository) is answered only by the page without a next link;
		// every other call, the one-page *WithPagination ones included, by any 200.
		whole := call.Method == mList || call.Method == mListRepository
		final := func(k int) bool { return outcome[k] == oOK || (outcome[k] == oOKMore && !whole) }
		msg, cl := judgeContacts(what, limit, hosts.cur, hosts.resolved, contacted,
			final, func(k int) bool { return outcome[k] == oNet }, err)
		if msg != "" {
			return pbt.Fail("%s", msg)
		}
		distinct := stringset.FromSlice(contacted)
		if limit == 1 && len(call.List) > 0 {
			if len(distinct) != 1 {
				return pbt.Fail("single-attempt call did not contact exactly one host\n%s: list=%v contacted=%v err=%v", what, sorted(hosts.cur), contacted, err)
			}
			classes["single-attempt"] = true
			if len(call.List) > 1 {
				classes["single-attempt-on-multi-host-list"] = true
			}
		}
		for _, x := range cl {
			classes[x] = true
		}
		// Shapes of multi-page listings reached.
		morePages, died, restarted := 0, false, false
		for k := range contacted {
			if outcome[k] == oOKMore {
				morePages++
			}
			if k > 0 && outcome[k] == oNet && outcome[k-1] == oOKMore && contacted[k] == contacted[k-1] {
				died = true
			}
			if k > 0 && outcome[k-1] == oNet && contacted[k] != contacted[k-1] {
				for j := 0; j < k; j++ {
					if outcome[j] == oOKMore {
						restarted = true
					}
				}
			}
		}
		if whole && morePages > 0 {
			classes["listing-spans-pages"] = true
			if morePages >= 3 {
				classes["listing-spans>=4-pages"] = true
			}
			if len(call.List) > limit {
				classes["listing-spans-pages-on-list-larger-than-limit"] = true
				nt = true
			}
			if died {
				classes["host-went-away-mid-listing"] = true
			}
			if restarted {
				classes["listing-restarted-on-another-host"] = true
			}
		}
		if len(call.List) > limit && (limit == 1 || len(distinct) > 1) {
			nt = true
		}
	}
	var cl []string
	for k := range classes {
		cl = append(cl, k)
	}
	sort.Strings(cl)
	v := pbt.OK(nt, cl...)
	v.Evals = len(c.Calls)
	return v
}

func TestProp(t *testing.T) {
	pbt.Main(t, pbt.Spec{
		ID: "C25",
		Rule: "part sample: sets of 0-30 hosts, 1-6 Sample(n) calls with n in 0..35 biased to 0 and to the set size; result must have min(n,size) members, all from the set, set unchanged. " +
			"part locations: universe of 0-30 origins each scripted to fail or answer, 1-4 blobclient.Locations requests each on a drawn sub-list, through a recording Provider. " +
			"part tagclient: universe of 0-30 build-index hosts each scripted (network error / 200 / 404 / 500 / 503; optionally 'goes away after serving k=1..4 requests of a call'), 1-5 calls of the real tagclient cluster client " +
			"(Put, PutAndReplicate, Get, Has, List, ListRepository, ListWithPagination, ListRepositoryWithPagination, Replicate, Origin = 3 attempts; CheckReadiness = 1) each on a drawn sub-list, network replaced by a recording http transport; " +
			"for listing calls the servers cut the listing into 1-12 pages chained by next links, so one List/ListRepository request is a sequence of page requests. " +
			"Oracle per request (= one client call, however many pages): distinct hosts contacted <= 3 (exactly 1 for CheckReadiness on a non-empty list), all from the list resolved for that request, empty list => error without contact, " +
			"nothing contacted after the answer that completes the request (last page for whole listings) and success reported then, failure reported when every tried host ended in a network-level failure and then min(limit,size) distinct hosts were tried. " +
			"An evaluation is one Sample call / one request; non-trivial = n < set size (sample) or a request on a list larger than its limit that needed a retry or walked more than one page (or any single-attempt call on such a list); distinct by case hash",
		Assumptions: []string{
			"the recording Provider / http.DefaultTransport replacement observe every host contact (the tag client uses http.DefaultTransport when no TLS config is given)",
			"a host is 'contacted' when a request is sent to it; creating a client object for an address is not a contact",
		},
		Parts: []pbt.Part{
			pbt.NewPart("sample", 2, genSample, runSample),
			pbt.NewPart("locations", 2, genLoc, runLoc),
			pbt.NewPart("tagclient", 3, genTag, runTag),
		},
	})
}
