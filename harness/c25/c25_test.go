// C25 — cluster clients contact a bounded sample of current hosts.
package c25

import (
	"errors"
	"fmt"
	"io"
	"net"
	"net/http"
	"sort"
	"strings"
	"sync"
	"testing"

	"github.com/uber/kraken/build-index/tagclient"
	"github.com/uber/kraken/core"
	"github.com/uber/kraken/origin/blobclient"
	"github.com/uber/kraken/utils/stringset"
	"pgregory.net/rapid"

	"verif/internal/pbt"
)

func host(i int) string { return fmt.Sprintf("h%02d:80", i) }

func minInt(a, b int) int {
	if a < b {
		return a
	}
	return b
}

func sorted(s stringset.Set) []string {
	out := s.ToSlice()
	sort.Strings(out)
	return out
}

// ---------------------------------------------------------------- part sample

type SampleCase struct {
	Size int   `json:"size"` // hosts in the set
	Ns   []int `json:"ns"`   // successive Sample(n) calls on the same set
}

func genSample(t *rapid.T) SampleCase {
	size := rapid.IntRange(0, 30).Draw(t, "size")
	// n around 0, around the set size, and anywhere up to 35.
	nGen := rapid.OneOf(rapid.IntRange(0, 35), rapid.IntRange(0, 4), rapid.IntRange(maxInt(size-2, 0), size+2))
	return SampleCase{Size: size, Ns: rapid.SliceOfN(nGen, 1, 6).Draw(t, "ns")}
}

func maxInt(a, b int) int {
	if a > b {
		return a
	}
	return b
}

func runSample(c SampleCase) pbt.Verdict {
	if c.Size < 0 || c.Size > 1000 || len(c.Ns) == 0 {
		return pbt.Verdict{Discard: true}
	}
	s := stringset.New()
	for i := 0; i < c.Size; i++ {
		s.Add(host(i))
	}
	orig := s.Copy()
	classes := map[string]bool{}
	nt := false
	for k, n := range c.Ns {
		if n < 0 {
			return pbt.Verdict{Discard: true}
		}
		got := s.Sample(n)
		want := minInt(n, c.Size)
		if len(got) != want {
			return pbt.Fail("Sample returns the wrong number of members\ncall %d: Sample(%d) on a set of %d returned %d members, want %d", k, n, c.Size, len(got), want)
		}
		for x := range got {
			if !orig.Has(x) {
				return pbt.Fail("Sample returns a member that is not in the set\ncall %d: Sample(%d) on a set of %d returned %q", k, n, c.Size, x)
			}
		}
		// The sampled list is the live host list of its owner (Monitor.Resolve hands out its own set):
		// sampling must not change it.
		if !stringset.Equal(s, orig) {
			return pbt.Fail("Sample changed the set it samples from\ncall %d: Sample(%d) on a set of %d left %d members", k, n, c.Size, len(s))
		}
		switch {
		case n == 0:
			classes["n=0"] = true
		case n < c.Size:
			classes["n<size"] = true
			nt = true
		case n == c.Size:
			classes["n=size"] = true
		default:
			classes["n>size"] = true
		}
		if c.Size == 0 {
			classes["empty-set"] = true
		}
	}
	var cl []string
	for k := range classes {
		cl = append(cl, k)
	}
	sort.Strings(cl)
	v := pbt.OK(nt, cl...)
	v.Evals = len(c.Ns)
	return v
}

// ---------------------------------------------------------------- part locations

// Outcome of one host for one request.
const (
	bNet    = 0 // network error (connection refused)
	bOK     = 1 // 200 with a well-formed body
	b404    = 2
	b500    = 3
	b503    = 4
	nBehavs = 5
)

type LocCase struct {
	Behav []int   `json:"behav"` // per host of the universe: bNet => Locations fails, anything else => answers
	Lists [][]int `json:"lists"` // one Locations request per entry: the cluster list at that time (ascending indices)
}

func genList(t *rapid.T, universe int) []int {
	keep := rapid.SampledFrom([]int{10, 10, 7, 4, 1}).Draw(t, "keep")
	l := []int{}
	for h := 0; h < universe; h++ {
		if keep == 10 || rapid.IntRange(0, 9).Draw(t, "in") < keep {
			l = append(l, h)
		}
	}
	return l
}

func genBehav(t *rapid.T, universe int, alts []int) []int {
	netBias := rapid.SampledFrom([]int{2, 5, 8, 10}).Draw(t, "netBias")
	b := make([]int, universe)
	for h := range b {
		if rapid.IntRange(0, 9).Draw(t, "net") < netBias {
			b[h] = bNet
		} else {
			b[h] = rapid.SampledFrom(alts).Draw(t, "b")
		}
	}
	return b
}

func genLoc(t *rapid.T) LocCase {
	u := rapid.IntRange(0, 30).Draw(t, "universe")
	c := LocCase{Behav: genBehav(t, u, []int{bOK})}
	n := rapid.IntRange(1, 4).Draw(t, "requests")
	for i := 0; i < n; i++ {
		c.Lists = append(c.Lists, genList(t, u))
	}
	return c
}

func validLists(universe int, lists [][]int) bool {
	for _, l := range lists {
		for i, h := range l {
			if h < 0 || h >= universe || (i > 0 && l[i-1] >= h) {
				return false
			}
		}
	}
	return true
}

// recList is the host list handed to the clients; it records what it resolved to.
type recList struct {
	mu       sync.Mutex
	cur      stringset.Set
	resolved []stringset.Set
	failed   []string
}

func (l *recList) Resolve() stringset.Set {
	l.mu.Lock()
	defer l.mu.Unlock()
	l.resolved = append(l.resolved, l.cur.Copy())
	return l.cur.Copy()
}

func (l *recList) Failed(addr string) {
	l.mu.Lock()
	l.failed = append(l.failed, addr)
	l.mu.Unlock()
}

func (l *recList) set(idx []int) {
	l.mu.Lock()
	l.cur = stringset.New()
	for _, h := range idx {
		l.cur.Add(host(h))
	}
	l.resolved = nil
	l.failed = nil
	l.mu.Unlock()
}

// fakeOrigin is a blobclient.Client of which only Locations/Addr are implemented (nothing else is
// reachable from blobclient.Locations).
type fakeOrigin struct {
	blobclient.Client
	addr string
	p    *fakeProvider
}

func (o *fakeOrigin) Addr() string { return o.addr }

func (o *fakeOrigin) Locations(d core.Digest) ([]string, error) {
	o.p.mu.Lock()
	defer o.p.mu.Unlock()
	o.p.contacted = append(o.p.contacted, o.addr)
	if b, ok := o.p.behav[o.addr]; !ok || b == bNet {
		return nil, errors.New("scripted: origin unreachable")
	}
	return []string{"loc-of-" + o.addr}, nil
}

type fakeProvider struct {
	mu        sync.Mutex
	behav     map[string]int
	contacted []string
}

func (p *fakeProvider) Provide(addr string) blobclient.Client { return &fakeOrigin{addr: addr, p: p} }

// judgeContacts applies the part of the oracle shared by both clients. contacted = hosts in the order
// they were contacted (one entry per request sent). okHost says whether a host answers successfully,
// netHost whether it fails at network level.
func judgeContacts(what string, limit int, list stringset.Set, resolved []stringset.Set, contacted []string,
	okHost, netHost func(string) bool, err error) (string, []string) {

	ctx := func() string {
		return fmt.Sprintf("%s: list(%d)=%v contacted=%v err=%v", what, len(list), sorted(list), contacted, err)
	}
	distinct := stringset.New()
	for _, h := range contacted {
		distinct.Add(h)
	}
	allowed := stringset.New()
	for _, r := range resolved {
		for h := range r {
			allowed.Add(h)
		}
	}
	for h := range distinct {
		if !allowed.Has(h) {
			return "contacted a host that is not in the current host list\n" + ctx(), nil
		}
	}
	if len(distinct) > limit {
		return fmt.Sprintf("contacted more than %d distinct hosts for one request\n%s", limit, ctx()), nil
	}
	if len(list) == 0 {
		if err == nil {
			return "request on an empty host list reported success\n" + ctx(), nil
		}
		return "", []string{"empty-list"}
	}
	// A request is over once a host answered it successfully.
	sawOK := false
	for _, h := range contacted {
		if sawOK {
			return "contacted another host after one had answered successfully\n" + ctx(), nil
		}
		if okHost(h) {
			sawOK = true
		}
	}
	if sawOK && err != nil {
		return "a host answered successfully but the request reported failure\n" + ctx(), nil
	}
	allNet := true
	for _, h := range contacted {
		if !netHost(h) {
			allNet = false
		}
	}
	var cl []string
	if allNet {
		if err == nil {
			return "every contacted host failed but the request reported success\n" + ctx(), nil
		}
		// Gave up: that needs min(limit, size) distinct hosts tried.
		if want := minInt(limit, len(list)); len(distinct) != want {
			return fmt.Sprintf("gave up after trying %d distinct hosts, expected %d\n%s", len(distinct), want, ctx()), nil
		}
		cl = append(cl, "gave-up-after-all-failed")
		if len(list) > limit {
			cl = append(cl, "gave-up-with-untried-hosts-left")
		}
	}
	if sawOK && len(contacted) > 1 {
		cl = append(cl, "success-after-retry")
	}
	if len(list) > limit {
		cl = append(cl, "list-larger-than-limit")
	}
	return "", cl
}

func runLoc(c LocCase) pbt.Verdict {
	u := len(c.Behav)
	if u > 1000 || !validLists(u, c.Lists) || len(c.Lists) == 0 {
		return pbt.Verdict{Discard: true}
	}
	behav := map[string]int{}
	for h, b := range c.Behav {
		behav[host(h)] = b
	}
	d, _ := core.NewSHA256DigestFromHex(strings.Repeat("ab", 32))
	classes := map[string]bool{}
	nt := false
	for i, l := range c.Lists {
		p := &fakeProvider{behav: behav}
		cluster := &recList{}
		cluster.set(l)
		locs, err := blobclient.Locations(p, cluster, d)
		msg, cl := judgeContacts(fmt.Sprintf("request %d blobclient.Locations", i), 3, cluster.cur, cluster.resolved, p.contacted,
			func(h string) bool { return behav[h] != bNet }, func(h string) bool { return behav[h] == bNet }, err)
		if msg != "" {
			return pbt.Fail("%s", msg)
		}
		if err == nil {
			last := p.contacted[len(p.contacted)-1]
			if len(locs) != 1 || locs[0] != "loc-of-"+last {
				return pbt.Fail("Locations returned an answer that is not the answering host's\nrequest %d: contacted=%v locs=%v", i, p.contacted, locs)
			}
		}
		for _, x := range cl {
			classes[x] = true
			if x == "list-larger-than-limit" {
				nt = nt || len(p.contacted) > 1
			}
		}
	}
	var cl []string
	for k := range classes {
		cl = append(cl, k)
	}
	sort.Strings(cl)
	v := pbt.OK(nt, cl...)
	v.Evals = len(c.Lists)
	return v
}

// ---------------------------------------------------------------- part tagclient

// Methods of the build-index cluster client.
const (
	mPut = iota
	mPutAndReplicate
	mGet
	mHas
	mList
	mListRepository
	mReplicate
	mOrigin
	mCheckReadiness // single attempt
	nMethods
)

var methodNames = []string{"Put", "PutAndReplicate", "Get", "Has", "List", "ListRepository", "Replicate", "Origin", "CheckReadiness"}

type TagCall struct {
	Method int   `json:"m"`
	List   []int `json:"list"`
}

type TagCase struct {
	Behav []int     `json:"behav"` // per host of the universe
	Calls []TagCall `json:"calls"`
}

func genTag(t *rapid.T) TagCase {
	u := rapid.IntRange(0, 30).Draw(t, "universe")
	c := TagCase{Behav: genBehav(t, u, []int{bOK, bOK, bOK, b404, b500, b503})}
	n := rapid.IntRange(1, 5).Draw(t, "calls")
	for i := 0; i < n; i++ {
		m := rapid.SampledFrom([]int{mPut, mPutAndReplicate, mGet, mHas, mList, mListRepository, mReplicate, mOrigin, mCheckReadiness, mCheckReadiness, mCheckReadiness}).Draw(t, "m")
		c.Calls = append(c.Calls, TagCall{Method: m, List: genList(t, u)})
	}
	return c
}

// scriptTransport stands in for the network: http.DefaultTransport is what the tag client's HTTP layer
// uses when no TLS is configured. It records the host of every request sent.
type scriptTransport struct {
	mu        sync.Mutex
	behav     map[string]int
	contacted []string
}

const digestBody = "sha256:abababababababababababababababababababababababababababababababab"

func (s *scriptTransport) RoundTrip(req *http.Request) (*http.Response, error) {
	h := req.URL.Host
	s.mu.Lock()
	s.contacted = append(s.contacted, h)
	b, ok := s.behav[h]
	s.mu.Unlock()
	if req.Body != nil {
		io.Copy(io.Discard, req.Body)
		req.Body.Close()
	}
	if !ok || b == bNet {
		return nil, &net.OpError{Op: "dial", Net: "tcp", Err: errors.New("connect: connection refused")}
	}
	status := map[int]int{bOK: 200, b404: 404, b500: 500, b503: 503}[b]
	body := ""
	if status == 200 && req.Method != http.MethodHead {
		p := req.URL.Path
		switch {
		case strings.HasPrefix(p, "/tags/") && req.Method == http.MethodGet:
			body = digestBody
		case strings.HasPrefix(p, "/list/") || strings.HasPrefix(p, "/repositories/"):
			body = `{"size":1,"result":["repo:tag"]}`
		case p == "/origin":
			body = "origin-of-" + h
		}
	}
	return &http.Response{
		Status:        fmt.Sprintf("%d %s", status, http.StatusText(status)),
		StatusCode:    status,
		Proto:         "HTTP/1.1",
		ProtoMajor:    1,
		ProtoMinor:    1,
		Header:        http.Header{},
		Body:          io.NopCloser(strings.NewReader(body)),
		ContentLength: int64(len(body)),
		Request:       req,
	}, nil
}

var transportMu sync.Mutex

func runTag(c TagCase) pbt.Verdict {
	u := len(c.Behav)
	if u > 1000 || len(c.Calls) == 0 {
		return pbt.Verdict{Discard: true}
	}
	var lists [][]int
	for _, call := range c.Calls {
		if call.Method < 0 || call.Method >= nMethods {
			return pbt.Verdict{Discard: true}
		}
		lists = append(lists, call.List)
	}
	if !validLists(u, lists) {
		return pbt.Verdict{Discard: true}
	}
	for _, b := range c.Behav {
		if b < 0 || b >= nBehavs {
			return pbt.Verdict{Discard: true}
		}
	}
	behav := map[string]int{}
	for h, b := range c.Behav {
		behav[host(h)] = b
	}
	tr := &scriptTransport{behav: behav}
	transportMu.Lock()
	saved := http.DefaultTransport
	http.DefaultTransport = tr
	defer func() {
		http.DefaultTransport = saved
		transportMu.Unlock()
	}()

	hosts := &recList{}
	hosts.set(nil)
	cc := tagclient.NewClusterClient(hosts, nil)
	d, _ := core.NewSHA256DigestFromHex(strings.Repeat("ab", 32))

	classes := map[string]bool{}
	nt := false
	for i, call := range c.Calls {
		hosts.set(call.List)
		tr.mu.Lock()
		tr.contacted = nil
		tr.mu.Unlock()
		var err error
		switch call.Method {
		case mPut:
			err = cc.Put("repo:tag", d)
		case mPutAndReplicate:
			err = cc.PutAndReplicate("repo:tag", d)
		case mGet:
			_, err = cc.Get("repo:tag")
		case mHas:
			_, err = cc.Has("repo:tag")
		case mList:
			_, err = cc.List("repo")
		case mListRepository:
			_, err = cc.ListRepository("repo")
		case mReplicate:
			err = cc.Replicate("repo:tag")
		case mOrigin:
			_, err = cc.Origin()
		case mCheckReadiness:
			err = cc.CheckReadiness()
		}
		limit := 3
		if call.Method == mCheckReadiness {
			limit = 1
		}
		tr.mu.Lock()
		contacted := append([]string(nil), tr.contacted...)
		tr.mu.Unlock()
		what := fmt.Sprintf("call %d tagclient cluster %s", i, methodNames[call.Method])
		msg, cl := judgeContacts(what, limit, hosts.cur, hosts.resolved, contacted,
			func(h string) bool { return behav[h] == bOK }, func(h string) bool { return behav[h] == bNet }, err)
		if msg != "" {
			return pbt.Fail("%s", msg)
		}
		if limit == 1 && len(call.List) > 0 {
			dist := stringset.FromSlice(contacted)
			if len(dist) != 1 {
				return pbt.Fail("single-attempt call did not contact exactly one host\n%s: list=%v contacted=%v err=%v", what, sorted(hosts.cur), contacted, err)
			}
			classes["single-attempt"] = true
			if len(call.List) > 1 {
				classes["single-attempt-on-multi-host-list"] = true
			}
		}
		for _, x := range cl {
			classes[x] = true
		}
		if len(call.List) > limit && (limit == 1 || len(stringset.FromSlice(contacted)) > 1) {
			nt = true
		}
	}
	var cl []string
	for k := range classes {
		cl = append(cl, k)
	}
	sort.Strings(cl)
	v := pbt.OK(nt, cl...)
	v.Evals = len(c.Calls)
	return v
}

func TestProp(t *testing.T) {
	pbt.Main(t, pbt.Spec{
		ID: "C25",
		Rule: "part sample: sets of 0-30 hosts, 1-6 Sample(n) calls with n in 0..35 biased to 0 and to the set size; result must have min(n,size) members, all from the set, set unchanged. " +
			"part locations: universe of 0-30 origins each scripted to fail or answer, 1-4 blobclient.Locations requests each on a drawn sub-list, through a recording Provider. " +
			"part tagclient: universe of 0-30 build-index hosts each scripted (network error / 200 / 404 / 500 / 503), 1-5 calls of the real tagclient cluster client " +
			"(Put, PutAndReplicate, Get, Has, List, ListRepository, Replicate, Origin = 3 attempts; CheckReadiness = 1) each on a drawn sub-list, network replaced by a recording http transport. " +
			"Oracle per request: distinct hosts contacted <= 3 (exactly 1 for CheckReadiness on a non-empty list), all from the list resolved for that request, empty list => error without contact, " +
			"nothing contacted after a successful answer and success reported then, failure reported when every contacted host failed at network level and then min(limit,size) distinct hosts were tried. " +
			"An evaluation is one Sample call / one request; non-trivial = n < set size (sample) or a request on a list larger than its limit that needed a retry (or any single-attempt call on such a list); distinct by case hash",
		Assumptions: []string{
			"the recording Provider / http.DefaultTransport replacement observe every host contact (the tag client uses http.DefaultTransport when no TLS config is given)",
			"a host is 'contacted' when a request is sent to it; creating a client object for an address is not a contact",
		},
		Parts: []pbt.Part{
			pbt.NewPart("sample", 2, genSample, runSample),
			pbt.NewPart("locations", 2, genLoc, runLoc),
			pbt.NewPart("tagclient", 3, genTag, runTag),
		},
	})
}
