// C28 — the Redis peer store round-trips every announced peer.

//go:debug randseednop=0

package c28

import (
	"encoding/hex"
	"encoding/json"
	"fmt"
	"hash/fnv"
	"math/rand"
	"net"
	"sort"
	"strings"
	"sync"
	"sync/atomic"
	"testing"
	"time"

	"github.com/alicebob/miniredis"
	"github.com/andres-erbsen/clock"
	"github.com/uber/kraken/core"
	"github.com/uber/kraken/tracker/peerstore"
	"pgregory.net/rapid"

	"verif/internal/pbt"
)

// hclock: harness-owned clock (see c27: Mock.Add sleeps 1 ms per call; RedisStore only calls Now).
type hclock struct {
	*clock.Mock
	ns atomic.Int64
}

func (c *hclock) Now() time.Time { return time.Unix(0, c.ns.Load()) }

// seedGlobalRand pins math/rand (window shuffle in RedisStore.GetPeers, SRANDMEMBER in
// miniredis) per case so that a failing case fails the same way on every run.
func seedGlobalRand(c interface{}) {
	b, _ := json.Marshal(c)
	h := fnv.New64a()
	h.Write(b)
	rand.Seed(int64(h.Sum64()))
}

// One in-process redis, one harness clock and one RedisStore per (window, windows)
// configuration live for the whole process: a store (and its connection pool, which
// RedisStore.Close does not release) per case would burn two TCP connections per
// case and exhaust the ephemeral ports in the thorough tier. Cases run one at a
// time; each starts from FLUSHALL and its own start time.
var shared struct {
	mr     *miniredis.Miniredis
	clk    *hclock
	stores map[[2]int]*peerstore.RedisStore
}

func env(windowSec, windows int) (*miniredis.Miniredis, *hclock, *peerstore.RedisStore, error) {
	if shared.mr == nil {
		mr, err := miniredis.Run()
		if err != nil {
			return nil, nil, nil, err
		}
		shared.mr = mr
		shared.clk = &hclock{Mock: clock.NewMock()}
		shared.stores = map[[2]int]*peerstore.RedisStore{}
	}
	key := [2]int{windowSec, windows}
	s := shared.stores[key]
	if s == nil {
		var err error
		s, err = peerstore.NewRedisStore(peerstore.RedisConfig{
			Addr:              shared.mr.Addr(),
			PeerSetWindowSize: time.Duration(windowSec) * time.Second,
			MaxPeerSetWindows: windows,
			MaxIdleConns:      1,
			IdleConnTimeout:   24 * time.Hour,
			ReadTimeout:       2 * time.Minute,
			WriteTimeout:      2 * time.Minute,
		}, shared.clk)
		if err != nil {
			return nil, nil, nil, err
		}
		shared.stores[key] = s
	}
	return shared.mr, shared.clk, s, nil
}

type Peer struct {
	ID       string `json:"id"`    // 40 hex digits
	Addr     string `json:"addr"`  // what the agent reports as its ip / host name
	Class    string `json:"class"` // generator label of Addr (evidence only)
	Port     int    `json:"port"`
	Complete bool   `json:"complete"` // flag of the peer's first announcement
}

// Step kinds: 0 announce, 1 advance clock, 2 lookup, 3 several lookups at the same time (the tracker
// serves announces in parallel), followed by a full lookup that is judged like any other.
type Step struct {
	K    int  `json:"k"`
	Peer int  `json:"peer,omitempty"`
	T    int  `json:"t,omitempty"`
	Done bool `json:"done,omitempty"` // announce: the peer has finished the download by now (flags only ever go false -> true)
	Sec  int  `json:"sec,omitempty"`  // advance: seconds (clipped to what keeps every announcement inside the retained windows)
	N    int  `json:"n,omitempty"`    // lookup: 0 = full (n > 3 x peers), k>0 = ask for k peers
}

type Case struct {
	WindowSec int    `json:"window_s"`
	Windows   int    `json:"windows"`
	OffsetSec int    `json:"offset_s"` // start time relative to a window boundary
	Peers     []Peer `json:"peers"`
	Steps     []Step `json:"steps"`
}

const numTorrents = 2

var hostLabel = rapid.StringMatching(`[a-z][a-z0-9-]{0,10}[a-z0-9]`)

func genAddr(t *rapid.T) (string, string) {
	class := rapid.SampledFrom([]string{"ipv4", "ipv4", "hostname", "hostname", "ipv6-compressed", "ipv6-compressed", "ipv6-full", "ipv6-zone", "ipv6-ipv4-mapped", "ipv6-short"}).Draw(t, "class")
	b := rapid.SliceOfN(rapid.Byte(), 16, 16).Draw(t, "addrbytes")
	switch class {
	case "ipv4":
		return fmt.Sprintf("%d.%d.%d.%d", b[0], b[1], b[2], b[3]), class
	case "hostname":
		n := rapid.IntRange(1, 4).Draw(t, "labels")
		var ls []string
		for i := 0; i < n; i++ {
			ls = append(ls, hostLabel.Draw(t, "label"))
		}
		return strings.Join(ls, "."), class
	case "ipv6-compressed":
		// Canonical text form; zero a run of groups so that "::" appears.
		z := rapid.IntRange(0, 6).Draw(t, "zerofrom")
		for i := 2 * z; i < 2*z+4 && i < 16; i++ {
			b[i] = 0
		}
		b[0] = 0x20 | b[0]&0x0f
		return net.IP(b).String(), class
	case "ipv6-full":
		var g []string
		for i := 0; i < 16; i += 2 {
			g = append(g, fmt.Sprintf("%02x%02x", b[i], b[i+1]))
		}
		return strings.Join(g, ":"), class
	case "ipv6-zone":
		return fmt.Sprintf("fe80::%x:%x%%%s", uint16(b[0])<<8|uint16(b[1]), uint16(b[2])<<8|uint16(b[3]),
			rapid.SampledFrom([]string{"eth0", "en0", "2"}).Draw(t, "zone")), class
	case "ipv6-ipv4-mapped":
		return fmt.Sprintf("::ffff:%d.%d.%d.%d", b[0], b[1], b[2], b[3]), class
	default: // ipv6-short
		return rapid.SampledFrom([]string{"::1", "::", "fe80::1", "2001:db8::1"}).Draw(t, "short"), class
	}
}

func gen(t *rapid.T) Case {
	c := Case{
		WindowSec: rapid.SampledFrom([]int{10, 30, 3600}).Draw(t, "window"),
		Windows:   rapid.SampledFrom([]int{2, 3, 5}).Draw(t, "windows"),
	}
	c.OffsetSec = rapid.IntRange(0, c.WindowSec-1).Draw(t, "offset")
	np := rapid.IntRange(1, 6).Draw(t, "npeers")
	ids := map[string]bool{}
	for i := 0; i < np; i++ {
		idb := rapid.SliceOfN(rapid.Byte(), 20, 20).Draw(t, "id")
		idb[0] = byte(i)<<5 | idb[0]&0x1f // distinct by construction
		id := hex.EncodeToString(idb)
		ids[id] = true
		addr, class := genAddr(t)
		p := Peer{
			ID: id, Addr: addr, Class: class,
			Port:     rapid.SampledFrom([]int{0, 1, 80, 6881, 16001, 32767, 65535, rapid.IntRange(0, 65535).Draw(t, "rport")}).Draw(t, "port"),
			Complete: rapid.Bool().Draw(t, "complete"),
		}
		// An agent keeps its peer id across restarts: the same id may announce again from
		// another port or another address (a peer is the triple id, address, port).
		if i > 0 && rapid.IntRange(0, 4).Draw(t, "moved") == 0 {
			prev := c.Peers[rapid.IntRange(0, i-1).Draw(t, "moved_from")]
			p.ID = prev.ID
			switch rapid.IntRange(0, 2).Draw(t, "moved_how") {
			case 0: // new port, same address
				p.Addr, p.Class = prev.Addr, prev.Class
				if p.Port == prev.Port {
					p.Port = (prev.Port + 1) % 65536
				}
			case 1: // new address, same port
				p.Port = prev.Port
			}
		}
		c.Peers = append(c.Peers, p)
	}
	chunks := rapid.SliceOfN(rapid.SliceOfN(rapid.Custom(func(t *rapid.T) Step {
		k := rapid.SampledFrom([]int{0, 0, 0, 0, 0, 0, 0, 0, 1, 1, 2, 2, 3}).Draw(t, "k")
		s := Step{K: k}
		switch k {
		case 0:
			s.Peer = rapid.IntRange(0, np-1).Draw(t, "peer")
			s.T = rapid.SampledFrom([]int{0, 0, 0, 1}).Draw(t, "t")
			s.Done = rapid.IntRange(0, 3).Draw(t, "done") == 3
		case 1:
			s.Sec = rapid.IntRange(1, 2*c.WindowSec).Draw(t, "sec")
		case 2:
			s.T = rapid.SampledFrom([]int{0, 0, 0, 1}).Draw(t, "t")
			s.N = rapid.IntRange(0, 4).Draw(t, "n")
		case 3:
			s.T = rapid.SampledFrom([]int{0, 0, 0, 1}).Draw(t, "t")
			s.N = rapid.IntRange(3, 8).Draw(t, "goroutines")
		}
		return s
	}), 0, 8), 1, 5).Draw(t, "steps")
	for _, ch := range chunks {
		c.Steps = append(c.Steps, ch...)
	}
	return c
}

func torrent(i int) core.InfoHash {
	var h core.InfoHash
	for k := range h {
		h[k] = byte(0x51 + 0x29*i + 3*k)
	}
	return h
}

type rec struct {
	complete bool
	flags    map[bool]bool // every flag value the peer ever announced for the torrent
}

// run judges the case; a store call that returns an error (which may be a broken
// connection to the in-process redis rather than the store's doing) is only
// reported when it happens again on a second run of the case (the store's
// connection pool discards a connection that failed and dials a new one).
func run(c Case) pbt.Verdict {
	v, ioErr := runOnce(c)
	if !ioErr {
		return v
	}
	v2, _ := runOnce(c)
	if v2.Violation == "" {
		v2.Classes = append(v2.Classes, "store-error-not-reproduced")
	}
	return v2
}

func runOnce(c Case) (verdict pbt.Verdict, storeError bool) {
	if c.WindowSec < 1 || c.WindowSec > 86400 || c.Windows < 2 || c.Windows > 50 || c.OffsetSec < 0 || c.OffsetSec >= c.WindowSec || len(c.Peers) == 0 || len(c.Peers) > 64 {
		return pbt.Verdict{Discard: true}, false
	}
	// A peer is the triple (id, address, port); several peers may share an id.
	type ident struct {
		id   core.PeerID
		addr string
		port int
	}
	ids := make([]core.PeerID, len(c.Peers))
	idx := map[ident]int{}
	sharedID := map[core.PeerID]int{}
	for i, p := range c.Peers {
		id, err := core.NewPeerID(p.ID)
		if err != nil || p.Port < 0 || p.Port > 65535 {
			return pbt.Verdict{Discard: true}, false
		}
		k := ident{id, p.Addr, p.Port}
		if _, dup := idx[k]; dup {
			return pbt.Verdict{Discard: true}, false
		}
		ids[i] = id
		idx[k] = i
		sharedID[id]++
	}
	for _, s := range c.Steps {
		if s.K < 0 || s.K > 3 || s.Peer < 0 || s.Peer >= len(c.Peers) || s.T < 0 || s.T >= numTorrents || s.N < 0 || s.Sec < 0 {
			return pbt.Verdict{Discard: true}, false
		}
	}
	seedGlobalRand(c)

	window := time.Duration(c.WindowSec) * time.Second
	start := time.Unix(1600000000-1600000000%int64(c.WindowSec)+int64(c.OffsetSec), 0)
	mr, clk, s, err := env(c.WindowSec, c.Windows)
	if err != nil {
		return pbt.Verdict{Discard: true}, false // infrastructure: the in-process redis could not be started or reached
	}
	mr.FlushAll()
	clk.ns.Store(start.UnixNano())
	mr.SetTime(start)

	// Every announcement stays readable while less than (windows-1) * window has passed since
	// it was made (its window is then still one of the windows a lookup reads and its key has
	// not reached EXPIREAT). The case never advances further than that in total.
	budget := time.Duration(c.Windows-1)*window - time.Second
	model := make([]map[int]*rec, numTorrents)
	for t := range model {
		model[t] = map[int]*rec{}
	}
	latest := make([]map[core.PeerID]int, numTorrents) // per torrent: the peer that announced last under each id
	for t := range latest {
		latest[t] = map[core.PeerID]int{}
	}
	classes := map[string]bool{}
	fullLookups, windowsCrossed := 0, 0

	storeErr := false
	lookup := func(step int, t, n int) string {
		pop := len(model[t])
		full := n == 0
		if full {
			// Each retained window is asked for n-len(selected) random members and may answer
			// with peers already selected from another window, so only a lookup at least as
			// large as (identities selected so far) + (members of any one window) is certain
			// to read every member: a window holds at most 2 encodings per peer (flag 0 / 1).
			n = 3*len(c.Peers) + 1 + step%3
		}
		got, err := s.GetPeers(torrent(t), n)
		if err != nil {
			storeErr = true
			return fmt.Sprintf("GetPeers failed (step %d): %v", step, err)
		}
		where := fmt.Sprintf("step %d: GetPeers(t%d, %d), %d peers announced, window %ds x %d", step, t, n, pop, c.WindowSec, c.Windows)
		if len(got) > n {
			return fmt.Sprintf("GetPeers returned %d peers, more than the %d asked for (%s)", len(got), n, where)
		}
		seen := map[int]*core.PeerInfo{}
		var unknown []string
		for _, g := range got {
			if g == nil {
				return fmt.Sprintf("GetPeers returned a nil peer (%s)", where)
			}
			i, ok := idx[ident{g.PeerID, g.IP, g.Port}]
			if !ok {
				unknown = append(unknown, fmt.Sprintf("%s@%s:%d", g.PeerID.String()[:6], g.IP, g.Port))
				continue
			}
			if seen[i] != nil {
				return fmt.Sprintf("peer %d (%s %q) returned twice (%s)", i, c.Peers[i].Class, c.Peers[i].Addr, where)
			}
			seen[i] = g
		}
		if len(unknown) > 0 {
			sort.Strings(unknown)
			return fmt.Sprintf("GetPeers returned peers nobody announced: %v (%s)", unknown, where)
		}
		for i := range c.Peers {
			g := seen[i]
			m := model[t][i]
			if g == nil {
				// Of several peers that share an id, the one that announced last must be there;
				// whether the earlier ones still are is not judged.
				if m != nil && full && latest[t][ids[i]] == i {
					return fmt.Sprintf("announced peer not returned: peer %d class=%s addr=%q port=%d complete=%v (%s)", i, c.Peers[i].Class, c.Peers[i].Addr, c.Peers[i].Port, m.complete, where)
				}
				continue
			}
			if m == nil {
				return fmt.Sprintf("peer %d returned for a torrent it never announced (%s)", i, where)
			}
			if g.IP != c.Peers[i].Addr || g.Port != c.Peers[i].Port {
				return fmt.Sprintf("peer %d came back with a different address: announced %q port %d (class %s), returned %q port %d (%s)", i, c.Peers[i].Addr, c.Peers[i].Port, c.Peers[i].Class, g.IP, g.Port, where)
			}
			// A full lookup reads every member of every retained window, so the flag is the
			// latest one; a smaller lookup may stop at an older window (limitation documented in
			// GetPeers), so it is judged only for peers that always announced the same flag.
			if full || len(m.flags) == 1 {
				if g.Complete != m.complete {
					return fmt.Sprintf("peer %d came back with completion flag %v, announced %v (class %s addr %q; %s)", i, g.Complete, m.complete, c.Peers[i].Class, c.Peers[i].Addr, where)
				}
			}
		}
		if full && pop > 0 {
			fullLookups++
		}
		return ""
	}

	for i, st := range c.Steps {
		switch st.K {
		case 0:
			m := model[st.T][st.Peer]
			complete := c.Peers[st.Peer].Complete || st.Done
			if m != nil {
				complete = complete || m.complete
				classes["re-announce"] = true
				if complete != m.complete {
					classes["flag-upgrade"] = true
				}
			}
			p := core.NewPeerInfo(ids[st.Peer], c.Peers[st.Peer].Addr, c.Peers[st.Peer].Port, false, complete)
			if err := s.UpdatePeer(torrent(st.T), p); err != nil {
				return pbt.Fail("UpdatePeer failed (step %d, class %s addr %q): %v", i, c.Peers[st.Peer].Class, c.Peers[st.Peer].Addr, err), true
			}
			if m == nil {
				m = &rec{flags: map[bool]bool{}}
				model[st.T][st.Peer] = m
			}
			m.complete = complete
			m.flags[complete] = true
			if prev, ok := latest[st.T][ids[st.Peer]]; ok && prev != st.Peer {
				classes["same-id-announces-from-another-address-or-port"] = true
			}
			latest[st.T][ids[st.Peer]] = st.Peer
		case 1:
			d := time.Duration(st.Sec) * time.Second
			if d > budget {
				d = budget
			}
			if d <= 0 {
				classes["advance-skipped"] = true
				continue
			}
			budget -= d
			before := clk.Now().Unix() / int64(c.WindowSec)
			clk.ns.Add(int64(d))
			mr.SetTime(clk.Now())
			mr.FastForward(d)
			if clk.Now().Unix()/int64(c.WindowSec) != before {
				windowsCrossed++
			}
		case 2:
			if msg := lookup(i, st.T, st.N); msg != "" {
				return pbt.Fail("%s", msg), storeErr
			}
			if st.N > 0 {
				classes["partial-lookup"] = true
			}
		case 3:
			g := st.N
			if g < 2 {
				g = 2
			}
			if g > 8 {
				g = 8
			}
			var wg sync.WaitGroup
			start := make(chan struct{})
			for k := 0; k < g; k++ {
				wg.Add(1)
				go func() {
					defer wg.Done()
					<-start
					for r := 0; r < 16; r++ {
						s.GetPeers(torrent(st.T), 3*len(c.Peers)+1)
					}
				}()
			}
			close(start)
			wg.Wait()
			classes["concurrent-lookups"] = true
			if msg := lookup(i, st.T, 0); msg != "" {
				return pbt.Fail("after %d goroutines looked the torrent up at the same time: %s", g, msg), storeErr
			}
		}
	}
	for t := 0; t < numTorrents; t++ {
		if msg := lookup(len(c.Steps)+t, t, 0); msg != "" {
			return pbt.Fail("%s", msg), storeErr
		}
	}
	announced := map[int]bool{}
	for t := range model {
		for i := range model[t] {
			announced[i] = true
		}
	}
	for i := range announced {
		classes["addr-"+c.Peers[i].Class] = true
	}
	if windowsCrossed > 0 {
		classes["spans-several-windows"] = true
	}
	var cl []string
	for k := range classes {
		cl = append(cl, k)
	}
	sort.Strings(cl)
	return pbt.OK(fullLookups > 0 && len(announced) > 0, cl...), false
}

func TestProp(t *testing.T) {
	pbt.Main(t, pbt.Spec{
		ID: "C28",
		Rule: "1-6 peers with drawn 20-byte ids (one in five shares its id with an earlier peer and differs in port and/or address: an agent that came back elsewhere), addresses from {IPv4, host name, IPv6 canonical/compressed, full 8-group, with zone, IPv4-mapped, short forms}, ports 0-65535 and completion flag announce 1-2 torrents through the real RedisStore on an in-process miniredis (window 10s|30s|1h x 2|3|5 windows, start at a drawn offset inside a window); steps: announce (flags only go false->true), 2-6 goroutines looking a torrent up at the same time, advance the shared clock (total kept below (windows-1)*window so every announcement is still retained), lookup; every lookup must return <= n distinct announced peers with the announced address and port, and a lookup asking for more than three times the number of peers (large enough that every retained window is read completely) must return exactly the announced set with the latest flags (of several peers sharing an id, the one that announced last must be present; the earlier ones may be). " +
			"non-trivial = at least one announced peer and one full lookup; distinct by case hash",
		Assumptions: []string{
			"miniredis v2.5.0 stands in for Redis (SADD, EXPIREAT, SRANDMEMBER); its clock is set and fast-forwarded together with the harness clock",
			"peer ids are distinct per peer; a peer keeps its address and port; completion flags never go back to false",
			"expiry of old windows is not judged (the statement is about round-tripping)",
			"a store call returning an error is reported only if it does so again on a second run of the case",
		},
		Parts: []pbt.Part{pbt.NewPart("roundtrip", 1, gen, run)},
	})
}
