// C10 — files awaiting write-back are never deleted; cleanup removes exactly idle files.
//
// A content-addressed file store with a small LRU file map (the backend of the
// CAStore cache) runs on a mock clock over a scratch directory. Generated histories
// create files, read them, set / clear the persist flag, advance the clock, delete,
// overflow the map (LRU eviction + later reload from disk), reopen the store and run
// cleanup passes (normal TTI/TTL pass, aggressive TTL pass, usage-driven policy pass).
// A reference model of {exists, mtime, last access time, persist flag} written from
// the property statement and the CleanupConfig / FileMap documentation judges every step.
package c10

import (
	"fmt"
	"io"
	"os"
	"path/filepath"
	"sort"
	"testing"
	"time"

	"crypto/sha256"
	"encoding/hex"

	"github.com/andres-erbsen/clock"
	"github.com/uber-go/tally"
	"github.com/uber/kraken/lib/store"
	"github.com/uber/kraken/lib/store/base"
	"github.com/uber/kraken/lib/store/metadata"
	"github.com/uber/kraken/utils/diskspaceutil"
	"github.com/uber/kraken/utils/log"
	"go.uber.org/zap"
	"pgregory.net/rapid"

	"verif/internal/pbt"
)

const nKeys = 5

// TimeSpec is a duration for a cleanup pass: absolute seconds, or relative to the
// model's idle time (now - last access) or age (now - mtime) of a key, plus Delta
// seconds, so that the strict-inequality boundaries of the rule are hit exactly.
type TimeSpec struct {
	Rel   string `json:"rel,omitempty"` // "" | idle | age
	Key   int    `json:"key,omitempty"`
	Delta int    `json:"delta,omitempty"`
	Abs   int    `json:"abs"`
}

// Op kinds:
//
//	create        CreateFile(key, size); only when the model says the key is absent
//	read          GetFileReader + read everything + close (an access)
//	readlater     clock += Dt seconds, then read (a consumer fetching the file later)
//	hot           N reads of one file, the clock advancing Dt seconds (below the 5-minute last-access
//	              resolution) before each: a file in steady use over a span that may exceed the idle limit
//	stat          GetFileStat (loads the entry into the map without counting as an access)
//	persist       SetFileMetadata(Persist(Flag))
//	clearpersist  DeleteFileMetadata(Persist) (what the origin's forced cleanup does after write-back)
//	advance       clock += Dt seconds
//	delete        DeleteFile
//	reopen        new file store object on the same directory (process restart)
//	pass          one cleanup pass, see Mode
//
// Pass modes:
//
//	normal        cleanupManager.cleanup with TTI, TTL, aggressive cleanup disabled
//	aggr-ttl      ttlBasedCleanup(TTI, aggressive TTL, lower threshold, injected disk usage)
//	policy        customPolicyBasedCleanup(cachedInAgentPolicy, lower threshold, injected disk usage)
//	real-aggr     cleanupManager.cleanup with AggressiveThreshold 1 (real disk util is above), no lower threshold
//	real-calm     cleanupManager.cleanup with AggressiveThreshold 100 (real disk util is below) and a tiny aggressive TTL
//	real-policy   cleanupManager.cleanup with AggressiveThreshold 1 and a lower threshold: usage-driven policy on the real disk numbers
type Op struct {
	Kind  string   `json:"kind"`
	Key   int      `json:"key"`
	Size  int      `json:"size,omitempty"`
	Back  int      `json:"back,omitempty"` // create: the data file was written Back seconds before it entered the store (mtime = now - Back)
	Flag  bool     `json:"flag,omitempty"`
	Dt    int      `json:"dt,omitempty"`
	N     int      `json:"n,omitempty"` // hot: number of reads
	Mode  string   `json:"mode,omitempty"`
	TTI   TimeSpec `json:"tti,omitempty"`
	TTL   TimeSpec `json:"ttl,omitempty"`
	NoTTL bool     `json:"no_ttl,omitempty"`
	Lower int      `json:"lower,omitempty"`  // lower threshold in percent
	Total int      `json:"total,omitempty"`  // injected disk size in bytes
	Extra int      `json:"extra,omitempty"`  // injected used bytes beyond the store's files
	AtLow bool     `json:"at_low,omitempty"` // aggr-ttl: the injected disk size puts the usage exactly on the lower threshold
}

type Case struct {
	Cap int  `json:"cap"`
	Ops []Op `json:"ops"`
}

var advances = []int{1, 2, 60, 299, 300, 301, 600, 601, 2640, 2700, 2701, 3600, 3601, 7200, 21600, 21601, 86401}
var absDurations = []int{600, 3600, 21600, 86400}

func genSpec(t *rapid.T, label string) TimeSpec {
	s := TimeSpec{Abs: rapid.SampledFrom(absDurations).Draw(t, label+"abs")}
	switch rapid.IntRange(0, 3).Draw(t, label+"kind") {
	case 0, 1:
		s.Rel = "idle"
	case 2:
		s.Rel = "age"
	}
	if s.Rel != "" {
		s.Key = rapid.IntRange(0, nKeys-1).Draw(t, label+"key")
		s.Delta = rapid.SampledFrom([]int{-1, 0, 0, 1}).Draw(t, label+"delta")
	}
	return s
}

func gen(t *rapid.T) Case {
	var c Case
	c.Cap = rapid.SampledFrom([]int{2, 3, 3, 4, 4, 16}).Draw(t, "cap")
	kinds := []string{"create", "create", "create", "create", "create", "read", "read", "read", "readlater", "readlater", "readlater", "hot", "hot", "hot", "stat",
		"persist", "persist", "persist", "persist", "persist", "clearpersist", "advance", "advance", "advance", "advance", "advance",
		"delete", "delete", "reopen", "pass", "pass", "pass", "pass", "pass", "pass"}
	modes := []string{"normal", "normal", "normal", "aggr-ttl", "aggr-ttl", "policy", "policy", "policy", "policy", "real-aggr", "real-calm", "real-policy"}
	// Setup prefix: a few files, usually one of them awaiting write-back.
	nInit := rapid.IntRange(2, 4).Draw(t, "ninit")
	for i := 0; i < nInit; i++ {
		c.Ops = append(c.Ops, Op{Kind: "create", Key: i, Size: rapid.IntRange(0, 64).Draw(t, "isize"), Back: rapid.SampledFrom([]int{0, 0, 1, 2}).Draw(t, "iback")})
	}
	if rapid.IntRange(0, 3).Draw(t, "ipersist") > 0 {
		c.Ops = append(c.Ops, Op{Kind: "persist", Key: rapid.IntRange(0, nInit-1).Draw(t, "ipkey"), Flag: true})
	}
	rest := rapid.SliceOfN(rapid.Custom(func(t *rapid.T) Op {
		op := Op{Kind: rapid.SampledFrom(kinds).Draw(t, "kind"), Key: rapid.IntRange(0, nKeys-1).Draw(t, "key")}
		switch op.Kind {
		case "create":
			op.Size = rapid.IntRange(0, 64).Draw(t, "size")
			op.Back = rapid.SampledFrom([]int{0, 0, 0, 1, 2, 30}).Draw(t, "back")
		case "readlater":
			op.Dt = rapid.SampledFrom([]int{299, 300, 301, 600, 2698, 2699, 2700, 2700, 2701, 2702, 3600, 7200}).Draw(t, "dt")
		case "hot":
			// every gap is below the resolution; the burst as a whole usually spans several resolutions
			op.Dt = rapid.SampledFrom([]int{1, 60, 100, 150, 240, 299, 299}).Draw(t, "gap")
			op.N = rapid.SampledFrom([]int{2, 2, 3, 3, 4, 5, 6, 8, 12, 20}).Draw(t, "n")
		case "persist":
			op.Flag = rapid.IntRange(0, 5).Draw(t, "flag") > 0
		case "advance":
			op.Dt = rapid.SampledFrom(advances).Draw(t, "dt")
		case "pass":
			op.Mode = rapid.SampledFrom(modes).Draw(t, "mode")
			op.TTI = genSpec(t, "tti")
			op.TTL = genSpec(t, "ttl")
			op.NoTTL = op.Mode == "normal" && rapid.IntRange(0, 2).Draw(t, "nottl") == 0
			switch op.Mode {
			case "aggr-ttl":
				op.Lower = rapid.SampledFrom([]int{0, 0, 10, 50, 90}).Draw(t, "lower")
				op.Total = rapid.IntRange(100, 1000).Draw(t, "total")
				op.Extra = rapid.IntRange(0, 400).Draw(t, "extra")
				if rapid.IntRange(0, 3).Draw(t, "atlow") == 0 {
					op.AtLow = true
					op.Lower = rapid.SampledFrom([]int{10, 50}).Draw(t, "lower2")
				}
			case "policy":
				op.Lower = rapid.IntRange(1, 99).Draw(t, "lower")
				op.Total = rapid.IntRange(1, 100).Draw(t, "total")
				op.Extra = rapid.IntRange(0, 20).Draw(t, "extra")
			case "real-policy":
				op.Lower = rapid.SampledFrom([]int{1, 50, 99}).Draw(t, "lower")
			}
		}
		return op
	}), 4, 36).Draw(t, "ops")
	c.Ops = append(c.Ops, rest...)
	// Steady-use epilogue (2 of 3 cases): whatever state the history left, one file is read at a
	// cadence below the resolution for a while, optionally left alone for a moment, and a
	// cleanup pass in one of the exactly judged modes follows, its TTI placed around that
	// file's idle time or drawn from the absolute menu. Random histories are short, so
	// without this a burst is rarely followed by a pass that judges the file.
	if rapid.IntRange(0, 2).Draw(t, "steady") > 0 {
		key := rapid.IntRange(0, nKeys-1).Draw(t, "skey")
		c.Ops = append(c.Ops, Op{Kind: "hot", Key: key,
			Dt: rapid.SampledFrom([]int{60, 150, 240, 299, 299}).Draw(t, "sgap"),
			N:  rapid.SampledFrom([]int{2, 3, 3, 4, 5, 6, 8, 12}).Draw(t, "sn")})
		if adv := rapid.SampledFrom([]int{0, 0, 0, 1, 60, 299, 300, 600}).Draw(t, "sadv"); adv > 0 {
			c.Ops = append(c.Ops, Op{Kind: "advance", Dt: adv})
		}
		p := Op{Kind: "pass", Mode: rapid.SampledFrom([]string{"normal", "normal", "normal", "aggr-ttl", "real-calm"}).Draw(t, "smode")}
		p.TTI = TimeSpec{Abs: rapid.SampledFrom([]int{600, 600, 3600}).Draw(t, "sabs")}
		if rapid.IntRange(0, 2).Draw(t, "srel") > 0 {
			p.TTI.Rel, p.TTI.Key = "idle", key
			p.TTI.Delta = rapid.SampledFrom([]int{-1, 0, 0, 1}).Draw(t, "sdelta")
		}
		p.TTL = genSpec(t, "sttl")
		p.NoTTL = p.Mode == "normal" && rapid.IntRange(0, 2).Draw(t, "snottl") > 0
		if p.Mode == "aggr-ttl" {
			p.Total = rapid.IntRange(100, 1000).Draw(t, "stotal")
			p.Extra = rapid.IntRange(0, 400).Draw(t, "sextra")
		}
		c.Ops = append(c.Ops, p)
	}
	return c
}

func nameOf(k int) string {
	s := sha256.Sum256([]byte{byte(k), 'c', '1', '0'})
	return hex.EncodeToString(s[:])
}

// fileModel is the reference state of one key.
type fileModel struct {
	exists  bool
	persist bool
	size    int64
	mtime   int64 // unix seconds (harness clock)
	// last access time: every value the implementation may legitimately hold lies in
	// {latLo, latHi}; equal when the model knows it exactly.
	latLo, latHi int64
}

// hotParams clamps a hot op to its domain: 1..maxHot reads, gaps of 1..resolution-1 seconds.
func hotParams(op Op) (n int, gap int64) {
	return min(max(op.N, 1), maxHot), int64(min(max(op.Dt, 1), resolution-1))
}

const maxHot = 64 // cap on the reads of one hot op (replay files are not trusted to be small)

const resolution = 300 // documented: "Min timespan between two updates of LAT for the same file" = 5 minutes

func touched(lat, now int64) int64 {
	if now-lat >= resolution {
		return now
	}
	return lat
}

// access applies a certain access (read) to the model.
func (f *fileModel) access(now int64) {
	a, b := touched(f.latLo, now), touched(f.latHi, now)
	if a > b {
		a, b = b, a
	}
	f.latLo, f.latHi = a, b
}

// maybeAccess applies an operation that the documentation does not clearly class as an
// access (metadata writes take the write-level map lock, which "updates last access time").
func (f *fileModel) maybeAccess(now int64) {
	cands := []int64{f.latLo, f.latHi, touched(f.latLo, now), touched(f.latHi, now)}
	lo, hi := cands[0], cands[0]
	for _, c := range cands {
		if c < lo {
			lo = c
		}
		if c > hi {
			hi = c
		}
	}
	f.latLo, f.latHi = lo, hi
}

type world struct {
	dir   string
	cap   int
	clk   *clock.Mock
	fs    base.FileStore
	state base.FileState
	vc    *store.VerifCleanup
	m     [nKeys]fileModel
	// shadow of the LRU map order, used ONLY to label classes (never by the oracle)
	lru []int
	// labels only: keys that went through a hot burst spanning more than two resolutions
	hot [nKeys]bool
}

// pick maps a drawn index to the idx-th absent (wantAbsent) or existing key, -1 when there is none.
func (w *world) pick(idx int, wantAbsent bool) int {
	var ks []int
	for k := 0; k < nKeys; k++ {
		if w.m[k].exists != wantAbsent {
			ks = append(ks, k)
		}
	}
	if len(ks) == 0 {
		return -1
	}
	if idx < 0 {
		idx = -idx
	}
	return ks[idx%len(ks)]
}

func (w *world) op() base.FileOp { return w.fs.NewFileOp().AcceptState(w.state) }

func (w *world) now() int64 { return w.clk.Now().Unix() }

func (w *world) dataDir(k int) string {
	n := nameOf(k)
	return filepath.Join(w.dir, n[0:2], n[2:4], n)
}

func (w *world) onDisk(k int) bool {
	_, err := os.Stat(filepath.Join(w.dataDir(k), base.DefaultDataFileName))
	return err == nil
}

func (w *world) diskLAT(k int) (int64, bool) {
	b, err := os.ReadFile(filepath.Join(w.dataDir(k), (&metadata.LastAccessTime{}).GetSuffix()))
	if err != nil {
		return 0, false
	}
	var lat metadata.LastAccessTime
	if lat.Deserialize(b) != nil {
		return 0, false
	}
	return lat.Time.Unix(), true
}

// collapse adopts the last access time found on disk when it is one of the values the
// model allows, so that later boundary checks are exact.
func (w *world) collapse(k int) {
	f := &w.m[k]
	if !f.exists || f.latLo == f.latHi {
		return
	}
	if v, ok := w.diskLAT(k); ok && (v == f.latLo || v == f.latHi) {
		f.latLo, f.latHi = v, v
	}
}

// --- LRU shadow (labels only) ---

func (w *world) shadowIndex(k int) int {
	for i, x := range w.lru {
		if x == k {
			return i
		}
	}
	return -1
}

// shadowLoad mirrors "look the entry up, loading it from disk when absent"; it returns the
// key evicted from the map, or -1.
func (w *world) shadowLoad(k int) int {
	evicted := -1
	if i := w.shadowIndex(k); i >= 0 {
		w.lru = append(w.lru[:i], w.lru[i+1:]...)
	}
	w.lru = append([]int{k}, w.lru...)
	if w.cap > 0 && len(w.lru) > w.cap {
		evicted = w.lru[len(w.lru)-1]
		w.lru = w.lru[:len(w.lru)-1]
	}
	return evicted
}

func (w *world) shadowRemove(k int) {
	if i := w.shadowIndex(k); i >= 0 {
		w.lru = append(w.lru[:i], w.lru[i+1:]...)
	}
}

// persistedIntact checks rule (1) on disk for every file the model says is persisted.
func (w *world) persistedIntact(when string) string {
	for k := 0; k < nKeys; k++ {
		f := &w.m[k]
		if !f.exists || !f.persist {
			continue
		}
		st, err := os.Stat(filepath.Join(w.dataDir(k), base.DefaultDataFileName))
		if err != nil {
			return fmt.Sprintf("file awaiting write-back was removed\n  %s: key %d (%s): data file: %v", when, k, nameOf(k)[:8], err)
		}
		if st.Size() != f.size {
			return fmt.Sprintf("file awaiting write-back changed size\n  %s: key %d: %d bytes, created with %d", when, k, st.Size(), f.size)
		}
		b, err := os.ReadFile(filepath.Join(w.dataDir(k), (&metadata.Persist{}).GetSuffix()))
		var p metadata.Persist
		if err != nil || p.Deserialize(b) != nil || !p.Value {
			return fmt.Sprintf("persist flag of a file awaiting write-back was lost\n  %s: key %d: %q, %v", when, k, b, err)
		}
		if _, ok := w.diskLAT(k); !ok {
			return fmt.Sprintf("last-access sidecar of a file awaiting write-back was lost\n  %s: key %d", when, k)
		}
	}
	return ""
}

// loggingOp records DeleteFile calls of a cleanup pass.
type loggingOp struct {
	base.FileOp
	attempts *[]attempt
}

type attempt struct {
	name string
	err  error
}

func (l loggingOp) DeleteFile(name string) error {
	err := l.FileOp.DeleteFile(name)
	*l.attempts = append(*l.attempts, attempt{name, err})
	return err
}

func resolve(s TimeSpec, w *world) (sec int64, boundary bool) {
	if s.Rel != "" {
		if k := w.pick(s.Key, false); k >= 0 {
			f := &w.m[k]
			v := w.now() - f.latHi
			if s.Rel == "age" {
				v = w.now() - f.mtime
			}
			v += int64(s.Delta)
			if v > 0 {
				return v, true
			}
		}
	}
	return int64(s.Abs), false
}

// tier is the documented priority class of the usage-driven policy: 0 = certainly cached by
// an agent (accessed more than 45 min away from its download), 1 = downloaded by a consumer
// (more than 1 s away), 2 = not served yet.
func tier(f *fileModel) int {
	d := f.latHi - f.mtime
	if d < 0 {
		d = -d
	}
	switch {
	case d > 45*60:
		return 0
	case d > 1:
		return 1
	}
	return 2
}

func less(a, b *fileModel) bool {
	if tier(a) != tier(b) {
		return tier(a) < tier(b)
	}
	return a.latHi < b.latHi
}

func run(c Case) pbt.Verdict {
	if c.Cap < 2 {
		c.Cap = 2
	}
	root, err := os.MkdirTemp("", "c10-")
	if err != nil {
		return pbt.Verdict{Discard: true}
	}
	defer os.RemoveAll(root)
	w := &world{dir: filepath.Join(root, "cache"), cap: c.Cap, clk: clock.NewMock()}
	if err := os.MkdirAll(w.dir, 0775); err != nil {
		return pbt.Verdict{Discard: true}
	}
	w.clk.Set(time.Unix(1700000000, 0))
	w.fs = base.NewCASFileStoreWithLRUMap(c.Cap, w.clk)
	w.state = base.NewFileState(w.dir)
	w.vc = store.NewVerifCleanup(w.clk, tally.NoopScope)
	defer w.vc.Stop()
	realUtil := -1
	if u, err := diskspaceutil.Usage(); err == nil {
		realUtil = u.Util
	}

	classes := map[string]bool{}
	survivedDelete, survivedEviction, survivedPass, passDeletedSibling, reloadedAfterEviction := false, false, false, false, false
	evictedPersisted := map[int]bool{}
	evals := 0

	// noteLoad updates the LRU shadow for an operation that looks key k up, and labels
	// evictions / reloads of persisted files.
	noteLoad := func(k int) {
		inMap := w.shadowIndex(k) >= 0
		if !inMap && evictedPersisted[k] {
			reloadedAfterEviction = true
			classes["persisted-file-reloaded-after-eviction"] = true
			delete(evictedPersisted, k)
		}
		if v := w.shadowLoad(k); v >= 0 && w.m[v].exists {
			if w.m[v].persist {
				evictedPersisted[v] = true
				survivedEviction = true
				classes["persisted-file-evicted-from-map"] = true
			} else {
				classes["lru-eviction-of-plain-file"] = true
			}
		}
	}
	// resync adopts what is on disk after a non-pass operation; only rule (1) is asserted.
	resync := func(when string, deleted int) string {
		for k := 0; k < nKeys; k++ {
			f := &w.m[k]
			if !f.exists || w.onDisk(k) {
				continue
			}
			if f.persist {
				return fmt.Sprintf("file awaiting write-back was removed\n  %s: key %d (%s) is gone", when, k, nameOf(k)[:8])
			}
			if k != deleted {
				classes["plain-file-gone-by-lru-eviction"] = true
			}
			f.exists = false
			w.shadowRemove(k)
		}
		return w.persistedIntact(when)
	}

	for i, op := range c.Ops {
		// The drawn key index selects among the keys the op applies to (absent keys for
		// create, existing keys otherwise), so that few ops are skipped.
		k := w.pick(op.Key, op.Kind == "create")
		if k < 0 {
			classes["skipped-op-without-applicable-key"] = true
			if op.Kind == "readlater" && op.Dt > 0 {
				w.clk.Add(time.Duration(op.Dt) * time.Second)
			}
			if op.Kind == "hot" {
				n, gap := hotParams(op)
				w.clk.Add(time.Duration(int64(n)*gap) * time.Second)
			}
			if op.Kind != "advance" && op.Kind != "reopen" && op.Kind != "pass" {
				continue
			}
			k = 0
		}
		f := &w.m[k]
		name := nameOf(k)
		when := fmt.Sprintf("after op %d (%s key %d)", i, op.Kind, k)
		switch op.Kind {
		case "create":
			if f.exists {
				classes["skipped-create-of-existing-key"] = true
				continue
			}
			if err := w.op().CreateFile(name, w.state, int64(op.Size)); err != nil {
				return pbt.Verdict{Discard: true, Classes: []string{"create-error"}}
			}
			now := w.clk.Now()
			if op.Back < 0 {
				op.Back = 0
			}
			mt := now.Add(-time.Duration(op.Back) * time.Second)
			if err := os.Chtimes(filepath.Join(w.dataDir(k), base.DefaultDataFileName), mt, mt); err != nil {
				return pbt.Verdict{Discard: true}
			}
			w.hot[k] = false
			*f = fileModel{exists: true, size: int64(op.Size), mtime: mt.Unix(), latLo: now.Unix(), latHi: now.Unix()}
			noteLoad(k)
			if msg := resync(when, -1); msg != "" {
				return pbt.Fail("%s", msg)
			}
		case "read", "readlater":
			if op.Kind == "readlater" && op.Dt > 0 {
				w.clk.Add(time.Duration(op.Dt) * time.Second)
			}
			r, err := w.op().GetFileReader(name, 0)
			if err == nil {
				b, rerr := io.ReadAll(r)
				r.Close()
				if f.exists && f.persist && (rerr != nil || int64(len(b)) != f.size) {
					return pbt.Fail("file awaiting write-back does not read back\n  %s: %d bytes, %v (created with %d)", when, len(b), rerr, f.size)
				}
			} else if f.exists && f.persist {
				return pbt.Fail("file awaiting write-back cannot be opened\n  %s: %v", when, err)
			}
			if f.exists {
				noteLoad(k)
				if err == nil {
					f.access(w.now())
				}
			}
			if msg := resync(when, -1); msg != "" {
				return pbt.Fail("%s", msg)
			}
		case "hot":
			// The file is read N times, every gap below the documented resolution. The model
			// applies the documented rule to every read, so after the burst the recorded last
			// access is never a full resolution behind the last read.
			n, gap := hotParams(op)
			first := w.now()
			refreshed := false
			for j := 0; j < n; j++ {
				w.clk.Add(time.Duration(gap) * time.Second)
				r, err := w.op().GetFileReader(name, 0)
				if err == nil {
					b, rerr := io.ReadAll(r)
					r.Close()
					if f.exists && f.persist && (rerr != nil || int64(len(b)) != f.size) {
						return pbt.Fail("file awaiting write-back does not read back\n  %s, read %d: %d bytes, %v (created with %d)", when, j, len(b), rerr, f.size)
					}
				} else if f.exists && f.persist {
					return pbt.Fail("file awaiting write-back cannot be opened\n  %s, read %d: %v", when, j, err)
				}
				if f.exists {
					noteLoad(k)
					if err == nil {
						was := f.latHi
						f.access(w.now())
						// labels: a refresh whose preceding read was less than a resolution ago
						if f.latHi != was && j > 0 {
							refreshed = true
						}
					}
				}
				// the directory is compared after the first read (which may load the entry and
				// evict another) and after the last one
				if j == 0 || j == n-1 {
					if msg := resync(when, -1); msg != "" {
						return pbt.Fail("%s", msg)
					}
				}
				if !f.exists {
					break
				}
			}
			if f.exists {
				classes["hot-file-burst"] = true
				if refreshed {
					classes["hot-file-burst-refreshed-last-access-mid-burst"] = true
				}
				if w.now()-first > 2*resolution {
					w.hot[k] = true
				}
			}
		case "stat":
			w.op().GetFileStat(name)
			if f.exists {
				noteLoad(k)
			}
			if msg := resync(when, -1); msg != "" {
				return pbt.Fail("%s", msg)
			}
		case "persist", "clearpersist":
			if !f.exists {
				classes["skipped-flag-op-on-absent-key"] = true
				continue
			}
			var err error
			if op.Kind == "persist" {
				_, err = w.op().SetFileMetadata(name, metadata.NewPersist(op.Flag))
			} else {
				err = w.op().DeleteFileMetadata(name, &metadata.Persist{})
			}
			noteLoad(k)
			if err != nil {
				// unexpected, but not something the statement speaks about; the flag is re-read from disk
				classes["flag-op-error"] = true
			}
			// adopt the flag actually on disk (a failed write leaves the old one)
			f.persist = false
			if b, rerr := os.ReadFile(filepath.Join(w.dataDir(k), (&metadata.Persist{}).GetSuffix())); rerr == nil {
				var p metadata.Persist
				if p.Deserialize(b) == nil {
					f.persist = p.Value
				}
			}
			if err == nil && op.Kind == "persist" && f.persist != op.Flag {
				classes["flag-write-not-reflected-on-disk"] = true // not C10's business; the model follows the disk
			}
			f.maybeAccess(w.now())
			w.collapse(k)
			if msg := resync(when, -1); msg != "" {
				return pbt.Fail("%s", msg)
			}
		case "advance":
			w.clk.Add(time.Duration(op.Dt) * time.Second)
		case "delete":
			err := w.op().DeleteFile(name)
			if f.exists {
				noteLoad(k)
				w.shadowRemove(k)
				if f.persist {
					survivedDelete = true
					classes["delete-request-on-persisted-file"] = true
					if err != base.ErrFilePersisted {
						return pbt.Fail("delete request on a file awaiting write-back did not report ErrFilePersisted\n  %s: %v", when, err)
					}
				}
			}
			if msg := resync(when, k); msg != "" {
				return pbt.Fail("%s", msg)
			}
		case "reopen":
			w.fs = base.NewCASFileStoreWithLRUMap(c.Cap, w.clk)
			w.lru = nil
			for p := range evictedPersisted {
				delete(evictedPersisted, p)
			}
			classes["reopen"] = true
		case "pass":
			msg, cls, deletedAny, protectedExpired := w.pass(i, op, realUtil)
			for _, cl := range cls {
				classes[cl] = true
			}
			if msg != "" {
				return pbt.Fail("%s", msg)
			}
			judged := true
			for _, cl := range cls {
				if cl == "skipped-real-disk-mode" || cl == "pass-error" {
					judged = false
				}
			}
			if judged {
				evals++
				// labels only: the scan looked every file up (in name order), which may evict others from the map
				var ks []int
				for k := 0; k < nKeys; k++ {
					if w.m[k].exists {
						ks = append(ks, k)
					}
				}
				sort.Slice(ks, func(a, b int) bool { return nameOf(ks[a]) < nameOf(ks[b]) })
				for _, k := range ks {
					noteLoad(k)
				}
			}
			if deletedAny {
				passDeletedSibling = true
			}
			if protectedExpired {
				survivedPass = true
			}
		}
	}
	// Final read-back of every persisted file through the API.
	for k := 0; k < nKeys; k++ {
		f := &w.m[k]
		if !f.exists || !f.persist {
			continue
		}
		r, err := w.op().GetFileReader(nameOf(k), 0)
		if err != nil {
			return pbt.Fail("file awaiting write-back cannot be opened at the end\n  key %d: %v", k, err)
		}
		b, rerr := io.ReadAll(r)
		r.Close()
		if rerr != nil || int64(len(b)) != f.size {
			return pbt.Fail("file awaiting write-back does not read back at the end\n  key %d: %d bytes, %v", k, len(b), rerr)
		}
		var p metadata.Persist
		if err := w.op().GetFileMetadata(nameOf(k), &p); err != nil || !p.Value {
			return pbt.Fail("persist flag of a file awaiting write-back unreadable at the end\n  key %d: %v %v", k, p.Value, err)
		}
	}
	if survivedDelete {
		classes["persisted-survived-delete-request"] = true
	}
	if survivedPass {
		classes["persisted-survived-pass-while-expired"] = true
	}
	if passDeletedSibling {
		classes["pass-deleted-a-file"] = true
	}
	if survivedEviction && reloadedAfterEviction && passDeletedSibling {
		classes["persisted-evicted-reloaded-and-sibling-cleaned"] = true
	}
	var cl []string
	for x := range classes {
		cl = append(cl, x)
	}
	sort.Strings(cl)
	nontrivial := (survivedDelete || survivedEviction || survivedPass) && passDeletedSibling
	v := pbt.OK(nontrivial, cl...)
	if evals > 0 {
		v.Evals = evals
	}
	return v
}

// pass runs one cleanup pass and judges it.
func (w *world) pass(i int, op Op, realUtil int) (msg string, classes []string, deletedAny, protectedExpired bool) {
	add := func(c string) { classes = append(classes, c) }
	now := w.now()
	tti, ttiB := resolve(op.TTI, w)
	ttl, ttlB := resolve(op.TTL, w)
	if op.NoTTL {
		ttl, ttlB = 0, false
	}
	ttiD, ttlD := time.Duration(tti)*time.Second, time.Duration(ttl)*time.Second
	if ttiB {
		add("pass-tti-at-boundary-of-a-file")
	}
	if ttlB {
		add("pass-ttl-at-boundary-of-a-file")
	}
	var sumSizes int64
	existing := 0
	for k := 0; k < nKeys; k++ {
		if w.m[k].exists {
			sumSizes += w.m[k].size
			existing++
		}
	}
	evictionPossible := w.cap > 0 && existing > w.cap
	usage := func() (diskspaceutil.UsageInfo, error) {
		total := uint64(op.Total)
		used := uint64(sumSizes) + uint64(op.Extra)
		if used > total {
			total = used
		}
		if op.AtLow && (op.Lower == 10 || op.Lower == 50) && used > 0 {
			total = used * uint64(100/op.Lower) // total*lower/100 == used
		}
		util := 0
		if total > 0 {
			util = int(used * 100 / total)
		}
		return diskspaceutil.UsageInfo{Util: util, TotalBytes: total, UsedBytes: used, FreeBytes: total - used}, nil
	}
	var attempts []attempt
	lop := loggingOp{w.op(), &attempts}
	exact := false   // the pass must delete exactly the expired unprotected files
	subset := false  // the pass may delete only expired unprotected files
	nothing := false // the pass must not delete at all (disk already at or below the lower threshold)
	policy := false
	when := fmt.Sprintf("op %d pass mode=%s tti=%ds ttl=%ds lower=%d cap=%d files=%d now=%d", i, op.Mode, tti, ttl, op.Lower, w.cap, existing, now)
	var err error
	switch op.Mode {
	case "normal":
		_, err = w.vc.Cleanup(lop, store.CleanupConfig{TTI: ttiD, TTL: ttlD})
		exact = true
	case "aggr-ttl":
		if ttl <= 0 {
			ttl, ttlD = 3600, time.Hour
		}
		_, err = w.vc.TTLBasedCleanup(lop, ttiD, ttlD, op.Lower, usage)
		u, _ := usage()
		lowBytes := int64(u.TotalBytes * uint64(op.Lower) / 100)
		// Without a lower threshold, or when even removing every file of the store cannot
		// bring the disk down to it, the pass is exact; when the disk is already at or below
		// the lower threshold the pass must not delete anything.
		exact = op.Lower == 0 || int64(u.UsedBytes)-sumSizes > lowBytes
		subset = true
		// ("below which aggressive cleanup will stop": usage exactly on the threshold is left to the code)
		nothing = op.Lower != 0 && int64(u.UsedBytes) < lowBytes
		if nothing {
			add("aggr-ttl-pass-already-below-lower-threshold")
		} else if op.Lower != 0 && !exact {
			add("aggr-ttl-pass-lower-threshold-inside-scan")
		}
	case "policy":
		_, err = w.vc.CustomPolicyBasedCleanup(lop, store.CleanupConfig{TTI: ttiD, AggressiveThreshold: 1, AggressiveTTL: time.Hour, AggressiveLowerThreshold: op.Lower}, usage)
		policy = true
	case "real-aggr":
		if realUtil < 3 {
			return "", []string{"skipped-real-disk-mode"}, false, false
		}
		if ttl <= 0 {
			ttl, ttlD = 3600, time.Hour
		}
		// TTL is a year: only the aggressive TTL can expire files by age.
		_, err = w.vc.Cleanup(lop, store.CleanupConfig{TTI: ttiD, TTL: 365 * 24 * time.Hour, AggressiveThreshold: 1, AggressiveTTL: ttlD})
		exact = true
	case "real-calm":
		if realUtil < 0 || realUtil > 90 {
			return "", []string{"skipped-real-disk-mode"}, false, false
		}
		_, err = w.vc.Cleanup(lop, store.CleanupConfig{TTI: ttiD, TTL: ttlD, AggressiveThreshold: 100, AggressiveTTL: time.Second, AggressiveLowerThreshold: 50})
		exact = true
	case "real-policy":
		if realUtil < 3 {
			return "", []string{"skipped-real-disk-mode"}, false, false
		}
		_, err = w.vc.Cleanup(lop, store.CleanupConfig{TTI: ttiD, AggressiveThreshold: 1, AggressiveTTL: time.Hour, AggressiveLowerThreshold: op.Lower})
		policy = true
	default:
		return "", nil, false, false
	}
	if err != nil {
		for k := 0; k < nKeys; k++ {
			if w.m[k].exists && !w.m[k].persist && !w.onDisk(k) {
				w.m[k].exists = false
				w.shadowRemove(k)
			}
		}
		return w.persistedIntact(when), []string{"pass-error"}, false, false
	}
	add("pass-" + op.Mode)
	if evictionPossible {
		add("pass-with-lru-eviction-possible")
	} else {
		add("pass-without-lru-eviction")
	}

	type expect struct{ mustDelete, mustKeep bool }
	var exp [nKeys]expect
	var before [nKeys]fileModel
	before = w.m
	for k := 0; k < nKeys; k++ {
		f := &w.m[k]
		if !f.exists {
			continue
		}
		ttlExpired := ttl > 0 && now-f.mtime > ttl
		idleAll := now-f.latHi > tti
		idleAny := now-f.latLo > tti
		exp[k].mustDelete = !f.persist && (ttlExpired || idleAll)
		exp[k].mustKeep = f.persist || (!ttlExpired && !idleAny)
		if f.persist && (ttlExpired || idleAll) {
			protectedExpired = true
		}
	}
	// Judge against the disk.
	for k := 0; k < nKeys; k++ {
		f := &w.m[k]
		if !f.exists {
			continue
		}
		gone := !w.onDisk(k)
		if f.persist {
			if gone {
				return fmt.Sprintf("file awaiting write-back was removed by cleanup\n  %s: key %d (%s) mtime=%d lat=%d", when, k, nameOf(k)[:8], f.mtime, f.latHi), classes, false, false
			}
			continue
		}
		if policy {
			continue
		}
		if gone {
			deletedAny = true
		}
		if nothing && gone && !evictionPossible {
			return fmt.Sprintf("aggressive cleanup deleted a file although the disk was already at or below the lower threshold\n  %s: key %d", when, k), classes, false, false
		}
		if (exact) && exp[k].mustDelete && !gone {
			return fmt.Sprintf("cleanup kept an unprotected file that is idle or expired\n  %s: key %d mtime=%d (age %ds) last access=%d (idle %ds)", when, k, f.mtime, now-f.mtime, f.latHi, now-f.latHi), classes, false, false
		}
		if (exact || subset) && exp[k].mustKeep && gone && !evictionPossible {
			return fmt.Sprintf("cleanup removed a file that is neither idle nor expired\n  %s: key %d mtime=%d (age %ds) last access in [%d,%d] (idle >= %ds)", when, k, f.mtime, now-f.mtime, f.latLo, f.latHi, now-f.latHi), classes, false, false
		}
		if exact && !evictionPossible && (exp[k].mustDelete || exp[k].mustKeep) {
			add("pass-file-judged-exactly")
			if w.hot[k] {
				add("pass-judged-hot-file-exactly")
			}
		}
		if !exp[k].mustDelete && !exp[k].mustKeep {
			add("pass-file-ambiguous-last-access")
		}
	}
	if policy {
		byName := map[string]int{}
		for k := 0; k < nKeys; k++ {
			byName[nameOf(k)] = k
		}
		attempted := map[int]bool{}
		var deletedBytes int64
		prev := -1
		for _, a := range attempts {
			k, ok := byName[a.name]
			if !ok || !before[k].exists {
				continue
			}
			attempted[k] = true
			exactLat := before[k].latLo == before[k].latHi
			if prev >= 0 && exactLat && before[prev].latLo == before[prev].latHi && less(&before[k], &before[prev]) {
				return fmt.Sprintf("usage-driven cleanup visited files out of the documented order\n  %s: key %d (tier %d, last access %d) after key %d (tier %d, last access %d)",
					when, k, tier(&before[k]), before[k].latHi, prev, tier(&before[prev]), before[prev].latHi), classes, false, false
			}
			if exactLat {
				prev = k
			}
			if op.Mode == "policy" {
				// Sound under both readings of the byte target (used-lower, as documented, or
				// total-lower, as coded): nothing is visited once total-lower bytes are gone.
				u, _ := usage()
				minB := int64(u.TotalBytes * uint64(op.Lower) / 100)
				if target := int64(u.TotalBytes) - minB; deletedBytes >= target && int64(u.UsedBytes)-deletedBytes < minB {
					return fmt.Sprintf("usage-driven cleanup went on after the byte target was met\n  %s: %d bytes already deleted, target %d (%d%% of %d), yet key %d was visited",
						when, deletedBytes, target, 100-op.Lower, u.TotalBytes, k), classes, false, false
				}
			}
			if a.err == nil {
				deletedBytes += before[k].size
				deletedAny = true
			}
			if before[k].persist && a.err != base.ErrFilePersisted {
				return fmt.Sprintf("usage-driven cleanup: deleting a file awaiting write-back did not report ErrFilePersisted\n  %s: key %d: %v", when, k, a.err), classes, false, false
			}
		}
		if len(attempts) >= 2 {
			add("policy-pass-ordered-two-or-more")
		}
		// Files that were not visited must not precede a visited one, and the pass must not
		// stop before the lower threshold is reached.
		for k := 0; k < nKeys; k++ {
			if !before[k].exists || attempted[k] || !w.onDisk(k) || before[k].latLo != before[k].latHi {
				continue
			}
			add("policy-pass-stopped-before-the-end")
			for a := range attempted {
				if before[a].latLo == before[a].latHi && less(&before[k], &before[a]) {
					return fmt.Sprintf("usage-driven cleanup skipped a file that precedes a visited one in the documented order\n  %s: key %d (tier %d, last access %d) skipped, key %d (tier %d, last access %d) visited",
						when, k, tier(&before[k]), before[k].latHi, a, tier(&before[a]), before[a].latHi), classes, false, false
				}
			}
			if op.Mode == "policy" && !before[k].persist {
				u, _ := usage()
				minBytes := int64(u.TotalBytes * uint64(op.Lower) / 100)
				if int64(u.UsedBytes)-deletedBytes > minBytes && deletedBytes < int64(u.TotalBytes)-minBytes {
					return fmt.Sprintf("usage-driven cleanup stopped before the lower threshold was reached\n  %s: used %d - deleted %d > %d%% of %d, yet key %d was not visited",
						when, u.UsedBytes, deletedBytes, op.Lower, u.TotalBytes, k), classes, false, false
				}
			}
		}
		for k := range attempted {
			if tier(&before[k]) < 2 {
				add("policy-pass-visited-consumer-served-file")
			}
		}
	}
	// Adopt the disk.
	for k := 0; k < nKeys; k++ {
		if w.m[k].exists && !w.onDisk(k) {
			w.m[k].exists = false
			w.shadowRemove(k)
		}
	}
	if msg := w.persistedIntact(when); msg != "" {
		return msg, classes, false, false
	}
	return "", classes, deletedAny, protectedExpired
}

func TestMain(m *testing.M) {
	log.SetGlobalLogger(zap.NewNop().Sugar())
	os.Exit(m.Run())
}

func TestProp(t *testing.T) {
	pbt.Main(t, pbt.Spec{
		ID: "C10",
		Rule: "rapid draws an LRU file-map capacity (2,3,4 or 16), a setup prefix (2-4 creates, usually one persist) and 4-36 further ops over 5 content-addressed file names on base.NewCASFileStoreWithLRUMap with a mock clock: create (only absent keys; mtime set to the clock), read (now or after a drawn delay), hot (2-20 reads of one file with a fixed gap of 1-299 s, i.e. below the last-access resolution, before each: a file in steady use, the burst usually spanning several resolutions; 2 of 3 cases end with such a burst, an optional short advance and an exactly judged pass whose TTI is absolute or placed around that file's idle time), stat, set/clear the persist flag (SetFileMetadata / DeleteFileMetadata), clock advances from a menu around the 5-minute resolution, 45-minute and TTI/TTL boundaries, delete, reopen, and cleanup passes (normal cleanup(); ttlBasedCleanup with aggressive TTL, lower threshold and injected disk usage; customPolicyBasedCleanup with cachedInAgentPolicy and injected disk usage; cleanup() in aggressive / calm / policy mode decided by the real disk utilisation) whose TTI/TTL are absolute or placed -1/0/+1 s around the idle time / age of a chosen file. " +
			"A reference model {exists, mtime, last access (set at creation, refreshed by an access at least 5 min after the stored value; flag writes may or may not count), persist flag} is compared with the directory after every op: (1) a persisted file keeps data, size, persist and last-access sidecars whatever was attempted (delete request must report ErrFilePersisted; LRU eviction; every pass) and reads back at the end; (2) after a normal / aggressive-without-lower-threshold pass every unprotected file with now-lastAccess > TTI or (TTL>0 and now-mtime > TTL) is gone and, when no LRU eviction can happen during the scan (files <= capacity), every other file is still there; with a lower threshold only the second half is required; (3) the usage-driven pass visits files in non-decreasing (tier, last access) order where tier 0: |access-mtime|>45 min, 1: >1 s, 2: otherwise, never skips a file that precedes a visited one, does not stop while used-deleted is above the lower threshold and does not go on once total-lower bytes are deleted and usage is below the threshold. " +
			"evaluations = judged cleanup passes; non-trivial = a persisted file survived a delete request, an LRU eviction from the map or a pass in which it met the expiry rule, and some pass deleted a file; distinct by case hash",
		Assumptions: []string{
			"reference model written from the property statement, the CleanupConfig field documentation, the cachedInAgentPolicy comments (1 s / 45 min heuristics) and the FileMap documentation (5-minute last-access resolution)",
			"file mtimes are set with Chtimes to mock-clock values right after creation; clock values are whole seconds (the last-access sidecar stores seconds)",
			"which plain file an LRU eviction removes is not asserted; the 'nothing else was removed' half of rule (2) is only asserted when the number of files is within the map capacity",
			"an LRU shadow of the map order is used only to label classes, never by the oracle",
			"the byte target of the usage-driven pass is read loosely: stopping too early is judged against the documented target (used - lower%), going on too long against the coded one (total - lower%); usage exactly on a threshold is never judged",
		},
		Parts: []pbt.Part{pbt.NewPart("store", 12, gen, run), pbt.NewPart("race", 1, genRace, runRace)},
	})
}
