package c10

import (
	"crypto/sha256"
	"encoding/hex"
	"fmt"
	"os"
	"path/filepath"
	"sync"
	"time"

	"github.com/andres-erbsen/clock"
	"github.com/uber/kraken/lib/store/base"
	"github.com/uber/kraken/lib/store/metadata"
	"pgregory.net/rapid"

	"verif/internal/pbt"
)

// Part race (un-owned schedule): the file map is full; one goroutine marks a file as
// awaiting write-back while others create new files, so that the map's LRU eviction and
// the marking meet on the same file. Whatever the interleaving: a marking that reported
// success protects the file (its data is still there afterwards); a marking that failed
// must have failed with "not exist".

type RaceCase struct {
	Cap      int `json:"cap"`      // file-map capacity = number of files present before the race
	Victim   int `json:"victim"`   // which of them (in least-recently-used order) gets marked
	Creators int `json:"creators"` // new files created concurrently
	Junk     int `json:"junk"`     // extra directory entries next to the marked file's data (slows its removal)
	Reps     int `json:"reps"`
}

func genRace(t *rapid.T) RaceCase {
	c := RaceCase{
		Cap:      rapid.IntRange(2, 4).Draw(t, "cap"),
		Creators: rapid.IntRange(1, 3).Draw(t, "creators"),
		Junk:     rapid.SampledFrom([]int{0, 8, 64, 64}).Draw(t, "junk"),
	}
	// the least recently used file is the one the eviction takes first
	c.Victim = rapid.SampledFrom([]int{0, 0, 0, 1}).Draw(t, "victim")
	if c.Victim >= c.Cap {
		c.Victim = 0
	}
	c.Reps = 12
	if os.Getenv("VERIF_TIER") == "thorough" {
		c.Reps = 120
	}
	return c
}

func raceName(rep, k int) string {
	s := sha256.Sum256([]byte(fmt.Sprintf("c10 race %d %d", rep, k)))
	return hex.EncodeToString(s[:])
}

func runRace(c RaceCase) pbt.Verdict {
	if c.Cap < 2 || c.Cap > 8 || c.Victim < 0 || c.Victim >= c.Cap || c.Creators < 1 || c.Creators > 8 || c.Junk < 0 || c.Junk > 256 || c.Reps < 1 || c.Reps > 1000 {
		return pbt.Verdict{Discard: true}
	}
	root, err := os.MkdirTemp("", "c10-race-")
	if err != nil {
		return pbt.Verdict{Discard: true}
	}
	defer os.RemoveAll(root)
	dir := filepath.Join(root, "cache")
	if err := os.MkdirAll(dir, 0775); err != nil {
		return pbt.Verdict{Discard: true}
	}
	state := base.NewFileState(dir)
	dataDir := func(n string) string { return filepath.Join(dir, n[0:2], n[2:4], n) }
	marked, refused, evictedBeforeMark := 0, 0, 0
	for rep := 0; rep < c.Reps; rep++ {
		fs := base.NewCASFileStoreWithLRUMap(c.Cap, clock.New())
		op := func() base.FileOp { return fs.NewFileOp().AcceptState(state) }
		var names []string
		for k := 0; k < c.Cap; k++ {
			n := raceName(rep, k)
			if err := op().CreateFile(n, state, 8); err != nil {
				return pbt.Verdict{Discard: true, Classes: []string{"setup-create-failed"}}
			}
			names = append(names, n)
		}
		victim := names[c.Victim]
		for j := 0; j < c.Junk; j++ {
			os.WriteFile(filepath.Join(dataDir(victim), fmt.Sprintf("junk%03d", j)), nil, 0644)
		}
		start := make(chan struct{})
		var wg sync.WaitGroup
		var markErr error
		for k := 0; k < c.Creators; k++ {
			n := raceName(rep, 100+k)
			wg.Add(1)
			go func() {
				defer wg.Done()
				<-start
				op().CreateFile(n, state, 8)
			}()
		}
		wg.Add(1)
		go func() {
			defer wg.Done()
			<-start
			_, markErr = op().SetFileMetadata(victim, metadata.NewPersist(true))
		}()
		close(start)
		done := make(chan struct{})
		go func() { wg.Wait(); close(done) }()
		select {
		case <-done:
		case <-time.After(60 * time.Second):
			return pbt.Verdict{Discard: true, Classes: []string{"race-did-not-finish"}}
		}
		_, statErr := os.Stat(filepath.Join(dataDir(victim), base.DefaultDataFileName))
		switch {
		case markErr == nil:
			marked++
			if statErr != nil {
				return pbt.Fail("a file that was successfully marked as awaiting write-back was removed by the file map's eviction\n  repetition %d: SetFileMetadata(persist=true) returned nil while %d new file(s) were created into a full map of %d; afterwards its data file: %v", rep, c.Creators, c.Cap, statErr)
			}
		case os.IsNotExist(markErr):
			refused++
			evictedBeforeMark++
		default:
			return pbt.Fail("marking a file as awaiting write-back failed with an error other than 'not exist' while the map was evicting\n  repetition %d: %v", rep, markErr)
		}
		os.RemoveAll(dir)
		os.MkdirAll(dir, 0775)
	}
	v := pbt.Verdict{NonTrivial: marked > 0 && refused > 0}
	if marked > 0 {
		v.Classes = append(v.Classes, "mark-won")
	}
	if refused > 0 {
		v.Classes = append(v.Classes, "eviction-won")
	}
	v.Evals = c.Reps
	return v
}
