// C05 — an origin or proxy crash at any point leaves its blob cache consistent.
//
// Engine E2 (internal/crashfs): generated CAStore workloads (chunked upload +
// commit, persist flag, metainfo generation / overwrite, backend refresh with the
// memory write-through cache on or off and explicit drain steps, delete) run in a
// child under ptrace; every prefix of the mutating system calls under the store
// directories is snapshotted and a fresh CAStore is opened on a copy of each.
package c05

import (
	"bytes"
	"encoding/json"
	"fmt"
	"io"
	"os"
	"path/filepath"
	"sort"
	"sync"
	"testing"
	"time"

	"github.com/andres-erbsen/clock"
	"github.com/c2h5oh/datasize"
	"github.com/uber-go/tally"
	"github.com/uber/kraken/core"
	"github.com/uber/kraken/lib/backend"
	"github.com/uber/kraken/lib/backend/backenderrors"
	"github.com/uber/kraken/lib/blobrefresh"
	"github.com/uber/kraken/lib/metainfogen"
	"github.com/uber/kraken/lib/store"
	"github.com/uber/kraken/lib/store/metadata"
	"github.com/uber/kraken/utils/log"
	"go.uber.org/zap"
	"pgregory.net/rapid"

	"verif/internal/crashfs"
	"verif/internal/pbt"
)

// Op kinds:
//
//	upload    chunked upload of blob B (CreateUploadFile, WriteAt chunks in drawn order, MoveUploadFileToCache)
//	create    CreateCacheFile(hex, reader)
//	persist   SetCacheFileMetadata(hex, Persist(Flag))
//	generate  metainfogen.Generate(d)
//	overwrite SetCacheFileMetadata(hex, TorrentMeta(piece length PL))   (what the overwrite-metainfo endpoint does)
//	refresh   WriteBlobToCacheWithMetaInfo(hex, size, write, PL)        (what a backend refresh does)
//	drain     one synchronous drain step of the memory cache
//	delete    DeleteCacheFile(hex)
type Op struct {
	Kind  string `json:"kind"`
	Blob  int    `json:"blob"`
	Flag  bool   `json:"flag,omitempty"`
	PL    int    `json:"pl,omitempty"`
	Chunk int    `json:"chunk,omitempty"`
	Rev   bool   `json:"rev,omitempty"` // upload chunks in reverse order
}

type Case struct {
	Blobs    [][]byte `json:"blobs"`
	MemCache bool     `json:"mem_cache"`
	MemMax   int      `json:"mem_max"`
	Ops      []Op     `json:"ops"`
}

func gen(t *rapid.T) Case {
	var c Case
	nb := rapid.IntRange(1, 2).Draw(t, "nblobs")
	for i := 0; i < nb; i++ {
		l := rapid.IntRange(0, 40).Draw(t, "len")
		b := rapid.SliceOfN(rapid.Byte(), l, l).Draw(t, "blob")
		b = append(b, byte(i)) // distinct, non-empty
		c.Blobs = append(c.Blobs, b)
	}
	c.MemCache = rapid.Bool().Draw(t, "mem")
	c.MemMax = rapid.SampledFrom([]int{0, 8, 64, 4096}).Draw(t, "memmax")
	kinds := []string{"upload", "upload", "create", "persist", "generate", "generate", "overwrite", "overwrite", "refresh", "refresh", "drain", "drain", "delete"}
	n := rapid.IntRange(2, 10).Draw(t, "nops")
	for i := 0; i < n; i++ {
		op := Op{Kind: rapid.SampledFrom(kinds).Draw(t, "kind"), Blob: rapid.IntRange(0, nb-1).Draw(t, "blob")}
		switch op.Kind {
		case "upload":
			op.Chunk = rapid.IntRange(1, 16).Draw(t, "chunk")
			op.Rev = rapid.Bool().Draw(t, "rev")
		case "persist":
			op.Flag = rapid.Bool().Draw(t, "flag")
		case "overwrite", "refresh":
			op.PL = rapid.IntRange(1, 12).Draw(t, "pl")
		}
		c.Ops = append(c.Ops, op)
	}
	return c
}

type env struct {
	cas *store.CAStore
	gen *metainfogen.Generator
}

func newEnv(c Case, root string) (*env, error) {
	cfg := store.CAStoreConfig{
		UploadDir:     filepath.Join(root, "upload"),
		CacheDir:      filepath.Join(root, "cache"),
		UploadCleanup: store.CleanupConfig{Disabled: true},
		CacheCleanup:  store.CleanupConfig{Disabled: true},
		MemoryCache:   store.MemoryCacheConfig{Enabled: c.MemCache, MaxSize: uint64(c.MemMax), DrainWorkers: 1, DrainMaxRetries: 1},
	}
	// The mock clock is never advanced: background drain/TTL workers stay idle and
	// draining happens only through explicit VerifDrainNext steps.
	cas, err := store.NewCAStoreWithClock(cfg, tally.NoopScope, clock.NewMock())
	if err != nil {
		return nil, err
	}
	g, err := metainfogen.New(metainfogen.Config{PieceLengths: map[datasize.ByteSize]datasize.ByteSize{0: 4, 16: 8}}, cas)
	if err != nil {
		cas.Close()
		return nil, err
	}
	return &env{cas, g}, nil
}

func digestOf(b []byte) core.Digest {
	d, _ := core.NewDigester().FromBytes(b)
	return d
}

func apply(e *env, c Case, i int, op Op) error {
	blob := c.Blobs[op.Blob]
	d := digestOf(blob)
	switch op.Kind {
	case "upload":
		uid := fmt.Sprintf("upload-%d", i)
		if err := e.cas.CreateUploadFile(uid, 0); err != nil {
			return err
		}
		w, err := e.cas.GetUploadFileReadWriter(uid)
		if err != nil {
			return err
		}
		var offs []int
		for off := 0; off < len(blob); off += op.Chunk {
			offs = append(offs, off)
		}
		if op.Rev {
			sort.Sort(sort.Reverse(sort.IntSlice(offs)))
		}
		for _, off := range offs {
			end := off + op.Chunk
			if end > len(blob) {
				end = len(blob)
			}
			if _, err := w.WriteAt(blob[off:end], int64(off)); err != nil {
				w.Close()
				return err
			}
		}
		w.Close()
		return e.cas.MoveUploadFileToCache(uid, d.Hex())
	case "create":
		return e.cas.CreateCacheFile(d.Hex(), bytes.NewReader(blob))
	case "persist":
		_, err := e.cas.SetCacheFileMetadata(d.Hex(), metadata.NewPersist(op.Flag))
		return err
	case "generate":
		return e.gen.Generate(d)
	case "overwrite":
		mi, err := core.NewMetaInfo(d, bytes.NewReader(blob), int64(op.PL))
		if err != nil {
			return err
		}
		_, err = e.cas.SetCacheFileMetadata(d.Hex(), metadata.NewTorrentMeta(mi))
		return err
	case "refresh":
		return e.cas.WriteBlobToCacheWithMetaInfo(d.Hex(), uint64(len(blob)), func(w store.FileReadWriter) error {
			_, err := w.Write(blob)
			return err
		}, int64(op.PL))
	case "drain":
		e.cas.VerifDrainNext()
		return nil
	case "delete":
		return e.cas.DeleteCacheFile(d.Hex())
	}
	return fmt.Errorf("unknown op")
}

func TestMain(m *testing.M) {
	log.SetGlobalLogger(zap.NewNop().Sugar())
	if cf := os.Getenv(crashfs.ChildEnv); cf != "" {
		childMain(cf)
		os.Exit(0)
	}
	os.Exit(m.Run())
}

func childMain(caseFile string) {
	b, err := os.ReadFile(caseFile)
	if err != nil {
		os.Exit(3)
	}
	var c Case
	if json.Unmarshal(b, &c) != nil {
		os.Exit(3)
	}
	e, err := newEnv(c, os.Getenv("VERIF_CRASH_ROOT"))
	if err != nil {
		fmt.Println("child: env:", err)
		os.Exit(3)
	}
	var errs []string
	for i, op := range c.Ops {
		crashfs.Mark(i, 0)
		err := apply(e, c, i, op)
		crashfs.Mark(i, 1)
		if err != nil {
			errs = append(errs, fmt.Sprintf("%d:%v", i, err))
		}
	}
	ob, _ := json.Marshal(errs)
	os.WriteFile(os.Getenv("VERIF_CRASH_OUT"), ob, 0644)
}

// validMetaInfo checks tm against an independent computation over blob.
func validMetaInfo(mi *core.MetaInfo, blob []byte, d core.Digest) string {
	if mi == nil {
		return "nil metainfo"
	}
	if mi.Digest() != d {
		return fmt.Sprintf("digest %s, want %s", mi.Digest(), d)
	}
	if mi.Length() != int64(len(blob)) {
		return fmt.Sprintf("length %d, blob has %d bytes", mi.Length(), len(blob))
	}
	pl := mi.PieceLength()
	if pl <= 0 {
		return fmt.Sprintf("piece length %d", pl)
	}
	want := (int64(len(blob)) + pl - 1) / pl
	if int64(mi.NumPieces()) != want {
		return fmt.Sprintf("%d pieces, want %d for piece length %d", mi.NumPieces(), want, pl)
	}
	for i := 0; i < mi.NumPieces(); i++ {
		lo := int64(i) * pl
		hi := lo + pl
		if hi > int64(len(blob)) {
			hi = int64(len(blob))
		}
		h := core.PieceHash()
		h.Write(blob[lo:hi])
		if mi.GetPieceSum(i) != h.Sum32() {
			return fmt.Sprintf("piece %d checksum mismatch", i)
		}
	}
	return ""
}

func judge(c Case, snapDir, work string) (string, []string) {
	root := filepath.Join(work, "recover")
	os.RemoveAll(root)
	if err := crashfs.CopyTree(snapDir, root); err != nil {
		return "", []string{"copy-error"}
	}
	defer os.RemoveAll(root)
	e, err := newEnv(c, root)
	if err != nil {
		return fmt.Sprintf("the store does not open after the crash: %v", err), nil
	}
	defer e.cas.Close()
	var classes []string
	byHex := map[string][]byte{}
	for _, b := range c.Blobs {
		byHex[digestOf(b).Hex()] = b
	}
	names, err := e.cas.ListCacheFiles()
	if err != nil {
		return fmt.Sprintf("ListCacheFiles fails after the crash: %v", err), nil
	}
	if ents, _ := os.ReadDir(filepath.Join(root, "upload")); len(ents) != 0 {
		return fmt.Sprintf("upload directory is not empty after reopening: %d entries", len(ents)), nil
	}
	for _, name := range names {
		blob, known := byHex[name]
		r, err := e.cas.GetCacheFileReader(name)
		if err != nil {
			return fmt.Sprintf("blob %s is listed after the crash but cannot be opened: %v", name, err), nil
		}
		got, rerr := io.ReadAll(r)
		r.Close()
		if rerr != nil {
			return fmt.Sprintf("blob %s is listed after the crash but cannot be read: %v", name, rerr), nil
		}
		if digestOf(got).Hex() != name {
			return fmt.Sprintf("blob %s listed after the crash holds %d bytes that hash to %s", name, len(got), digestOf(got).Hex()), nil
		}
		if !known {
			return fmt.Sprintf("blob %s listed after the crash was never written", name), nil
		}
		st, err := e.cas.GetCacheFileStat(name)
		if err != nil || st.Size() != int64(len(blob)) {
			return fmt.Sprintf("blob %s: stat after the crash gives %v, %v (blob has %d bytes)", name, st, err, len(blob)), nil
		}
		d := digestOf(blob)
		var tm metadata.TorrentMeta
		err = e.cas.GetCacheFileMetadata(name, &tm)
		switch {
		case err == nil:
			classes = append(classes, "metainfo-present")
			if msg := validMetaInfo(tm.MetaInfo, blob, d); msg != "" {
				return fmt.Sprintf("blob %s: torrent metainfo after the crash is not valid for the blob: %s", name, msg), nil
			}
		case os.IsNotExist(err):
			classes = append(classes, "metainfo-absent")
		default:
			return fmt.Sprintf("blob %s: torrent metainfo is neither absent nor readable after the crash (metainfo requests would fail permanently): %v", name, err), nil
		}
		var p metadata.Persist
		if err := e.cas.GetCacheFileMetadata(name, &p); err != nil && !os.IsNotExist(err) {
			return fmt.Sprintf("blob %s: persist flag is neither absent nor readable after the crash: %v", name, err), nil
		}
		// Regeneration on demand, as the origin does it: a metainfo request for a cached blob
		// without metainfo goes through the real blobrefresh.Refresher (here with a backend
		// that holds the blob). When the refresh has run, the metainfo must be there.
		if errAbsent(e.cas, name) {
			if msg, inconclusive := refreshThroughRefresher(e, d, blob); inconclusive {
				classes = append(classes, "refresher-did-not-finish-in-60s")
			} else if msg != "" {
				return fmt.Sprintf("blob %s: %s", name, msg), nil
			} else {
				classes = append(classes, "metainfo-regenerated-by-refresher")
			}
		}
		// The same at store level: what a backend refresh writes (blob + metainfo).
		if err := e.cas.WriteBlobToCacheWithMetaInfo(name, uint64(len(blob)), func(w store.FileReadWriter) error {
			_, err := w.Write(blob)
			return err
		}, 5); err != nil {
			return fmt.Sprintf("blob %s: refresh after the crash fails: %v", name, err), nil
		}
		for k := 0; k < 4 && e.cas.VerifDrainQueueLen() > 0; k++ {
			e.cas.VerifDrainNext()
		}
		var tm2 metadata.TorrentMeta
		if err := e.cas.GetCacheFileMetadata(name, &tm2); err != nil {
			return fmt.Sprintf("blob %s: metainfo still unavailable after a refresh following the crash: %v", name, err), nil
		}
		if msg := validMetaInfo(tm2.MetaInfo, blob, d); msg != "" {
			return fmt.Sprintf("blob %s: metainfo after a post-crash refresh is not valid: %s", name, msg), nil
		}
	}
	// Blobs not listed can be written again.
	for hex, blob := range byHex {
		listed := false
		for _, n := range names {
			if n == hex {
				listed = true
			}
		}
		if listed {
			continue
		}
		if err := e.cas.CreateCacheFile(hex, bytes.NewReader(blob)); err != nil {
			return fmt.Sprintf("blob %s (not listed after the crash) cannot be written again: %v", hex, err), nil
		}
		r, err := e.cas.GetCacheFileReader(hex)
		if err != nil {
			return fmt.Sprintf("blob %s written after the crash cannot be opened: %v", hex, err), nil
		}
		got, _ := io.ReadAll(r)
		r.Close()
		if !bytes.Equal(got, blob) {
			return fmt.Sprintf("blob %s written after the crash reads back different bytes", hex), nil
		}
		if err := e.gen.Generate(digestOf(blob)); err != nil {
			return fmt.Sprintf("blob %s written after the crash: metainfo generation fails: %v", hex, err), nil
		}
	}
	return "", classes
}

func run(c Case) pbt.Verdict {
	work, err := os.MkdirTemp("", "c05-")
	if err != nil {
		return pbt.Verdict{Discard: true}
	}
	defer os.RemoveAll(work)
	root := filepath.Join(work, "origin")
	os.MkdirAll(root, 0755)
	caseFile := filepath.Join(work, "case.json")
	cb, _ := json.Marshal(c)
	os.WriteFile(caseFile, cb, 0644)
	tr, err := crashfs.Run(crashfs.Config{Root: root, SnapDir: filepath.Join(work, "snaps"),
		Env: []string{crashfs.ChildEnv + "=" + caseFile, "VERIF_CRASH_ROOT=" + root, "VERIF_CRASH_OUT=" + filepath.Join(work, "out.json")}})
	if err != nil || tr.ExitCode != 0 {
		return pbt.Verdict{Discard: true, Classes: []string{"trace-error"}}
	}
	hashes := make([]string, len(tr.Snapshots))
	firstOf := map[int]string{}
	for i, sn := range tr.Snapshots {
		hashes[i] = crashfs.TreeHash(sn.Dir)
		if sn.InOp >= 0 {
			if _, ok := firstOf[sn.InOp]; !ok {
				firstOf[sn.InOp] = hashes[i]
			}
		}
	}
	endOf := func(j int) string {
		for i, sn := range tr.Snapshots {
			if sn.OpsDone > j {
				return hashes[i]
			}
		}
		return hashes[len(hashes)-1]
	}
	v := pbt.Verdict{}
	classSet := map[string]bool{}
	seen := map[string]bool{}
	cfgKey := fmt.Sprintf("%x/%v/%d", c.Blobs, c.MemCache, c.MemMax)
	for i, sn := range tr.Snapshots {
		if seen[hashes[i]] {
			continue
		}
		seen[hashes[i]] = true
		msg, cls := judge(c, sn.Dir, work)
		v.Evals++
		for _, cl := range cls {
			classSet[cl] = true
		}
		if msg != "" {
			where := "between operations"
			if sn.InOp >= 0 && sn.InOp < len(c.Ops) {
				where = fmt.Sprintf("inside op %d (%s blob %d)", sn.InOp, c.Ops[sn.InOp].Kind, c.Ops[sn.InOp].Blob)
			}
			return pbt.Fail("%s\n  crash point: snapshot %d, %d ops returned, %s, next syscall %s\n  tree at crash:\n%s", msg, sn.Index, sn.OpsDone, where, sn.Syscall, crashfs.DumpTree(sn.Dir))
		}
		if sn.InOp >= 0 && hashes[i] != firstOf[sn.InOp] && hashes[i] != endOf(sn.InOp) {
			v.NonTrivial = true
			v.NonTrivialKeys = append(v.NonTrivialKeys, cfgKey+"/"+hashes[i])
			classSet["mid-op:"+c.Ops[sn.InOp].Kind] = true
		}
	}
	for cl := range classSet {
		v.Classes = append(v.Classes, cl)
	}
	sort.Strings(v.Classes)
	return v
}

func TestProp(t *testing.T) {
	pbt.Main(t, pbt.Spec{
		ID:    "C05",
		Level: "fault_enumeration",
		Rule:  "rapid generates CAStore workloads (1-2 blobs of 1-41 bytes; 2-10 ops from: chunked upload + commit, CreateCacheFile, persist flag, metainfogen.Generate, metainfo overwrite with another piece length, backend-refresh write (WriteBlobToCacheWithMetaInfo) with the memory write-through cache off/on at several capacities, explicit drain steps, delete); each runs in a child under ptrace and EVERY prefix of its mutating system calls under upload+cache directories is snapshotted (evaluations = distinct crash trees per workload). Reopen oracle on a copy: NewCAStore succeeds, upload dir empty, every listed blob opens, hashes to its name and stats to its length, TorrentMeta is absent (IsNotExist) or valid against an independent recomputation, Persist absent or parses, the origin's refresh path (real blobrefresh.Refresher over a backend that holds the blob) regenerates absent metainfo, a store-level refresh then yields valid metainfo, unlisted blobs can be written again. non-trivial = crash state strictly inside an operation whose tree differs from that operation's start and end trees; distinct by (config, tree hash)",
		Assumptions: []string{
			"process-crash model: completed system calls persist; a single write system call is atomic",
			"memory-cache draining is driven by explicit synchronous drain steps (verif hook) on a mock clock that never advances",
			"ptrace tracer (internal/crashfs) sees every mutating system call under the store directories",
		},
		Parts: []pbt.Part{pbt.NewPart("crash", 1, gen, run)},
	})
}

// errAbsent reports whether the blob's metainfo is absent.
func errAbsent(cas *store.CAStore, name string) bool {
	var tm metadata.TorrentMeta
	return os.IsNotExist(cas.GetCacheFileMetadata(name, &tm))
}

// oneBlobBackend is a storage backend that holds exactly one blob.
type oneBlobBackend struct {
	name string
	blob []byte
}

func (b *oneBlobBackend) Stat(namespace, name string) (*core.BlobInfo, error) {
	if name != b.name {
		return nil, backenderrors.ErrBlobNotFound
	}
	return core.NewBlobInfo(int64(len(b.blob))), nil
}
func (b *oneBlobBackend) Upload(namespace, name string, src io.Reader) error { return nil }
func (b *oneBlobBackend) Download(namespace, name string, dst io.Writer) error {
	if name != b.name {
		return backenderrors.ErrBlobNotFound
	}
	_, err := dst.Write(b.blob)
	return err
}
func (b *oneBlobBackend) List(prefix string, opts ...backend.ListOption) (*backend.ListResult, error) {
	return &backend.ListResult{}, nil
}
func (b *oneBlobBackend) Close() error { return nil }

type hookFunc func(core.Digest)

func (f hookFunc) Run(d core.Digest) { f(d) }

// refreshThroughRefresher runs the origin's refresh path for a cached blob whose metainfo is
// absent and waits (structurally: for the refresher's post hook) until it has run.
func refreshThroughRefresher(e *env, d core.Digest, blob []byte) (msg string, inconclusive bool) {
	bm := backend.ManagerFixture()
	if err := bm.Register(".*", &oneBlobBackend{name: d.Hex(), blob: blob}, false); err != nil {
		return "", true
	}
	r := blobrefresh.New(blobrefresh.Config{}, tally.NoopScope, e.cas, bm, e.gen)
	done := make(chan struct{})
	var once sync.Once
	if err := r.Refresh("ns", d, hookFunc(func(core.Digest) { once.Do(func() { close(done) }) })); err != nil && err != blobrefresh.ErrPending {
		return fmt.Sprintf("the origin's refresh of a cached blob without metainfo fails after the crash: %v", err), false
	}
	select {
	case <-done:
	case <-time.After(60 * time.Second):
		return "", true
	}
	var tm metadata.TorrentMeta
	if err := e.cas.GetCacheFileMetadata(d.Hex(), &tm); err != nil {
		return fmt.Sprintf("metainfo still unavailable after the origin's refresh path (blobrefresh.Refresher) ran for the cached blob: %v", err), false
	}
	if m := validMetaInfo(tm.MetaInfo, blob, d); m != "" {
		return "metainfo regenerated by the origin's refresh path is not valid: " + m, false
	}
	return "", false
}
