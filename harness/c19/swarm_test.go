//go:build verif

package c19

import (
	"bytes"
	"encoding/json"
	"fmt"
	"io"
	"net"
	"net/http"
	"os"
	"path/filepath"
	"sort"
	"strconv"
	"strings"
	"sync"
	"sync/atomic"
	"time"

	"github.com/uber-go/tally"
	"go.uber.org/zap"

	"github.com/uber/kraken/core"
	"github.com/uber/kraken/lib/backend"
	"github.com/uber/kraken/lib/blobrefresh"
	"github.com/uber/kraken/lib/hashring"
	"github.com/uber/kraken/lib/hostlist"
	"github.com/uber/kraken/lib/metainfogen"
	"github.com/uber/kraken/lib/store"
	"github.com/uber/kraken/lib/torrent/networkevent"
	"github.com/uber/kraken/lib/torrent/scheduler"
	"github.com/uber/kraken/lib/torrent/scheduler/announcequeue"
	"github.com/uber/kraken/lib/torrent/scheduler/announcer"
	"github.com/uber/kraken/lib/torrent/scheduler/conn"
	"github.com/uber/kraken/lib/torrent/scheduler/connstate"
	"github.com/uber/kraken/lib/torrent/scheduler/dispatch"
	"github.com/uber/kraken/lib/torrent/scheduler/dispatch/piecerequest"
	"github.com/uber/kraken/lib/torrent/storage"
	"github.com/uber/kraken/lib/torrent/storage/agentstorage"
	"github.com/uber/kraken/lib/torrent/storage/originstorage"
	"github.com/uber/kraken/lib/torrent/storage/piecereader"
	"github.com/uber/kraken/tracker/announceclient"
	"github.com/uber/kraken/tracker/metainfoclient"
	"github.com/uber/kraken/tracker/peerhandoutpolicy"
	"github.com/uber/kraken/tracker/peerstore"
	"github.com/uber/kraken/tracker/trackerserver"
	"github.com/uber/kraken/utils/log"

	"verif/internal/pbt"
)

const namespace = "verif/c19"

// caseDeadline is how long one run of a swarm may take before it counts as not
// converged. Typical cases take well under 3 s.
var caseDeadline = 60 * time.Second

func init() {
	log.SetGlobalLogger(zap.NewNop().Sugar())
	// Development aid for mutation experiments only; the registered commands never set it.
	if v, err := strconv.Atoi(os.Getenv("C19_DEADLINE_S")); err == nil && v > 0 {
		caseDeadline = time.Duration(v) * time.Second
	}
}

var caseSeq uint32

// ---------------------------------------------------------------------------
// blob

func makeBlob(seed uint32, n int) []byte {
	b := make([]byte, n)
	if seed&3 == 0 {
		// Low-entropy blob: many pieces are identical (and so are their sums).
		for i := range b {
			b[i] = byte(seed>>8) + byte(i%7)
		}
		return b
	}
	x := seed | 1
	for i := range b {
		x ^= x << 13
		x ^= x >> 17
		x ^= x << 5
		b[i] = byte(x >> 11)
	}
	return b
}

// ---------------------------------------------------------------------------
// corrupting storage wrapper

type corruptor struct {
	mod, rem, firstN int
	served           int64 // corrupted payloads handed to the dispatcher for sending
}

func (c *corruptor) take(piece int) bool {
	if piece%c.mod != c.rem {
		return false
	}
	n := atomic.AddInt64(&c.served, 1)
	if c.firstN > 0 && n > int64(c.firstN) {
		atomic.AddInt64(&c.served, -1)
		return false
	}
	return true
}

type corruptArchive struct {
	storage.TorrentArchive
	c *corruptor
}

func (a *corruptArchive) CreateTorrent(ns string, d core.Digest) (storage.Torrent, error) {
	t, err := a.TorrentArchive.CreateTorrent(ns, d)
	if err != nil {
		return nil, err
	}
	return &corruptTorrent{t, a.c}, nil
}

func (a *corruptArchive) GetTorrent(ns string, d core.Digest) (storage.Torrent, error) {
	t, err := a.TorrentArchive.GetTorrent(ns, d)
	if err != nil {
		return nil, err
	}
	return &corruptTorrent{t, a.c}, nil
}

type corruptTorrent struct {
	storage.Torrent
	c *corruptor
}

// GetPieceReader serves the piece with one byte flipped (same length).
func (t *corruptTorrent) GetPieceReader(pi int) (storage.PieceReader, error) {
	pr, err := t.Torrent.GetPieceReader(pi)
	if err != nil {
		return nil, err
	}
	if !t.c.take(pi) {
		return pr, nil
	}
	data, rerr := io.ReadAll(pr)
	pr.Close()
	if rerr != nil {
		return nil, rerr
	}
	if len(data) > 0 {
		data[(pi*31+7)%len(data)] ^= 0x5a
	}
	return piecereader.NewBuffer(data), nil
}

// ---------------------------------------------------------------------------
// tracker

type originList struct {
	mu    sync.Mutex
	peers []core.PeerInfo
}

func (o *originList) add(p core.PeerInfo) {
	o.mu.Lock()
	defer o.mu.Unlock()
	o.peers = append(o.peers, p)
}

func (o *originList) GetOrigins(d core.Digest) ([]*core.PeerInfo, error) {
	o.mu.Lock()
	defer o.mu.Unlock()
	var out []*core.PeerInfo
	for i := range o.peers {
		p := o.peers[i]
		out = append(out, &p)
	}
	return out, nil
}

// ---------------------------------------------------------------------------
// swarm runtime

type peerRT struct {
	idx    int
	spec   PeerSpec
	id     core.PeerID
	events *networkevent.TestProducer
	cor    *corruptor

	mu          sync.Mutex
	sched       scheduler.Scheduler
	cads        *store.CADownloadStore
	cas         *store.CAStore
	startedAt   time.Time
	started     bool
	stoppedAt   time.Time
	stopped     bool
	connsAtStop int

	dlDone chan struct{} // closed when Download returned (agents only)
	dlErr  error
	dlAt   time.Time
}

func (p *peerRT) isAgent() bool { return p.spec.Kind != kindOrigin }

func (p *peerRT) downloadReturned() bool {
	select {
	case <-p.dlDone:
		return true
	default:
		return false
	}
}

type swarm struct {
	c        Case
	dir      string
	blob     []byte
	digest   core.Digest
	mi       *core.MetaInfo
	mic      *metainfoclient.TestClient
	origins  *originList
	trackerA string
	httpSrv  *http.Server
	peers    []*peerRT
	done     chan struct{}
	wg       sync.WaitGroup // peer starter / departure goroutines
	dlwg     sync.WaitGroup // Download goroutines

	infraMu  sync.Mutex
	infraErr error
}

func (sw *swarm) setInfra(err error) {
	sw.infraMu.Lock()
	defer sw.infraMu.Unlock()
	if sw.infraErr == nil {
		sw.infraErr = err
	}
}

func (sw *swarm) getInfra() error {
	sw.infraMu.Lock()
	defer sw.infraMu.Unlock()
	return sw.infraErr
}

func freePort() (int, error) {
	l, err := net.Listen("tcp", ":0")
	if err != nil {
		return 0, err
	}
	defer l.Close()
	return l.Addr().(*net.TCPAddr).Port, nil
}

func (sw *swarm) piece(i int) []byte {
	lo := i * sw.c.PieceLen
	hi := lo + sw.c.PieceLen
	if hi > len(sw.blob) {
		hi = len(sw.blob)
	}
	return sw.blob[lo:hi]
}

func (sw *swarm) blacklistDuration() time.Duration {
	per := time.Duration(sw.c.ConnTTIMs+sw.c.PreemptMs+sw.c.AnnounceMs) * time.Millisecond
	return time.Duration(len(sw.c.Peers)-1)*per + 300*time.Millisecond
}

func (sw *swarm) schedConfig(spec PeerSpec) scheduler.Config {
	policy := piecerequest.DefaultPolicy
	if spec.Rarest {
		policy = piecerequest.RarestFirstPolicy
	}
	return scheduler.Config{
		SeederTTI:          10 * time.Minute,
		LeecherTTI:         10 * time.Minute,
		ConnTTI:            time.Duration(sw.c.ConnTTIMs) * time.Millisecond,
		ConnTTL:            time.Hour,
		PreemptionInterval: time.Duration(sw.c.PreemptMs) * time.Millisecond,
		ConnState: connstate.Config{
			MaxOpenConnectionsPerTorrent: spec.MaxConn,
			BlacklistDuration:            sw.blacklistDuration(),
		},
		Conn: conn.Config{},
		Dispatch: dispatch.Config{
			PieceRequestMinTimeout: time.Duration(sw.c.PieceTimeoutMs) * time.Millisecond,
			PieceRequestPolicy:     policy,
			AgentPipelineLimit:     spec.Pipeline,
			OriginPipelineLimit:    spec.OriginPipeline,
		},
		TorrentLog: log.Config{Disable: true},
		Log:        log.Config{Disable: true},
	}
}

// startPeer builds the peer's stores and starts its scheduler; agents then call Download.
func (sw *swarm) startPeer(p *peerRT) error {
	pdir := filepath.Join(sw.dir, fmt.Sprintf("peer%d", p.idx))
	var archive storage.TorrentArchive
	var cads *store.CADownloadStore
	var cas *store.CAStore
	var err error
	if p.spec.Kind == kindOrigin {
		cas, err = store.NewCAStore(store.CAStoreConfig{
			UploadDir:     filepath.Join(pdir, "upload"),
			CacheDir:      filepath.Join(pdir, "cache"),
			UploadCleanup: store.CleanupConfig{Disabled: true},
			CacheCleanup:  store.CleanupConfig{Disabled: true},
		}, tally.NoopScope)
		if err != nil {
			return fmt.Errorf("castore: %s", err)
		}
		// The way the origin's blob server commits an upload: data plus generated metainfo.
		err = cas.WriteBlobToCacheWithMetaInfo(sw.digest.Hex(), uint64(len(sw.blob)), func(w store.FileReadWriter) error {
			_, werr := w.Write(sw.blob)
			return werr
		}, int64(sw.c.PieceLen))
		if err != nil {
			cas.Close()
			return fmt.Errorf("origin write blob: %s", err)
		}
		// A real refresher without storage backends, as an origin with nothing configured: a
		// handshake for a blob the origin does not hold (e.g. a stray dial from another swarm
		// that reuses a port) is answered with an error, like in production.
		refresher := blobrefresh.New(blobrefresh.Config{}, tally.NoopScope, cas, backend.ManagerFixture(), metainfogen.Fixture(cas, sw.c.PieceLen))
		archive = originstorage.NewTorrentArchive(cas, refresher)
	} else {
		cads, err = store.NewCADownloadStore(store.CADownloadStoreConfig{
			DownloadDir:     filepath.Join(pdir, "download"),
			CacheDir:        filepath.Join(pdir, "cache"),
			DownloadCleanup: store.CleanupConfig{Disabled: true},
			CacheCleanup:    store.CleanupConfig{Disabled: true},
		}, tally.NoopScope)
		if err != nil {
			return fmt.Errorf("cadownloadstore: %s", err)
		}
		aa := agentstorage.NewTorrentArchive(tally.NoopScope, cads, sw.mic)
		// Pieces already on disk (all of them for a seeder).
		var have []int
		for i := 0; i < sw.mi.NumPieces(); i++ {
			if p.spec.Kind == kindSeeder || (p.spec.HaveMod > 0 && i%p.spec.HaveMod == p.spec.HaveRem) {
				have = append(have, i)
			}
		}
		if len(have) > 0 {
			t, terr := aa.CreateTorrent(namespace, sw.digest)
			if terr != nil {
				cads.Close()
				return fmt.Errorf("prepopulate create torrent: %s", terr)
			}
			for _, i := range have {
				if werr := t.WritePiece(piecereader.NewBuffer(sw.piece(i)), i); werr != nil {
					cads.Close()
					return fmt.Errorf("prepopulate write piece %d: %s", i, werr)
				}
			}
		}
		archive = aa
	}
	if p.cor != nil {
		archive = &corruptArchive{archive, p.cor}
	}

	pctx := core.PeerContext{IP: "127.0.0.1", PeerID: p.id, Zone: "zone1", Cluster: "c19", Origin: p.spec.Kind == kindOrigin}
	ring := hashring.NoopPassiveRing(hostlist.Fixture(sw.trackerA))
	acfg := announcer.Config{DefaultInterval: time.Duration(sw.c.AnnounceMs) * time.Millisecond, MaxInterval: time.Minute}
	var s scheduler.Scheduler
	for attempt := 0; ; attempt++ {
		port, perr := freePort()
		if perr != nil {
			err = perr
			break
		}
		pctx.Port = port
		var ac announceclient.Client
		var aq announcequeue.Queue
		if p.spec.Kind == kindOrigin {
			ac, aq = announceclient.Disabled(), announcequeue.Disabled()
		} else {
			ac, aq = announceclient.New(pctx, ring, nil), announcequeue.New()
		}
		s, err = scheduler.NewVerifSwarmScheduler(sw.schedConfig(p.spec), archive, tally.NoopScope, pctx, ac, p.events, acfg, aq)
		if err == nil || attempt >= 30 || !strings.Contains(err.Error(), "address already in use") {
			break
		}
	}
	if err != nil {
		if cads != nil {
			cads.Close()
		}
		if cas != nil {
			cas.Close()
		}
		return fmt.Errorf("start scheduler: %s", err)
	}
	p.mu.Lock()
	p.sched, p.cads, p.cas = s, cads, cas
	p.started, p.startedAt = true, time.Now()
	p.mu.Unlock()
	if p.spec.Kind == kindOrigin {
		sw.origins.add(*core.NewPeerInfo(p.id, "127.0.0.1", pctx.Port, true, true))
		return nil
	}
	sw.dlwg.Add(1)
	go func() {
		defer sw.dlwg.Done()
		err := s.Download(namespace, sw.digest)
		p.mu.Lock()
		p.dlErr, p.dlAt = err, time.Now()
		p.mu.Unlock()
		close(p.dlDone)
	}()
	return nil
}

func (p *peerRT) stop() {
	p.mu.Lock()
	s := p.sched
	already := p.stopped
	p.stopped = true
	p.mu.Unlock()
	if s == nil || already {
		return
	}
	s.Stop()
	p.mu.Lock()
	p.stoppedAt = time.Now()
	p.mu.Unlock()
}

// activeConns derives the number of currently active connections from the peer's event log.
func activeConns(evs []*networkevent.Event) int {
	n := 0
	for _, e := range evs {
		switch e.Name {
		case networkevent.AddActiveConn:
			n++
		case networkevent.DropActiveConn:
			n--
		}
	}
	return n
}

// piecesMoved counts pieces the peer received (leecher) or that others received from it (seeder).
func (sw *swarm) piecesMoved(p *peerRT) int {
	n := 0
	if p.spec.Kind == kindLeech {
		for _, e := range p.events.Events() {
			if e.Name == networkevent.ReceivePiece {
				n++
			}
		}
		return n
	}
	id := p.id.String()
	for _, q := range sw.peers {
		if q == p {
			continue
		}
		for _, e := range q.events.Events() {
			if e.Name == networkevent.ReceivePiece && e.Peer == id {
				n++
			}
		}
	}
	return n
}

type outcome struct {
	violation  string // safety violation or wrong Download result
	hang       bool
	hangInfo   string
	infra      error
	classes    []string
	nontrivial bool
	elapsed    time.Duration
}

func runSwarm(c Case) (out outcome) {
	t0 := time.Now()
	dir, err := os.MkdirTemp("", "c19-")
	if err != nil {
		return outcome{infra: err}
	}
	defer os.RemoveAll(dir)
	sw := &swarm{c: c, dir: dir, done: make(chan struct{}), origins: &originList{}, mic: metainfoclient.NewTestClient()}
	sw.blob = makeBlob(c.BlobSeed, c.BlobLen)
	sw.digest, err = core.NewDigester().FromBytes(sw.blob)
	if err != nil {
		return outcome{infra: err}
	}
	sw.mi, err = core.NewMetaInfo(sw.digest, bytes.NewReader(sw.blob), int64(c.PieceLen))
	if err != nil {
		return outcome{infra: err}
	}
	if err := sw.mic.Upload(sw.mi); err != nil {
		return outcome{infra: err}
	}

	// Tracker: kraken's handler, in-memory peer store, fixed origin list.
	policyName := "default"
	if c.Completeness {
		policyName = "completeness"
	}
	policy, err := peerhandoutpolicy.NewPriorityPolicy(tally.NoopScope, policyName)
	if err != nil {
		return outcome{infra: err}
	}
	ps := peerstore.NewTestStore()
	tr := trackerserver.New(trackerserver.Config{AnnounceInterval: time.Duration(c.AnnounceMs) * time.Millisecond},
		tally.NoopScope, policy, ps, sw.origins, nil)
	l, err := net.Listen("tcp", "127.0.0.1:0")
	if err != nil {
		return outcome{infra: err}
	}
	sw.trackerA = l.Addr().String()
	sw.httpSrv = &http.Server{Handler: tr.Handler()}
	go sw.httpSrv.Serve(l)

	seq := atomic.AddUint32(&caseSeq, 1)
	for i, spec := range c.Peers {
		var id core.PeerID
		id[0] = byte(i + 1)
		id[1], id[2], id[3], id[4] = byte(seq>>24), byte(seq>>16), byte(seq>>8), byte(seq)
		pid := uint32(os.Getpid())
		id[5], id[6], id[7], id[8] = byte(pid>>24), byte(pid>>16), byte(pid>>8), byte(pid)
		id[19] = 0xc9
		p := &peerRT{idx: i, spec: spec, id: id, events: networkevent.NewTestProducer(), dlDone: make(chan struct{})}
		if i == c.Corrupt {
			mod := c.CorruptMod
			if mod < 1 {
				mod = 1
			}
			p.cor = &corruptor{mod: mod, rem: c.CorruptRem % mod, firstN: c.CorruptFirstN}
		}
		sw.peers = append(sw.peers, p)
	}

	defer func() {
		// Teardown: stop everything, wait for our goroutines, release stores and sockets.
		close(sw.done)
		sw.wg.Wait()
		var swg sync.WaitGroup
		for _, p := range sw.peers {
			swg.Add(1)
			go func(p *peerRT) { defer swg.Done(); p.stop() }(p)
		}
		swg.Wait()
		waitGroupTimeout(&sw.dlwg, 20*time.Second)
		for _, p := range sw.peers {
			if p.cads != nil {
				p.cads.Close()
			}
			if p.cas != nil {
				p.cas.Close()
			}
		}
		sw.httpSrv.Close()
		if tr, ok := http.DefaultTransport.(*http.Transport); ok {
			tr.CloseIdleConnections()
		}
	}()

	// The honest seeder is up before anybody else; so is every other seeder without a join
	// delay (in index order), and the tracker knows them before the first leecher asks. This
	// only fixes the arrival order the case describes; it is not part of the oracle.
	for _, p := range sw.peers {
		if p.idx != 0 && (p.spec.Kind == kindLeech || p.spec.JoinMs > 0) {
			continue
		}
		if err := sw.startPeer(p); err != nil {
			return outcome{infra: err}
		}
		if p.spec.Kind == kindSeeder {
			waitAnnounced(ps, sw.mi.InfoHash(), p.id, 2*time.Second)
		}
	}
	for _, p := range sw.peers[1:] {
		if p.spec.Kind != kindLeech && p.spec.JoinMs == 0 {
			continue
		}
		sw.wg.Add(1)
		go func(p *peerRT) {
			defer sw.wg.Done()
			if p.spec.JoinMs > 0 {
				select {
				case <-time.After(time.Duration(p.spec.JoinMs) * time.Millisecond):
				case <-sw.done:
					return
				}
			}
			if err := sw.startPeer(p); err != nil {
				sw.setInfra(fmt.Errorf("peer %d: %s", p.idx, err))
			}
		}(p)
	}
	var departedAt time.Time
	var departMu sync.Mutex
	if c.Depart >= 1 && c.Depart < len(sw.peers) {
		dp := sw.peers[c.Depart]
		sw.wg.Add(1)
		go func() {
			defer sw.wg.Done()
			tick := time.NewTicker(time.Millisecond)
			defer tick.Stop()
			for {
				select {
				case <-sw.done:
					return
				case <-tick.C:
				}
				dp.mu.Lock()
				started, at := dp.started, dp.startedAt
				dp.mu.Unlock()
				if !started {
					continue
				}
				if time.Since(at) >= time.Duration(c.DepartMaxMs)*time.Millisecond || sw.piecesMoved(dp) >= c.DepartAfterPieces {
					n := activeConns(dp.events.Events())
					dp.mu.Lock()
					dp.connsAtStop = n
					dp.mu.Unlock()
					departMu.Lock()
					departedAt = time.Now()
					departMu.Unlock()
					dp.stop()
					return
				}
			}
		}()
	}

	// mustComplete: honest agents that stay.
	var must []*peerRT
	for _, p := range sw.peers {
		if p.isAgent() && p.idx != c.Corrupt && p.idx != c.Depart {
			must = append(must, p)
		}
	}
	deadline := time.Now().Add(caseDeadline)
	converged := false
	for {
		if sw.getInfra() != nil {
			return outcome{infra: sw.getInfra()}
		}
		all := true
		for _, p := range must {
			if !p.downloadReturned() {
				all = false
				break
			}
		}
		if all {
			converged = true
			break
		}
		if time.Now().After(deadline) {
			break
		}
		time.Sleep(2 * time.Millisecond)
	}
	out.elapsed = time.Since(t0)

	// Safety: whoever reports success (including the faulty and the departed agents) holds the exact blob.
	for _, p := range sw.peers {
		if !p.isAgent() || !p.downloadReturned() {
			continue
		}
		p.mu.Lock()
		derr, cads := p.dlErr, p.cads
		p.mu.Unlock()
		if derr != nil {
			continue
		}
		got, rerr := readCache(cads, sw.digest)
		if rerr != nil {
			out.violation = fmt.Sprintf("Download returned nil but the cache file cannot be read (peer %d kind %d): %v", p.idx, p.spec.Kind, rerr)
			return out
		}
		if !bytes.Equal(got, sw.blob) {
			out.violation = fmt.Sprintf("Download returned nil but the cached copy differs from the blob (peer %d kind %d): %s", p.idx, p.spec.Kind, diffSummary(got, sw.blob, c.PieceLen))
			return out
		}
	}
	// Liveness: honest staying agents complete.
	for _, p := range must {
		if !p.downloadReturned() {
			continue
		}
		p.mu.Lock()
		derr := p.dlErr
		p.mu.Unlock()
		if derr != nil {
			out.violation = fmt.Sprintf("Download of an honest, staying agent returned an error (peer %d kind %d): %v", p.idx, p.spec.Kind, derr)
			return out
		}
	}
	if !converged {
		// Rule out a starved environment (other checks run in parallel and can exhaust
		// loopback ports): if a fresh loopback connection cannot be made now, nothing can be concluded.
		if err := probeLoopback(sw.trackerA); err != nil {
			out.infra = fmt.Errorf("swarm did not converge and the loopback probe fails: %s", err)
			return out
		}
		out.hang = true
		out.hangInfo = sw.hangReport(must)
		return out
	}

	// Evidence.
	departMu.Lock()
	dAt := departedAt
	departMu.Unlock()
	out.classes, out.nontrivial = sw.classify(must, dAt)
	switch {
	case out.elapsed > 20*time.Second:
		out.classes = append(out.classes, "took>20s")
	case out.elapsed > 5*time.Second:
		out.classes = append(out.classes, "took>5s")
	case out.elapsed > time.Second:
		out.classes = append(out.classes, "took>1s")
	}
	if os.Getenv("C19_DEBUG") != "" {
		cb, _ := json.Marshal(c)
		fmt.Fprintf(os.Stderr, "C19_DEBUG case=%s\nclasses=%v elapsed=%s\n%s", cb, out.classes, out.elapsed, sw.hangReport(nil))
	}
	return out
}

// waitAnnounced waits (bounded) until the tracker's peer store lists the peer.
func waitAnnounced(ps peerstore.Store, h core.InfoHash, id core.PeerID, d time.Duration) {
	deadline := time.Now().Add(d)
	for time.Now().Before(deadline) {
		peers, _ := ps.GetPeers(h, 50)
		for _, p := range peers {
			if p.PeerID == id {
				return
			}
		}
		time.Sleep(time.Millisecond)
	}
}

func probeLoopback(addr string) error {
	for i := 0; i < 3; i++ {
		nc, err := net.DialTimeout("tcp", addr, 2*time.Second)
		if err != nil {
			return err
		}
		nc.Close()
		if _, err := freePort(); err != nil {
			return err
		}
	}
	return nil
}

func waitGroupTimeout(wg *sync.WaitGroup, d time.Duration) bool {
	ch := make(chan struct{})
	go func() { wg.Wait(); close(ch) }()
	select {
	case <-ch:
		return true
	case <-time.After(d):
		return false
	}
}

func readCache(cads *store.CADownloadStore, d core.Digest) ([]byte, error) {
	r, err := cads.Cache().GetFileReader(d.Hex())
	if err != nil {
		return nil, err
	}
	defer r.Close()
	return io.ReadAll(r)
}

func diffSummary(got, want []byte, pieceLen int) string {
	if len(got) != len(want) {
		return fmt.Sprintf("length %d, want %d", len(got), len(want))
	}
	var bad []int
	for i := range got {
		if got[i] != want[i] {
			pi := i / pieceLen
			if len(bad) == 0 || bad[len(bad)-1] != pi {
				bad = append(bad, pi)
			}
		}
	}
	if len(bad) > 8 {
		return fmt.Sprintf("%d pieces differ, first %v", len(bad), bad[:8])
	}
	return fmt.Sprintf("pieces %v differ", bad)
}

func (sw *swarm) classify(must []*peerRT, departedAt time.Time) ([]string, bool) {
	c := sw.c
	cl := map[string]bool{}
	seeders := map[string]bool{}
	for _, p := range sw.peers {
		switch p.spec.Kind {
		case kindOrigin:
			cl["origin-seeder"] = true
			seeders[p.id.String()] = true
		case kindSeeder:
			cl["agent-seeder"] = true
			seeders[p.id.String()] = true
		}
		if p.spec.MaxConn == 1 {
			cl["max-conn-1"] = true
		}
		if p.spec.Kind == kindLeech && p.spec.HaveMod > 0 && sw.mi.NumPieces() > p.spec.HaveRem {
			cl["partial-start"] = true
		}
	}
	if sw.mi.NumPieces() == 1 {
		cl["single-piece"] = true
	} else if sw.mi.NumPieces() >= 16 {
		cl["16+pieces"] = true
	}
	if c.BlobLen%c.PieceLen != 0 {
		cl["short-last-piece"] = true
	}
	fetched2 := false
	disturbed := false
	for _, p := range must {
		if p.spec.Kind != kindLeech {
			continue
		}
		src := map[string]int{}
		n := 0
		for _, e := range p.events.Events() {
			if e.Name == networkevent.ReceivePiece {
				src[e.Peer]++
				n++
			}
		}
		if n >= 2 {
			fetched2 = true
		}
		if len(src) >= 2 {
			cl["multi-source"] = true
			disturbed = true
		}
		for id := range src {
			if !seeders[id] {
				cl["leecher-to-leecher"] = true
			}
		}
	}
	for _, p := range sw.peers {
		for _, e := range p.events.Events() {
			if e.Name == networkevent.BlacklistConn {
				cl["blacklisted-conn"] = true
				disturbed = true
			}
		}
	}
	if c.Corrupt >= 0 && c.Corrupt < len(sw.peers) {
		cp := sw.peers[c.Corrupt]
		if n := atomic.LoadInt64(&cp.cor.served); n > 0 {
			cl["corrupt-piece-served"] = true
			disturbed = true
			if cp.spec.Kind == kindLeech {
				cl["corrupt-leecher"] = true
			} else {
				cl["corrupt-seeder"] = true
			}
			if c.CorruptFirstN > 0 {
				cl["corrupt-transient"] = true
			}
		} else {
			cl["corrupt-never-asked"] = true
		}
	}
	if c.Depart >= 0 && c.Depart < len(sw.peers) {
		dp := sw.peers[c.Depart]
		if departedAt.IsZero() {
			cl["depart-not-reached"] = true
		} else {
			others := false
			for _, p := range must {
				p.mu.Lock()
				at := p.dlAt
				p.mu.Unlock()
				if p.spec.Kind == kindLeech && at.After(departedAt) {
					others = true
				}
			}
			if others {
				cl["depart-while-others-incomplete"] = true
				disturbed = true
			}
			dp.mu.Lock()
			if dp.connsAtStop > 0 {
				cl["depart-with-active-conns"] = true
			}
			dp.mu.Unlock()
		}
	}
	var out []string
	for k := range cl {
		out = append(out, k)
	}
	sort.Strings(out)
	return out, fetched2 && disturbed
}

// hangReport describes the stuck swarm (diagnostics only; never part of the verdict's first line).
func (sw *swarm) hangReport(must []*peerRT) string {
	var b strings.Builder
	names := map[string]int{}
	for _, p := range sw.peers {
		names[p.id.String()] = p.idx
	}
	for _, p := range sw.peers {
		evs := p.events.Events()
		recv := 0
		bl := 0
		req := 0
		for _, e := range evs {
			switch e.Name {
			case networkevent.ReceivePiece:
				recv++
			case networkevent.BlacklistConn:
				bl++
			case networkevent.RequestPiece:
				req++
			}
		}
		state := "n/a"
		if p.isAgent() {
			if p.downloadReturned() {
				state = fmt.Sprintf("returned(%v)", p.dlErr)
			} else {
				state = "PENDING"
			}
		}
		fmt.Fprintf(&b, "peer %d kind=%d download=%s pieces_received=%d/%d requests_sent=%d blacklistings=%d active_conns=%d\n",
			p.idx, p.spec.Kind, state, recv, sw.mi.NumPieces(), req, bl, activeConns(evs))
		if p.isAgent() && !p.downloadReturned() {
			lo := len(evs) - 12
			if lo < 0 {
				lo = 0
			}
			for _, e := range evs[lo:] {
				peer := -1
				if v, ok := names[e.Peer]; ok {
					peer = v
				}
				fmt.Fprintf(&b, "    %s %s peer=%d piece=%d\n", e.Time.Format("15:04:05.000"), e.Name, peer, e.Piece)
			}
		}
	}
	return b.String()
}

// run is the part's Run function: one swarm, with the retry-to-confirm rule for non-convergence.
func run(c Case) pbt.Verdict {
	if v := validate(c); v != "" {
		return pbt.Verdict{Discard: true, Classes: []string{"invalid-case:" + v}}
	}
	out := runSwarm(c)
	reruns := 0
	for out.infra == nil && out.violation == "" && out.hang && reruns < 3 {
		first := out.hangInfo
		out = runSwarm(c)
		reruns++
		if out.hang {
			out.hangInfo = first + "--- re-run ---\n" + out.hangInfo
		}
	}
	switch {
	case out.infra != nil:
		fmt.Fprintf(os.Stderr, "c19: infrastructure problem, case discarded: %v\n", out.infra)
		return pbt.Verdict{Discard: true, Classes: []string{"infra-error"}}
	case out.violation != "":
		return pbt.Fail("%s", out.violation)
	case out.hang:
		return pbt.Fail("swarm did not converge: an honest, staying agent's Download had not returned after %s in %d consecutive runs of the case\n%s",
			caseDeadline, reruns+1, out.hangInfo)
	case reruns > 0:
		return pbt.Verdict{Discard: true, Classes: []string{"flaky_inconclusive"}}
	}
	return pbt.OK(out.nontrivial, out.classes...)
}

// validate rejects hand-written replay cases outside the domain (the generator never produces them).
func validate(c Case) string {
	switch {
	case c.BlobLen < 1 || c.BlobLen > 64*1024:
		return "blob_len"
	case c.PieceLen < 1 || c.PieceLen > 8192:
		return "piece_len"
	case len(c.Peers) < 2 || len(c.Peers) > 8:
		return "peers"
	case c.Peers[0].Kind == kindLeech || c.Corrupt == 0 || c.Depart == 0:
		return "peer0-must-be-honest-staying-seeder"
	case c.Corrupt >= len(c.Peers) || c.Depart >= len(c.Peers):
		return "index"
	case c.AnnounceMs < 1 || c.PreemptMs < 1 || c.ConnTTIMs < 1 || c.PieceTimeoutMs < 1:
		return "intervals"
	}
	for _, p := range c.Peers {
		if p.MaxConn < 1 || p.Pipeline < 1 || p.OriginPipeline < 1 || p.Kind < 0 || p.Kind > 2 || p.HaveMod < 0 {
			return "peer-spec"
		}
	}
	return ""
}
