//go:build verif

package c19

import (
	"bytes"
	"fmt"
	"net"
	"time"

	"github.com/andres-erbsen/clock"
	"github.com/uber-go/tally"
	"github.com/willf/bitset"
	"go.uber.org/zap"
	"pgregory.net/rapid"

	"github.com/uber/kraken/core"
	"github.com/uber/kraken/lib/torrent/networkevent"
	"github.com/uber/kraken/lib/torrent/scheduler/conn"
	"github.com/uber/kraken/lib/torrent/storage"

	"verif/internal/pbt"
)

// HSCase is one handshake exchange: the opener (a leecher, say) and the acceptor (a
// seeder, say) each announce the pieces they have, plus piece sets of neighbours.
type HSCase struct {
	Pieces     int      `json:"pieces"`
	Opener     string   `json:"opener"`   // '0'/'1' per piece
	Acceptor   string   `json:"acceptor"` // '0'/'1' per piece
	Neighbours []string `json:"neighbours,omitempty"`
}

func genBits(t *rapid.T, n int, label string) string {
	switch rapid.IntRange(0, 4).Draw(t, label+"_shape") {
	case 0:
		return string(bytes.Repeat([]byte{'1'}, n)) // a seeder
	case 1:
		return string(bytes.Repeat([]byte{'0'}, n)) // a fresh leecher
	case 2: // only the tail
		k := rapid.IntRange(1, n).Draw(t, label+"_tail")
		return string(bytes.Repeat([]byte{'0'}, n-k)) + string(bytes.Repeat([]byte{'1'}, k))
	}
	b := make([]byte, n)
	for i := range b {
		b[i] = '0'
		if rapid.Bool().Draw(t, label+"_bit") {
			b[i] = '1'
		}
	}
	return string(b)
}

func genHS(t *rapid.T) HSCase {
	n := rapid.OneOf(rapid.IntRange(1, 400), rapid.IntRange(1, 70),
		rapid.SampledFrom([]int{1, 63, 64, 65, 127, 128, 129, 191, 192, 193, 255, 256, 257, 320, 384})).Draw(t, "pieces")
	c := HSCase{Pieces: n, Opener: genBits(t, n, "opener"), Acceptor: genBits(t, n, "acceptor")}
	for i, k := 0, rapid.IntRange(0, 3).Draw(t, "neighbours"); i < k; i++ {
		c.Neighbours = append(c.Neighbours, genBits(t, n, fmt.Sprintf("nb%d", i)))
	}
	return c
}

func toBitset(s string) *bitset.BitSet {
	b := bitset.New(uint(len(s)))
	for i := range s {
		if s[i] == '1' {
			b.Set(uint(i))
		}
	}
	return b
}

func fromBitset(b *bitset.BitSet, n int) string {
	if b == nil {
		return "<nil>"
	}
	out := make([]byte, 0, n)
	for i := uint(0); i < b.Len(); i++ {
		if b.Test(i) {
			out = append(out, '1')
		} else {
			out = append(out, '0')
		}
	}
	return string(out)
}

type hsNoEvents struct{}

func (hsNoEvents) ConnClosed(*conn.Conn) {}

func hsPeerID(i int) core.PeerID {
	id, _ := core.PeerIDFactory(core.AddrHashPeerIDFactory).GeneratePeerID(fmt.Sprintf("10.9.0.%d", i), i)
	return id
}

func runHS(c HSCase) pbt.Verdict {
	blob := make([]byte, c.Pieces)
	for i := range blob {
		blob[i] = byte(i * 7)
	}
	d, err := core.NewDigester().FromBytes(blob)
	if err != nil {
		return pbt.Verdict{Discard: true}
	}
	mi, err := core.NewMetaInfo(d, bytes.NewReader(blob), 1)
	if err != nil || mi.NumPieces() != c.Pieces {
		return pbt.Verdict{Discard: true, Classes: []string{"metainfo-failed"}}
	}
	cfg := conn.ConfigFixture()
	cfg.HandshakeTimeout = 20 * time.Second
	newHS := func(i int) *conn.Handshaker {
		h, err := conn.NewHandshaker(cfg, tally.NoopScope, clock.New(), networkevent.NewTestProducer(), hsPeerID(i), hsNoEvents{}, zap.NewNop().Sugar())
		if err != nil {
			return nil
		}
		return h
	}
	opener, acceptor := newHS(1), newHS(2)
	if opener == nil || acceptor == nil {
		return pbt.Verdict{Discard: true}
	}
	l, err := net.Listen("tcp", "127.0.0.1:0")
	if err != nil {
		return pbt.Verdict{Discard: true, Classes: []string{"infra-error"}}
	}
	defer l.Close()
	rb := conn.RemoteBitfields{}
	for i, nb := range c.Neighbours {
		rb[hsPeerID(10+i)] = toBitset(nb)
	}
	openerInfo := storage.NewTorrentInfo(mi, toBitset(c.Opener))
	acceptorInfo := storage.NewTorrentInfo(mi, toBitset(c.Acceptor))

	type accepted struct {
		pc  *conn.PendingConn
		cn  *conn.Conn
		err error
	}
	ach := make(chan accepted, 1)
	go func() {
		nc, err := l.Accept()
		if err != nil {
			ach <- accepted{err: err}
			return
		}
		// Closing with linger 0 resets the connection: no TIME_WAIT entry is left behind on
		// either side, so long runs do not exhaust the ephemeral ports.
		if tc, ok := nc.(*net.TCPConn); ok {
			tc.SetLinger(0)
		}
		pc, err := acceptor.Accept(nc)
		if err != nil {
			nc.Close()
			ach <- accepted{err: fmt.Errorf("accept: %s", err)}
			return
		}
		cn, err := acceptor.Establish(pc, acceptorInfo, rb)
		ach <- accepted{pc: pc, cn: cn, err: err}
	}()
	res, ierr := opener.Initialize(hsPeerID(2), false, l.Addr().String(), openerInfo, rb, "ns")
	a := <-ach
	// Deferred calls run last-in first-out: the acceptor's side (linger 0) closes first.
	if res != nil && res.Conn != nil {
		defer res.Conn.Close()
	}
	if a.cn != nil {
		defer a.cn.Close()
	}
	if ierr != nil || a.err != nil {
		return pbt.Fail("an honest handshake for a %d-piece torrent failed: opener: %v, acceptor: %v", c.Pieces, ierr, a.err)
	}
	if got := fromBitset(a.pc.Bitfield(), c.Pieces); got != c.Opener {
		return pbt.Fail("the acceptor sees a different piece set than the opener announced (%d pieces):\n  announced %s\n  seen      %s", c.Pieces, c.Opener, got)
	}
	if got := fromBitset(res.Bitfield, c.Pieces); got != c.Acceptor {
		return pbt.Fail("the opener sees a different piece set than the acceptor announced (%d pieces):\n  announced %s\n  seen      %s", c.Pieces, c.Acceptor, got)
	}
	for side, seen := range map[string]conn.RemoteBitfields{"acceptor": a.pc.RemoteBitfields(), "opener": res.RemoteBitfields} {
		if len(seen) != len(c.Neighbours) {
			return pbt.Fail("the %s sees %d neighbour piece sets, %d were relayed", side, len(seen), len(c.Neighbours))
		}
		for i, nb := range c.Neighbours {
			if got := fromBitset(seen[hsPeerID(10+i)], c.Pieces); got != nb {
				return pbt.Fail("the %s sees a different piece set for relayed neighbour %d (%d pieces):\n  relayed %s\n  seen    %s", side, i, c.Pieces, nb, got)
			}
		}
	}
	v := pbt.Verdict{NonTrivial: toBitset(c.Opener).Any() || toBitset(c.Acceptor).Any()}
	if c.Pieces%64 == 0 {
		v.Classes = append(v.Classes, "pieces-multiple-of-64")
	}
	if toBitset(c.Acceptor).All() {
		v.Classes = append(v.Classes, "acceptor-is-seeder")
	}
	if len(c.Neighbours) > 0 {
		v.Classes = append(v.Classes, "neighbour-sets-relayed")
	}
	return v
}
