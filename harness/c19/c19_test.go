//go:build verif

// C19 — a swarm with a reachable seeder converges to the exact blob.
//
// Every case is a whole swarm of real, started kraken schedulers on loopback TCP
// (real listener, event loop, announce loop, dispatcher, conn, agent/origin
// torrent storage) that find each other through a real tracker server handler
// (in-memory peer store) reached over HTTP by the real announce client.
package c19

import (
	"fmt"
	"os"
	"testing"

	"pgregory.net/rapid"

	"verif/internal/pbt"
)

// Peer kinds.
const (
	kindOrigin = 0 // origin scheduler: CAStore + originstorage archive, never announces, handed out by the tracker's origin store
	kindSeeder = 1 // agent scheduler whose cache already holds the blob and whose owner called Download (so it seeds and announces)
	kindLeech  = 2 // agent scheduler that calls Download for a blob it does not (completely) have
)

// PeerSpec configures one peer of the swarm.
type PeerSpec struct {
	Kind           int  `json:"kind"`
	MaxConn        int  `json:"max_conn"`        // connstate MaxOpenConnectionsPerTorrent
	Pipeline       int  `json:"pipeline"`        // dispatch AgentPipelineLimit
	OriginPipeline int  `json:"origin_pipeline"` // dispatch OriginPipelineLimit
	Rarest         bool `json:"rarest"`          // piece request policy rarest_first instead of default
	JoinMs         int  `json:"join_ms"`         // delay before the peer starts (and, for agents, calls Download)
	// Leechers only: pieces already on disk from an earlier, interrupted download:
	// piece i is present iff HaveMod > 0 && i%HaveMod == HaveRem.
	HaveMod int `json:"have_mod"`
	HaveRem int `json:"have_rem"`
}

// Case is one swarm. Peers[0] is the honest seeder that stays reachable for the whole case.
type Case struct {
	BlobSeed uint32     `json:"blob_seed"`
	BlobLen  int        `json:"blob_len"`
	PieceLen int        `json:"piece_len"`
	Peers    []PeerSpec `json:"peers"`

	// Corrupt is the index of the peer whose storage serves bit-flipped pieces (-1: none).
	// Piece i is served corrupted iff i%CorruptMod == CorruptRem; if CorruptFirstN > 0 only the
	// first CorruptFirstN such reads are corrupted (a transient fault), otherwise all of them.
	Corrupt       int `json:"corrupt"`
	CorruptMod    int `json:"corrupt_mod"`
	CorruptRem    int `json:"corrupt_rem"`
	CorruptFirstN int `json:"corrupt_first_n"`

	// Depart is the index of the peer that stops its scheduler mid-transfer (-1: none): as soon as
	// it has received (leecher) / delivered (seeder) DepartAfterPieces pieces, or DepartMaxMs after
	// it started, whichever comes first.
	Depart            int `json:"depart"`
	DepartAfterPieces int `json:"depart_after_pieces"`
	DepartMaxMs       int `json:"depart_max_ms"`

	AnnounceMs     int  `json:"announce_ms"`      // tracker announce interval
	PreemptMs      int  `json:"preempt_ms"`       // scheduler PreemptionInterval
	ConnTTIMs      int  `json:"conn_tti_ms"`      // scheduler ConnTTI
	PieceTimeoutMs int  `json:"piece_timeout_ms"` // dispatch PieceRequestMinTimeout
	Completeness   bool `json:"completeness"`     // tracker handout policy "completeness" instead of "default"
}

func thorough() bool { return os.Getenv("VERIF_TIER") == "thorough" }

func genPeer(t *rapid.T, kind int, label string) PeerSpec {
	p := PeerSpec{
		Kind:           kind,
		MaxConn:        rapid.IntRange(1, 5).Draw(t, label+"max_conn"),
		Pipeline:       rapid.IntRange(1, 4).Draw(t, label+"pipeline"),
		OriginPipeline: rapid.IntRange(1, 4).Draw(t, label+"origin_pipeline"),
		Rarest:         rapid.Bool().Draw(t, label+"rarest"),
		JoinMs:         rapid.SampledFrom([]int{0, 0, 0, 5, 30, 120, 400}).Draw(t, label+"join_ms"),
	}
	if kind == kindLeech {
		p.HaveMod = rapid.SampledFrom([]int{0, 0, 0, 2, 3, 5}).Draw(t, label+"have_mod")
		if p.HaveMod > 0 {
			p.HaveRem = rapid.IntRange(0, p.HaveMod-1).Draw(t, label+"have_rem")
		}
	}
	return p
}

func gen(t *rapid.T) Case {
	maxPieces, maxLeech := 96, 3
	if thorough() {
		maxPieces, maxLeech = 200, 4
	}
	c := Case{BlobSeed: rapid.Uint32().Draw(t, "blob_seed")}
	c.PieceLen = rapid.OneOf(rapid.IntRange(1, 64), rapid.IntRange(1, 8192), rapid.SampledFrom([]int{1, 2, 4096, 8192})).Draw(t, "piece_len")
	// Piece sets travel as 64-bit words: counts next to a word boundary are a class of their own.
	var boundary []int
	for _, b := range []int{63, 64, 65, 127, 128, 129, 191, 192, 193} {
		if b <= maxPieces {
			boundary = append(boundary, b)
		}
	}
	np := rapid.OneOf(rapid.IntRange(1, 3), rapid.IntRange(4, 24), rapid.IntRange(4, maxPieces), rapid.IntRange(4, maxPieces), rapid.SampledFrom(boundary)).Draw(t, "num_pieces")
	if np >= 63 && (np-1)*c.PieceLen+1 > 64*1024 {
		c.PieceLen = (64*1024 - 1) / (np - 1)
	}
	for (np-1)*c.PieceLen+1 > 64*1024 {
		np--
	}
	last := c.PieceLen
	if rapid.Bool().Draw(t, "short_last_piece") {
		last = rapid.IntRange(1, c.PieceLen).Draw(t, "last_piece_len")
	}
	c.BlobLen = (np-1)*c.PieceLen + last
	if c.BlobLen > 64*1024 {
		c.BlobLen = 64 * 1024
	}

	// Peers[0]: the honest seeder that stays; it is up before anybody else.
	first := genPeer(t, rapid.SampledFrom([]int{kindOrigin, kindSeeder}).Draw(t, "seeder0_kind"), "p0_")
	first.JoinMs = 0
	c.Peers = append(c.Peers, first)
	// Fault plan first, because a corrupting seeder must exist to be chosen.
	hasCorrupt := rapid.IntRange(0, 9).Draw(t, "has_corrupt") < 6
	corruptSeeder := hasCorrupt && rapid.IntRange(0, 9).Draw(t, "corrupt_is_seeder") < 6
	if corruptSeeder || rapid.IntRange(0, 2).Draw(t, "second_seeder") == 0 {
		s := genPeer(t, rapid.SampledFrom([]int{kindOrigin, kindSeeder}).Draw(t, "seeder1_kind"), "p1_")
		if corruptSeeder {
			// A corrupting seeder that nobody talks to is an uninteresting case: let it be there early.
			s.JoinMs = rapid.SampledFrom([]int{0, 0, 0, 5, 30}).Draw(t, "p1_corrupt_join_ms")
		}
		c.Peers = append(c.Peers, s)
	}
	firstLeech := len(c.Peers)
	nl := rapid.IntRange(1, maxLeech).Draw(t, "leechers")
	for i := 0; i < nl; i++ {
		c.Peers = append(c.Peers, genPeer(t, kindLeech, fmt.Sprintf("l%d_", i)))
	}
	n := len(c.Peers)

	c.Corrupt, c.CorruptMod = -1, 1
	if hasCorrupt {
		if corruptSeeder {
			c.Corrupt = 1
		} else {
			// A corrupting leecher: it can only serve what it has, so it starts with part of the blob and early.
			c.Corrupt = rapid.IntRange(firstLeech, n-1).Draw(t, "corrupt")
			lp := &c.Peers[c.Corrupt]
			lp.HaveMod = rapid.SampledFrom([]int{2, 2, 3}).Draw(t, "corrupt_have_mod")
			lp.HaveRem = rapid.IntRange(0, lp.HaveMod-1).Draw(t, "corrupt_have_rem")
			lp.JoinMs = rapid.SampledFrom([]int{0, 0, 5}).Draw(t, "corrupt_join_ms")
		}
		c.CorruptMod = rapid.SampledFrom([]int{1, 1, 2, 3}).Draw(t, "corrupt_mod")
		c.CorruptRem = rapid.IntRange(0, c.CorruptMod-1).Draw(t, "corrupt_rem")
		c.CorruptFirstN = rapid.SampledFrom([]int{0, 0, 0, 1, 3}).Draw(t, "corrupt_first_n")
	}
	c.Depart = -1
	if rapid.IntRange(0, 9).Draw(t, "has_depart") < 5 {
		c.Depart = rapid.IntRange(1, n-1).Draw(t, "depart")
		c.DepartAfterPieces = rapid.IntRange(0, (np+1)/2).Draw(t, "depart_after_pieces")
		c.DepartMaxMs = rapid.SampledFrom([]int{0, 5, 20, 50, 150}).Draw(t, "depart_max_ms")
	}
	c.AnnounceMs = rapid.SampledFrom([]int{20, 50}).Draw(t, "announce_ms")
	c.PreemptMs = rapid.SampledFrom([]int{30, 60}).Draw(t, "preempt_ms")
	c.ConnTTIMs = rapid.SampledFrom([]int{150, 300}).Draw(t, "conn_tti_ms")
	c.PieceTimeoutMs = rapid.SampledFrom([]int{150, 400, 1000}).Draw(t, "piece_timeout_ms")
	c.Completeness = rapid.Bool().Draw(t, "completeness")
	return c
}

func TestProp(t *testing.T) {
	pbt.Main(t, pbt.Spec{
		ID: "C19",
		Rule: "each case is a swarm of real started schedulers on loopback TCP behind a real tracker handler: Peers[0] is an honest origin or agent seeder that stays up; " +
			"0-1 further seeders and 1-4 leechers with generated blob (1 B-64 KiB, content from a generated seed), piece length (1 B-8 KiB), connection limits 1-5, pipeline limits 1-4, " +
			"piece selection policy, join delays, pieces already on disk, tracker handout policy and short announce/pre-emption/idle/request-timeout intervals; optionally one peer (seeder or leecher) whose storage " +
			"serves bit-flipped pieces (all / every k-th / only the first N reads) and one peer that stops mid-transfer. Oracle: every Download that returns nil left a cache file byte-identical to the blob (all agents), and every honest, " +
			"non-departing agent's Download returns nil within 60 s; a case that does not converge is re-run up to 3 more times and only reported when no run converges (otherwise discarded as flaky_inconclusive). " +
			"Part handshake (what makes a seeder's pieces reachable at all): two real handshakers on loopback TCP exchange handshakes for a torrent of 1-400 pieces (biased to 64-bit word boundaries) with generated piece sets on both sides and 0-3 relayed neighbour piece sets; each side must see exactly the piece set (and neighbour sets) the other announced. " +
			"Non-trivial (swarm) = an honest staying leecher fetched at least 2 pieces over the network and the swarm saw a disturbance (a corrupted piece was delivered to another peer, a peer left while others were incomplete, a connection was blacklisted, " +
			"or a leecher got pieces from 2+ sources); non-trivial (handshake) = some side announces a non-empty piece set; distinct by case hash",
		Assumptions: []string{
			"schedules are sampled (real goroutines and sockets), not owned: a violation that needs a rare interleaving can be missed and a found one may need several replays",
			"convergence is judged as completion within 60 s wall clock, confirmed by 3 re-runs of the same case; the intervals are scaled to tens/hundreds of milliseconds (production: seconds)",
			"the connection blacklist duration is set to (peers-1) x (ConnTTI + pre-emption + announce interval) + 300 ms, i.e. long enough to try every other peer once before the first one becomes eligible again; with a shorter blacklist a leecher with fewer slots than useless peers ahead of the seeder in the handout can cycle among them by design",
			"leecher/seeder idle timeouts (LeecherTTI, SeederTTI) and ConnTTL are far above the case duration; bandwidth limiting is off",
			"the corrupting peer flips one byte of a piece and keeps its length: the CRC32 piece sum detects every such change",
			"the tracker is kraken's trackerserver handler with the in-memory test peer store and a fixed origin list; peers that left stay in the handout, as with the real peer store TTL",
		},
		Parts: []pbt.Part{pbt.NewPart("swarm", 1, gen, run), pbt.NewPart("handshake", 10, genHS, runHS)},
	})
}
