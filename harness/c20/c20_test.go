// C20 — the announce queue holds each torrent once and serves them in order.
package c20

import (
	"fmt"
	"testing"

	"github.com/uber/kraken/core"
	"github.com/uber/kraken/lib/torrent/scheduler/announcequeue"
	"pgregory.net/rapid"

	"verif/internal/pbt"
)

// Op codes: 0 add, 1 next, 2 ready, 3 eject.
type Op struct {
	Kind int `json:"k"`
	H    int `json:"h"`
}

type Case struct {
	Hashes int  `json:"hashes"`
	Ops    []Op `json:"ops"`
}

func gen(t *rapid.T) Case {
	n := rapid.IntRange(1, 5).Draw(t, "hashes")
	ops := rapid.SliceOfN(rapid.Custom(func(t *rapid.T) Op {
		return Op{Kind: rapid.IntRange(0, 3).Draw(t, "k"), H: rapid.IntRange(0, n-1).Draw(t, "h")}
	}), 6, 60).Draw(t, "ops")
	return Case{Hashes: n, Ops: ops}
}

func hashOf(i int) core.InfoHash {
	var h core.InfoHash
	h[0] = byte(i + 1)
	h[19] = byte(0xA0 + i)
	return h
}

func run(c Case) pbt.Verdict {
	q := announcequeue.New()
	var ready []int           // model FIFO
	pending := map[int]bool{} // model in-flight set
	in := func(h int) bool {  // in ready list
		for _, x := range ready {
			if x == h {
				return true
			}
		}
		return false
	}
	remove := func(h int) {
		out := ready[:0]
		for _, x := range ready {
			if x != h {
				out = append(out, x)
			}
		}
		ready = out
	}
	var skippedAdds, ejectsOfQueued, ejectsOfPending, readyAfterEject, nexts int
	ejectedWhilePending := map[int]bool{}
	for i, op := range c.Ops {
		h := hashOf(op.H)
		switch op.Kind {
		case 0:
			// Documented precondition: Add is undefined for a torrent already queued.
			if in(op.H) || pending[op.H] {
				skippedAdds++
				continue
			}
			q.Add(h)
			ready = append(ready, op.H)
			delete(ejectedWhilePending, op.H)
		case 1:
			got, ok := q.Next()
			nexts++
			if len(ready) == 0 {
				if ok {
					return pbt.Fail("Next returned a torrent from an empty queue (step %d: got %s)", i, got.Hex())
				}
				continue
			}
			want := ready[0]
			if !ok {
				return pbt.Fail("Next returned nothing although a torrent is ready (step %d: model ready=%v)", i, ready)
			}
			if got != hashOf(want) {
				return pbt.Fail("Next out of FIFO order (step %d: want h%d got %s, model ready=%v pending=%v)", i, want, got.Hex(), ready, pending)
			}
			ready = ready[1:]
			pending[want] = true
		case 2:
			if ejectedWhilePending[op.H] {
				readyAfterEject++
			}
			q.Ready(h)
			if pending[op.H] {
				delete(pending, op.H)
				ready = append(ready, op.H)
			}
		case 3:
			if in(op.H) {
				ejectsOfQueued++
			}
			if pending[op.H] {
				ejectsOfPending++
				ejectedWhilePending[op.H] = true
			}
			q.Eject(h)
			remove(op.H)
			delete(pending, op.H)
		}
	}
	// Drain: remaining ready torrents come out exactly once each in FIFO order.
	seen := map[core.InfoHash]bool{}
	for k := 0; ; k++ {
		got, ok := q.Next()
		if !ok {
			if len(ready) != 0 {
				return pbt.Fail("drain: queue empty but model still has ready torrents %v", ready)
			}
			break
		}
		if seen[got] {
			return pbt.Fail("drain: torrent %s handed out twice", got.Hex())
		}
		seen[got] = true
		if len(ready) == 0 {
			return pbt.Fail("drain: Next returned %s but model has nothing ready (pending=%v)", got.Hex(), pending)
		}
		if got != hashOf(ready[0]) {
			return pbt.Fail("drain: out of FIFO order: want h%d got %s", ready[0], got.Hex())
		}
		ready = ready[1:]
		if k > len(c.Ops)+10 {
			return pbt.Fail("drain: does not terminate")
		}
	}
	var cl []string
	if ejectsOfPending > 0 {
		cl = append(cl, "eject-in-flight")
	}
	if ejectsOfQueued > 0 {
		cl = append(cl, "eject-queued")
	}
	if readyAfterEject > 0 {
		cl = append(cl, "ready-after-eject")
	}
	if skippedAdds > 0 {
		cl = append(cl, "add-precondition-skips")
	}
	nontrivial := (ejectsOfPending > 0 || ejectsOfQueued > 0) && nexts >= 2
	_ = fmt.Sprint
	return pbt.OK(nontrivial, cl...)
}

func TestProp(t *testing.T) {
	pbt.Main(t, pbt.Spec{
		ID:          "C20",
		Rule:        "random add/next/ready/eject sequences (6-60 ops) over 1-5 info hashes, Add only when the model says the hash is absent (documented precondition); lock-step FIFO+pending model, drained at the end; part sched: the queue as the scheduler's events drive it (one agent scheduler behind the harness-driven event loop: downloads, announce ticks, announce results with 0-3 unreachable peers handed out, incoming connections that fill the 1-2 connection slots so that ticks skip saturated torrents, removals, pending events applied in the order the case says); after every step: no torrent twice in the queue, none waiting and marked as being announced at once, every torrent still being downloaded waiting or being announced (completed ones leave the queue by design), nothing left of removed torrents, and a torrent marked as being announced has an announce under way; non-trivial (queue) = at least one eject of a queued or in-flight torrent and >=2 Next calls; distinct by case hash",
		Assumptions: []string{"reference model of the queue written from the property statement", "Add is never issued for a torrent already queued or in flight (documented as undefined)"},
		Parts:       []pbt.Part{pbt.NewPart("queue", 19, gen, run), pbt.NewPart("sched", 1, genSched, runSched)},
	})
}
