//go:build verif

package c20

import (
	"fmt"
	"sort"
	"time"

	"github.com/uber/kraken/core"
	"github.com/uber/kraken/lib/torrent/scheduler/connstate"
	"pgregory.net/rapid"

	"verif/internal/pbt"
	"verif/internal/schedh"
)

// Part sched: the announce queue as the scheduler's events drive it. One agent scheduler
// behind the harness-driven event loop (schedh); the case applies downloads, announce
// ticks, announce results (the fake tracker hands out 0-3 unreachable peers per call),
// incoming connections (which fill a torrent's 1-2 connection slots, so that ticks skip it
// as saturated), removals and pending events in the order it says. After every step the
// queue is looked at through the verif hook.

type SStep struct {
	Kind string `json:"kind"` // download | apply | applyk | atick | incoming | remove | feed | seed | ptick
	Blob int    `json:"blob,omitempty"`
	Pick int    `json:"pick,omitempty"`
	Ev   string `json:"ev,omitempty"`
}

type SCase struct {
	Blobs    int     `json:"blobs"`
	MaxConns int     `json:"max_conns"`
	Script   []int   `json:"script"` // peers handed out by the k-th announce (cyclically)
	Steps    []SStep `json:"steps"`
}

func genSched(t *rapid.T) SCase {
	c := SCase{Blobs: rapid.IntRange(1, 3).Draw(t, "blobs"), MaxConns: rapid.IntRange(1, 2).Draw(t, "max")}
	c.Script = rapid.SliceOfN(rapid.SampledFrom([]int{0, 0, 1, 2, 3}), 1, 4).Draw(t, "script")
	kinds := []string{"download", "download", "apply", "apply", "apply", "apply", "applyk", "atick", "atick", "atick", "incoming", "incoming", "remove", "feed", "seed", "ptick"}
	evs := []string{"newTorrentEvent", "announceResultEvent", "incomingHandshakeEvent", "incomingConnEvent", "failedOutgoingHandshakeEvent", "removeTorrentEvent"}
	if rapid.IntRange(0, 2).Draw(t, "saturate_prefix") == 0 {
		// blob 0 is opened and all its connection slots are taken by remote peers
		c.Steps = append(c.Steps, SStep{Kind: "download"}, SStep{Kind: "applyk", Ev: "newTorrentEvent"})
		for k := 0; k < c.MaxConns; k++ {
			c.Steps = append(c.Steps, SStep{Kind: "incoming"}, SStep{Kind: "applyk", Ev: "incomingHandshakeEvent"}, SStep{Kind: "applyk", Ev: "incomingConnEvent"})
		}
	}
	n := rapid.IntRange(4, 40).Draw(t, "n")
	for i := 0; i < n; i++ {
		s := SStep{Kind: rapid.SampledFrom(kinds).Draw(t, "kind"), Blob: rapid.IntRange(0, c.Blobs-1).Draw(t, "blob")}
		switch s.Kind {
		case "apply":
			s.Pick = rapid.IntRange(0, 5).Draw(t, "pick")
		case "applyk":
			s.Ev = rapid.SampledFrom(evs).Draw(t, "ev")
		}
		c.Steps = append(c.Steps, s)
	}
	return c
}

func runSched(c SCase) pbt.Verdict {
	if c.Blobs < 1 || c.Blobs > 4 || c.MaxConns < 1 || c.MaxConns > 4 || len(c.Script) == 0 {
		return pbt.Verdict{Discard: true}
	}
	var blobs [][]byte
	for i := 0; i < c.Blobs; i++ {
		blobs = append(blobs, []byte(fmt.Sprintf("c20 sched blob %d ................", i)))
	}
	h, err := schedh.New(schedh.Config{Blobs: blobs, PieceLen: 8, SeederTTI: 10 * time.Second, LeecherTTI: time.Hour,
		ConnState: connstate.Config{MaxOpenConnectionsPerTorrent: c.MaxConns, BlacklistDuration: time.Hour}})
	if err != nil {
		return pbt.Verdict{Discard: true, Classes: []string{"harness-setup-failed"}}
	}
	defer h.Close()
	h.SetAnnounceScript(c.Script)
	classes := map[string]bool{}
	var log []string
	note := func(f string, a ...interface{}) { log = append(log, fmt.Sprintf(f, a...)) }
	history := func() string {
		s := ""
		for _, l := range log {
			s += "\n    " + l
		}
		return s
	}
	name := func(ih core.InfoHash) string {
		for i, b := range h.Blobs {
			if b.MetaInfo.InfoHash() == ih {
				return fmt.Sprintf("blob%d", i)
			}
		}
		return ih.Hex()[:8]
	}
	names := func(hs []core.InfoHash) []string {
		var out []string
		for _, x := range hs {
			out = append(out, name(x))
		}
		return out
	}
	skippedSaturated, ticksWithAnnounce := 0, 0

	check := func(when string) string {
		ready, pending := h.VH.AnnounceQueue()
		inReady := map[core.InfoHash]int{}
		for _, x := range ready {
			inReady[x]++
			if inReady[x] > 1 {
				return fmt.Sprintf("%s: the announce queue holds %s more than once (waiting: %v)", when, name(x), names(ready))
			}
		}
		sort.Slice(pending, func(i, j int) bool { return name(pending[i]) < name(pending[j]) })
		for _, x := range pending {
			if inReady[x] > 0 {
				return fmt.Sprintf("%s: %s is waiting in the announce queue and marked as being announced at the same time (waiting: %v, being announced: %v)", when, name(x), names(ready), names(pending))
			}
		}
		known := map[core.InfoHash]bool{}
		ts := h.VH.Torrents()
		sort.Slice(ts, func(i, j int) bool { return name(ts[i]) < name(ts[j]) })
		for _, x := range ts {
			known[x] = true
			held := inReady[x] > 0
			for _, p := range pending {
				if p == x {
					held = true
				}
			}
			// A torrent that has completed is taken out of the queue for good (the scheduler
			// announces it once more, directly): only downloads in progress are judged.
			if d := h.VH.Dispatcher(x); d == nil || d.Complete() {
				continue
			}
			if !held {
				return fmt.Sprintf("%s: torrent %s is being downloaded but neither waiting in the announce queue nor being announced: it will never be announced again (waiting: %v, being announced: %v)", when, name(x), names(ready), names(pending))
			}
		}
		for _, x := range append(append([]core.InfoHash{}, ready...), pending...) {
			if !known[x] {
				return fmt.Sprintf("%s: the announce queue still holds %s, which is not open any more", when, name(x))
			}
		}
		// A torrent marked as being announced has an announce under way: started and its
		// result not applied yet. Judged only when nothing is left that could still start one.
		for _, x := range pending {
			if h.AnnouncesInFlight(x) > 0 {
				continue
			}
			ok := schedh.WaitFor(2*time.Second, func() bool { return h.AnnouncesInFlight(x) > 0 })
			if !ok && schedh.AnnounceGoroutines() == 0 {
				return fmt.Sprintf("%s: %s is marked as being announced, but no announce of it is under way (every announce made so far has had its result applied): it will never be announced again (waiting: %v, being announced: %v)", when, name(x), names(ready), names(pending))
			}
		}
		return ""
	}

	for si, s := range c.Steps {
		if h.VH.Stopped() {
			break
		}
		switch s.Kind {
		case "download":
			h.StartDownload(s.Blob)
			note("%d: download blob%d", si, s.Blob)
		case "apply", "applyk":
			p := h.VH.Pending()
			if len(p) == 0 {
				continue
			}
			e := p[s.Pick%len(p)]
			if s.Kind == "applyk" {
				found := false
				for _, q := range p {
					if q.Kind == s.Ev {
						e, found = q, true
						break
					}
				}
				if !found {
					continue
				}
			}
			if e.Kind == "shutdownEvent" {
				continue
			}
			note("%d: apply %s (%s)", si, e.Kind, name(e.InfoHash))
			if e.Kind == "announceResultEvent" {
				classes["announce-result-applied"] = true
			}
			h.ApplyID(e)
		case "atick":
			ih := h.Blobs[s.Blob].MetaInfo.InfoHash()
			_ = ih
			ready, _ := h.VH.AnnounceQueue()
			saturated := 0
			for _, x := range ready {
				if h.VH.Conns().Saturated(x) {
					saturated++
				}
			}
			before := 0
			for _, x := range h.VH.Torrents() {
				before += h.AnnouncesInFlight(x)
			}
			h.VH.AnnounceTick()
			h.Settle()
			if saturated > 0 {
				skippedSaturated++
				classes["tick-with-saturated-torrent-in-queue"] = true
			}
			after := 0
			for _, x := range h.VH.Torrents() {
				after += h.AnnouncesInFlight(x)
			}
			if after > before {
				ticksWithAnnounce++
			}
			note("%d: announce tick (waiting before: %v)", si, names(ready))
		case "incoming":
			if h.Incoming(s.Blob, true) == nil {
				return pbt.Verdict{Discard: true, Classes: []string{"infra-error"}}
			}
			note("%d: remote peer connects for blob%d", si, s.Blob)
		case "remove":
			h.StartRemove(s.Blob)
			note("%d: remove blob%d", si, s.Blob)
		case "seed":
			// the blob is already in the agent's cache: the next download of it opens a complete torrent
			if h.VH.Dispatcher(h.Blobs[s.Blob].MetaInfo.InfoHash()) != nil {
				continue // a download of it is running; not this step's business
			}
			if err := h.SeedCache(s.Blob); err != nil {
				continue
			}
			note("%d: blob%d placed in the cache", si, s.Blob)
		case "ptick":
			// the seeder idle limit passes and the preemption tick removes idle seeders
			h.Clock.Add(11 * time.Second)
			h.VH.Tick()
			h.Settle()
			classes["preemption-tick-after-seeder-idle-limit"] = true
			note("%d: +11s, preemption tick", si)
		case "feed":
			w := h.Feed(s.Blob, 2)
			note("%d: feed blob%d: %d pieces", si, s.Blob, w)
		}
		if h.Inconclusive {
			return pbt.Verdict{Discard: true, Classes: []string{"call-did-not-reach-the-loop-in-60s"}}
		}
		if msg := check(fmt.Sprintf("after step %d (%s)", si, s.Kind)); msg != "" {
			return pbt.Fail("%s\n  history:%s", msg, history())
		}
	}
	h.DrainAndStop(8 * time.Second)
	if h.Inconclusive {
		return pbt.Verdict{Discard: true, Classes: []string{"call-did-not-reach-the-loop-in-60s"}}
	}
	v := pbt.Verdict{NonTrivial: ticksWithAnnounce > 0 && classes["announce-result-applied"]}
	for k := range classes {
		v.Classes = append(v.Classes, k)
	}
	sort.Strings(v.Classes)
	return v
}
