// C06 — the disk blob store restores its state after a crash at any point.
//
// Engine E2: a generated workload runs in a child process under ptrace; the store
// directory is snapshotted before every file-system-mutating system call. Each
// snapshot is recovered from in-process (disk.NewStore on a private copy) and
// judged against the state established by the operations that had returned.
package c06

import (
	"bytes"
	"encoding/json"
	"errors"
	"fmt"
	"io"
	"os"
	"path/filepath"
	"regexp"
	"sort"
	"testing"

	"github.com/uber-go/tally"
	"github.com/uber/kraken/lib/store/disk"
	"github.com/uber/kraken/lib/store/metadata"
	"github.com/uber/kraken/utils/log"
	"go.uber.org/zap"
	"pgregory.net/rapid"

	"verif/internal/crashfs"
	"verif/internal/pbt"
)

const capacity = 100

// ---- harness metadata types (one movable, one not) ----

type md struct {
	suffix  string
	movable bool
	V       []byte
}

func (m *md) GetSuffix() string           { return m.suffix }
func (m *md) Movable() bool               { return m.movable }
func (m *md) Serialize() ([]byte, error)  { return append([]byte{}, m.V...), nil }
func (m *md) Deserialize(b []byte) error  { m.V = append([]byte{}, b...); return nil }

type mdFactory struct {
	suffix  string
	movable bool
}

func (f mdFactory) Create(string) metadata.Metadata { return &md{suffix: f.suffix, movable: f.movable} }

func init() {
	metadata.Register(regexp.MustCompile(`^_vmv$`), mdFactory{"_vmv", true})
	metadata.Register(regexp.MustCompile(`^_vnm$`), mdFactory{"_vnm", false})
}

func newMD(kind int, v []byte) *md {
	if kind == 0 {
		return &md{suffix: "_vmv", movable: true, V: v}
	}
	return &md{suffix: "_vnm", movable: false, V: v}
}

// ---- case ----

// Op kinds: create, complete, delete, ban, unban, setmd, delmd, writeatmd.
type Op struct {
	Kind string `json:"kind"`
	Key  int    `json:"key"`
	Size int    `json:"size,omitempty"` // create: reserved size
	Data []byte `json:"data,omitempty"` // create: bytes written; setmd: value; writeatmd: bytes
	MD   int    `json:"md,omitempty"`   // 0 movable, 1 non-movable
	Off  int    `json:"off,omitempty"`  // writeatmd
}

type Case struct {
	Reboot bool `json:"reboot_incomplete"`
	Shard  int  `json:"shard_length"`
	Ops    []Op `json:"ops"`
}

var keys = []string{"a1b2c3d4", "a1b2ffee", "0f0e0d0c", "77aa5500"}

func gen(t *rapid.T) Case {
	c := Case{Reboot: rapid.Bool().Draw(t, "reboot"), Shard: rapid.IntRange(0, 2).Draw(t, "shard")}
	n := rapid.IntRange(2, 14).Draw(t, "nops")
	kinds := []string{"create", "create", "create", "complete", "complete", "complete", "delete", "ban", "unban", "setmd", "setmd", "delmd", "writeatmd"}
	// Two thirds of the workloads start with one or two completed blobs, so that the random
	// tail spends its operations (metadata, bans, deletes, evicting creates) on complete blobs.
	if rapid.IntRange(0, 2).Draw(t, "prefix") != 0 {
		for k := 0; k < rapid.IntRange(1, 2).Draw(t, "prefixblobs"); k++ {
			sz := rapid.IntRange(1, 40).Draw(t, "psize")
			c.Ops = append(c.Ops, Op{Kind: "create", Key: k, Size: sz, Data: rapid.SliceOfN(rapid.Byte(), sz, sz).Draw(t, "pdata")}, Op{Kind: "complete", Key: k})
		}
	}
	for i := 0; i < n; i++ {
		op := Op{Kind: rapid.SampledFrom(kinds).Draw(t, "kind"), Key: rapid.IntRange(0, len(keys)-1).Draw(t, "key")}
		switch op.Kind {
		case "create":
			op.Size = rapid.IntRange(0, 60).Draw(t, "size")
			l := op.Size
			if rapid.IntRange(0, 3).Draw(t, "short") == 0 {
				l = rapid.IntRange(0, op.Size).Draw(t, "len")
			}
			op.Data = rapid.SliceOfN(rapid.Byte(), l, l).Draw(t, "data")
		case "setmd":
			op.MD = rapid.IntRange(0, 1).Draw(t, "md")
			op.Data = rapid.SliceOfN(rapid.Byte(), 1, 6).Draw(t, "val")
		case "delmd":
			op.MD = rapid.IntRange(0, 1).Draw(t, "md")
		case "writeatmd":
			op.MD = rapid.IntRange(0, 1).Draw(t, "md")
			op.Off = rapid.IntRange(0, 4).Draw(t, "off")
			op.Data = rapid.SliceOfN(rapid.Byte(), 1, 3).Draw(t, "val")
		}
		c.Ops = append(c.Ops, op)
	}
	return c
}

// ---- child ----

// childOut is what the child reports per operation (written outside the watched tree).
type childOut struct {
	Errs       []string   `json:"errs"`       // "" = nil
	Complete   [][]string `json:"complete"`   // ScopeComplete().List() after each op
	Incomplete [][]string `json:"incomplete"` // ScopeIncomplete().List() after each op
}

func cfgFor(c Case, root string) *disk.Config {
	return &disk.Config{CapacityBytes: capacity, RootDir: root, RebootIncompleteBlobs: c.Reboot, ShardLength: c.Shard}
}

func applyOp(s *disk.Store, op Op) error {
	k := keys[op.Key]
	switch op.Kind {
	case "create":
		f, err := s.Create(k, uint64(op.Size))
		if err != nil {
			return err
		}
		if len(op.Data) > 0 {
			if _, err := f.Write(op.Data); err != nil {
				f.Close()
				return fmt.Errorf("write: %v", err)
			}
		}
		return f.Close()
	case "complete":
		return s.MarkComplete(k)
	case "delete":
		return s.Delete(k)
	case "ban":
		return s.BanEviction(k)
	case "unban":
		return s.UnbanEviction(k)
	case "setmd":
		return s.SetMetadata(k, newMD(op.MD, op.Data))
	case "delmd":
		return s.DeleteMetadata(k, newMD(op.MD, nil).GetSuffix())
	case "writeatmd":
		return s.WriteAtMetadata(k, newMD(op.MD, nil), op.Data, int64(op.Off))
	}
	return fmt.Errorf("unknown op %q", op.Kind)
}

func TestMain(m *testing.M) {
	log.SetGlobalLogger(zap.NewNop().Sugar())
	if cf := os.Getenv(crashfs.ChildEnv); cf != "" {
		childMain(cf)
		os.Exit(0)
	}
	os.Exit(m.Run())
}

func childMain(caseFile string) {
	b, err := os.ReadFile(caseFile)
	if err != nil {
		fmt.Println("child: read case:", err)
		os.Exit(3)
	}
	var c Case
	if err := json.Unmarshal(b, &c); err != nil {
		fmt.Println("child: decode:", err)
		os.Exit(3)
	}
	root := os.Getenv("VERIF_CRASH_ROOT")
	s, err := disk.NewStore(cfgFor(c, root), tally.NoopScope)
	if err != nil {
		fmt.Println("child: NewStore:", err)
		os.Exit(3)
	}
	var out childOut
	for i, op := range c.Ops {
		crashfs.Mark(i, 0)
		err := applyOp(s, op)
		crashfs.Mark(i, 1)
		es := ""
		if err != nil {
			es = err.Error()
		}
		out.Errs = append(out.Errs, es)
		cl, il := s.ScopeComplete().List(), s.ScopeIncomplete().List()
		sort.Strings(cl)
		sort.Strings(il)
		out.Complete = append(out.Complete, cl)
		out.Incomplete = append(out.Incomplete, il)
	}
	ob, _ := json.Marshal(out)
	if err := os.WriteFile(os.Getenv("VERIF_CRASH_OUT"), ob, 0644); err != nil {
		fmt.Println("child: write out:", err)
		os.Exit(3)
	}
}

// ---- model of the state established by returned operations ----

type mblob struct {
	complete bool
	banned   bool
	size     int
	data     []byte
	md       map[int][]byte
}

type mstate map[int]*mblob

func (s mstate) clone() mstate {
	o := mstate{}
	for k, b := range s {
		nb := *b
		nb.md = map[int][]byte{}
		for t, v := range b.md {
			nb.md[t] = v
		}
		o[k] = &nb
	}
	return o
}

func keyIndex(name string) int {
	for i, k := range keys {
		if k == name {
			return i
		}
	}
	return -1
}

// step applies op (with the outcome the implementation reported) to the model. The
// implementation's own lists decide which keys were evicted: C06 judges recovery,
// C07 judges results against the LRU model.
func step(st mstate, op Op, errStr string, complete, incomplete []string) mstate {
	n := st.clone()
	if errStr == "" {
		b := n[op.Key]
		switch op.Kind {
		case "create":
			n[op.Key] = &mblob{size: op.Size, data: op.Data, md: map[int][]byte{}}
		case "complete":
			if b != nil {
				b.complete = true
				delete(b.md, 1) // non-movable metadata disappears on completion
			}
		case "delete":
			delete(n, op.Key)
		case "ban":
			if b != nil {
				b.banned = true
			}
		case "unban":
			if b != nil {
				b.banned = false
			}
		case "setmd":
			if b != nil {
				b.md[op.MD] = op.Data
			}
		case "delmd":
			if b != nil {
				delete(b.md, op.MD)
			}
		case "writeatmd":
			if b != nil {
				if old, ok := b.md[op.MD]; ok {
					v := append([]byte{}, old...)
					for len(v) < op.Off+len(op.Data) {
						v = append(v, 0)
					}
					copy(v[op.Off:], op.Data)
					b.md[op.MD] = v
				}
			}
		}
	}
	// evictions (and nothing else) are read off the implementation's lists
	present := map[int]bool{}
	for _, k := range complete {
		present[keyIndex(k)] = true
	}
	for _, k := range incomplete {
		present[keyIndex(k)] = true
	}
	for k := range n {
		if !present[k] {
			delete(n, k)
		}
	}
	return n
}

// ---- recovery oracle ----

func readAll(s *disk.Store, key string) ([]byte, error) {
	f, err := s.Open(key)
	if err != nil {
		return nil, err
	}
	defer f.Close()
	return io.ReadAll(f)
}

func contains(l []string, k string) bool {
	for _, x := range l {
		if x == k {
			return true
		}
	}
	return false
}

// judge recovers from one snapshot. before = state after the returned ops, after =
// state if the in-flight op had returned too (== before when between ops); lenient
// is the set of keys the in-flight operation touches.
func judge(c Case, snapDir, work string, before, after mstate, lenient map[int]bool, inOp *Op) (string, []string) {
	var classes []string
	root := filepath.Join(work, "recover")
	os.RemoveAll(root)
	if err := crashfs.CopyTree(snapDir, root); err != nil {
		return "", []string{"copy-error"}
	}
	defer os.RemoveAll(root)
	s, err := disk.NewStore(cfgFor(c, root), tally.NoopScope)
	if err != nil {
		return fmt.Sprintf("reopening the store fails after the crash: %v", err), nil
	}
	cl := s.ScopeComplete().List()
	il := s.ScopeIncomplete().List()

	// 1. Blobs completed before the crash are listed complete with their bytes and metadata.
	for k, b := range before {
		if !b.complete || lenient[k] {
			continue
		}
		name := keys[k]
		if !contains(cl, name) {
			return fmt.Sprintf("blob %s completed before the crash is not listed complete after reopening (complete=%v incomplete=%v)", name, cl, il), nil
		}
		got, err := readAll(s.ScopeComplete(), name)
		if err != nil {
			return fmt.Sprintf("blob %s completed before the crash cannot be opened after reopening: %v", name, err), nil
		}
		if !bytes.Equal(got, b.data) {
			return fmt.Sprintf("blob %s completed before the crash has different bytes after reopening: got %x want %x", name, got, b.data), nil
		}
		for t := 0; t < 2; t++ {
			want, has := b.md[t]
			m := newMD(t, nil)
			ok, err := s.GetMetadata(name, m)
			if err != nil {
				return fmt.Sprintf("blob %s: GetMetadata(%s) fails after reopening: %v", name, m.suffix, err), nil
			}
			if t == 1 {
				continue // non-movable metadata of a complete blob: the statement promises nothing after completion
			}
			if has && (!ok || !bytes.Equal(m.V, want)) {
				return fmt.Sprintf("blob %s: metadata %s set before the crash is lost or changed after reopening: present=%v got %x want %x", name, m.suffix, ok, m.V, want), nil
			}
			if !has && ok {
				return fmt.Sprintf("blob %s: metadata %s deleted (or never set) before the crash is present after reopening: %x", name, m.suffix, m.V), nil
			}
		}
	}
	// 2. Nothing incomplete is reported complete; whatever is reported complete has exactly the blob's bytes.
	for _, name := range cl {
		k := keyIndex(name)
		var want *mblob
		if b := before[k]; b != nil && (b.complete || (inOp != nil && inOp.Kind == "complete" && inOp.Key == k)) {
			want = b
		}
		if want == nil {
			return fmt.Sprintf("blob %s is reported complete after reopening but its completion had not started before the crash", name), nil
		}
		got, err := readAll(s.ScopeComplete(), name)
		if err != nil {
			return fmt.Sprintf("blob %s is listed complete after reopening but cannot be opened: %v", name, err), nil
		}
		if !bytes.Equal(got, want.data) {
			return fmt.Sprintf("blob %s is listed complete after reopening with wrong bytes: got %x want %x", name, got, want.data), nil
		}
	}
	// 1b. The in-flight operation's own key is judged leniently only in what that operation
	// changes. Completion, ban/unban and metadata operations never destroy a blob, so a blob
	// they were working on must still be there with its bytes: complete blobs stay complete,
	// and an incomplete blob is restored when the store is configured to reboot incomplete
	// blobs (it may already be complete if the in-flight operation was its completion).
	for k, b := range before {
		destroying := inOp != nil && inOp.Key == k && (inOp.Kind == "delete" || inOp.Kind == "create")
		evictedInFlight := lenient[k] && (inOp == nil || inOp.Key != k)
		if destroying || evictedInFlight {
			continue
		}
		name := keys[k]
		if b.complete {
			if !contains(cl, name) {
				return fmt.Sprintf("blob %s completed before the crash is not listed complete after reopening although the operation in flight (%s) does not remove blobs (complete=%v incomplete=%v)", name, inOp.Kind, cl, il), nil
			}
			got, err := readAll(s.ScopeComplete(), name)
			if err != nil || !bytes.Equal(got, b.data) {
				return fmt.Sprintf("blob %s completed before the crash reads %x, %v after reopening (want %x)", name, got, err, b.data), nil
			}
			// A metadata operation in flight on this blob may have happened or not: the value
			// is the one before or the one after, never unreadable and never a third value.
			if inOp != nil && inOp.Key == k && (inOp.Kind == "setmd" || inOp.Kind == "delmd" || inOp.Kind == "writeatmd") && inOp.MD == 0 {
				m := newMD(0, nil)
				ok, err := s.GetMetadata(name, m)
				if err != nil {
					return fmt.Sprintf("blob %s: metadata %s cannot be read after a crash inside %s: %v", name, m.suffix, inOp.Kind, err), nil
				}
				wantB, hasB := b.md[0]
				var wantA []byte
				hasA := false
				if ab := after[k]; ab != nil {
					wantA, hasA = ab.md[0]
				}
				matchB := (ok == hasB) && (!ok || bytes.Equal(m.V, wantB))
				matchA := (ok == hasA) && (!ok || bytes.Equal(m.V, wantA))
				if !matchB && !matchA {
					return fmt.Sprintf("blob %s: after a crash inside %s metadata %s is present=%v value=%x: neither the value before (present=%v %x) nor the value after (present=%v %x)", name, inOp.Kind, m.suffix, ok, m.V, hasB, wantB, hasA, wantA), nil
				}
			}
			continue
		}
		if c.Reboot && !contains(il, name) && !contains(cl, name) {
			where := "no operation was in flight on it"
			if inOp != nil && inOp.Key == k {
				where = "the operation in flight on it was " + inOp.Kind
			}
			return fmt.Sprintf("incomplete blob %s was dropped on reopening although incomplete blobs are configured to be restored (%s; complete=%v incomplete=%v)", name, where, cl, il), nil
		}
		if c.Reboot && contains(il, name) {
			got, err := readAll(s.ScopeIncomplete(), name)
			if err != nil || !bytes.Equal(got, b.data) {
				return fmt.Sprintf("restored incomplete blob %s reads %x, %v after reopening (want the %d bytes written before the crash: %x)", name, got, err, len(b.data), b.data), nil
			}
		}
	}
	// 3. Incomplete blobs: dropped when configured so; otherwise absent or restored.
	if !c.Reboot && len(il) > 0 {
		return fmt.Sprintf("incomplete blobs %v are listed after reopening although reboot of incomplete blobs is off", il), nil
	}
	for _, name := range il {
		k := keyIndex(name)
		b := before[k]
		okBefore := b != nil && !b.complete
		okAfter := after[k] != nil && !after[k].complete
		if !okBefore && !okAfter {
			return fmt.Sprintf("blob %s is listed incomplete after reopening but was not an incomplete blob before the crash", name), nil
		}
	}
	// reserved-size arithmetic: capacity is 100, so Clean's utilisation percentage is the reserved byte total.
	expected := 0
	for _, name := range cl {
		st, err := s.Stat(name)
		if err != nil {
			return fmt.Sprintf("Stat(%s) fails after reopening: %v", name, err), nil
		}
		expected += int(st.Size())
	}
	sizeKnown := true
	for _, name := range il {
		k := keyIndex(name)
		switch {
		case before[k] != nil && !before[k].complete:
			expected += before[k].size
		case after[k] != nil:
			expected += after[k].size
		default:
			sizeKnown = false
		}
	}
	if sizeKnown && expected < capacity {
		util, err := s.Clean(99, true)
		if err != nil {
			return fmt.Sprintf("Clean fails after reopening: %v", err), nil
		}
		if util != expected {
			return fmt.Sprintf("reserved space after reopening is %d bytes, expected %d (complete %v by file size + incomplete %v by the size given to Create)", util, expected, cl, il), nil
		}
		classes = append(classes, "size-arithmetic-checked")
	}
	// ban flags: after Clean(0, respect bans) exactly the banned blobs remain.
	if _, err := s.Clean(0, true); err != nil {
		return fmt.Sprintf("Clean(0) fails after reopening: %v", err), nil
	}
	left := s.List()
	for k, b := range before {
		if lenient[k] {
			continue
		}
		name := keys[k]
		recovered := contains(cl, name) || contains(il, name)
		if !recovered {
			continue
		}
		if (b.complete && len(b.data) == 0) || (!b.complete && b.size == 0) {
			continue // a zero-byte blob frees nothing, so a clean may legitimately leave it
		}
		if b.banned && !contains(left, name) {
			return fmt.Sprintf("blob %s was banned from eviction before the crash but is evictable after reopening", name), nil
		}
		if !b.banned && contains(left, name) {
			return fmt.Sprintf("blob %s was not banned from eviction before the crash but survives a full clean after reopening", name), nil
		}
	}
	// 4. Every key can be created and completed again.
	for _, name := range s.List() {
		if err := s.Delete(name); err != nil {
			return fmt.Sprintf("Delete(%s) fails after reopening: %v", name, err), nil
		}
	}
	for i, name := range keys {
		data := []byte(fmt.Sprintf("again-%d", i))
		f, err := s.Create(name, uint64(len(data)))
		if err != nil {
			return fmt.Sprintf("key %s cannot be created again after reopening: %v", name, err), nil
		}
		_, werr := f.Write(data)
		f.Close()
		if werr != nil {
			return fmt.Sprintf("key %s cannot be written again after reopening: %v", name, werr), nil
		}
		if err := s.SetMetadata(name, newMD(0, []byte{1})); err != nil {
			return fmt.Sprintf("key %s: SetMetadata fails after re-creation: %v", name, err), nil
		}
		if err := s.MarkComplete(name); err != nil {
			return fmt.Sprintf("key %s cannot be completed again after reopening: %v", name, err), nil
		}
		got, err := readAll(s, name)
		if err != nil || !bytes.Equal(got, data) {
			return fmt.Sprintf("key %s re-created after reopening reads back %x, %v (want %x)", name, got, err, data), nil
		}
	}
	return "", classes
}

func run(c Case) pbt.Verdict {
	work, err := os.MkdirTemp("", "c06-")
	if err != nil {
		return pbt.Verdict{Discard: true}
	}
	defer os.RemoveAll(work)
	root := filepath.Join(work, "store")
	os.MkdirAll(root, 0755)
	caseFile := filepath.Join(work, "case.json")
	outFile := filepath.Join(work, "out.json")
	cb, _ := json.Marshal(c)
	os.WriteFile(caseFile, cb, 0644)
	tr, err := crashfs.Run(crashfs.Config{Root: root, SnapDir: filepath.Join(work, "snaps"),
		Env: []string{crashfs.ChildEnv + "=" + caseFile, "VERIF_CRASH_ROOT=" + root, "VERIF_CRASH_OUT=" + outFile}})
	if err != nil {
		return pbt.Verdict{Discard: true, Classes: []string{"trace-error"}}
	}
	var out childOut
	ob, err := os.ReadFile(outFile)
	if err != nil || json.Unmarshal(ob, &out) != nil || len(out.Errs) != len(c.Ops) || tr.ExitCode != 0 {
		return pbt.Verdict{Discard: true, Classes: []string{"child-failed"}}
	}
	// model states after each prefix
	states := []mstate{{}}
	for i, op := range c.Ops {
		states = append(states, step(states[i], op, out.Errs[i], out.Complete[i], out.Incomplete[i]))
	}
	v := pbt.Verdict{}
	classSet := map[string]bool{}
	firstHashOfOp := map[int]string{}
	hashes := make([]string, len(tr.Snapshots))
	for i, sn := range tr.Snapshots {
		hashes[i] = crashfs.TreeHash(sn.Dir)
		if sn.InOp >= 0 {
			if _, ok := firstHashOfOp[sn.InOp]; !ok {
				firstHashOfOp[sn.InOp] = hashes[i]
			}
		}
	}
	endHashOfOp := func(j int) string {
		for i, sn := range tr.Snapshots {
			if sn.OpsDone > j {
				return hashes[i]
			}
		}
		return hashes[len(hashes)-1]
	}
	seen := map[string]bool{}
	for i, sn := range tr.Snapshots {
		cfgKey := fmt.Sprintf("%v/%d/%s", c.Reboot, c.Shard, hashes[i])
		before := states[sn.OpsDone]
		after := before
		lenient := map[int]bool{}
		var inOp *Op
		if sn.InOp >= 0 && sn.InOp < len(c.Ops) {
			op := c.Ops[sn.InOp]
			inOp = &op
			after = states[sn.InOp+1]
			lenient[op.Key] = true
			for k := range before { // keys the in-flight op evicts
				if after[k] == nil {
					lenient[k] = true
				}
			}
		}
		if seen[cfgKey+fmt.Sprint(sn.OpsDone, sn.InOp)] {
			continue // identical tree and identical expectations
		}
		seen[cfgKey+fmt.Sprint(sn.OpsDone, sn.InOp)] = true
		msg, cls := judge(c, sn.Dir, work, before, after, lenient, inOp)
		v.Evals++
		for _, cl := range cls {
			classSet[cl] = true
		}
		if msg != "" {
			where := "between operations"
			if inOp != nil {
				where = fmt.Sprintf("inside op %d (%s key %s)", sn.InOp, inOp.Kind, keys[inOp.Key])
			}
			return pbt.Fail("%s\n  crash point: snapshot %d, %d ops returned, %s, next syscall %s\n  tree at crash:\n%s", msg, sn.Index, sn.OpsDone, where, sn.Syscall, crashfs.DumpTree(sn.Dir))
		}
		if sn.InOp >= 0 && hashes[i] != firstHashOfOp[sn.InOp] && hashes[i] != endHashOfOp(sn.InOp) {
			v.NonTrivial = true
			v.NonTrivialKeys = append(v.NonTrivialKeys, cfgKey)
			classSet["mid-op:"+inOp.Kind] = true
		}
	}
	for cl := range classSet {
		v.Classes = append(v.Classes, cl)
	}
	sort.Strings(v.Classes)
	if tr.Truncated {
		v.Classes = append(v.Classes, "truncated")
	}
	_ = errors.New
	return v
}

func TestProp(t *testing.T) {
	pbt.Main(t, pbt.Spec{
		ID:    "C06",
		Level: "fault_enumeration",
		Rule: "rapid generates workloads (2-14 ops over 4 keys, two thirds of them after a prefix that creates and completes one or two blobs: create+write, complete, delete, ban, unban, set/delete/write-at metadata; capacity 100 so creates evict) x {reboot incomplete on/off} x {shard length 0,1,2}; each runs in a child under ptrace and EVERY prefix of its store-mutating system calls is snapshotted and recovered from (evaluations = recovered crash states, deduplicated per workload by tree hash+expectation); oracle: NewStore succeeds, blobs completed by returned ops are listed complete with bytes/movable metadata/ban flag (ban observed via Clean), nothing else is complete, incomplete blobs dropped or restored with the size given to Create (observed through Clean's utilisation at capacity 100), every key can then be created, written and completed; the key of the in-flight op is judged leniently only in what that op changes (a completion/ban/metadata op in flight must not lose the blob or its bytes; with reboot on, incomplete blobs of returned Creates must be restored with their bytes); keys an in-flight Create evicts are lenient. non-trivial = crash state strictly inside an operation whose tree differs from the trees at that operation's start and end; distinct by (config, tree hash)",
		Assumptions: []string{
			"process-crash model: completed system calls persist, nothing later happens; a single write system call is atomic",
			"the model of returned operations takes evictions from the implementation's own listing (C07 checks those against the LRU model)",
			"ptrace tracer (internal/crashfs) sees every file-system-mutating system call under the store root",
		},
		Parts: []pbt.Part{pbt.NewPart("crash", 1, gen, run)},
	})
}
