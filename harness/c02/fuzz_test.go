package c02

import (
	"bytes"
	"testing"

	"github.com/uber/kraken/core"
)

// FuzzDeserializeMetaInfo feeds arbitrary bytes to DeserializeMetaInfo. Oracle: no panic;
// whatever is accepted re-serialises to a form that parses back to the same info hash,
// digest, length and piece layout, and that form is a fixed point of parse->print.
func FuzzDeserializeMetaInfo(f *testing.F) {
	for _, c := range []struct {
		size int
		pl   int64
	}{{0, 1}, {1, 1}, {7, 3}, {9, 3}, {10, 3}, {100, 1 << 40}} {
		data := makeContent(contentRandom, uint64(c.size)*7+uint64(c.pl), c.size, c.pl)
		d, _ := makeDigest(digestTrue, 0, data)
		mi, err := core.NewMetaInfoFromBytes(d, data, c.pl)
		if err != nil {
			f.Fatal(err)
		}
		b, _ := mi.Serialize()
		f.Add(b)
	}
	f.Add([]byte(`{"Info":{"PieceLength":-1,"PieceSums":[4294967295],"Name":"` + string(bytes.Repeat([]byte("A"), 64)) + `","Length":9223372036854775807}}`))
	f.Add([]byte(`{"Info":{"PieceLength":0,"PieceSums":null,"Name":"","Length":0}}`))
	f.Add([]byte(`{}`))
	f.Add([]byte(`null`))
	f.Fuzz(func(t *testing.T, in []byte) {
		mi, err := core.DeserializeMetaInfo(in)
		if err != nil {
			return
		}
		if mi == nil {
			t.Fatalf("nil metainfo with nil error")
		}
		if err := core.ValidateSHA256(mi.Digest().Hex()); err != nil {
			t.Fatalf("accepted metainfo whose digest is not a sha256 hex string: %v", err)
		}
		ser, err := mi.Serialize()
		if err != nil {
			t.Fatalf("Serialize of an accepted metainfo failed: %v", err)
		}
		back, err := core.DeserializeMetaInfo(ser)
		if err != nil {
			t.Fatalf("Serialize output of an accepted metainfo is rejected: %v\n%s", err, ser)
		}
		if msg := sameMetaInfo("fuzz round trip", back, mi); msg != "" {
			t.Fatalf("%s\ninput %q", msg, in)
		}
	})
}
