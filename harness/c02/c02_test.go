// C02 — torrent metainfo exactly describes its blob.
//
// Two parts:
//
//	layout  one blob, one piece length: reference split vs NewMetaInfo (several reader
//	        behaviours) vs NewMetaInfoFromBytes; Serialize/Deserialize round trips.
//	table   a size-threshold table: Generator.GetPieceLength vs "largest threshold not
//	        above the size", and Generator.Generate on a real CAStore file.
package c02

import (
	"bytes"
	"crypto/sha256"
	"encoding/hex"
	"errors"
	"fmt"
	"hash/crc32"
	"io"
	"os"
	"path/filepath"
	"sync"
	"testing"
	"testing/iotest"

	"github.com/c2h5oh/datasize"
	"github.com/uber-go/tally"
	"github.com/uber/kraken/core"
	"github.com/uber/kraken/lib/metainfogen"
	"github.com/uber/kraken/lib/store"
	"github.com/uber/kraken/lib/store/metadata"
	"pgregory.net/rapid"

	"verif/internal/pbt"
)

// ---------------------------------------------------------------------------
// shared helpers

const maxBlob = 64 * 1024

// Content kinds.
const (
	contentRandom   = 0
	contentZeros    = 1
	contentPeriodPL = 2 // repeats with period = piece length: every full piece has the same sum
	contentPeriodP1 = 3 // period = piece length + 1
)

func splitmix(x *uint64) uint64 {
	*x += 0x9e3779b97f4a7c15
	z := *x
	z = (z ^ (z >> 30)) * 0xbf58476d1ce4e5b9
	z = (z ^ (z >> 27)) * 0x94d049bb133111eb
	return z ^ (z >> 31)
}

// makeContent derives the blob bytes deterministically from the case.
func makeContent(kind int, seed uint64, size int, pl int64) []byte {
	b := make([]byte, size)
	s := seed
	fill := func(dst []byte) {
		for i := 0; i < len(dst); i += 8 {
			v := splitmix(&s)
			for j := 0; j < 8 && i+j < len(dst); j++ {
				dst[i+j] = byte(v >> (8 * uint(j)))
			}
		}
	}
	switch kind {
	case contentZeros:
	case contentPeriodPL, contentPeriodP1:
		period := pl
		if kind == contentPeriodP1 {
			period = pl + 1
		}
		if period <= 0 || period > int64(size) {
			fill(b)
			break
		}
		fill(b[:period])
		for i := int(period); i < size; i++ {
			b[i] = b[i-int(period)]
		}
	default:
		fill(b)
	}
	return b
}

// refLayout is the reference split, written from the property statement:
// consecutive pieces of pl bytes, only the last may be shorter, an empty blob has none.
type refLayout struct {
	lens []int64
	sums []uint32
}

func reference(data []byte, pl int64) refLayout {
	var r refLayout
	rest := data
	for len(rest) > 0 {
		n := int64(len(rest))
		if n > pl {
			n = pl
		}
		r.lens = append(r.lens, n)
		r.sums = append(r.sums, crc32.ChecksumIEEE(rest[:n]))
		rest = rest[n:]
	}
	return r
}

// checkAgainstReference compares every observable of mi with the reference split.
func checkAgainstReference(what string, mi *core.MetaInfo, d core.Digest, data []byte, pl int64) string {
	ref := reference(data, pl)
	// Independent closed form for the number of pieces.
	size := int64(len(data))
	wantN := size / pl
	if size%pl != 0 {
		wantN++
	}
	if int64(len(ref.lens)) != wantN {
		return fmt.Sprintf("harness: reference disagrees with ceil division (%d vs %d)", len(ref.lens), wantN)
	}
	if mi.Length() != size {
		return fmt.Sprintf("%s: Length=%d, blob has %d bytes", what, mi.Length(), size)
	}
	if mi.PieceLength() != pl {
		return fmt.Sprintf("%s: PieceLength=%d, requested %d", what, mi.PieceLength(), pl)
	}
	if mi.Digest() != d {
		return fmt.Sprintf("%s: Digest=%s, want %s", what, mi.Digest(), d)
	}
	if int64(mi.NumPieces()) != wantN {
		return fmt.Sprintf("%s: NumPieces=%d, want %d (size %d, piece length %d)", what, mi.NumPieces(), wantN, size, pl)
	}
	var total int64
	for i := 0; i < mi.NumPieces(); i++ {
		l := mi.GetPieceLength(i)
		if l != ref.lens[i] {
			return fmt.Sprintf("%s: GetPieceLength(%d)=%d, want %d (size %d, piece length %d, pieces %d)", what, i, l, ref.lens[i], size, pl, wantN)
		}
		if i < mi.NumPieces()-1 && l != pl {
			return fmt.Sprintf("%s: non-final piece %d has length %d != piece length %d", what, i, l, pl)
		}
		if l <= 0 || l > pl {
			return fmt.Sprintf("%s: piece %d has length %d outside (0,%d]", what, i, l, pl)
		}
		total += l
		if s := mi.GetPieceSum(i); s != ref.sums[i] {
			return fmt.Sprintf("%s: GetPieceSum(%d)=%08x, want %08x (crc32 of bytes [%d,%d))", what, i, s, ref.sums[i], int64(i)*pl, int64(i)*pl+l)
		}
	}
	if total != size {
		return fmt.Sprintf("%s: piece lengths add up to %d, blob has %d bytes", what, total, size)
	}
	return ""
}

// sameMetaInfo compares two metainfos observable by observable.
func sameMetaInfo(what string, a, b *core.MetaInfo) string {
	if a.InfoHash() != b.InfoHash() {
		return fmt.Sprintf("%s: info hash differs (%s vs %s)", what, a.InfoHash(), b.InfoHash())
	}
	if a.Digest() != b.Digest() {
		return fmt.Sprintf("%s: digest differs (%s vs %s)", what, a.Digest(), b.Digest())
	}
	if a.Length() != b.Length() {
		return fmt.Sprintf("%s: length differs (%d vs %d)", what, a.Length(), b.Length())
	}
	if a.PieceLength() != b.PieceLength() {
		return fmt.Sprintf("%s: piece length differs (%d vs %d)", what, a.PieceLength(), b.PieceLength())
	}
	if a.NumPieces() != b.NumPieces() {
		return fmt.Sprintf("%s: number of pieces differs (%d vs %d)", what, a.NumPieces(), b.NumPieces())
	}
	for i := 0; i < a.NumPieces(); i++ {
		if a.GetPieceLength(i) != b.GetPieceLength(i) {
			return fmt.Sprintf("%s: length of piece %d differs (%d vs %d)", what, i, a.GetPieceLength(i), b.GetPieceLength(i))
		}
		if a.GetPieceSum(i) != b.GetPieceSum(i) {
			return fmt.Sprintf("%s: sum of piece %d differs (%08x vs %08x)", what, i, a.GetPieceSum(i), b.GetPieceSum(i))
		}
	}
	sa, err := a.Serialize()
	if err != nil {
		return fmt.Sprintf("%s: Serialize: %v", what, err)
	}
	sb, err := b.Serialize()
	if err != nil {
		return fmt.Sprintf("%s: Serialize: %v", what, err)
	}
	if !bytes.Equal(sa, sb) {
		return fmt.Sprintf("%s: serialised forms differ (%.120q vs %.120q)", what, sa, sb)
	}
	return ""
}

var (
	othersOnce sync.Once
	others     []*core.MetaInfo
)

// otherMetaInfos returns two fixed metainfos, one with 3 and one with 6000 pieces.
func otherMetaInfos() []*core.MetaInfo {
	othersOnce.Do(func() {
		for _, n := range []int{3, 6000} {
			data := makeContent(contentRandom, uint64(n), n, 1)
			d, err := core.NewDigester().FromBytes(data)
			if err != nil {
				panic(err)
			}
			mi, err := core.NewMetaInfoFromBytes(d, data, 1)
			if err != nil {
				panic(err)
			}
			others = append(others, mi)
		}
	})
	return others
}

// roundTrip checks Serialize -> DeserializeMetaInfo and the TorrentMeta wrapper.
func roundTrip(mi *core.MetaInfo) string {
	ser, err := mi.Serialize()
	if err != nil {
		return fmt.Sprintf("round trip: Serialize failed: %v", err)
	}
	back, err := core.DeserializeMetaInfo(ser)
	if err != nil {
		return fmt.Sprintf("round trip: DeserializeMetaInfo rejects Serialize output: %v", err)
	}
	if msg := sameMetaInfo("round trip: Deserialize(Serialize(mi)) vs mi", back, mi); msg != "" {
		return msg
	}
	// The serialized form belongs to the caller (the store writes it to disk, the tracker sends
	// it): serializing other metainfo afterwards must not change it.
	held := append([]byte(nil), ser...)
	for _, o := range otherMetaInfos() {
		if _, err := o.Serialize(); err != nil {
			return fmt.Sprintf("round trip: Serialize of another metainfo failed: %v", err)
		}
	}
	if !bytes.Equal(ser, held) {
		return fmt.Sprintf("round trip: the bytes Serialize returned changed when other metainfo was serialized afterwards (%d pieces; was %.80q, now %.80q)", mi.NumPieces(), held, ser)
	}
	// Same through the stored-metadata wrapper, created the way the store creates it.
	tm := metadata.NewTorrentMeta(mi)
	tser, err := tm.Serialize()
	if err != nil {
		return fmt.Sprintf("round trip: TorrentMeta.Serialize failed: %v", err)
	}
	md := metadata.CreateFromSuffix(tm.GetSuffix())
	tm2, ok := md.(*metadata.TorrentMeta)
	if !ok {
		return fmt.Sprintf("round trip: metadata factory for %q returned %T", tm.GetSuffix(), md)
	}
	if err := tm2.Deserialize(tser); err != nil {
		return fmt.Sprintf("round trip: TorrentMeta.Deserialize rejects TorrentMeta.Serialize output: %v", err)
	}
	if tm2.MetaInfo == nil {
		return "round trip: TorrentMeta.Deserialize left MetaInfo nil"
	}
	return sameMetaInfo("round trip: TorrentMeta vs mi", tm2.MetaInfo, mi)
}

// ---------------------------------------------------------------------------
// part "layout"

// Reader kinds.
const (
	readerPlain   = 0 // bytes.Reader
	readerOneByte = 1 // iotest.OneByteReader
	readerHalf    = 2 // iotest.HalfReader
	readerDataErr = 3 // iotest.DataErrReader: final data arrives together with io.EOF
	readerSplits  = 4 // reads return the generated chunk sizes, cyclically
	readerNoWT    = 5 // plain reader hiding WriterTo/Seeker
	readerFailing = 6 // fails with a non-EOF error after FailAt bytes
	numReaders    = 7
)

// Digest kinds.
const (
	digestTrue  = 0 // sha256 of the content
	digestOther = 1 // arbitrary lower-case digest (NewMetaInfo does not verify it)
	digestUpper = 2 // arbitrary digest with upper-case hex digits, as ParseSHA256Digest accepts
)

type LayoutCase struct {
	Size     int    `json:"size"`
	PieceLen int64  `json:"pl"`
	Content  int    `json:"content"`
	Seed     uint64 `json:"seed"`
	Reader   int    `json:"reader"`
	Splits   []int  `json:"splits,omitempty"`
	FailAt   int    `json:"fail_at,omitempty"`
	Digest   int    `json:"digest"`
}

func genLayout(t *rapid.T) LayoutCase {
	var c LayoutCase
	c.PieceLen = rapid.OneOf(
		rapid.Int64Range(1, 8),
		rapid.Int64Range(1, 8),
		rapid.Int64Range(1, 300),
		rapid.Int64Range(1, maxBlob+2),
		rapid.SampledFrom([]int64{1 << 10, 1 << 15, 1 << 16, 1 << 20, 1<<31 - 1, 1 << 31, 1 << 32, 1 << 40, 1 << 62, 1<<63 - 4096, 1<<63 - 2, 1<<63 - 1}),
	).Draw(t, "pl")
	pl := c.PieceLen
	var sizes []*rapid.Generator[int]
	sizes = append(sizes, rapid.SampledFrom([]int{0, 0, 1, 2}))
	if pl <= maxBlob {
		p := int(pl)
		maxK := maxBlob / p
		if maxK > 40 {
			maxK = 40
		}
		near := rapid.Custom(func(t *rapid.T) int {
			k := rapid.IntRange(1, maxK).Draw(t, "k")
			d := rapid.IntRange(-1, 1).Draw(t, "d")
			return k*p + d
		})
		sizes = append(sizes, near, near, near)
	}
	sizes = append(sizes, rapid.IntRange(0, 64), rapid.IntRange(0, 4096), rapid.IntRange(0, maxBlob))
	c.Size = rapid.OneOf(sizes...).Draw(t, "size")
	if c.Size < 0 {
		c.Size = 0
	}
	if c.Size > maxBlob+1 {
		c.Size = maxBlob + 1
	}
	c.Content = rapid.SampledFrom([]int{contentRandom, contentRandom, contentRandom, contentPeriodPL, contentPeriodP1, contentZeros}).Draw(t, "content")
	c.Seed = rapid.Uint64().Draw(t, "seed")
	c.Reader = rapid.IntRange(0, numReaders-1).Draw(t, "reader")
	if c.Reader == readerSplits {
		c.Splits = rapid.SliceOfN(rapid.OneOf(rapid.IntRange(1, 9), rapid.IntRange(1, 5000)), 1, 6).Draw(t, "splits")
	}
	if c.Reader == readerFailing {
		c.FailAt = rapid.IntRange(0, c.Size).Draw(t, "failAt")
	}
	c.Digest = rapid.SampledFrom([]int{digestTrue, digestTrue, digestOther, digestUpper}).Draw(t, "digest")
	return c
}

type splitReader struct {
	data   []byte
	splits []int
	i      int
}

func (r *splitReader) Read(p []byte) (int, error) {
	if len(r.data) == 0 {
		return 0, io.EOF
	}
	n := r.splits[r.i%len(r.splits)]
	r.i++
	if n > len(p) {
		n = len(p)
	}
	if n > len(r.data) {
		n = len(r.data)
	}
	copy(p, r.data[:n])
	r.data = r.data[n:]
	return n, nil
}

type onlyReader struct{ r io.Reader }

func (o onlyReader) Read(p []byte) (int, error) { return o.r.Read(p) }

var errInjected = errors.New("injected read failure")

type failingReader struct {
	data []byte
}

func (r *failingReader) Read(p []byte) (int, error) {
	if len(r.data) == 0 {
		return 0, errInjected
	}
	n := copy(p, r.data)
	r.data = r.data[n:]
	return n, nil
}

func makeDigest(kind int, seed uint64, data []byte) (core.Digest, error) {
	switch kind {
	case digestOther, digestUpper:
		s := seed ^ 0xd1935
		raw := make([]byte, 32)
		for i := 0; i < 32; i += 8 {
			v := splitmix(&s)
			for j := 0; j < 8; j++ {
				raw[i+j] = byte(v >> (8 * uint(j)))
			}
		}
		h := hex.EncodeToString(raw)
		if kind == digestUpper {
			b := []byte(h)
			for i := range b {
				if b[i] >= 'a' && b[i] <= 'f' && (raw[i/2]>>uint(i%2))&1 == 1 {
					b[i] -= 'a' - 'A'
				}
			}
			return core.ParseSHA256Digest("sha256:" + string(b))
		}
		return core.NewSHA256DigestFromHex(h)
	default:
		sum := sha256.Sum256(data)
		return core.NewSHA256DigestFromHex(hex.EncodeToString(sum[:]))
	}
}

var readerNames = []string{"reader:plain", "reader:one-byte", "reader:half", "reader:data+eof", "reader:splits", "reader:no-writeto", "reader:failing"}

func runLayout(c LayoutCase) pbt.Verdict {
	if c.PieceLen <= 0 || c.Size < 0 || c.Size > maxBlob+1 || c.Reader < 0 || c.Reader >= numReaders {
		return pbt.Verdict{Discard: true}
	}
	data := makeContent(c.Content, c.Seed, c.Size, c.PieceLen)
	d, err := makeDigest(c.Digest, c.Seed, data)
	if err != nil {
		return pbt.Fail("harness: cannot build digest: %v", err)
	}
	pl := c.PieceLen
	size := int64(c.Size)

	classes := []string{readerNames[c.Reader]}
	switch {
	case size == 0:
		classes = append(classes, "size:0")
	case size%pl == 0 && size/pl > 1:
		classes = append(classes, "size:exact-multiple")
	case size == pl:
		classes = append(classes, "size:one-full-piece")
	case size > pl:
		classes = append(classes, "size:multi-piece-short-last")
	default:
		classes = append(classes, "size:single-short-piece")
	}
	if size > pl && size%pl == 1 {
		classes = append(classes, "last-piece:1-byte")
	}
	if size > pl && size%pl == pl-1 && pl > 2 {
		classes = append(classes, "last-piece:pl-1")
	}
	if pl > maxBlob+2 {
		classes = append(classes, "pl:huge")
	}
	if c.Digest == digestUpper {
		classes = append(classes, "digest:upper-case-hex")
	}
	nontrivial := size == 0 || size > pl || size%pl == 0

	// In-memory variant.
	fromBytes, err := core.NewMetaInfoFromBytes(d, data, pl)
	if err != nil {
		return pbt.Fail("NewMetaInfoFromBytes failed for a positive piece length: %v (size %d, piece length %d)", err, size, pl)
	}
	if msg := checkAgainstReference("NewMetaInfoFromBytes", fromBytes, d, data, pl); msg != "" {
		return pbt.Fail("%s", msg)
	}

	// Stream variant.
	var r io.Reader
	switch c.Reader {
	case readerPlain:
		r = bytes.NewReader(data)
	case readerOneByte:
		r = iotest.OneByteReader(bytes.NewReader(data))
	case readerHalf:
		r = iotest.HalfReader(bytes.NewReader(data))
	case readerDataErr:
		r = iotest.DataErrReader(bytes.NewReader(data))
	case readerSplits:
		sp := c.Splits
		ok := len(sp) > 0
		for _, s := range sp {
			if s <= 0 {
				ok = false
			}
		}
		if !ok {
			return pbt.Verdict{Discard: true}
		}
		r = &splitReader{data: data, splits: sp}
	case readerNoWT:
		r = onlyReader{bytes.NewReader(data)}
	case readerFailing:
		at := c.FailAt
		if at < 0 || at > len(data) {
			return pbt.Verdict{Discard: true}
		}
		r = &failingReader{data: data[:at]}
	}
	fromStream, err := core.NewMetaInfo(d, r, pl)
	if c.Reader == readerFailing {
		// The blob could not be read: a metainfo returned as a success would describe
		// something other than the blob.
		if err == nil {
			return pbt.Fail("NewMetaInfo reports success although reading the blob failed after %d of %d bytes (metainfo length %d, %d pieces)",
				c.FailAt, size, fromStream.Length(), fromStream.NumPieces())
		}
		return pbt.OK(nontrivial, classes...)
	}
	if err != nil {
		return pbt.Fail("NewMetaInfo failed for a positive piece length and a healthy reader: %v (size %d, piece length %d)", err, size, pl)
	}
	if msg := checkAgainstReference("NewMetaInfo(stream)", fromStream, d, data, pl); msg != "" {
		return pbt.Fail("%s", msg)
	}
	if msg := sameMetaInfo("stream vs in-memory", fromStream, fromBytes); msg != "" {
		return pbt.Fail("%s", msg)
	}
	if msg := roundTrip(fromStream); msg != "" {
		return pbt.Fail("%s", msg)
	}
	if msg := roundTrip(fromBytes); msg != "" {
		return pbt.Fail("%s", msg)
	}
	return pbt.OK(nontrivial, classes...)
}

// ---------------------------------------------------------------------------
// part "table"

type TableCase struct {
	Thresholds []uint64 `json:"thresholds"` // file-size thresholds (bytes), distinct
	PieceLens  []uint64 `json:"piece_lens"` // piece length configured for each threshold
	Queries    []int64  `json:"queries"`    // blob sizes looked up
	BlobSize   int      `json:"blob_size"`  // size of the blob run through Generator.Generate
	Seed       uint64   `json:"seed"`
}

const maxGenBlob = 16 * 1024

func genTable(t *rapid.T) TableCase {
	var c TableCase
	pow := rapid.Custom(func(t *rapid.T) uint64 {
		e := rapid.IntRange(0, 40).Draw(t, "e")
		d := rapid.IntRange(-1, 1).Draw(t, "d")
		v := int64(1)<<uint(e) + int64(d)
		if v < 0 {
			v = 0
		}
		return uint64(v)
	})
	thr := rapid.OneOf(
		rapid.Just(uint64(0)),
		rapid.Uint64Range(1, 64),
		rapid.Uint64Range(1, 64),
		rapid.Uint64Range(1, maxGenBlob),
		rapid.Uint64Range(1, maxGenBlob),
		pow,
	)
	c.Thresholds = rapid.SliceOfNDistinct(thr, 1, 6, func(v uint64) uint64 { return v }).Draw(t, "thresholds")
	plg := rapid.OneOf(
		rapid.Uint64Range(1, 16),
		rapid.Uint64Range(1, 2000),
		rapid.Custom(func(t *rapid.T) uint64 { return uint64(1) << uint(rapid.IntRange(0, 40).Draw(t, "ple")) }),
	)
	c.PieceLens = rapid.SliceOfN(plg, len(c.Thresholds), len(c.Thresholds)).Draw(t, "pls")
	q := rapid.OneOf(
		rapid.Custom(func(t *rapid.T) int64 {
			th := rapid.SampledFrom(c.Thresholds).Draw(t, "qt")
			v := int64(th) + int64(rapid.IntRange(-1, 1).Draw(t, "qd"))
			if v < 0 {
				v = 0
			}
			return v
		}),
		rapid.Custom(func(t *rapid.T) int64 {
			th := rapid.SampledFrom(c.Thresholds).Draw(t, "qt")
			v := int64(th) + int64(rapid.IntRange(-1, 1).Draw(t, "qd"))
			if v < 0 {
				v = 0
			}
			return v
		}),
		rapid.Int64Range(0, 1<<12),
		rapid.Int64Range(0, 1<<42),
	)
	c.Queries = rapid.SliceOfN(q, 1, 8).Draw(t, "queries")
	var small []uint64
	for _, th := range c.Thresholds {
		if th <= maxGenBlob {
			small = append(small, th)
		}
	}
	if len(small) > 0 && rapid.IntRange(0, 3).Draw(t, "blobNear") > 0 {
		th := rapid.SampledFrom(small).Draw(t, "bt")
		v := int(th) + rapid.IntRange(-1, 1).Draw(t, "bd")
		if v < 0 {
			v = 0
		}
		c.BlobSize = v
	} else {
		c.BlobSize = rapid.IntRange(0, 4096).Draw(t, "blob")
	}
	c.Seed = rapid.Uint64().Draw(t, "seed")
	return c
}

// lookup is the reference: the piece length configured for the largest threshold not
// above size; ok=false when every threshold is above size (the statement is silent).
func lookup(c TableCase, size int64) (pl int64, ok bool) {
	best := -1
	for i, th := range c.Thresholds {
		if int64(th) <= size && (best < 0 || th > c.Thresholds[best]) {
			best = i
		}
	}
	if best < 0 {
		return 0, false
	}
	return int64(c.PieceLens[best]), true
}

func runTable(c TableCase) pbt.Verdict {
	if len(c.Thresholds) == 0 || len(c.Thresholds) != len(c.PieceLens) || c.BlobSize < 0 || c.BlobSize > maxGenBlob+1 {
		return pbt.Verdict{Discard: true}
	}
	cfg := metainfogen.Config{PieceLengths: map[datasize.ByteSize]datasize.ByteSize{}}
	for i, th := range c.Thresholds {
		if th > 1<<62 || c.PieceLens[i] == 0 || c.PieceLens[i] > 1<<62 {
			return pbt.Verdict{Discard: true}
		}
		if _, dup := cfg.PieceLengths[datasize.ByteSize(th)]; dup {
			return pbt.Verdict{Discard: true}
		}
		cfg.PieceLengths[datasize.ByteSize(th)] = datasize.ByteSize(c.PieceLens[i])
	}

	root, err := os.MkdirTemp("", "c02-")
	if err != nil {
		return pbt.Verdict{Discard: true}
	}
	defer os.RemoveAll(root)
	up, ca := filepath.Join(root, "upload"), filepath.Join(root, "cache")
	if os.Mkdir(up, 0755) != nil || os.Mkdir(ca, 0755) != nil {
		return pbt.Verdict{Discard: true}
	}
	cas, err := store.NewCAStore(store.CAStoreConfig{UploadDir: up, CacheDir: ca}, tally.NoopScope)
	if err != nil {
		return pbt.Fail("harness: NewCAStore: %v", err)
	}
	defer cas.Close()

	g, err := metainfogen.New(cfg, cas)
	if err != nil {
		return pbt.Fail("metainfogen.New rejects a non-empty table of positive piece lengths: %v", err)
	}

	var classes []string
	has0 := false
	for _, th := range c.Thresholds {
		if th == 0 {
			has0 = true
		}
	}
	if has0 {
		classes = append(classes, "table:has-0-threshold")
	} else {
		classes = append(classes, "table:no-0-threshold")
	}
	if len(c.Thresholds) > 1 {
		classes = append(classes, "table:multi-entry")
	}
	evals := 0
	boundary, unspecified := false, false
	for _, q := range c.Queries {
		if q < 0 {
			continue
		}
		want, ok := lookup(c, q)
		got := g.GetPieceLength(q)
		if !ok {
			unspecified = true
			continue
		}
		evals++
		for _, th := range c.Thresholds {
			if int64(th) == q || int64(th) == q+1 {
				boundary = true
			}
		}
		if got != want {
			return pbt.Fail("GetPieceLength(%d)=%d, want %d: the piece length configured for the largest threshold not above the size (thresholds %v -> %v)",
				q, got, want, c.Thresholds, c.PieceLens)
		}
	}
	if boundary {
		classes = append(classes, "query:at-or-just-below-threshold")
	}
	if unspecified {
		classes = append(classes, "query:below-every-threshold(no assertion)")
	}

	// Generate on a real cache file.
	data := makeContent(contentRandom, c.Seed, c.BlobSize, 1)
	d, err := makeDigest(digestTrue, 0, data)
	if err != nil {
		return pbt.Fail("harness: digest: %v", err)
	}
	if err := cas.CreateCacheFile(d.Hex(), bytes.NewReader(data)); err != nil {
		return pbt.Fail("harness: CreateCacheFile: %v", err)
	}
	if err := g.Generate(d); err != nil {
		return pbt.Fail("Generate failed for a blob of %d bytes: %v (thresholds %v -> %v)", c.BlobSize, err, c.Thresholds, c.PieceLens)
	}
	var tm metadata.TorrentMeta
	if err := cas.GetCacheFileMetadata(d.Hex(), &tm); err != nil {
		return pbt.Fail("Generate returned nil but the metainfo is not readable from the store: %v", err)
	}
	if tm.MetaInfo == nil {
		return pbt.Fail("Generate returned nil but stored metainfo is nil")
	}
	wantPL, ok := lookup(c, int64(c.BlobSize))
	if ok {
		evals++
		classes = append(classes, "generate:threshold-applies")
		for _, th := range c.Thresholds {
			if int64(th) == int64(c.BlobSize) || int64(th) == int64(c.BlobSize)+1 {
				boundary = true
				classes = append(classes, "generate:blob-at-or-just-below-threshold")
				break
			}
		}
		if tm.MetaInfo.PieceLength() != wantPL {
			return pbt.Fail("Generate used piece length %d for a blob of %d bytes, want %d (thresholds %v -> %v)",
				tm.MetaInfo.PieceLength(), c.BlobSize, wantPL, c.Thresholds, c.PieceLens)
		}
	} else {
		classes = append(classes, "generate:below-every-threshold(layout only)")
		wantPL = tm.MetaInfo.PieceLength()
		if wantPL <= 0 {
			return pbt.Fail("Generate stored a metainfo with piece length %d", wantPL)
		}
	}
	if msg := checkAgainstReference("Generate", tm.MetaInfo, d, data, wantPL); msg != "" {
		return pbt.Fail("%s", msg)
	}
	if msg := roundTrip(tm.MetaInfo); msg != "" {
		return pbt.Fail("%s", msg)
	}
	direct, err := core.NewMetaInfoFromBytes(d, data, wantPL)
	if err != nil {
		return pbt.Fail("NewMetaInfoFromBytes: %v", err)
	}
	if msg := sameMetaInfo("Generate (stored) vs in-memory", tm.MetaInfo, direct); msg != "" {
		return pbt.Fail("%s", msg)
	}
	v := pbt.OK(boundary && len(c.Thresholds) > 1, classes...)
	v.Evals = evals
	if evals == 0 {
		v.Evals = 1
	}
	return v
}

// ---------------------------------------------------------------------------

func TestProp(t *testing.T) {
	pbt.Main(t, pbt.Spec{
		ID: "C02",
		Rule: "layout: piece length from {1..8, 1..300, 1..64Ki+2, powers of two up to 2^40, 2^62, 2^63-4096, 2^63-2, 2^63-1 (arithmetic on the piece length must not wrap)}, size from {0,1,2, k*pl-1, k*pl, k*pl+1, random <= 64 KiB}, content random / zeros / periodic with period pl or pl+1 (derived from a seed), stream delivered by 7 reader behaviours (plain, 1-byte, half, data+EOF, generated chunk sizes, no WriterTo, failing); " +
			"compared: NewMetaInfoFromBytes and NewMetaInfo(stream) each against an independent reference split (ceil division, crc32.ChecksumIEEE over sub-slices: Length, NumPieces, every GetPieceLength/GetPieceSum, sum of lengths), with each other (info hash, Serialize bytes), and through Serialize->DeserializeMetaInfo and metadata.TorrentMeta; a failing reader must yield an error; " +
			"non-trivial = size 0, or more than one piece, or size an exact multiple of the piece length. " +
			"table: 1-6 distinct thresholds (0, small, 2^e+-1 up to 2^40) with positive piece lengths, 1-8 query sizes biased to threshold-1/threshold/threshold+1, one blob <= 16 KiB written to a real CAStore and run through Generator.Generate; compared: GetPieceLength(size) with the entry of the largest threshold <= size (no assertion when none), stored metainfo with the reference split for that piece length; non-trivial = table has >1 entry and a query or the blob sits on or just below a threshold. Distinct by case hash.",
		Assumptions: []string{
			"piece checksum is CRC-32 (IEEE), as core/piece_hash.go documents; the reference uses hash/crc32 directly",
			"piece lengths are positive (statement quantifier); non-positive ones are not generated",
			"when every threshold is above the blob size the statement does not say which piece length applies; only the layout for the piece length actually used is checked",
			"thresholds and piece lengths stay below 2^62 (datasize.ByteSize is converted to int64 by the code)",
		},
		Parts: []pbt.Part{
			pbt.NewPart("layout", 5, genLayout, runLayout),
			pbt.NewPart("table", 1, genTable, runTable),
		},
	})
}
