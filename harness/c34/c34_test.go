// C34 — HTTP retries resend the complete original request.
//
// A generated request (method, URL, headers, body of one of six reader types,
// accepted codes, retry options) is sent with httputil.Send to a scripted test
// server whose answer per received request is part of the case: a status code, a
// connection cut (before reading the body, in the middle, after reading it), or —
// client side, through a wrapping RoundTripper — a dial-like failure that never
// touches the body. The oracle is a model of the documented retry rule evaluated
// over the script, plus a literal comparison of every request the server received
// with the original one.
package c34

import (
	"bytes"
	"errors"
	"fmt"
	"hash/fnv"
	"io"
	"net"
	"net/http"
	"net/url"
	"os"
	"sort"
	"strings"
	"sync"
	"testing"
	"time"

	"github.com/cenkalti/backoff"
	"github.com/uber/kraken/utils/httputil"
	"pgregory.net/rapid"

	"verif/internal/fakenet"
	"verif/internal/pbt"
)

// Step kinds.
const (
	stStatus    = 0 // read the whole body, answer Status
	stCutBefore = 1 // close the connection without reading the body
	stCutMid    = 2 // read half of the body, close the connection
	stCutAfter  = 3 // read the whole body, close the connection without answering
	stRefuse    = 4 // client side: the transport fails before touching the body (own transport only)
)

// Body kinds.
const (
	bkNone    = 0
	bkBytes   = 1 // *bytes.Reader
	bkBuffer  = 2 // *bytes.Buffer
	bkStrings = 3 // *strings.Reader
	bkFile    = 4 // *os.File
	bkOpaque  = 5 // plain io.Reader
)

var bodyKindNames = []string{"none", "bytes.Reader", "bytes.Buffer", "strings.Reader", "os.File", "opaque-reader"}

type Step struct {
	Kind    int  `json:"k"`
	Status  int  `json:"s,omitempty"`
	Close   bool `json:"c,omitempty"` // answer with "Connection: close"
	RespLen int  `json:"r,omitempty"` // response body bytes (never read by Send on retried attempts)
}

type Case struct {
	Method   string      `json:"method"`
	Path     string      `json:"path"`
	Query    string      `json:"query,omitempty"`
	Headers  [][2]string `json:"headers,omitempty"`
	BodyKind int         `json:"body_kind"`
	BodySize int         `json:"body_size"`
	BodySeed uint64      `json:"body_seed"`
	BodySkip int         `json:"body_skip,omitempty"` // bytes of the reader the caller consumed before handing it over (the body is the rest)
	// Accepted == nil: SendAcceptedCodes is not passed (default: 200).
	Accepted []int `json:"accepted,omitempty"`
	// Retry == false: SendRetry is not passed (default: no retries).
	Retry bool `json:"retry"`
	// BackoffKind 0: harness back-off returning BackoffUs[i] microseconds for the i-th
	// retry and Stop afterwards; 1: backoff.WithMaxRetries(constant(BackoffUs[0]), Max).
	BackoffKind int   `json:"backoff_kind"`
	Max         int   `json:"max"`
	BackoffUs   []int `json:"backoff_us,omitempty"`
	Extra       []int `json:"extra,omitempty"`
	// OwnTransport: pass SendTransport(wrapper around a private http.Transport);
	// otherwise the default transport is used and attempts are only seen server side.
	OwnTransport bool   `json:"own_transport"`
	Script       []Step `json:"script"`
}

var defaultRetryable = map[int]bool{429: true, 502: true, 503: true, 504: true}

var allCodes = []int{200, 201, 202, 204, 400, 404, 409, 429, 500, 502, 503, 504}
var extraPool = []int{400, 404, 409, 500}
var acceptPool = []int{200, 200, 201, 202, 204, 404, 409, 429, 503}

var headerNames = []string{"X-Verif-A", "X-Verif-B", "Content-Type", "Authorization", "X-Kraken-Namespace", "Accept"}

func genCase(t *rapid.T) Case {
	var c Case
	c.BodyKind = rapid.SampledFrom([]int{bkNone, bkBytes, bkBytes, bkBuffer, bkStrings, bkFile, bkOpaque, bkOpaque}).Draw(t, "bodyKind")
	if c.BodyKind == bkNone {
		c.Method = rapid.SampledFrom([]string{"GET", "HEAD", "DELETE", "POST", "PUT"}).Draw(t, "method")
	} else {
		c.Method = rapid.SampledFrom([]string{"POST", "PUT", "PATCH"}).Draw(t, "method")
		big := 256 * 1024
		c.BodySize = rapid.OneOf(
			rapid.IntRange(1, 64),
			rapid.IntRange(0, 3000),
			rapid.SampledFrom([]int{0, 1, 4095, 4096, 4097, 8192, 65536}),
			rapid.IntRange(4000, big),
		).Draw(t, "bodySize")
		c.BodySeed = rapid.Uint64Range(1, 1<<40).Draw(t, "bodySeed")
		// The caller may already have consumed a prefix of the reader (a header it parsed,
		// say): the body of the request is what is left, as with http.NewRequest.
		if (c.BodyKind == bkBytes || c.BodyKind == bkStrings || c.BodyKind == bkBuffer) && rapid.IntRange(0, 3).Draw(t, "consumed") == 0 {
			c.BodySkip = rapid.IntRange(1, 64).Draw(t, "skip")
		}
	}
	seg := rapid.OneOf(
		rapid.StringMatching(`[a-z0-9._~-]{1,8}`),
		rapid.SampledFrom([]string{"a%2Fb", "x%20y", "sha256%3Aabc", "v2", "_uploads"}),
	)
	c.Path = "/" + strings.Join(rapid.SliceOfN(seg, 0, 3).Draw(t, "segs"), "/")
	nq := rapid.IntRange(0, 2).Draw(t, "nq")
	var qs []string
	for i := 0; i < nq; i++ {
		k := rapid.StringMatching(`[a-z]{1,4}`).Draw(t, "qk")
		v := rapid.OneOf(rapid.StringMatching(`[a-zA-Z0-9._-]{0,6}`), rapid.SampledFrom([]string{"a%26b", "1%3D2", "x+y"})).Draw(t, "qv")
		qs = append(qs, k+"="+v)
	}
	c.Query = strings.Join(qs, "&")
	nh := rapid.IntRange(0, 3).Draw(t, "nh")
	used := map[string]bool{}
	for i := 0; i < nh; i++ {
		name := rapid.SampledFrom(headerNames).Draw(t, "hname")
		if used[name] {
			continue
		}
		used[name] = true
		val := rapid.StringMatching(`[A-Za-z0-9/;=._-][A-Za-z0-9 /;=._-]{0,10}[A-Za-z0-9/;=._-]`).Draw(t, "hval")
		c.Headers = append(c.Headers, [2]string{name, val})
	}
	if rapid.IntRange(0, 2).Draw(t, "acceptMode") > 0 {
		c.Accepted = uniqueSorted(rapid.SliceOfN(rapid.SampledFrom(acceptPool), 1, 3).Draw(t, "accepted"))
	}
	c.Retry = rapid.IntRange(0, 9).Draw(t, "retry") > 0
	if c.Retry {
		c.BackoffKind = rapid.IntRange(0, 1).Draw(t, "backoffKind")
		c.Max = rapid.IntRange(0, 3).Draw(t, "max")
		if c.BackoffKind == 1 && c.Max == 0 {
			c.Max = 1 // backoff.WithMaxRetries(b, 0) means "no limit" in the library
		}
		n := c.Max
		if c.BackoffKind == 1 {
			n = 1
		}
		for i := 0; i < n; i++ {
			c.BackoffUs = append(c.BackoffUs, rapid.SampledFrom([]int{0, 0, 1, 50, 1000}).Draw(t, "backoffUs"))
		}
		if rapid.IntRange(0, 2).Draw(t, "extraMode") == 0 {
			acc := accSet(c)
			for _, e := range uniqueSorted(rapid.SliceOfN(rapid.SampledFrom(extraPool), 1, 2).Draw(t, "extra")) {
				// A code that is both accepted and listed for retry is a contradictory
				// configuration no caller uses; not generated.
				if !acc[e] {
					c.Extra = append(c.Extra, e)
				}
			}
		}
	}
	c.OwnTransport = rapid.IntRange(0, 3).Draw(t, "ownTransport") > 0
	// One step more than Send can consume, so that an extra attempt is observable.
	nSteps := 2
	if c.Retry {
		nSteps = c.Max + 2
	}
	acc := accSet(c)
	var retryCodes, finalCodes []int
	for _, code := range allCodes {
		if (defaultRetryable[code] && !acc[code]) || contains(c.Extra, code) {
			retryCodes = append(retryCodes, code)
		} else {
			finalCodes = append(finalCodes, code)
		}
	}
	accList := c.Accepted
	if accList == nil {
		accList = []int{200}
	}
	for i := 0; i < nSteps; i++ {
		var s Step
		switch w := rapid.IntRange(0, 99).Draw(t, "stepKind"); {
		case w < 40:
			s = Step{Kind: stStatus, Status: rapid.SampledFrom(retryCodes).Draw(t, "retryStatus")}
		case w < 50:
			s = Step{Kind: stCutBefore}
		case w < 58:
			s = Step{Kind: stCutMid}
		case w < 66:
			s = Step{Kind: stCutAfter}
		case w < 74 && c.OwnTransport:
			s = Step{Kind: stRefuse}
		case w < 88:
			s = Step{Kind: stStatus, Status: rapid.SampledFrom(accList).Draw(t, "acceptedStatus")}
		default:
			s = Step{Kind: stStatus, Status: rapid.SampledFrom(finalCodes).Draw(t, "finalStatus")}
		}
		if s.Kind == stStatus {
			s.Close = rapid.IntRange(0, 3).Draw(t, "close") == 0
			if c.Method != "HEAD" && s.Status != 204 {
				s.RespLen = rapid.SampledFrom([]int{0, 0, 7, 300}).Draw(t, "respLen")
			}
		}
		c.Script = append(c.Script, s)
	}
	return c
}

func uniqueSorted(xs []int) []int {
	m := map[int]bool{}
	var out []int
	for _, x := range xs {
		if !m[x] {
			m[x] = true
			out = append(out, x)
		}
	}
	sort.Ints(out)
	return out
}

func contains(xs []int, x int) bool {
	for _, y := range xs {
		if x == y {
			return true
		}
	}
	return false
}

func accSet(c Case) map[int]bool {
	if c.Accepted == nil {
		return map[int]bool{200: true}
	}
	m := map[int]bool{}
	for _, a := range c.Accepted {
		m[a] = true
	}
	return m
}

// bodyBytes derives the body from (seed, size) so that cases stay small.
func bodyBytes(seed uint64, size int) []byte {
	b := make([]byte, size)
	x := seed*0x9E3779B97F4A7C15 + 1
	for i := range b {
		x ^= x << 13
		x ^= x >> 7
		x ^= x << 17
		b[i] = byte(x >> 24)
	}
	return b
}

func sum(b []byte) uint64 {
	h := fnv.New64a()
	h.Write(b)
	return h.Sum64()
}

type opaqueReader struct{ r io.Reader }

func (o *opaqueReader) Read(p []byte) (int, error) { return o.r.Read(p) }

// received is what the server saw of one request.
type received struct {
	step       int
	method     string
	requestURI string
	path       string
	query      url.Values
	host       string
	header     http.Header
	readBody   bool // the server read the body to its end
	bodyLen    int
	bodySum    uint64
	readErr    string
	remote     string
	reusedConn bool
}

type scriptedBackoff struct {
	mu    sync.Mutex
	us    []int
	next  int
	calls int
}

func (b *scriptedBackoff) NextBackOff() time.Duration {
	b.mu.Lock()
	defer b.mu.Unlock()
	b.calls++
	if b.next >= len(b.us) {
		return backoff.Stop
	}
	d := time.Duration(b.us[b.next]) * time.Microsecond
	b.next++
	return d
}

func (b *scriptedBackoff) Reset() {}

// tripper wraps the real transport: it counts the attempts Send makes and plays the
// client-side "refuse" steps. attemptStep[i] is the script position of attempt i.
type tripper struct {
	mu       sync.Mutex
	base     http.RoundTripper
	srv      *fakeServer
	attempts int
	errs     []error // error of each attempt (nil = response)
}

var errRefused = errors.New("verif: scripted dial failure (connection refused)")

func (tr *tripper) RoundTrip(req *http.Request) (*http.Response, error) {
	tr.mu.Lock()
	tr.attempts++
	tr.mu.Unlock()
	if tr.srv.takeRefuse() {
		// RoundTripper contract: the body must be closed, also on error. It is not read.
		if req.Body != nil {
			req.Body.Close()
		}
		tr.mu.Lock()
		tr.errs = append(tr.errs, errRefused)
		tr.mu.Unlock()
		return nil, errRefused
	}
	resp, err := tr.base.RoundTrip(req)
	tr.mu.Lock()
	tr.errs = append(tr.errs, err)
	tr.mu.Unlock()
	return resp, err
}

type fakeServer struct {
	mu       sync.Mutex
	script   []Step
	pos      int // next script step
	got      []received
	overrun  int
	bodySize int
	conns    map[string]int
}

// takeRefuse consumes the next step if it is a client-side refusal.
func (f *fakeServer) takeRefuse() bool {
	f.mu.Lock()
	defer f.mu.Unlock()
	if f.pos < len(f.script) && f.script[f.pos].Kind == stRefuse {
		f.pos++
		return true
	}
	return false
}

func (f *fakeServer) ServeHTTP(w http.ResponseWriter, r *http.Request) {
	f.mu.Lock()
	// Without the wrapping transport nobody consumes refuse steps (none are generated then).
	for f.pos < len(f.script) && f.script[f.pos].Kind == stRefuse {
		f.pos++
	}
	idx := f.pos
	f.pos++
	var st Step
	if idx < len(f.script) {
		st = f.script[idx]
	} else {
		f.overrun++
		st = Step{Kind: stStatus, Status: 200}
	}
	// A cut on a re-used keep-alive connection would be replayed by net/http itself for
	// idempotent requests (invisible to Send); make every cut arrive on a fresh connection.
	closeAfter := st.Close
	if idx+1 < len(f.script) {
		for j := idx + 1; j < len(f.script); j++ {
			if f.script[j].Kind == stRefuse {
				continue
			}
			if f.script[j].Kind != stStatus {
				closeAfter = true
			}
			break
		}
	}
	f.conns[r.RemoteAddr]++
	rec := received{step: idx, method: r.Method, requestURI: r.RequestURI, path: r.URL.Path, query: r.URL.Query(),
		host: r.Host, header: r.Header.Clone(), remote: r.RemoteAddr, reusedConn: f.conns[r.RemoteAddr] > 1}
	f.mu.Unlock()

	store := func() {
		f.mu.Lock()
		f.got = append(f.got, rec)
		f.mu.Unlock()
	}
	cut := func() {
		if hj, ok := w.(http.Hijacker); ok {
			if c, _, err := hj.Hijack(); err == nil {
				c.Close()
			}
		}
	}
	readAll := func() {
		b, err := io.ReadAll(r.Body)
		rec.bodyLen = len(b)
		rec.bodySum = sum(b)
		if err != nil {
			rec.readErr = err.Error()
		} else {
			rec.readBody = true
		}
	}
	switch st.Kind {
	case stCutBefore:
		store()
		cut()
	case stCutMid:
		half := make([]byte, f.bodySize/2)
		n, _ := io.ReadFull(r.Body, half)
		rec.bodyLen = n
		store()
		cut()
	case stCutAfter:
		readAll()
		store()
		cut()
	default:
		readAll()
		store()
		if closeAfter {
			w.Header().Set("Connection", "close")
		}
		if st.RespLen > 0 {
			w.Header().Set("Content-Length", fmt.Sprint(st.RespLen))
		}
		w.WriteHeader(st.Status)
		if st.RespLen > 0 {
			w.Write(bytes.Repeat([]byte("r"), st.RespLen))
		}
	}
}

// outcome of the model.
type outcome struct {
	attempts int // number of attempts (script steps consumed)
	kind     int // 0 success, 1 status error, 2 network error
	status   int
}

func (o outcome) String() string {
	switch o.kind {
	case 0:
		return fmt.Sprintf("success with status %d after %d attempt(s)", o.status, o.attempts)
	case 1:
		return fmt.Sprintf("StatusError %d after %d attempt(s)", o.status, o.attempts)
	}
	return fmt.Sprintf("NetworkError after %d attempt(s)", o.attempts)
}

// model evaluates the documented rule: an attempt is retried iff it ended in a network
// error, a retryable status that is not accepted, or a status listed with RetryCodes —
// as long as the back-off allows another retry (at most maxRetries). stopAt > 0 ends
// the run at that attempt whatever its outcome (used for bodies that cannot be resent).
func model(c Case, stopAt int) outcome {
	acc := accSet(c)
	maxRetries := 0
	if c.Retry {
		maxRetries = c.Max
	}
	final := func(i int, st Step) outcome {
		if st.Kind != stStatus {
			return outcome{attempts: i + 1, kind: 2}
		}
		if acc[st.Status] {
			return outcome{attempts: i + 1, kind: 0, status: st.Status}
		}
		return outcome{attempts: i + 1, kind: 1, status: st.Status}
	}
	for i, st := range c.Script {
		retry := st.Kind != stStatus || (defaultRetryable[st.Status] && !acc[st.Status]) || (c.Retry && contains(c.Extra, st.Status))
		if !retry || i >= maxRetries || i+1 == stopAt {
			return final(i, st)
		}
	}
	// unreachable: the script has maxRetries+2 steps
	return outcome{attempts: len(c.Script), kind: 2}
}

func classify(resp *http.Response, err error) outcome {
	if err == nil {
		return outcome{kind: 0, status: resp.StatusCode}
	}
	if se, ok := err.(httputil.StatusError); ok {
		return outcome{kind: 1, status: se.Status}
	}
	if httputil.IsNetworkError(err) {
		return outcome{kind: 2}
	}
	return outcome{kind: 3}
}

func isDialError(err error) bool {
	var op *net.OpError
	if errors.As(err, &op) && op.Op == "dial" {
		return true
	}
	return false
}

func run(c Case) pbt.Verdict {
	skip := c.BodySkip
	if skip < 0 || (c.BodyKind != bkBytes && c.BodyKind != bkStrings && c.BodyKind != bkBuffer) {
		skip = 0
	}
	full := bodyBytes(c.BodySeed, c.BodySize+skip)
	body := full[skip:]
	consume := func(r io.Reader) { io.CopyN(io.Discard, r, int64(skip)) }
	fs := &fakeServer{script: c.Script, bodySize: c.BodySize, conns: map[string]int{}}
	fakenet.InstallDefault()
	srv, lerr := fakenet.Serve(fs)
	if lerr != nil {
		return pbt.Verdict{Discard: true} // infrastructure
	}
	defer srv.Close()

	var opts []httputil.SendOption
	switch c.BodyKind {
	case bkBytes:
		r := bytes.NewReader(full)
		consume(r)
		opts = append(opts, httputil.SendBody(r))
	case bkBuffer:
		r := bytes.NewBuffer(append([]byte(nil), full...))
		consume(r)
		opts = append(opts, httputil.SendBody(r))
	case bkStrings:
		r := strings.NewReader(string(full))
		consume(r)
		opts = append(opts, httputil.SendBody(r))
	case bkFile:
		f, err := os.CreateTemp("", "c34-body-")
		if err != nil {
			return pbt.Verdict{Discard: true}
		}
		defer os.Remove(f.Name())
		defer f.Close()
		if _, err := f.Write(body); err != nil {
			return pbt.Verdict{Discard: true}
		}
		if _, err := f.Seek(0, io.SeekStart); err != nil {
			return pbt.Verdict{Discard: true}
		}
		opts = append(opts, httputil.SendBody(f))
	case bkOpaque:
		opts = append(opts, httputil.SendBody(&opaqueReader{bytes.NewReader(body)}))
	}
	if len(c.Headers) > 0 {
		h := map[string]string{}
		for _, kv := range c.Headers {
			h[kv[0]] = kv[1]
		}
		opts = append(opts, httputil.SendHeaders(h))
	}
	if c.Accepted != nil {
		opts = append(opts, httputil.SendAcceptedCodes(c.Accepted...))
	}
	if c.Retry {
		var ro []httputil.RetryOption
		if c.BackoffKind == 0 {
			ro = append(ro, httputil.RetryBackoff(&scriptedBackoff{us: c.BackoffUs}))
		} else {
			if c.Max < 1 {
				return pbt.Verdict{Discard: true} // WithMaxRetries(b, 0) = unlimited: not a bounded back-off
			}
			d := time.Duration(0)
			if len(c.BackoffUs) > 0 {
				d = time.Duration(c.BackoffUs[0]) * time.Microsecond
			}
			ro = append(ro, httputil.RetryBackoff(backoff.WithMaxRetries(backoff.NewConstantBackOff(d), uint64(c.Max))))
		}
		if len(c.Extra) > 0 {
			ro = append(ro, httputil.RetryCodes(c.Extra...))
		}
		opts = append(opts, httputil.SendRetry(ro...))
	}
	var tr *tripper
	if c.OwnTransport {
		base := fakenet.NewTransport()
		defer base.CloseIdleConnections()
		tr = &tripper{base: base, srv: fs}
		opts = append(opts, httputil.SendTransport(tr))
	} else {
		defer http.DefaultTransport.(*http.Transport).CloseIdleConnections()
	}

	rawurl := srv.URL() + c.Path
	if c.Query != "" {
		rawurl += "?" + c.Query
	}
	wantURL, perr := url.Parse(rawurl)
	if perr != nil {
		return pbt.Verdict{Discard: true}
	}

	resp, err := httputil.Send(c.Method, rawurl, opts...)
	if resp != nil {
		io.Copy(io.Discard, resp.Body)
		resp.Body.Close()
	}
	got := classify(resp, err)

	fs.mu.Lock()
	recs := append([]received(nil), fs.got...)
	consumed := fs.pos
	overrun := fs.overrun
	fs.mu.Unlock()

	// Infrastructure trouble (the local dial failed) cannot be judged.
	if tr != nil {
		for _, e := range tr.errs {
			if e != nil && e != errRefused && isDialError(e) {
				return pbt.Verdict{Discard: true}
			}
		}
	} else if err != nil && strings.Contains(err.Error(), ": dial ") {
		return pbt.Verdict{Discard: true}
	}

	desc := func() string {
		var sb strings.Builder
		fmt.Fprintf(&sb, "%s body=%s size=%d retry=%v max=%d accepted=%v extra=%v; script:", c.Method, bodyKindNames[c.BodyKind], c.BodySize, c.Retry, c.Max, c.Accepted, c.Extra)
		for _, s := range c.Script {
			switch s.Kind {
			case stStatus:
				fmt.Fprintf(&sb, " %d", s.Status)
				if s.Close {
					sb.WriteString("(close)")
				}
			case stCutBefore:
				sb.WriteString(" cut-before-body")
			case stCutMid:
				sb.WriteString(" cut-mid-body")
			case stCutAfter:
				sb.WriteString(" cut-after-body")
			case stRefuse:
				sb.WriteString(" refused")
			}
		}
		fmt.Fprintf(&sb, "; Send returned err=%v", err)
		if resp != nil {
			fmt.Fprintf(&sb, " status=%d", resp.StatusCode)
		}
		fmt.Fprintf(&sb, "; server received %d request(s)", len(recs))
		return sb.String()
	}

	// 1. Every request the server received is the original request.
	for i, r := range recs {
		if r.method != c.Method {
			return pbt.Fail("attempt carried a different method\nrequest %d: method %q, want %q; %s", i+1, r.method, c.Method, desc())
		}
		if r.path != wantURL.Path || r.query.Encode() != wantURL.Query().Encode() {
			return pbt.Fail("attempt carried a different URL\nrequest %d: %q, want %q; %s", i+1, r.requestURI, wantURL.RequestURI(), desc())
		}
		if r.requestURI != recs[0].requestURI || r.host != recs[0].host {
			return pbt.Fail("attempts carried different URLs\nrequest %d: %s %q vs first %s %q; %s", i+1, r.host, r.requestURI, recs[0].host, recs[0].requestURI, desc())
		}
		for _, kv := range c.Headers {
			vals := r.header.Values(kv[0])
			if len(vals) != 1 || vals[0] != kv[1] {
				return pbt.Fail("attempt carried different headers\nrequest %d: header %s = %q, want [%q]; %s", i+1, kv[0], vals, kv[1], desc())
			}
		}
		st := c.Script[minInt(r.step, len(c.Script)-1)]
		if r.step < len(c.Script) && (st.Kind == stStatus || st.Kind == stCutAfter) {
			if r.bodyLen != len(body) || r.bodySum != sum(body) || !r.readBody {
				first := "retry"
				if i == 0 {
					first = "first attempt"
				}
				return pbt.Fail("%s did not carry the complete original body\nrequest %d carried %d of %d body bytes (equal=%v, read error %q); %s",
					first, i+1, r.bodyLen, len(body), r.bodyLen == len(body) && r.bodySum == sum(body), r.readErr, desc())
			}
		}
	}
	if overrun > 0 {
		return pbt.Fail("more attempts than the back-off allows\nserver received %d requests for a script of %d steps; %s", len(recs), len(c.Script), desc())
	}

	// 2. The result and the number of attempts follow the retry rule.
	want := model(c, 0)
	nonRewindable := c.BodyKind == bkFile || c.BodyKind == bkOpaque
	// A request whose body cannot be rewound may legitimately not be retried: the
	// statement only forbids resending the body incomplete. Giving up is accepted at
	// any attempt up to and including the first one that handed the body to the
	// transport (a refused dial does not touch it); later it is not, because from then
	// on an implementation that continues has committed to resending the body.
	alts := []outcome{want}
	if nonRewindable {
		for i, st := range c.Script {
			alts = append(alts, model(c, i+1))
			if st.Kind != stRefuse {
				break
			}
		}
	}
	attempts := consumed
	attemptsSrc := "script steps consumed"
	if tr != nil {
		attempts = tr.attempts
		attemptsSrc = "round trips"
	}
	matched := -1
	for k, a := range alts {
		if a.kind == got.kind && (a.kind == 2 || a.status == got.status) && a.attempts == attempts {
			matched = k
			break
		}
	}
	if matched < 0 {
		got.attempts = attempts
		sig := "result or attempt count does not follow the retry rule"
		if got.kind == 0 && want.kind != 0 {
			sig = "success reported although no attempt got an accepted status"
		} else if got.kind == 2 && err != nil && strings.Contains(err.Error(), "with Body length") {
			sig = "retry could not resend the original body"
		} else if attempts > want.attempts {
			sig = "more attempts than the retry rule allows"
		}
		return pbt.Fail("%s\ngot %s (%s), want %s; %s", sig, got, attemptsSrc, want, desc())
	}
	if tr != nil && consumed != tr.attempts {
		// every round trip must have reached its script step (refusals are counted by takeRefuse)
		return pbt.Fail("an attempt did not reach the server\n%d round trips but %d script steps consumed; %s", tr.attempts, consumed, desc())
	}
	// classes
	cl := []string{"body:" + bodyKindNames[c.BodyKind]}
	if !c.Retry {
		cl = append(cl, "no-retry-option")
	}
	if attempts >= 2 {
		cl = append(cl, "retried")
		prev := c.Script[attempts-2]
		if prev.Kind == stStatus {
			cl = append(cl, "retry-after-status")
		} else if prev.Kind == stRefuse {
			cl = append(cl, "retry-after-refusal")
		} else {
			cl = append(cl, "retry-after-cut")
		}
		if got.kind == 0 {
			cl = append(cl, "success-after-retry")
		}
		if c.BodySize > 0 {
			cl = append(cl, "retried-with-body")
		}
		if skip > 0 {
			cl = append(cl, "retried-with-partly-consumed-reader")
		}
	}
	if attempts == want.attempts && c.Retry && attempts == c.Max+1 && retryableStep(c, c.Script[attempts-1]) {
		cl = append(cl, "backoff-exhausted")
	}
	for _, r := range recs {
		if r.reusedConn {
			cl = append(cl, "keepalive-reused")
			break
		}
	}
	if matched > 0 && alts[matched].attempts != want.attempts {
		cl = append(cl, "nonrewindable-stopped-early")
	}
	if c.BodySize >= 4096 {
		cl = append(cl, "body>=4KiB")
	}
	return pbt.OK(attempts >= 2, cl...)
}

func retryableStep(c Case, st Step) bool {
	acc := accSet(c)
	return st.Kind != stStatus || (defaultRetryable[st.Status] && !acc[st.Status]) || (c.Retry && contains(c.Extra, st.Status))
}

func minInt(a, b int) int {
	if a < b {
		return a
	}
	return b
}

func TestProp(t *testing.T) {
	pbt.Main(t, pbt.Spec{
		ID: "C34",
		Rule: "generated request (6 methods, URL with escaped segments and query, 0-3 headers, body none/bytes.Reader/bytes.Buffer/strings.Reader/os.File/opaque io.Reader of 0-256 KiB (one in four of the in-memory readers is handed over with a prefix of 1-64 bytes already consumed: the body is the rest), accepted-code set, retry option with 0-3 retries and extra retry codes) sent with httputil.Send to a scripted server: per attempt a status out of 12 codes (optionally Connection: close, optional response body), a connection cut before/in the middle of/after the request body, or a client-side dial failure; every received request is compared with the original (method, URL, headers, body length+hash) and the result and attempt count are compared with a model of the documented retry rule; non-trivial = Send made at least two attempts; distinct by case hash",
		Assumptions: []string{
			"the scripted HTTP server and the wrapping RoundTripper are trusted; every cut is made to arrive on a fresh connection (the previous answer carries Connection: close) so that net/http's own replay of idempotent requests on re-used connections does not add attempts Send does not know about",
			"the server reads the whole request body before answering a status, so the answer is deterministic",
			"a code that is both accepted and listed with RetryCodes is a contradictory configuration and is not generated",
			"for bodies that cannot be rewound (os.File, opaque reader) both 'retry with the complete body' and 'stop retrying after the attempt that consumed the body' are accepted",
			"cases in which a local TCP dial fails are discarded (infrastructure)",
		},
		Parts: []pbt.Part{pbt.NewPart("send", 1, genCase, run)},
	})
}
