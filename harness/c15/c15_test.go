// C15 — piece request bookkeeping respects pipeline limits and peer removal.
//
// Stateful property-based test: a generated history of ReservePieces / MarkUnsent /
// MarkInvalid / Clear / ClearPeer / clock advances over a few peers and pieces is
// applied to the real piecerequest.Manager (mock clock) and to a reference model of
// the live requests written from the property statement. After every step the
// manager's public observers (GetFailedRequests, PendingPieces of every peer) are
// compared with the model.

//go:debug randseednop=0
package c15

import (
	"fmt"
	"math/rand"
	"sort"
	"testing"
	"time"

	"github.com/andres-erbsen/clock"
	"github.com/uber/kraken/core"
	"github.com/uber/kraken/lib/torrent/scheduler/dispatch/piecerequest"
	"github.com/uber/kraken/utils/syncutil"
	"github.com/willf/bitset"
	"pgregory.net/rapid"

	"verif/internal/pbt"
)

// Op kinds.
const (
	opReserve = iota
	opMarkUnsent
	opMarkInvalid
	opClear
	opClearPeer
	opAdvance
)

// Op is one step of a history.
type Op struct {
	K      int   `json:"k"`
	P      int   `json:"p,omitempty"`      // peer index
	Cand   uint  `json:"cand,omitempty"`   // reserve: candidate piece bit mask
	Retry  bool  `json:"retry,omitempty"`  // reserve: candidates = pieces on which this peer has a failed request (Cand if there are none)
	Counts []int `json:"counts,omitempty"` // reserve: numPeersByPiece
	End    bool  `json:"end,omitempty"`    // reserve: endgame (allowDuplicates)
	Sel    int   `json:"sel,omitempty"`    // mark/clear: selector
	Raw    bool  `json:"raw,omitempty"`    // mark/clear: Sel is a raw piece index instead of "Sel-th live request"
	Adv    int   `json:"adv,omitempty"`    // advance: whole seconds
}

// Case is one generated history.
type Case struct {
	Seed        int64  `json:"seed"` // seeds the global math/rand used by the default policy
	Pieces      int    `json:"pieces"`
	Origin      []bool `json:"origin"` // one entry per peer: is the peer an origin
	RarestFirst bool   `json:"rarest_first"`
	AgentLimit  int    `json:"agent_limit"`
	OriginLimit int    `json:"origin_limit"`
	Ops         []Op   `json:"ops"`
}

// The request timeout is 10.5 s and the clock only moves in whole seconds, so no
// observation ever happens exactly on an expiry boundary (the statement does not say
// whether a request is expired at exactly sentAt+timeout).
const (
	timeoutHalfSec = 21 // 10.5 s in half seconds
	timeout        = timeoutHalfSec * 500 * time.Millisecond
)

func gen(t *rapid.T) Case {
	c := Case{
		Seed:        rapid.Int64Range(1, 1<<30).Draw(t, "seed"),
		Pieces:      rapid.IntRange(2, 8).Draw(t, "pieces"),
		RarestFirst: rapid.Bool().Draw(t, "rarest"),
		AgentLimit:  rapid.IntRange(1, 3).Draw(t, "agentLimit"),
		OriginLimit: rapid.IntRange(1, 3).Draw(t, "originLimit"),
	}
	npeers := rapid.IntRange(2, 4).Draw(t, "peers")
	for i := 0; i < npeers; i++ {
		c.Origin = append(c.Origin, rapid.IntRange(0, 3).Draw(t, "origin") == 0)
	}
	full := uint(1)<<uint(c.Pieces) - 1
	opGen := rapid.Custom(func(t *rapid.T) Op {
		// weights: reserve 9, unsent 2, invalid 2, clear 2, clearPeer 3, advance 5
		w := rapid.IntRange(0, 22).Draw(t, "w")
		p := rapid.IntRange(0, npeers-1).Draw(t, "p")
		switch {
		case w < 9:
			op := Op{K: opReserve, P: p, End: rapid.IntRange(0, 3).Draw(t, "end") == 0}
			switch rapid.IntRange(0, 4).Draw(t, "candKind") {
			case 0:
				op.Cand = full
			case 1:
				op.Cand = full
				op.Retry = true
			case 2:
				op.Cand = uint(1) << uint(rapid.IntRange(0, c.Pieces-1).Draw(t, "one"))
			default:
				op.Cand = uint(rapid.IntRange(0, int(full)).Draw(t, "cand"))
			}
			op.Counts = rapid.SliceOfN(rapid.IntRange(0, 3), c.Pieces, c.Pieces).Draw(t, "counts")
			return op
		case w < 11:
			return Op{K: opMarkUnsent, P: p, Sel: rapid.IntRange(0, 7).Draw(t, "sel"), Raw: rapid.IntRange(0, 4).Draw(t, "raw") == 0}
		case w < 13:
			return Op{K: opMarkInvalid, P: p, Sel: rapid.IntRange(0, 7).Draw(t, "sel"), Raw: rapid.IntRange(0, 4).Draw(t, "raw") == 0}
		case w < 15:
			return Op{K: opClear, P: p, Sel: rapid.IntRange(0, 7).Draw(t, "sel"), Raw: rapid.IntRange(0, 4).Draw(t, "raw") == 0}
		case w < 18:
			return Op{K: opClearPeer, P: p}
		default:
			var adv int
			if rapid.Bool().Draw(t, "long") {
				adv = rapid.IntRange(11, 14).Draw(t, "adv") // above the timeout
			} else {
				adv = rapid.IntRange(1, 6).Draw(t, "adv") // below; several of them add up past it
			}
			return Op{K: opAdvance, Adv: adv}
		}
	})
	// minLen only keeps histories long; the shrinker lowers it first and then deletes operations.
	minLen := rapid.IntRange(1, 30).Draw(t, "minLen")
	c.Ops = rapid.SliceOfN(opGen, minLen, 40).Draw(t, "ops")
	return c
}

// manualClock is the library mock clock with Now under direct control of the case
// (the manager only reads the time; Mock.Add sleeps a millisecond per call).
type manualClock struct {
	clock.Clock
	now time.Time
}

func (c *manualClock) Now() time.Time { return c.now }

func peerID(i int) core.PeerID {
	var p core.PeerID
	p[0] = byte(i + 1)
	p[19] = byte(0xC0 + i)
	return p
}

// mreq is one request of the reference model.
type mreq struct {
	peer, piece int
	sentAt      int // seconds
	unsent      bool
	invalid     bool
}

type model struct {
	now  int // seconds
	reqs []*mreq
}

// expired: strictly more than the timeout has elapsed (never on the boundary, see above).
func (m *model) expired(r *mreq) bool { return (m.now-r.sentAt)*2 > timeoutHalfSec }
func (m *model) failed(r *mreq) bool  { return r.unsent || r.invalid || m.expired(r) }

// outstanding: sent, not answered, not expired.
func (m *model) outstanding(r *mreq) bool { return !m.failed(r) }

func (m *model) of(peer, piece int) []*mreq {
	var out []*mreq
	for _, r := range m.reqs {
		if r.peer == peer && r.piece == piece {
			out = append(out, r)
		}
	}
	return out
}

func (m *model) ofPeer(peer int) []*mreq {
	var out []*mreq
	for _, r := range m.reqs {
		if r.peer == peer {
			out = append(out, r)
		}
	}
	return out
}

func (m *model) remove(pred func(*mreq) bool) int {
	out := m.reqs[:0]
	n := 0
	for _, r := range m.reqs {
		if pred(r) {
			n++
			continue
		}
		out = append(out, r)
	}
	m.reqs = out
	return n
}

type runner struct {
	c       Case
	mgr     *piecerequest.Manager
	clk     *manualClock
	m       model
	classes map[string]bool
	// removedPeer[p] = true between ClearPeer(p) and p's next successful reserve.
	removedPeer map[int]bool
	// clearedPiece[i] = true between Clear(i) and the next successful reserve of i.
	clearedPiece map[int]bool
	nontrivial   bool
}

func (r *runner) limit(p int) int {
	if r.c.Origin[p] {
		return r.c.OriginLimit
	}
	return r.c.AgentLimit
}

func (r *runner) peerIdx(id core.PeerID) int {
	for i := range r.c.Origin {
		if peerID(i) == id {
			return i
		}
	}
	return -1
}

// observe compares everything the manager reports with the model.
func (r *runner) observe(step int, what string) string {
	type key struct{ peer, piece int }
	// ---- failed requests
	reported := map[key][]piecerequest.Status{}
	for _, f := range r.mgr.GetFailedRequests() {
		p := r.peerIdx(f.PeerID)
		if p < 0 {
			return fmt.Sprintf("GetFailedRequests reports a request of an unknown peer\nstep %d (%s): %v", step, what, f)
		}
		if f.Status != piecerequest.StatusExpired && f.Status != piecerequest.StatusUnsent && f.Status != piecerequest.StatusInvalid {
			return fmt.Sprintf("GetFailedRequests reports a request that is not failed\nstep %d (%s): peer %d piece %d status %d", step, what, p, f.Piece, f.Status)
		}
		k := key{p, f.Piece}
		reported[k] = append(reported[k], f.Status)
	}
	var rkeys []key
	for k := range reported {
		rkeys = append(rkeys, k)
	}
	sort.Slice(rkeys, func(a, b int) bool {
		if rkeys[a].peer != rkeys[b].peer {
			return rkeys[a].peer < rkeys[b].peer
		}
		return rkeys[a].piece < rkeys[b].piece
	})
	for _, k := range rkeys {
		sts := append([]piecerequest.Status(nil), reported[k]...)
		sort.Slice(sts, func(a, b int) bool { return sts[a] < sts[b] })
		live := r.m.of(k.peer, k.piece)
		if len(live) == 0 {
			switch {
			case r.removedPeer[k.peer]:
				return fmt.Sprintf("GetFailedRequests reports a request of a removed peer\nstep %d (%s): peer %d piece %d statuses %v, although ClearPeer(peer %d) was called and the peer has reserved nothing since", step, what, k.peer, k.piece, sts, k.peer)
			case r.clearedPiece[k.piece]:
				return fmt.Sprintf("GetFailedRequests reports a request for a cleared piece\nstep %d (%s): peer %d piece %d statuses %v", step, what, k.peer, k.piece, sts)
			default:
				return fmt.Sprintf("GetFailedRequests reports a request that was never made\nstep %d (%s): peer %d piece %d statuses %v", step, what, k.peer, k.piece, sts)
			}
		}
		nfailed := 0
		for _, q := range live {
			if r.m.failed(q) {
				nfailed++
			}
		}
		if len(sts) > nfailed {
			return fmt.Sprintf("GetFailedRequests reports more failed requests than exist\nstep %d (%s): peer %d piece %d reported %v, model has %d failed of %d requests (an outstanding request must not be reported)", step, what, k.peer, k.piece, sts, nfailed, len(live))
		}
	}
	// every (peer, piece) whose latest request failed must be reported with a status that applies to it
	seen := map[key]bool{}
	for _, q := range r.m.reqs {
		k := key{q.peer, q.piece}
		if seen[k] {
			continue
		}
		seen[k] = true
		live := r.m.of(k.peer, k.piece)
		latest := live[len(live)-1]
		if !r.m.failed(latest) {
			continue
		}
		allowed := map[piecerequest.Status]bool{}
		if latest.unsent {
			allowed[piecerequest.StatusUnsent] = true
		}
		if latest.invalid {
			allowed[piecerequest.StatusInvalid] = true
		}
		if r.m.expired(latest) {
			allowed[piecerequest.StatusExpired] = true
		}
		sts := reported[k]
		if len(sts) == 0 {
			return fmt.Sprintf("GetFailedRequests omits a failed request\nstep %d (%s): peer %d piece %d (sent at %ds, now %ds, unsent=%v invalid=%v) is not reported", step, what, k.peer, k.piece, latest.sentAt, r.m.now, latest.unsent, latest.invalid)
		}
		ok := false
		for _, s := range sts {
			if allowed[s] {
				ok = true
			}
		}
		if !ok {
			return fmt.Sprintf("GetFailedRequests reports a failed request with the wrong status\nstep %d (%s): peer %d piece %d reported %v, applicable %v (1=expired 2=unsent 3=invalid)", step, what, k.peer, k.piece, sts, keys(allowed))
		}
		for _, s := range sts {
			switch s {
			case piecerequest.StatusExpired:
				r.classes["expired-reported"] = true
			case piecerequest.StatusUnsent:
				r.classes["unsent-reported"] = true
			case piecerequest.StatusInvalid:
				r.classes["invalid-reported"] = true
			}
		}
	}
	// ---- pending pieces per peer
	for p := range r.c.Origin {
		got := r.mgr.PendingPieces(peerID(p))
		if !sort.IntsAreSorted(got) {
			return fmt.Sprintf("PendingPieces is not sorted\nstep %d (%s): peer %d %v", step, what, p, got)
		}
		gotSet := map[int]bool{}
		for _, i := range got {
			if gotSet[i] {
				return fmt.Sprintf("PendingPieces lists a piece twice\nstep %d (%s): peer %d %v", step, what, p, got)
			}
			gotSet[i] = true
		}
		must := map[int]bool{} // latest request outstanding
		may := map[int]bool{}  // latest request sent, unanswered, but expired (the doc does not say whether these count)
		for _, q := range r.m.ofPeer(p) {
			live := r.m.of(p, q.piece)
			latest := live[len(live)-1]
			if latest.unsent || latest.invalid {
				continue
			}
			if r.m.expired(latest) {
				may[q.piece] = true
			} else {
				must[q.piece] = true
			}
		}
		for i := 0; i < r.c.Pieces; i++ {
			if must[i] && !gotSet[i] {
				return fmt.Sprintf("PendingPieces omits an outstanding request\nstep %d (%s): peer %d piece %d, got %v", step, what, p, i, got)
			}
		}
		for _, i := range got {
			if must[i] || may[i] {
				continue
			}
			switch {
			case len(r.m.ofPeer(p)) == 0 && r.removedPeer[p]:
				return fmt.Sprintf("PendingPieces reports a request of a removed peer\nstep %d (%s): peer %d piece %d", step, what, p, i)
			case len(r.m.of(p, i)) == 0 && r.clearedPiece[i]:
				return fmt.Sprintf("PendingPieces reports a request for a cleared piece\nstep %d (%s): peer %d piece %d", step, what, p, i)
			default:
				return fmt.Sprintf("PendingPieces reports a piece that is not pending\nstep %d (%s): peer %d piece %d, got %v", step, what, p, i, got)
			}
		}
	}
	return ""
}

func keys(m map[piecerequest.Status]bool) []int {
	var out []int
	for k := range m {
		out = append(out, int(k))
	}
	sort.Ints(out)
	return out
}

// selectPiece resolves a mark/clear selector into a piece index.
func (r *runner) selectPiece(op Op, pool []*mreq) int {
	if !op.Raw && len(pool) > 0 {
		return pool[op.Sel%len(pool)].piece
	}
	return op.Sel % r.c.Pieces
}

func run(c Case) pbt.Verdict {
	if c.Pieces < 1 || c.Pieces > 16 || len(c.Origin) == 0 || c.AgentLimit < 1 || c.OriginLimit < 1 {
		return pbt.Verdict{Discard: true}
	}
	rand.Seed(c.Seed)
	clk := &manualClock{Clock: clock.NewMock(), now: time.Unix(1_600_000_000, 0)}
	policy := piecerequest.DefaultPolicy
	if c.RarestFirst {
		policy = piecerequest.RarestFirstPolicy
	}
	mgr, err := piecerequest.NewManager(clk, timeout, policy, c.AgentLimit, c.OriginLimit)
	if err != nil {
		return pbt.Verdict{Discard: true}
	}
	r := &runner{c: c, mgr: mgr, clk: clk, classes: map[string]bool{},
		removedPeer: map[int]bool{}, clearedPiece: map[int]bool{}}
	if c.RarestFirst {
		r.classes["policy-rarest-first"] = true
	} else {
		r.classes["policy-default"] = true
	}

	for step, op := range c.Ops {
		if op.P < 0 || op.P >= len(c.Origin) {
			return pbt.Verdict{Discard: true}
		}
		var what string
		switch op.K {
		case opReserve:
			what = fmt.Sprintf("ReservePieces(peer %d, cand %b, endgame %v)", op.P, op.Cand, op.End)
			if len(op.Counts) != c.Pieces {
				return pbt.Verdict{Discard: true}
			}
			if op.Retry {
				var mask uint
				for _, q := range r.m.ofPeer(op.P) {
					if r.m.failed(q) {
						mask |= 1 << uint(q.piece)
					}
				}
				if mask != 0 {
					op.Cand = mask
					r.classes["reserve-retry-own-failed"] = true
				}
			}
			what = fmt.Sprintf("ReservePieces(peer %d, cand %b, endgame %v)", op.P, op.Cand, op.End)
			cand := bitset.New(uint(c.Pieces))
			for i := 0; i < c.Pieces; i++ {
				if op.Cand&(1<<uint(i)) != 0 {
					cand.Set(uint(i))
				}
			}
			counts := syncutil.NewCounters(c.Pieces)
			for i, v := range op.Counts {
				counts.Set(i, v)
			}
			// model view before the call
			outstandingOfPeer := 0
			for _, q := range r.m.ofPeer(op.P) {
				if r.m.outstanding(q) {
					outstandingOfPeer++
				}
			}
			quota := r.limit(op.P) - outstandingOfPeer
			if quota < 0 {
				return pbt.Fail("peer has more outstanding requests than its pipeline limit\nstep %d (%s): %d outstanding, limit %d", step, what, outstandingOfPeer, r.limit(op.P))
			}
			got, err := mgr.ReservePieces(peerID(op.P), c.Origin[op.P], cand, counts, op.End)
			if err != nil {
				// The statement says nothing about errors; nothing may have been reserved.
				r.classes["reserve-error"] = true
				got = nil
			}
			if len(got) > quota {
				return pbt.Fail("ReservePieces exceeds the peer's pipeline limit\nstep %d (%s): returned %v while the peer already has %d outstanding requests and its limit is %d", step, what, got, outstandingOfPeer, r.limit(op.P))
			}
			validCands := 0
			for i := 0; i < c.Pieces; i++ {
				if op.Cand&(1<<uint(i)) == 0 {
					continue
				}
				v := true
				for _, q := range r.m.reqs {
					if q.piece == i && r.m.outstanding(q) && (q.peer == op.P || !op.End) {
						v = false
					}
				}
				if v {
					validCands++
				} else {
					r.classes["candidate-blocked-by-outstanding"] = true
				}
			}
			if validCands > quota {
				r.classes["quota-limited"] = true
			}
			dup := map[int]bool{}
			for _, i := range got {
				if i < 0 || i >= c.Pieces || op.Cand&(1<<uint(i)) == 0 {
					return pbt.Fail("ReservePieces returns a piece outside the candidates\nstep %d (%s): piece %d of %v", step, what, i, got)
				}
				if dup[i] {
					return pbt.Fail("ReservePieces returns a piece twice\nstep %d (%s): %v", step, what, got)
				}
				dup[i] = true
				for _, q := range r.m.reqs {
					if q.piece != i || !r.m.outstanding(q) {
						continue
					}
					if q.peer == op.P {
						return pbt.Fail("ReservePieces asks a peer again for a piece it is still being asked for\nstep %d (%s): piece %d requested at %ds, now %ds", step, what, i, q.sentAt, r.m.now)
					}
					if !op.End {
						return pbt.Fail("ReservePieces outside endgame duplicates an outstanding request\nstep %d (%s): piece %d is outstanding at peer %d (sent %ds, now %ds)", step, what, i, q.peer, q.sentAt, r.m.now)
					}
					r.classes["endgame-duplicate"] = true
				}
			}
			for _, i := range got {
				if old := r.m.of(op.P, i); len(old) > 0 {
					last := old[len(old)-1]
					if last.unsent || last.invalid {
						r.classes["rereserve-after-mark"] = true
					} else {
						r.classes["rereserve-after-expiry"] = true
					}
				}
				r.m.reqs = append(r.m.reqs, &mreq{peer: op.P, piece: i, sentAt: r.m.now})
				delete(r.clearedPiece, i)
			}
			if len(got) > 0 {
				delete(r.removedPeer, op.P)
				r.classes["reserved"] = true
			}
			if len(got) == validCands && validCands > 0 && validCands <= quota {
				r.classes["reserved-all-valid"] = true
			}
		case opMarkUnsent, opMarkInvalid:
			i := r.selectPiece(op, r.m.ofPeer(op.P))
			hit := r.m.of(op.P, i)
			if op.K == opMarkUnsent {
				what = fmt.Sprintf("MarkUnsent(peer %d, piece %d)", op.P, i)
				mgr.MarkUnsent(peerID(op.P), i)
				for _, q := range hit {
					q.unsent = true
				}
			} else {
				what = fmt.Sprintf("MarkInvalid(peer %d, piece %d)", op.P, i)
				mgr.MarkInvalid(peerID(op.P), i)
				for _, q := range hit {
					q.invalid = true
				}
			}
			if len(hit) > 0 {
				r.classes["mark-hit"] = true
			} else {
				r.classes["mark-miss"] = true
			}
		case opClear:
			i := r.selectPiece(op, r.m.reqs)
			what = fmt.Sprintf("Clear(piece %d)", i)
			mgr.Clear(i)
			peersOfPiece := map[int]int{}
			for _, q := range r.m.reqs {
				if q.piece == i {
					peersOfPiece[q.peer]++
				}
			}
			n := r.m.remove(func(q *mreq) bool { return q.piece == i })
			r.clearedPiece[i] = true
			if n > 0 {
				r.classes["clear-with-requests"] = true
			}
			if len(peersOfPiece) > 1 {
				r.classes["clear-multi-peer"] = true
			}
		case opClearPeer:
			what = fmt.Sprintf("ClearPeer(peer %d)", op.P)
			perPiece := map[int]int{}
			for _, q := range r.m.ofPeer(op.P) {
				perPiece[q.piece]++
			}
			mgr.ClearPeer(peerID(op.P))
			n := r.m.remove(func(q *mreq) bool { return q.peer == op.P })
			r.removedPeer[op.P] = true
			if n > 0 {
				r.classes["clearpeer-with-requests"] = true
			}
			for _, k := range perPiece {
				if k > 1 {
					r.classes["clearpeer-after-rereserve"] = true
					r.nontrivial = true
				}
			}
		case opAdvance:
			if op.Adv < 0 || op.Adv > 3600 {
				return pbt.Verdict{Discard: true}
			}
			what = fmt.Sprintf("advance %ds", op.Adv)
			clk.now = clk.now.Add(time.Duration(op.Adv) * time.Second)
			r.m.now += op.Adv
		default:
			return pbt.Verdict{Discard: true}
		}
		if msg := r.observe(step, what); msg != "" {
			return pbt.Verdict{Violation: msg, NonTrivial: true}
		}
		// "A peer is never asked for more unexpired pieces at once than its pipeline limit."
		for p := range c.Origin {
			n := 0
			for _, q := range r.m.ofPeer(p) {
				if r.m.outstanding(q) {
					n++
				}
			}
			if n > r.limit(p) {
				return pbt.Fail("peer has more outstanding requests than its pipeline limit\nstep %d (%s): peer %d has %d, limit %d", step, what, p, n, r.limit(p))
			}
		}
	}
	var cl []string
	for k := range r.classes {
		cl = append(cl, k)
	}
	sort.Strings(cl)
	return pbt.Verdict{NonTrivial: r.nontrivial, Classes: cl, Evals: len(c.Ops)}
}

func TestProp(t *testing.T) {
	pbt.Main(t, pbt.Spec{
		ID:   "C15",
		Rule: "histories of <=40 operations (ReservePieces with generated candidate mask, per-piece peer counts and endgame flag; MarkUnsent; MarkInvalid; Clear; ClearPeer; clock advances of 1-6 s or 11-14 s against a 10.5 s request timeout) over 2-4 peers (agent/origin mix), 2-8 pieces, both selection policies and pipeline limits 1-3, applied to the real piecerequest.Manager on a mock clock; a reference model of live requests is advanced with the pieces the manager actually returned; every ReservePieces result is checked against the model (<= remaining quota, inside candidates, no piece outstanding at the same peer, outside endgame no piece outstanding anywhere) and after every step GetFailedRequests and PendingPieces of every peer are compared with the model; evaluations = steps; non-trivial = the history re-reserves a (peer, piece) whose earlier request expired or was marked failed and later removes that peer with ClearPeer; distinct by case hash",
		Assumptions: []string{
			"reference model of live piece requests written from the property statement",
			"the clock never stands exactly on a request's expiry instant (timeout 10.5 s, whole-second advances)",
			"an older failed request to the same peer for the same piece that was superseded by a newer reservation may or may not still be listed by GetFailedRequests; only its presence after Clear/ClearPeer is judged",
			"when several failure causes apply to one request (e.g. marked unsent and also timed out) any of the applicable statuses is accepted",
			"PendingPieces may or may not list sent-but-expired requests (its documentation is silent); it must list all outstanding ones and nothing else",
		},
		Parts: []pbt.Part{pbt.NewPart("history", 1, gen, run)},
	})
}
