// C30 — retried tasks run until they succeed, across failures and restarts.
//
// The real persistedretry.Manager runs over the real sqlite stores (writeback and
// tag replication, opened through localdb.New) with millisecond intervals and tiny
// queues. The harness owns the executor (scripted failures, outages, gates that
// hold an execution in flight) and sits between the manager and the store with a
// logging decorator. "Restart" is either graceful (Close, reopen the database
// file) or a simulated process death: the decorator and the executor of the old
// manager are switched off atomically (nothing it does afterwards reaches the
// database or is observed), and a new manager is opened on the same file.
package c30

import (
	"errors"
	"fmt"
	"io"
	stdlog "log"
	"os"
	"path/filepath"
	"sort"
	"strings"
	"sync"
	"testing"
	"time"

	"github.com/jmoiron/sqlx"
	"github.com/uber-go/tally"
	"go.uber.org/zap"
	"pgregory.net/rapid"

	"github.com/uber/kraken/core"
	"github.com/uber/kraken/lib/persistedretry"
	"github.com/uber/kraken/lib/persistedretry/tagreplication"
	"github.com/uber/kraken/lib/persistedretry/writeback"
	"github.com/uber/kraken/localdb"
	"github.com/uber/kraken/utils/log"

	"verif/internal/memscratch"
	"verif/internal/pbt"
)

func init() {
	log.SetGlobalLogger(zap.NewNop().Sugar())
	stdlog.SetOutput(io.Discard) // goose reports migrations through the std logger
}

func TestMain(m *testing.M) {
	code := m.Run()
	memscratch.Cleanup()
	os.Exit(code)
}

// Op kinds.
const (
	opAdd         = 0 // add task T, ready
	opAddNotReady = 1 // add task T with a delay that has not elapsed
	opHold        = 2 // executions of T starting from now block until released
	opRelease     = 3 // release T
	opOutageOn    = 4 // every execution fails
	opOutageOff   = 5
	opSleep       = 6 // N ms
	opWaitExec    = 7 // wait (bounded) until an execution of T is in flight
	opRestart     = 8 // graceful: N=0 release gates then Close; N=1 Close while executions are held, then release
	opKill        = 9 // process death + reopen
	opSettle      = 10 // wait (bounded) until no stored task is left (only acts when nothing is held / no outage)
)

type Op struct {
	K int `json:"k"`
	T int `json:"t,omitempty"`
	N int `json:"n,omitempty"`
}

type Case struct {
	Store        int   `json:"store"` // 0 writeback, 1 tag replication
	Remotes      int   `json:"remotes,omitempty"` // tag replication: 0 validator accepting everything, 1 one pattern per remote, 2 several patterns per remote (the tags match a later one)
	InBuf        int   `json:"in_buf"`
	RetryBuf     int   `json:"retry_buf"`
	InWorkers    int   `json:"in_workers"`
	RetryWorkers int   `json:"retry_workers"`
	PollMs       int   `json:"poll_ms"`
	RetryMs      int   `json:"retry_ms"`
	Fails        []int `json:"fails"` // per task: number of failing executions before the first success
	Ops          []Op  `json:"ops"`
}

const nKeys = 6

// livenessBound is how long a healthy executor is given to drain the store at the
// end of a case (typical: a few ms). A miss is re-run 3 times before it is reported.
const livenessBound = 10 * time.Second

func gen(t *rapid.T) Case {
	c := Case{
		Store:        rapid.IntRange(0, 1).Draw(t, "store"),
		Remotes:      rapid.IntRange(0, 2).Draw(t, "remotes"),
		InBuf:        rapid.IntRange(0, 2).Draw(t, "in_buf"),
		RetryBuf:     rapid.IntRange(0, 2).Draw(t, "retry_buf"),
		InWorkers:    rapid.IntRange(1, 2).Draw(t, "in_workers"),
		RetryWorkers: rapid.IntRange(1, 2).Draw(t, "retry_workers"),
		PollMs:       rapid.IntRange(2, 5).Draw(t, "poll_ms"),
		RetryMs:      rapid.IntRange(1, 4).Draw(t, "retry_ms"),
	}
	c.Fails = rapid.SliceOfN(rapid.IntRange(0, 3), nKeys, nKeys).Draw(t, "fails")
	n := rapid.IntRange(1, 14).Draw(t, "steps")
	for i := 0; i < n; i++ {
		k := rapid.IntRange(0, nKeys-1).Draw(t, "task")
		switch rapid.IntRange(0, 15).Draw(t, "step") {
		case 0, 1, 2, 3:
			c.Ops = append(c.Ops, Op{K: opAdd, T: k})
		case 4:
			c.Ops = append(c.Ops, Op{K: opAddNotReady, T: k})
		case 5: // burst of adds: more tasks than queue slots
			m := rapid.IntRange(2, nKeys).Draw(t, "burst")
			for j := 0; j < m; j++ {
				c.Ops = append(c.Ops, Op{K: opAdd, T: (k + j) % nKeys})
			}
		case 6:
			c.Ops = append(c.Ops, Op{K: opHold, T: k})
		case 7:
			c.Ops = append(c.Ops, Op{K: opRelease, T: k})
		case 8:
			c.Ops = append(c.Ops, Op{K: opOutageOn}, Op{K: opAdd, T: k}, Op{K: opSleep, N: rapid.IntRange(1, 12).Draw(t, "ms")})
		case 9:
			c.Ops = append(c.Ops, Op{K: opOutageOff})
		case 10:
			c.Ops = append(c.Ops, Op{K: opSleep, N: rapid.IntRange(1, 12).Draw(t, "ms")})
		case 11: // restart in the middle of an execution
			c.Ops = append(c.Ops, Op{K: opHold, T: k}, Op{K: opAdd, T: k}, Op{K: opWaitExec, T: k},
				Op{K: rapid.SampledFrom([]int{opKill, opKill, opRestart}).Draw(t, "how"), N: 1})
		case 12:
			c.Ops = append(c.Ops, Op{K: opRestart, N: rapid.IntRange(0, 1).Draw(t, "held")})
		case 13:
			c.Ops = append(c.Ops, Op{K: opKill})
		case 14:
			c.Ops = append(c.Ops, Op{K: opSettle})
		case 15: // duplicate add while the task is certainly stored
			c.Ops = append(c.Ops, Op{K: opHold, T: k}, Op{K: opAdd, T: k}, Op{K: opAdd, T: k}, Op{K: opRelease, T: k})
		}
	}
	return c
}

// ---------------------------------------------------------------------------
// keys: a 2x3 grid so that tasks share a name across namespaces (writeback) or a
// tag across destinations (tag replication) — the stores key on the pair.

type key struct{ a, b string }

func keyOf(i int) key {
	return key{a: fmt.Sprintf("ns%d", i%2), b: fmt.Sprintf("name%d", i/2)}
}

var depDigest = core.DigestFixture()

func keyIndexOf(t persistedretry.Task) int {
	var k key
	switch x := t.(type) {
	case *writeback.Task:
		k = key{x.Namespace, x.Name}
	case *tagreplication.Task:
		k = key{x.Destination, x.Tag}
	default:
		return -1
	}
	for i := 0; i < nKeys; i++ {
		if keyOf(i) == k {
			return i
		}
	}
	return -1
}

type allValid struct{}

func (allValid) Valid(tag, addr string) bool { return true }

// ---------------------------------------------------------------------------
// world: everything that survives a restart of the manager (the "backend" the
// executor talks to, the oracle's log) plus the model.

type world struct {
	mu sync.Mutex
	c  Case

	fails  []int
	outage bool
	hold   map[int]chan struct{}

	// model, driven by the linearised log of store calls and executions
	stored   []bool // accepted by the store and not removed
	succ     []bool // a successful execution was observed (by the live process) since the task was accepted
	inflight []int
	execs    []int
	okExecs  []int

	violation string

	// evidence
	execFailures, retrySuccess, markFailedCalls, ctorMarkFailed, removes int
	dupAdds, notReadyAdds, addErrors                                      int
	inCtor                                                                bool
	failedOnce                                                            []bool
}

func (w *world) fail(format string, a ...interface{}) {
	if w.violation == "" {
		w.violation = fmt.Sprintf(format, a...)
	}
}

// generation = one process lifetime of the manager.
type generation struct {
	w    *world
	dead bool // guarded by w.mu
	db   *sqlx.DB
	m    persistedretry.Manager
	st   persistedretry.Store
}

var errDead = errors.New("process is gone")

// store decorator ------------------------------------------------------------

type logStore struct {
	g     *generation
	inner persistedretry.Store
}

func (s *logStore) add(t persistedretry.Task, f func(persistedretry.Task) error) error {
	w := s.g.w
	w.mu.Lock()
	defer w.mu.Unlock()
	if s.g.dead {
		return errDead
	}
	err := f(t)
	k := keyIndexOf(t)
	if k < 0 {
		return err
	}
	switch err {
	case nil:
		if w.stored[k] {
			w.fail("a task that is already stored was stored again (duplicate add had an effect)\n  task %d", k)
		}
		w.stored[k] = true
		w.succ[k] = false
	case persistedretry.ErrTaskExists:
		if !w.stored[k] {
			w.fail("add reported the task as already stored although the store does not hold it\n  task %d", k)
		}
	}
	return err
}

func (s *logStore) AddPending(t persistedretry.Task) error { return s.add(t, s.inner.AddPending) }
func (s *logStore) AddFailed(t persistedretry.Task) error  { return s.add(t, s.inner.AddFailed) }

func (s *logStore) MarkPending(t persistedretry.Task) error {
	w := s.g.w
	w.mu.Lock()
	defer w.mu.Unlock()
	if s.g.dead {
		return errDead
	}
	return s.inner.MarkPending(t)
}

func (s *logStore) MarkFailed(t persistedretry.Task) error {
	w := s.g.w
	w.mu.Lock()
	defer w.mu.Unlock()
	if s.g.dead {
		return errDead
	}
	w.markFailedCalls++
	if w.inCtor {
		w.ctorMarkFailed++
	}
	return s.inner.MarkFailed(t)
}

func (s *logStore) GetPending() ([]persistedretry.Task, error) {
	w := s.g.w
	w.mu.Lock()
	defer w.mu.Unlock()
	if s.g.dead {
		return nil, errDead
	}
	return s.inner.GetPending()
}

func (s *logStore) GetFailed() ([]persistedretry.Task, error) {
	w := s.g.w
	w.mu.Lock()
	defer w.mu.Unlock()
	if s.g.dead {
		return nil, errDead
	}
	return s.inner.GetFailed()
}

func (s *logStore) Remove(t persistedretry.Task) error {
	w := s.g.w
	w.mu.Lock()
	defer w.mu.Unlock()
	if s.g.dead {
		return errDead
	}
	k := keyIndexOf(t)
	if k >= 0 && !w.succ[k] {
		w.fail("task removed from the persistent store without a successful execution\n  task %d (executions so far %d, successful %d)", k, w.execs[k], w.okExecs[k])
	}
	err := s.inner.Remove(t)
	if err == nil && k >= 0 {
		w.stored[k] = false
		w.succ[k] = false
		w.removes++
	}
	return err
}

func (s *logStore) Find(q interface{}) ([]persistedretry.Task, error) {
	w := s.g.w
	w.mu.Lock()
	defer w.mu.Unlock()
	if s.g.dead {
		return nil, errDead
	}
	return s.inner.Find(q)
}

// executor ---------------------------------------------------------------------

type scriptedExecutor struct{ g *generation }

func (e *scriptedExecutor) Name() string { return "c30" }

func (e *scriptedExecutor) Exec(t persistedretry.Task) error {
	w := e.g.w
	k := keyIndexOf(t)
	w.mu.Lock()
	if e.g.dead {
		w.mu.Unlock()
		return errDead
	}
	if k < 0 {
		w.fail("executor got an unknown task %v", t)
		w.mu.Unlock()
		return nil
	}
	if !w.stored[k] {
		w.fail("a task was executed although it is not in the persistent store (it had already succeeded and left, or was never accepted)\n  task %d", k)
	} else if w.succ[k] {
		w.fail("a task was executed again after one of its executions had succeeded\n  task %d", k)
	}
	w.execs[k]++
	w.inflight[k]++
	gate := w.hold[k]
	w.mu.Unlock()

	if gate != nil {
		<-gate
	}

	w.mu.Lock()
	defer w.mu.Unlock()
	if e.g.dead {
		return errDead
	}
	w.inflight[k]--
	if w.outage {
		w.execFailures++
		w.failedOnce[k] = true
		return errors.New("backend outage")
	}
	if w.fails[k] > 0 {
		w.fails[k]--
		w.execFailures++
		w.failedOnce[k] = true
		return errors.New("scripted failure")
	}
	w.okExecs[k]++
	w.succ[k] = true
	if w.failedOnce[k] {
		w.retrySuccess++
		w.failedOnce[k] = false
	}
	return nil
}

// ---------------------------------------------------------------------------

type harness struct {
	w      *world
	dir    string
	source string
	g      *generation
}

func (h *harness) open() error {
	w := h.w
	db, err := localdb.New(localdb.Config{Source: h.source})
	if err != nil {
		return fmt.Errorf("localdb.New: %v", err)
	}
	g := &generation{w: w, db: db}
	var inner persistedretry.Store
	if w.c.Store == 0 {
		inner = writeback.NewStore(db)
	} else {
		// Every task of the grid is valid under each of these configurations (its destination
		// is among the remotes whose patterns match its tag), so the purge of tasks for removed
		// remotes that NewStore performs at start-up must not delete anything.
		var validator tagreplication.RemoteValidator = allValid{}
		switch w.c.Remotes {
		case 1:
			validator, err = tagreplication.RemotesConfig{"ns0": []string{".*"}, "ns1": []string{".*"}}.Build()
		case 2:
			validator, err = tagreplication.RemotesConfig{"ns0": []string{"other/.*", "name.*"}, "ns1": []string{"^x$", "nam.[0-9]", ".*"}}.Build()
		}
		if err != nil {
			db.Close()
			return fmt.Errorf("remotes config: %v", err)
		}
		s, err := tagreplication.NewStore(db, validator)
		if err != nil {
			db.Close()
			return fmt.Errorf("tagreplication.NewStore: %v", err)
		}
		inner = s
	}
	g.st = &logStore{g: g, inner: inner}
	cfg := persistedretry.Config{
		IncomingBuffer:      w.c.InBuf,
		RetryBuffer:         w.c.RetryBuf,
		NumIncomingWorkers:  w.c.InWorkers,
		NumRetryWorkers:     w.c.RetryWorkers,
		MaxTaskThroughput:   time.Millisecond,
		RetryInterval:       time.Duration(w.c.RetryMs) * time.Millisecond,
		PollRetriesInterval: time.Duration(w.c.PollMs) * time.Millisecond,
		Testing:             true,
	}
	w.mu.Lock()
	w.inCtor = true
	w.mu.Unlock()
	m, err := persistedretry.NewManager(cfg, tally.NoopScope, g.st, &scriptedExecutor{g})
	w.mu.Lock()
	w.inCtor = false
	w.mu.Unlock()
	if err != nil {
		db.Close()
		return fmt.Errorf("NewManager: %v", err)
	}
	g.m = m
	h.g = g
	return nil
}

func (w *world) releaseAllLocked() {
	for k, ch := range w.hold {
		close(ch)
		delete(w.hold, k)
	}
}

// shutdown ends the current generation. kill=true: process death (nothing the old
// manager does from now on is applied or observed). closeWhileHeld: Close is
// called while executions are still blocked and they are released afterwards.
func (h *harness) shutdown(kill, closeWhileHeld bool) {
	w, g := h.w, h.g
	if kill {
		w.mu.Lock()
		g.dead = true
		for k := range w.succ {
			w.succ[k] = false // results the process had not yet recorded die with it
			w.inflight[k] = 0
		}
		w.releaseAllLocked()
		w.mu.Unlock()
		g.m.Close()
		g.db.Close()
		return
	}
	if closeWhileHeld {
		done := make(chan struct{})
		go func() { g.m.Close(); close(done) }()
		time.Sleep(2 * time.Millisecond)
		w.mu.Lock()
		w.releaseAllLocked()
		w.mu.Unlock()
		<-done
	} else {
		w.mu.Lock()
		w.releaseAllLocked()
		w.mu.Unlock()
		g.m.Close()
	}
	g.db.Close()
}

type row struct {
	A      string `db:"a"`
	B      string `db:"b"`
	Status string `db:"status"`
}

// rowsLocked reads the table directly. Caller holds w.mu (so no store call is in flight).
func (h *harness) rowsLocked() ([]row, error) {
	var rows []row
	var err error
	if h.w.c.Store == 0 {
		err = h.g.db.Select(&rows, `SELECT namespace AS a, name AS b, status FROM writeback_task`)
	} else {
		err = h.g.db.Select(&rows, `SELECT destination AS a, tag AS b, status FROM replicate_tag_task`)
	}
	return rows, err
}

// observe compares the table with the model: every accepted task that has not
// been removed after a success must still be stored.
func (h *harness) observe(where string) error {
	w := h.w
	w.mu.Lock()
	defer w.mu.Unlock()
	rows, err := h.rowsLocked()
	if err != nil {
		return err
	}
	have := map[key]string{}
	for _, r := range rows {
		have[key{r.A, r.B}] = r.Status
	}
	for k := 0; k < nKeys; k++ {
		if w.stored[k] {
			if _, ok := have[keyOf(k)]; !ok {
				w.fail("an accepted task left the persistent store without a successful execution\n  task %d missing from the table %s (executions %d, successful %d); table: %v", k, where, w.execs[k], w.okExecs[k], rows)
			}
		}
	}
	return nil
}

func (h *harness) newTask(k int, notReady bool) persistedretry.Task {
	var delay time.Duration
	if notReady {
		delay = 40 * time.Millisecond
	}
	kk := keyOf(k)
	if h.w.c.Store == 0 {
		return writeback.NewTask(kk.a, kk.b, delay)
	}
	return tagreplication.NewTask(kk.b, depDigest, core.DigestList{depDigest}, kk.a, delay)
}

// settled reports whether nothing is stored any more (model and table).
func (h *harness) settled() (bool, string) {
	w := h.w
	w.mu.Lock()
	defer w.mu.Unlock()
	rows, err := h.rowsLocked()
	if err != nil {
		return false, err.Error()
	}
	have := map[key]bool{}
	for _, r := range rows {
		have[key{r.A, r.B}] = true
	}
	var left []string
	for k := 0; k < nKeys; k++ {
		if w.stored[k] && !have[keyOf(k)] {
			w.fail("an accepted task left the persistent store without a successful execution\n  task %d missing from the table while waiting for quiescence (executions %d, successful %d); table: %v", k, w.execs[k], w.okExecs[k], rows)
		}
		if w.stored[k] {
			left = append(left, fmt.Sprintf("task %d (executions %d, successful %d)", k, w.execs[k], w.okExecs[k]))
		}
	}
	if len(rows) == 0 && len(left) == 0 {
		return true, ""
	}
	var rs []string
	for _, r := range rows {
		rs = append(rs, fmt.Sprintf("%s/%s=%s", r.A, r.B, r.Status))
	}
	sort.Strings(rs)
	return false, fmt.Sprintf("unfinished: %s; table: %s", strings.Join(left, ", "), strings.Join(rs, " "))
}

func (h *harness) waitSettled(bound time.Duration) (bool, string) {
	deadline := time.Now().Add(bound)
	for {
		ok, why := h.settled()
		if ok {
			return true, ""
		}
		if h.violated() != "" {
			return true, ""
		}
		if time.Now().After(deadline) {
			return false, why
		}
		time.Sleep(2 * time.Millisecond)
	}
}

func (h *harness) violated() string {
	h.w.mu.Lock()
	defer h.w.mu.Unlock()
	return h.w.violation
}

type outcome struct {
	violation string
	liveness  string // quiescence not reached
	infra     string
	classes   []string
	nontriv   bool
}

func runOnce(c Case) (out outcome) {
	if len(c.Fails) < nKeys {
		c.Fails = append(append([]int{}, c.Fails...), make([]int, nKeys-len(c.Fails))...)
	}
	dir, err := os.MkdirTemp(memscratch.Base("c30"), "c30-")
	if err != nil {
		out.infra = err.Error()
		return
	}
	defer os.RemoveAll(dir)
	w := &world{c: c, fails: append([]int{}, c.Fails[:nKeys]...), hold: map[int]chan struct{}{},
		stored: make([]bool, nKeys), succ: make([]bool, nKeys), inflight: make([]int, nKeys),
		execs: make([]int, nKeys), okExecs: make([]int, nKeys), failedOnce: make([]bool, nKeys)}
	h := &harness{w: w, dir: dir, source: filepath.Join(dir, "db", "kraken.db")}
	if err := h.open(); err != nil {
		out.infra = err.Error()
		return
	}
	defer func() {
		if h.g != nil {
			h.shutdown(true, false)
		}
	}()

	var restartsWithStored, killsMidExec, gracefulMidExec, kills, restarts int
	countStored := func() (n, fl int) {
		w.mu.Lock()
		defer w.mu.Unlock()
		for k := 0; k < nKeys; k++ {
			if w.stored[k] {
				n++
			}
			fl += w.inflight[k]
		}
		return
	}

	for i, op := range c.Ops {
		if op.T < 0 || op.T >= nKeys {
			op.T = 0
		}
		switch op.K {
		case opAdd, opAddNotReady:
			w.mu.Lock()
			if w.stored[op.T] {
				w.dupAdds++
			}
			if op.K == opAddNotReady {
				w.notReadyAdds++
			}
			w.mu.Unlock()
			if err := h.g.m.Add(h.newTask(op.T, op.K == opAddNotReady)); err != nil {
				w.mu.Lock()
				w.addErrors++
				w.mu.Unlock()
			}
		case opHold:
			w.mu.Lock()
			if w.hold[op.T] == nil {
				w.hold[op.T] = make(chan struct{})
			}
			w.mu.Unlock()
		case opRelease:
			w.mu.Lock()
			if ch := w.hold[op.T]; ch != nil {
				close(ch)
				delete(w.hold, op.T)
			}
			w.mu.Unlock()
		case opOutageOn:
			w.mu.Lock()
			w.outage = true
			w.mu.Unlock()
		case opOutageOff:
			w.mu.Lock()
			w.outage = false
			w.mu.Unlock()
		case opSleep:
			n := op.N
			if n < 0 || n > 50 {
				n = 50
			}
			time.Sleep(time.Duration(n) * time.Millisecond)
		case opWaitExec:
			deadline := time.Now().Add(300 * time.Millisecond)
			for time.Now().Before(deadline) {
				w.mu.Lock()
				fl := w.inflight[op.T]
				w.mu.Unlock()
				if fl > 0 {
					break
				}
				time.Sleep(time.Millisecond)
			}
		case opRestart, opKill:
			n, fl := countStored()
			if n > 0 {
				restartsWithStored++
			}
			if op.K == opKill {
				kills++
				if fl > 0 {
					killsMidExec++
				}
			} else {
				restarts++
				if fl > 0 && op.N == 1 {
					gracefulMidExec++
				}
			}
			h.shutdown(op.K == opKill, op.N == 1)
			h.g = nil
			if err := h.open(); err != nil {
				out.infra = err.Error()
				return
			}
		case opSettle:
			w.mu.Lock()
			blocked := w.outage || len(w.hold) > 0
			w.mu.Unlock()
			if !blocked {
				h.waitSettled(300 * time.Millisecond) // exploration aid only; the verdict is taken at the end
			}
		}
		if err := h.observe(fmt.Sprintf("after step %d", i)); err != nil {
			out.infra = err.Error()
			return
		}
		if v := h.violated(); v != "" {
			out.violation = v
			return
		}
	}

	// Quiescence: healthy executor, nothing held.
	w.mu.Lock()
	w.outage = false
	w.releaseAllLocked()
	w.mu.Unlock()
	ok, why := h.waitSettled(livenessBound)
	if v := h.violated(); v != "" {
		out.violation = v
		return
	}
	if !ok {
		out.liveness = why
		return
	}
	// Every accepted task succeeded at least once: a task leaves the model only
	// through Remove, which the decorator accepts only after a success; check the
	// count too.
	w.mu.Lock()
	defer w.mu.Unlock()
	for k := 0; k < nKeys; k++ {
		if w.execs[k] > 0 && w.okExecs[k] == 0 {
			out.violation = fmt.Sprintf("task finished without a successful execution\n  task %d", k)
			return
		}
	}
	overflow := w.markFailedCalls - w.ctorMarkFailed - w.execFailures
	add := func(cond bool, name string) {
		if cond {
			out.classes = append(out.classes, name)
		}
	}
	add(w.retrySuccess > 0, "success-after-failure")
	add(overflow > 0, "queue-overflow-marked-failed")
	add(w.ctorMarkFailed > 0, "pending-at-restart")
	add(restartsWithStored > 0, "restart-with-stored-tasks")
	add(killsMidExec > 0, "kill-mid-exec")
	add(gracefulMidExec > 0, "close-mid-exec")
	add(kills > 0, "kill")
	add(restarts > 0, "graceful-restart")
	add(w.dupAdds > 0, "duplicate-add")
	add(w.notReadyAdds > 0, "not-ready-add")
	add(w.addErrors > 0, "add-error")
	add(c.Store == 0, "store-writeback")
	add(c.Store == 1, "store-tagreplication")
	add(c.Store == 1 && c.Remotes == 2, "remotes-with-several-patterns")
	add(w.removes == 0, "no-task-completed")
	out.nontriv = w.retrySuccess > 0 && (overflow > 0 || restartsWithStored > 0)
	return
}

func run(c Case) pbt.Verdict {
	var last outcome
	for attempt := 0; attempt < 3; attempt++ {
		last = runOnce(c)
		if last.infra != "" {
			return pbt.Verdict{Discard: true, Classes: []string{"infra:" + firstWords(last.infra)}}
		}
		if last.violation != "" {
			return pbt.Fail("%s", last.violation)
		}
		if last.liveness == "" {
			v := pbt.OK(last.nontriv, last.classes...)
			return v
		}
	}
	return pbt.Fail("accepted tasks are not executed to success although the executor is healthy (3 runs, 10 s each)\n  %s", last.liveness)
}

func firstWords(s string) string {
	if len(s) > 40 {
		s = s[:40]
	}
	return s
}

func TestProp(t *testing.T) {
	pbt.Main(t, pbt.Spec{
		ID: "C30",
		Rule: "generated histories (adds ready/not-ready/duplicate/bursts, executor outages, gates holding an execution in flight, graceful Close+reopen, simulated process death+reopen) " +
			"over 6 tasks on a 2x3 key grid, real Manager over the real sqlite writeback / tag-replication store with queues of 0-2 slots and ms intervals; " +
			"oracle on the linearised log of store calls and executions: Remove only after a successful execution, no execution of a task that is not stored or already succeeded, " +
			"a stored task is never stored again, the table always contains every accepted unfinished task, and at quiescence (healthy executor) the table is empty and every task succeeded; " +
			"non-trivial = some task succeeded after at least one failed execution AND (a queue overflow was marked failed OR a restart happened while tasks were stored); distinct by case hash",
		Assumptions: []string{
			"process death is simulated at store-call granularity: the dead manager's store calls and executions are cut off atomically; sqlite statement atomicity is trusted",
			"liveness is bounded: 10 s of healthy executor without reaching an empty store, reproduced 3 times, counts as never",
			"tag-replication store is opened with a validator accepting every remote (invalid-remote purge is a documented deletion path outside the property)",
		},
		Parts: []pbt.Part{pbt.NewPart("history", 1, gen, run)},
	})
}
