//go:build verif

package c14

import (
	"testing"
	"verif/internal/pbt"

	"github.com/uber/kraken/gen/go/proto/p2p"
)

// FuzzWire feeds coverage-guided bytes (after a correct length prefix) to
// Handshaker.Accept (first byte even) or to an established Conn's read path (odd),
// with the same oracle as the "wire" part: no panic, bounded allocation, delivered
// payloads consistent with their header.
func FuzzWire(f *testing.F) {
	blob := []byte("0123456789abcdefghij")
	v, err := newVictim(false, blob, 8, nil)
	if err != nil {
		f.Skip()
	}
	seeds := []Frame{
		{Type: int(p2p.Message_BITFIELD), BitHeader: 3, BitWords: 1},
		{Type: int(p2p.Message_BITFIELD), BitHeader: 1 << 32, BitWords: 1, RemoteHdr: 1 << 32},
		{Type: int(p2p.Message_PIECE_PAYLOAD), Index: 1, Length: 8, PayloadLen: 8},
		{Type: int(p2p.Message_PIECE_PAYLOAD), Index: -1, Length: -1},
		{Type: int(p2p.Message_PIECE_PAYLOAD), NilBody: true},
		{Type: int(p2p.Message_PIECE_REQUEST), Index: 2, Length: 4},
		{Type: int(p2p.Message_ANNOUCE_PIECE), Index: -1},
		{Type: int(p2p.Message_COMPLETE)},
	}
	for _, s := range seeds {
		head, _ := encodeFrame(v, s)
		f.Add(append([]byte{0}, head...))
		f.Add(append([]byte{1}, head...))
	}
	v.close()
	var shared *victim
	f.Fuzz(func(t *testing.T, data []byte) {
		if len(data) == 0 || len(data) > 4096 {
			return
		}
		if shared == nil {
			// one victim per fuzz worker process: the wire layer never writes to it
			var err error
			if shared, err = newVictim(false, blob, 8, nil); err != nil {
				t.Skip()
			}
		}
		c := WCase{Accept: data[0]%2 == 0, Blob: blob, PieceLen: 8, Frames: []Frame{{Raw: data[1:]}}}
		if c.Frames[0].Raw == nil {
			c.Frames[0].Raw = []byte{}
		}
		if verdict := confirmAlloc(func() pbt.Verdict { return runWOn(shared, c) }); verdict.Violation != "" {
			t.Fatalf("VIOLATION C14/wire: %s", verdict.Violation)
		}
	})
}
