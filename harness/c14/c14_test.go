//go:build verif

// C14 — no input from a remote peer can crash or corrupt a peer.
//
// Three layers of hostile input against real agent and origin torrents:
//
//	dispatch  structured p2p messages (every type, hostile field values) delivered
//	          synchronously to a real Dispatcher (verif hook) next to an honest peer
//	bitfield  handshake bitfields of the wrong size handed to the Dispatcher
//	wire      length-prefixed frames (structured with hostile headers, or raw bytes)
//	          written to Handshaker.Accept and to an established Conn's read path
package c14

import (
	"bytes"
	"encoding/binary"
	"fmt"
	"io"
	"math"
	"net"
	"os"
	"path/filepath"
	"runtime"
	"runtime/debug"
	"strings"
	"sync"
	"testing"
	"time"

	"github.com/andres-erbsen/clock"
	"github.com/golang/protobuf/proto"
	"github.com/uber-go/tally"
	"github.com/willf/bitset"
	"go.uber.org/zap"
	"pgregory.net/rapid"

	"github.com/uber/kraken/core"
	"github.com/uber/kraken/gen/go/proto/p2p"
	"github.com/uber/kraken/lib/store"
	"github.com/uber/kraken/lib/torrent/networkevent"
	"github.com/uber/kraken/lib/torrent/scheduler/conn"
	"github.com/uber/kraken/lib/torrent/scheduler/dispatch"
	"github.com/uber/kraken/lib/torrent/scheduler/torrentlog"
	"github.com/uber/kraken/lib/torrent/storage"
	"github.com/uber/kraken/lib/torrent/storage/agentstorage"
	"github.com/uber/kraken/lib/torrent/storage/originstorage"
	"github.com/uber/kraken/lib/torrent/storage/piecereader"
	"github.com/uber/kraken/utils/log"

	"verif/internal/pbt"
)

func init() {
	log.SetGlobalLogger(zap.NewNop().Sugar())
}

// ---------- victim ----------

type victim struct {
	dir     string
	blob    []byte
	mi      *core.MetaInfo
	torrent storage.Torrent
	cleanup []func()
	origin  bool
	cas     *store.CAStore
	cads    *store.CADownloadStore
}

func (v *victim) close() {
	for i := len(v.cleanup) - 1; i >= 0; i-- {
		v.cleanup[i]()
	}
	os.RemoveAll(v.dir)
}

func (v *victim) n() int { return v.mi.NumPieces() }

func (v *victim) piece(i int) []byte {
	pl := int(v.mi.PieceLength())
	lo, hi := i*pl, i*pl+pl
	if hi > len(v.blob) {
		hi = len(v.blob)
	}
	return v.blob[lo:hi]
}

type fakeMIC struct{ mi *core.MetaInfo }

func (f fakeMIC) Download(string, core.Digest) (*core.MetaInfo, error) { return f.mi, nil }

func newVictim(origin bool, blob []byte, pieceLen int, have []int) (*victim, error) {
	dir, err := os.MkdirTemp("", "c14-")
	if err != nil {
		return nil, err
	}
	v := &victim{dir: dir, blob: blob, origin: origin}
	d, _ := core.NewDigester().FromBytes(blob)
	v.mi, err = core.NewMetaInfo(d, bytes.NewReader(blob), int64(pieceLen))
	if err != nil {
		os.RemoveAll(dir)
		return nil, err
	}
	if origin {
		cas, err := store.NewCAStore(store.CAStoreConfig{
			UploadDir: filepath.Join(dir, "upload"), CacheDir: filepath.Join(dir, "cache"),
			UploadCleanup: store.CleanupConfig{Disabled: true}, CacheCleanup: store.CleanupConfig{Disabled: true},
		}, tally.NoopScope)
		if err != nil {
			os.RemoveAll(dir)
			return nil, err
		}
		v.cas = cas
		v.cleanup = append(v.cleanup, cas.Close)
		if err := cas.CreateCacheFile(d.Hex(), bytes.NewReader(blob)); err != nil {
			v.close()
			return nil, err
		}
		v.torrent, err = originstorage.NewTorrent(cas, v.mi)
		if err != nil {
			v.close()
			return nil, err
		}
		return v, nil
	}
	cads, err := store.NewCADownloadStore(store.CADownloadStoreConfig{
		DownloadDir: filepath.Join(dir, "download"), CacheDir: filepath.Join(dir, "cache"),
		DownloadCleanup: store.CleanupConfig{Disabled: true}, CacheCleanup: store.CleanupConfig{Disabled: true},
	}, tally.NoopScope)
	if err != nil {
		os.RemoveAll(dir)
		return nil, err
	}
	v.cads = cads
	v.cleanup = append(v.cleanup, cads.Close)
	arch := agentstorage.NewTorrentArchive(tally.NoopScope, cads, fakeMIC{v.mi})
	v.torrent, err = arch.CreateTorrent("ns", d)
	if err != nil {
		v.close()
		return nil, err
	}
	for _, i := range have {
		if i >= 0 && i < v.n() && !v.torrent.HasPiece(i) {
			if err := v.torrent.WritePiece(piecereader.NewBuffer(v.piece(i)), i); err != nil {
				v.close()
				return nil, err
			}
		}
	}
	return v, nil
}

// readStored returns what the victim currently stores for the whole blob (agent: only when complete).
func (v *victim) cacheBytes() ([]byte, error) {
	var r store.FileReader
	var err error
	if v.origin {
		r, err = v.cas.GetCacheFileReader(v.mi.Digest().Hex())
	} else {
		r, err = v.cads.Cache().GetFileReader(v.mi.Digest().Hex())
	}
	if err != nil {
		return nil, err
	}
	defer r.Close()
	return io.ReadAll(r)
}

// ---------- fake peer ----------

type fakePeer struct {
	mu     sync.Mutex
	sent   []*conn.Message
	closed bool
	recv   chan *conn.Message
}

func newFakePeer() *fakePeer { return &fakePeer{recv: make(chan *conn.Message)} }

func (p *fakePeer) Send(m *conn.Message) error {
	p.mu.Lock()
	defer p.mu.Unlock()
	if p.closed {
		return fmt.Errorf("closed")
	}
	p.sent = append(p.sent, m)
	return nil
}
func (p *fakePeer) Receiver() <-chan *conn.Message { return p.recv }
func (p *fakePeer) Close() {
	p.mu.Lock()
	defer p.mu.Unlock()
	p.closed = true
}
func (p *fakePeer) take() []*conn.Message {
	p.mu.Lock()
	defer p.mu.Unlock()
	s := p.sent
	p.sent = nil
	return s
}

type noEvents struct{}

func (noEvents) DispatcherComplete(*dispatch.Dispatcher) {}
func (noEvents) PeerRemoved(core.PeerID, core.InfoHash)  {}
func (noEvents) ConnClosed(*conn.Conn)                   {}

func peerID(i int) core.PeerID {
	id, _ := core.AddrHashPeerIDFactory.GeneratePeerID(fmt.Sprintf("10.1.1.%d", i), 1000+i)
	return id
}

func newDispatcher(v *victim) (*dispatch.Dispatcher, error) {
	return dispatch.New(dispatch.Config{}, tally.NoopScope, clock.NewMock(), networkevent.NewTestProducer(), noEvents{},
		peerID(1), v.torrent, zap.NewNop().Sugar(), torrentlog.NewNopLogger())
}

// guarded runs f, converting a panic into a message, and measures the bytes allocated meanwhile.
func guarded(f func()) (panicMsg string, alloc uint64) {
	var before, after runtime.MemStats
	runtime.ReadMemStats(&before)
	func() {
		defer func() {
			if r := recover(); r != nil {
				st := string(debug.Stack())
				// keep the frames below the panic
				if i := strings.Index(st, "panic("); i >= 0 {
					st = st[i:]
				}
				if len(st) > 1500 {
					st = st[:1500]
				}
				panicMsg = fmt.Sprintf("%v\n%s", r, st)
			}
		}()
		f()
	}()
	runtime.ReadMemStats(&after)
	return panicMsg, after.TotalAlloc - before.TotalAlloc
}

const allocSlack = 256 << 10

// confirmAlloc re-runs a case whose only complaint is the amount of memory allocated.
// TotalAlloc is process-wide: goroutines of the harness, of the fuzz worker and of the
// victim allocate too, and on a busy machine the measured window can be long. An
// allocation caused by the input is reproduced by every run of the case; background
// noise is not. The complaint is reported only if three runs in a row make it.
func confirmAlloc(run func() pbt.Verdict) pbt.Verdict {
	v := run()
	for i := 0; i < 2 && v.Violation != "" && strings.Contains(v.Violation, "allocated"); i++ {
		v = run()
	}
	return v
}

// ---------- part: dispatch ----------

type Msg struct {
	Type    int   `json:"type"`     // p2p.Message_Type value (also out-of-enum values)
	NilBody bool  `json:"nil_body"` // the sub-message for the type is absent
	Index   int64 `json:"index"`
	Offset  int64 `json:"offset"`
	Length  int64 `json:"length"`
	Good    bool  `json:"good"` // payload bytes are the blob's bytes for Index (when that is a valid index)
	Code    int   `json:"code"`
}

type DCase struct {
	Origin        bool   `json:"origin"`
	Blob          []byte `json:"blob"`
	PieceLen      int    `json:"piece_len"`
	Have          []int  `json:"have"`
	HostileOrigin bool   `json:"hostile_is_origin"`
	Msgs          []Msg  `json:"msgs"`
}

func hostileInt(t *rapid.T, n int, label string) int64 {
	return rapid.OneOf(
		rapid.Int64Range(0, int64(n)+1),
		rapid.SampledFrom([]int64{-1, math.MinInt32, math.MaxInt32, int64(n), int64(n) + 1, 0, -2, 1 << 20}),
	).Draw(t, label)
}

func genBlob(t *rapid.T) ([]byte, int) {
	l := rapid.IntRange(1, 40).Draw(t, "len")
	blob := rapid.SliceOfN(rapid.Byte(), l, l).Draw(t, "blob")
	pl := rapid.IntRange(1, 12).Draw(t, "pl")
	if (l+pl-1)/pl > 12 {
		pl = (l + 11) / 12
	}
	return blob, pl
}

func genD(t *rapid.T) DCase {
	c := DCase{Origin: rapid.Bool().Draw(t, "origin"), HostileOrigin: rapid.Bool().Draw(t, "horigin")}
	c.Blob, c.PieceLen = genBlob(t)
	n := (len(c.Blob) + c.PieceLen - 1) / c.PieceLen
	if !c.Origin {
		c.Have = rapid.SliceOfNDistinct(rapid.IntRange(0, n-1), 0, n, rapid.ID[int]).Draw(t, "have")
	}
	types := []int{int(p2p.Message_ERROR), int(p2p.Message_ANNOUCE_PIECE), int(p2p.Message_PIECE_REQUEST), int(p2p.Message_PIECE_PAYLOAD),
		int(p2p.Message_CANCEL_PIECE), int(p2p.Message_BITFIELD), int(p2p.Message_COMPLETE), 99}
	k := rapid.IntRange(1, 8).Draw(t, "nmsgs")
	lastLen := len(c.Blob) - (n-1)*c.PieceLen
	for i := 0; i < k; i++ {
		m := Msg{Type: rapid.SampledFrom(types).Draw(t, "type")}
		m.NilBody = rapid.IntRange(0, 5).Draw(t, "nil") == 0
		m.Index = hostileInt(t, n, "index")
		m.Offset = rapid.SampledFrom([]int64{0, 0, 0, 1, -1, math.MaxInt32, math.MinInt32}).Draw(t, "offset")
		m.Length = rapid.SampledFrom([]int64{int64(c.PieceLen), int64(c.PieceLen), int64(lastLen), 0, int64(c.PieceLen) + 1, int64(c.PieceLen) - 1, -1, math.MaxInt32, math.MinInt32}).Draw(t, "length")
		m.Good = rapid.Bool().Draw(t, "good")
		m.Code = rapid.SampledFrom([]int{0, 1, 7, -1}).Draw(t, "code")
		if m.Type == int(p2p.Message_PIECE_PAYLOAD) {
			// What a Conn can deliver: the body is present and the payload buffer holds
			// exactly Length bytes, 0 <= Length <= the torrent's piece length.
			m.NilBody = false
			if m.Length < 0 || m.Length > int64(c.PieceLen) {
				m.Length = int64(rapid.IntRange(0, c.PieceLen).Draw(t, "plen"))
			}
		}
		c.Msgs = append(c.Msgs, m)
	}
	return c
}

func buildMsg(v *victim, m Msg) *conn.Message {
	pm := &p2p.Message{Type: p2p.Message_Type(m.Type)}
	out := &conn.Message{Message: pm}
	idx, off, ln := int32(m.Index), int32(m.Offset), int32(m.Length)
	switch p2p.Message_Type(m.Type) {
	case p2p.Message_ERROR:
		if !m.NilBody {
			pm.Error = &p2p.ErrorMessage{Error: "x", Index: idx, Code: p2p.ErrorMessage_ErrorCode(m.Code)}
		}
	case p2p.Message_ANNOUCE_PIECE:
		if !m.NilBody {
			pm.AnnouncePiece = &p2p.AnnouncePieceMessage{Index: idx}
		}
	case p2p.Message_PIECE_REQUEST:
		if !m.NilBody {
			pm.PieceRequest = &p2p.PieceRequestMessage{Index: idx, Offset: off, Length: ln}
		}
	case p2p.Message_PIECE_PAYLOAD:
		pm.PiecePayload = &p2p.PiecePayloadMessage{Index: idx, Offset: off, Length: ln}
		buf := make([]byte, m.Length)
		for i := range buf {
			buf[i] = byte(0xA5 ^ i)
		}
		if m.Good && m.Index >= 0 && m.Index < int64(v.n()) {
			copy(buf, v.piece(int(m.Index)))
		}
		out.Payload = piecereader.NewBuffer(buf)
	case p2p.Message_CANCEL_PIECE:
		if !m.NilBody {
			pm.CancelPiece = &p2p.CancelPieceMessage{Index: idx}
		}
	case p2p.Message_BITFIELD:
		if !m.NilBody {
			pm.Bitfield = &p2p.BitfieldMessage{PeerID: "zz", Name: "yy", InfoHash: "xx", BitfieldBytes: []byte{1, 2, 3}}
		}
	case p2p.Message_COMPLETE:
		if !m.NilBody {
			pm.Complete = &p2p.CompleteMessage{}
		}
	}
	return out
}

// checkServed verifies that every piece payload the victim sent to a peer is a piece it really has, byte-exact.
func checkServed(v *victim, who string, msgs []*conn.Message, had func(int) bool) string {
	for _, m := range msgs {
		if m.Message.Type != p2p.Message_PIECE_PAYLOAD {
			continue
		}
		pp := m.Message.PiecePayload
		if pp == nil {
			return fmt.Sprintf("victim sent a piece payload message without body to the %s peer", who)
		}
		i := int(pp.Index)
		if i < 0 || i >= v.n() {
			if m.Payload != nil {
				m.Payload.Close()
			}
			return fmt.Sprintf("victim served a payload for piece index %d outside [0,%d) to the %s peer", i, v.n(), who)
		}
		got, err := io.ReadAll(m.Payload)
		m.Payload.Close()
		if err != nil {
			return fmt.Sprintf("payload of piece %d served to the %s peer cannot be read: %v", i, who, err)
		}
		if !had(i) {
			return fmt.Sprintf("victim served piece %d to the %s peer although it does not have it", i, who)
		}
		if !bytes.Equal(got, v.piece(i)) {
			return fmt.Sprintf("victim served wrong bytes for piece %d to the %s peer: got %x want %x", i, who, got, v.piece(i))
		}
	}
	return ""
}

func runD(c DCase) pbt.Verdict {
	v, err := newVictim(c.Origin, c.Blob, c.PieceLen, c.Have)
	if err != nil {
		return pbt.Verdict{Discard: true, Classes: []string{"victim-setup-failed"}}
	}
	defer v.close()
	d, err := newDispatcher(v)
	if err != nil {
		return pbt.Verdict{Discard: true, Classes: []string{"dispatcher-setup-failed"}}
	}
	defer d.TearDown()
	n := v.n()
	model := make([]bool, n)
	for i := range model {
		model[i] = v.torrent.HasPiece(i)
	}
	has := func(i int) bool { return i >= 0 && i < n && model[i] }
	hostile, honest := newFakePeer(), newFakePeer()
	hp, err := d.VerifAddPeer(peerID(2), c.HostileOrigin, bitset.New(uint(n)).Complement(), hostile)
	if err != nil {
		return pbt.Verdict{Discard: true, Classes: []string{"addpeer-failed"}}
	}
	gp, err := d.VerifAddPeer(peerID(3), false, bitset.New(uint(n)), honest)
	if err != nil {
		return pbt.Verdict{Discard: true, Classes: []string{"addpeer-failed"}}
	}
	maxPiece := uint64(c.PieceLen)
	classes := map[string]bool{}
	nontrivial := false
	for mi, m := range c.Msgs {
		msg := buildMsg(v, m)
		desc := fmt.Sprintf("message %d %+v to %s torrent (pieces=%d, have=%v)", mi, m, map[bool]string{true: "origin", false: "agent"}[c.Origin], n, model)
		outOfDomain := m.NilBody || m.Index < 0 || m.Index >= int64(n) || m.Offset != 0 || m.Type == 99 || m.Type == int(p2p.Message_BITFIELD) ||
			(m.Type == int(p2p.Message_PIECE_REQUEST) && (m.Index < 0 || m.Index >= int64(n) || m.Length != int64(len(v.piece(int(m.Index))))))
		if outOfDomain {
			nontrivial = true
			classes["out-of-domain-field"] = true
		}
		wasComplete := v.torrent.Complete()
		pmsg, alloc := guarded(func() { d.VerifDispatch(hp, msg) })
		if pmsg != "" {
			return pbt.Fail("panic while handling %s: %s", desc, pmsg)
		}
		if limit := allocSlack + 4*(maxPiece+uint64(len(c.Blob))); alloc > limit {
			return pbt.Fail("handling %s allocated %d bytes (bound %d)", desc, alloc, limit)
		}
		// model: a correct full payload for a missing piece legitimately completes it
		if m.Type == int(p2p.Message_PIECE_PAYLOAD) && !c.Origin && m.Index >= 0 && m.Index < int64(n) && m.Offset == 0 &&
			m.Length == int64(len(v.piece(int(m.Index)))) && m.Good && !model[m.Index] {
			model[m.Index] = true
			classes["hostile-delivered-good-piece"] = true
		}
		if msg := checkServed(v, "hostile", hostile.take(), has); msg != "" {
			return pbt.Fail("%s after %s", msg, desc)
		}
		// victim state equals the model
		for i := 0; i < n; i++ {
			if v.torrent.HasPiece(i) != model[i] {
				return pbt.Fail("after %s the victim's bitfield says piece %d complete=%v, expected %v", desc, i, v.torrent.HasPiece(i), model[i])
			}
		}
		_ = wasComplete
		// the honest peer is still served
		honest.take()
		want := -1
		for i := 0; i < n; i++ {
			if model[i] {
				want = (i + mi) % n
				for !model[want] {
					want = (want + 1) % n
				}
				break
			}
		}
		if want >= 0 {
			req := conn.NewPieceRequestMessage(want, int64(len(v.piece(want))))
			pm2, _ := guarded(func() { d.VerifDispatch(gp, req) })
			if pm2 != "" {
				return pbt.Fail("panic while serving the honest peer after %s: %s", desc, pm2)
			}
			got := honest.take()
			served := false
			for _, g := range got {
				if g.Message.Type == p2p.Message_PIECE_PAYLOAD && g.Message.PiecePayload != nil && int(g.Message.PiecePayload.Index) == want {
					served = true
				}
			}
			if !served {
				return pbt.Fail("after %s the honest peer's request for piece %d is no longer served (got %d messages)", desc, want, len(got))
			}
			if msg := checkServed(v, "honest", got, has); msg != "" {
				return pbt.Fail("%s after %s", msg, desc)
			}
			classes["honest-served"] = true
		}
	}
	// stored bytes are intact
	if c.Origin || v.torrent.Complete() {
		got, err := v.cacheBytes()
		if err != nil || !bytes.Equal(got, c.Blob) {
			return pbt.Fail("after the hostile messages the stored blob differs from the original: err=%v got %x want %x", err, got, c.Blob)
		}
	}
	for i := 0; i < n; i++ {
		if !model[i] || c.Origin {
			continue
		}
		pr, err := v.torrent.GetPieceReader(i)
		if err != nil {
			return pbt.Fail("piece %d is complete but cannot be read after the hostile messages: %v", i, err)
		}
		got, _ := io.ReadAll(pr)
		pr.Close()
		if !bytes.Equal(got, v.piece(i)) {
			return pbt.Fail("complete piece %d holds %x after the hostile messages, want %x", i, got, v.piece(i))
		}
	}
	out := pbt.Verdict{NonTrivial: nontrivial}
	for k := range classes {
		out.Classes = append(out.Classes, k)
	}
	return out
}

// ---------- part: bitfield ----------

type BCase struct {
	Origin   bool   `json:"origin"`
	Blob     []byte `json:"blob"`
	PieceLen int    `json:"piece_len"`
	Have     []int  `json:"have"`
	BitLen   int    `json:"bit_len"`
	Bits     []int  `json:"bits"`
	Complete bool   `json:"then_complete_msg"`
}

func genB(t *rapid.T) BCase {
	c := BCase{Origin: rapid.Bool().Draw(t, "origin")}
	c.Blob, c.PieceLen = genBlob(t)
	n := (len(c.Blob) + c.PieceLen - 1) / c.PieceLen
	if !c.Origin {
		c.Have = rapid.SliceOfNDistinct(rapid.IntRange(0, n-1), 0, n, rapid.ID[int]).Draw(t, "have")
	}
	c.BitLen = rapid.SampledFrom([]int{n, n, 0, n - 1, n + 1, n + 7, 10 * n, 64, 65, 1 << 12}).Draw(t, "bitlen")
	if c.BitLen < 0 {
		c.BitLen = 0
	}
	if c.BitLen > 0 {
		c.Bits = rapid.SliceOfNDistinct(rapid.IntRange(0, c.BitLen-1), 0, 8, rapid.ID[int]).Draw(t, "bits")
		if rapid.Bool().Draw(t, "lastbit") {
			c.Bits = append(c.Bits, c.BitLen-1)
		}
	}
	c.Complete = rapid.Bool().Draw(t, "complete")
	return c
}

func runB(c BCase) pbt.Verdict {
	v, err := newVictim(c.Origin, c.Blob, c.PieceLen, c.Have)
	if err != nil {
		return pbt.Verdict{Discard: true, Classes: []string{"victim-setup-failed"}}
	}
	defer v.close()
	d, err := newDispatcher(v)
	if err != nil {
		return pbt.Verdict{Discard: true}
	}
	defer d.TearDown()
	n := v.n()
	b := bitset.New(uint(c.BitLen))
	for _, i := range c.Bits {
		b.Set(uint(i))
	}
	hostile := newFakePeer()
	desc := fmt.Sprintf("a handshake bitfield of %d bits (set %v) for a torrent of %d pieces", c.BitLen, c.Bits, n)
	var hp *dispatch.VerifPeer
	var aerr error
	pmsg, alloc := guarded(func() { hp, aerr = d.VerifAddPeer(peerID(2), false, b, hostile) })
	if pmsg != "" {
		return pbt.Fail("panic while adding a peer with %s: %s", desc, pmsg)
	}
	if alloc > allocSlack+uint64(c.BitLen) {
		return pbt.Fail("adding a peer with %s allocated %d bytes", desc, alloc)
	}
	classes := []string{}
	if aerr == nil && hp != nil {
		classes = append(classes, "accepted")
		pmsg, _ = guarded(func() {
			d.VerifRequestMore(hp)
			if c.Complete {
				d.VerifDispatch(hp, conn.NewCompleteMessage())
			}
			d.VerifDispatch(hp, conn.NewAnnouncePieceMessage(0))
		})
		if pmsg != "" {
			return pbt.Fail("panic while exchanging messages with a peer added with %s: %s", desc, pmsg)
		}
		for _, m := range hostile.take() {
			if m.Message.Type == p2p.Message_PIECE_REQUEST && m.Message.PieceRequest != nil {
				if i := int(m.Message.PieceRequest.Index); i < 0 || i >= n {
					return pbt.Fail("victim requested piece %d outside [0,%d) from a peer added with %s", i, n, desc)
				}
			}
		}
		pmsg, _ = guarded(func() { d.VerifRemovePeer(hp) })
		if pmsg != "" {
			return pbt.Fail("panic while removing a peer added with %s: %s", desc, pmsg)
		}
	} else {
		classes = append(classes, "rejected")
	}
	// honest peer still works
	honest := newFakePeer()
	gp, err := d.VerifAddPeer(peerID(3), false, bitset.New(uint(n)), honest)
	if err != nil {
		return pbt.Fail("an honest peer cannot be added after a peer with %s: %v", desc, err)
	}
	for i := 0; i < n; i++ {
		if v.torrent.HasPiece(i) {
			pm2, _ := guarded(func() { d.VerifDispatch(gp, conn.NewPieceRequestMessage(i, int64(len(v.piece(i))))) })
			if pm2 != "" {
				return pbt.Fail("panic while serving the honest peer after a peer with %s: %s", desc, pm2)
			}
			if msg := checkServed(v, "honest", honest.take(), v.torrent.HasPiece); msg != "" {
				return pbt.Fail("%s after a peer with %s", msg, desc)
			}
			break
		}
	}
	return pbt.Verdict{NonTrivial: c.BitLen != n, Classes: classes}
}

// ---------- part: wire ----------

type Frame struct {
	Raw []byte `json:"raw,omitempty"` // bytes after the length prefix (when set, the fields below are ignored)

	Type       int    `json:"type"`
	NilBody    bool   `json:"nil_body"`
	Index      int64  `json:"index"`
	Offset     int64  `json:"offset"`
	Length     int64  `json:"length"`
	PayloadLen int    `json:"payload_len"`        // bytes actually written after a PIECE_PAYLOAD frame
	BitHeader  uint64 `json:"bit_header"`         // declared bit length of the handshake bitfield
	BitWords   int    `json:"bit_words"`          // 64-bit words that actually follow the header
	BitFill    int    `json:"bit_fill,omitempty"` // content of those words, see fill* constants
	BitSeed    uint64 `json:"bit_seed,omitempty"`
	BadPeerID  bool   `json:"bad_peer_id"`
	RemoteHdr  uint64 `json:"remote_hdr"` // declared bit length of one remote bitfield (0 = no remote bitfield)
}

type WCase struct {
	Accept   bool    `json:"accept"` // true: Handshaker.Accept; false: established Conn read path
	Blob     []byte  `json:"blob"`
	PieceLen int     `json:"piece_len"`
	Frames   []Frame `json:"frames"`
}

func genW(t *rapid.T) WCase {
	c := WCase{Accept: rapid.Bool().Draw(t, "accept")}
	c.Blob, c.PieceLen = genBlob(t)
	n := (len(c.Blob) + c.PieceLen - 1) / c.PieceLen
	k := 1
	if !c.Accept {
		k = rapid.IntRange(1, 4).Draw(t, "nframes")
	}
	for i := 0; i < k; i++ {
		var f Frame
		if rapid.IntRange(0, 4).Draw(t, "raw") == 0 {
			f.Raw = rapid.SliceOfN(rapid.Byte(), 0, 64).Draw(t, "rawbytes")
			if len(f.Raw) == 0 {
				f.Raw = []byte{}
			}
			c.Frames = append(c.Frames, f)
			continue
		}
		if c.Accept {
			f.Type = int(p2p.Message_BITFIELD)
			if rapid.IntRange(0, 6).Draw(t, "othertype") == 0 {
				f.Type = rapid.IntRange(0, 7).Draw(t, "type")
			}
		} else {
			f.Type = rapid.SampledFrom([]int{0, 1, 2, 3, 3, 3, 4, 5, 6, 99}).Draw(t, "type")
		}
		f.NilBody = rapid.IntRange(0, 4).Draw(t, "nil") == 0
		f.Index = hostileInt(t, n, "index")
		f.Offset = rapid.SampledFrom([]int64{0, 0, 1, -1}).Draw(t, "offset")
		f.Length = rapid.SampledFrom([]int64{int64(c.PieceLen), int64(c.PieceLen), 0, int64(c.PieceLen) + 1, -1, math.MinInt32, math.MaxInt32, 1 << 20, 1 << 28}).Draw(t, "length")
		f.PayloadLen = rapid.SampledFrom([]int{c.PieceLen, c.PieceLen, 0, c.PieceLen + 1, 3}).Draw(t, "paylen")
		f.BitHeader = rapid.SampledFrom([]uint64{uint64(n), uint64(n), 0, uint64(n) + 1, 64, 65, 1 << 16, 1 << 32, 1 << 31, math.MaxUint32}).Draw(t, "bithdr")
		f.BitWords = rapid.SampledFrom([]int{int((f.BitHeader%4096 + 63) / 64), int((f.BitHeader%4096 + 63) / 64), 0, 1, 2}).Draw(t, "bitwords")
		f.BitFill = rapid.IntRange(0, numFills-1).Draw(t, "bitfill")
		f.BitSeed = rapid.Uint64().Draw(t, "bitseed")
		f.BadPeerID = rapid.IntRange(0, 7).Draw(t, "badpeer") == 0
		f.RemoteHdr = rapid.SampledFrom([]uint64{0, 0, uint64(n), 1 << 32, 1 << 16}).Draw(t, "remotehdr")
		c.Frames = append(c.Frames, f)
	}
	return c
}

// Fill patterns of the words of a handshake bitfield.
const (
	fillOnes         = 0 // every bit of every word set (valid bits and padding)
	fillZeros        = 1
	fillFirstPadding = 2 // only the first bit beyond the declared length
	fillLastBit      = 3 // only the highest bit of the last word
	fillRandom       = 4 // words drawn from BitSeed
	fillValidPlusOne = 5 // every declared bit set, plus one padding bit chosen by BitSeed
	numFills         = 6
)

func bitfieldBytes(header uint64, words int, fill int, seed uint64) []byte {
	b := make([]byte, 8+8*words)
	binary.BigEndian.PutUint64(b, header)
	w := make([]uint64, words)
	set := func(bit uint64) {
		if int(bit/64) < words {
			w[bit/64] |= 1 << (bit % 64)
		}
	}
	switch fill {
	case fillZeros:
	case fillFirstPadding:
		set(header)
	case fillLastBit:
		if words > 0 {
			w[words-1] = 1 << 63
		}
	case fillRandom:
		x := seed | 1
		for i := range w {
			x ^= x << 13
			x ^= x >> 7
			x ^= x << 17
			w[i] = x
		}
	case fillValidPlusOne:
		for bit := uint64(0); bit < header && int(bit/64) < words; bit++ {
			set(bit)
		}
		if pad := uint64(64*words) - header; uint64(64*words) > header && pad > 0 {
			set(header + seed%pad)
		}
	default:
		for i := range w {
			w[i] = 0xFFFFFFFFFFFFFFFF
		}
	}
	for i := range w {
		binary.BigEndian.PutUint64(b[8+8*i:], w[i])
	}
	return b
}

func encodeFrame(v *victim, f Frame) (head []byte, payload []byte) {
	if f.Raw != nil {
		return f.Raw, nil
	}
	pm := &p2p.Message{Type: p2p.Message_Type(f.Type)}
	idx, off, ln := int32(f.Index), int32(f.Offset), int32(f.Length)
	if !f.NilBody {
		switch p2p.Message_Type(f.Type) {
		case p2p.Message_ERROR:
			pm.Error = &p2p.ErrorMessage{Error: "e", Index: idx}
		case p2p.Message_ANNOUCE_PIECE:
			pm.AnnouncePiece = &p2p.AnnouncePieceMessage{Index: idx}
		case p2p.Message_PIECE_REQUEST:
			pm.PieceRequest = &p2p.PieceRequestMessage{Index: idx, Offset: off, Length: ln}
		case p2p.Message_PIECE_PAYLOAD:
			pm.PiecePayload = &p2p.PiecePayloadMessage{Index: idx, Offset: off, Length: ln}
		case p2p.Message_CANCEL_PIECE:
			pm.CancelPiece = &p2p.CancelPieceMessage{Index: idx}
		case p2p.Message_COMPLETE:
			pm.Complete = &p2p.CompleteMessage{}
		case p2p.Message_BITFIELD:
			pid := peerID(7).String()
			if f.BadPeerID {
				pid = "nothex"
			}
			bm := &p2p.BitfieldMessage{PeerID: pid, Name: v.mi.Digest().Hex(), InfoHash: v.mi.InfoHash().String(),
				BitfieldBytes: bitfieldBytes(f.BitHeader, f.BitWords, f.BitFill, f.BitSeed), Namespace: "ns"}
			if f.RemoteHdr != 0 {
				bm.RemoteBitfieldBytes = map[string][]byte{peerID(8).String(): bitfieldBytes(f.RemoteHdr, 1, f.BitFill, f.BitSeed)}
			}
			pm.Bitfield = bm
		}
	}
	head, _ = proto.Marshal(pm)
	if p2p.Message_Type(f.Type) == p2p.Message_PIECE_PAYLOAD {
		payload = bytes.Repeat([]byte{0x5c}, f.PayloadLen)
	}
	return head, payload
}

func runW(c WCase) pbt.Verdict {
	v, err := newVictim(false, c.Blob, c.PieceLen, nil)
	if err != nil {
		return pbt.Verdict{Discard: true}
	}
	defer v.close()
	return runWOn(v, c)
}

// runWOn judges a wire case against an existing victim (the native fuzz target reuses one victim per worker).
func runWOn(v *victim, c WCase) pbt.Verdict {
	cfg := conn.ConfigFixture()
	cfg.HandshakeTimeout = 5 * time.Second
	hs, err := conn.NewHandshaker(cfg, tally.NoopScope, clock.New(), networkevent.NewTestProducer(), peerID(1), noEvents{}, zap.NewNop().Sugar())
	if err != nil {
		return pbt.Verdict{Discard: true}
	}
	info := v.torrent.Stat()
	maxPiece := uint64(c.PieceLen)

	write := func(w net.Conn, frames []Frame) (total int) {
		for _, f := range frames {
			head, payload := encodeFrame(v, f)
			var lp [4]byte
			binary.BigEndian.PutUint32(lp[:], uint32(len(head)))
			w.SetWriteDeadline(time.Now().Add(3 * time.Second))
			if _, err := w.Write(lp[:]); err != nil {
				return
			}
			if _, err := w.Write(head); err != nil {
				return
			}
			if len(payload) > 0 {
				if _, err := w.Write(payload); err != nil {
					return
				}
			}
			total += len(head) + len(payload)
		}
		return
	}
	inputLen := 0
	for _, f := range c.Frames {
		h, p := encodeFrame(v, f)
		inputLen += len(h) + len(p)
	}
	limit := allocSlack + 4*(uint64(inputLen)+maxPiece)
	nontrivial := false
	for _, f := range c.Frames {
		if f.Raw != nil || f.NilBody || f.Length < 0 || f.Length > int64(c.PieceLen) || f.BitHeader > uint64(64*f.BitWords) || f.RemoteHdr > 64 {
			nontrivial = true
		}
	}
	classes := []string{}

	if c.Accept {
		a, b := net.Pipe()
		defer a.Close()
		defer b.Close()
		go func() {
			write(b, c.Frames)
			b.Close()
		}()
		var pc *conn.PendingConn
		var aerr error
		pmsg, alloc := guarded(func() { pc, aerr = hs.Accept(a) })
		if pmsg != "" {
			return pbt.Fail("panic in Handshaker.Accept on frame %+v: %s", c.Frames[0], pmsg)
		}
		if alloc > limit {
			return pbt.Fail("Handshaker.Accept allocated %d bytes for a %d-byte handshake frame %+v (bound %d)", alloc, inputLen, c.Frames[0], limit)
		}
		if aerr == nil && pc != nil {
			classes = append(classes, "handshake-accepted")
			// what the scheduler does next with an accepted handshake: the peer's bitfield
			// and its remote bitfields go to the torrent's dispatcher
			d, derr := newDispatcher(v)
			if derr == nil {
				defer d.TearDown()
				hostile := newFakePeer()
				var hp *dispatch.VerifPeer
				var perr error
				pmsg, alloc := guarded(func() {
					hp, perr = d.VerifAddPeer(pc.PeerID(), false, pc.Bitfield(), hostile)
					if perr == nil && hp != nil {
						d.VerifRequestMore(hp)
						d.VerifDispatch(hp, conn.NewAnnouncePieceMessage(0))
						d.RemoteBitfields()
						d.VerifRemovePeer(hp)
					}
				})
				if pmsg != "" {
					return pbt.Fail("panic when the bitfield of an accepted handshake %+v (decoded length %d) is handed to the dispatcher of a %d-piece torrent: %s", c.Frames[0], pc.Bitfield().Len(), v.n(), pmsg)
				}
				if alloc > limit {
					return pbt.Fail("handing the bitfield of an accepted handshake %+v to the dispatcher allocated %d bytes (bound %d)", c.Frames[0], alloc, limit)
				}
				for _, m := range hostile.take() {
					if m.Message.Type == p2p.Message_PIECE_REQUEST && m.Message.PieceRequest != nil {
						if i := int(m.Message.PieceRequest.Index); i < 0 || i >= v.n() {
							return pbt.Fail("victim requested piece %d outside [0,%d) from a peer whose handshake was %+v", i, v.n(), c.Frames[0])
						}
					}
				}
				if perr == nil {
					classes = append(classes, "handshake-bitfield-accepted-by-dispatcher")
				}
			}
		} else {
			classes = append(classes, "handshake-rejected")
		}
		return pbt.Verdict{NonTrivial: nontrivial, Classes: classes}
	}

	// established conn: honest handshake first, then hostile frames into the read path
	a, b := net.Pipe()
	defer a.Close()
	defer b.Close()
	var pc *conn.PendingConn
	var cn *conn.Conn
	done := make(chan struct{})
	go func() {
		defer close(done)
		honest := Frame{Type: int(p2p.Message_BITFIELD), BitHeader: uint64(v.n()), BitWords: (v.n() + 63) / 64}
		write(b, []Frame{honest})
		// read the victim's handshake reply
		var lp [4]byte
		b.SetReadDeadline(time.Now().Add(3 * time.Second))
		if _, err := io.ReadFull(b, lp[:]); err != nil {
			return
		}
		io.CopyN(io.Discard, b, int64(binary.BigEndian.Uint32(lp[:])))
	}()
	pc, err = hs.Accept(a)
	if err != nil {
		return pbt.Verdict{Discard: true, Classes: []string{"honest-handshake-failed"}}
	}
	cn, err = hs.Establish(pc, info, nil)
	<-done
	if err != nil {
		return pbt.Verdict{Discard: true, Classes: []string{"establish-failed"}}
	}
	go func() {
		write(b, c.Frames)
		b.Close()
	}()
	a.SetReadDeadline(time.Now().Add(5 * time.Second))
	for fi := range c.Frames {
		var m *conn.Message
		var rerr error
		pmsg, alloc := guarded(func() { m, rerr = cn.VerifReadMessage() })
		if pmsg != "" {
			return pbt.Fail("panic in the Conn read path on frame %d %+v: %s", fi, c.Frames[fi], pmsg)
		}
		if alloc > limit {
			return pbt.Fail("the Conn read path allocated %d bytes on frame %d %+v (whole input %d bytes, piece length %d, bound %d)", alloc, fi, c.Frames[fi], inputLen, c.PieceLen, limit)
		}
		if rerr != nil {
			classes = append(classes, "conn-ended")
			break
		}
		if m != nil && m.Message.Type == p2p.Message_PIECE_PAYLOAD {
			if m.Message.PiecePayload == nil || m.Payload == nil {
				return pbt.Fail("the Conn read path delivered a piece payload message without body/payload on frame %d %+v", fi, c.Frames[fi])
			}
			if int64(m.Payload.Length()) != int64(m.Message.PiecePayload.Length) {
				return pbt.Fail("the Conn read path delivered a payload of %d bytes for declared length %d", m.Payload.Length(), m.Message.PiecePayload.Length)
			}
			if int64(m.Payload.Length()) > int64(c.PieceLen) {
				return pbt.Fail("the Conn read path accepted a payload of %d bytes for a torrent whose pieces are at most %d bytes", m.Payload.Length(), c.PieceLen)
			}
		}
		classes = append(classes, "frame-delivered")
	}
	return pbt.Verdict{NonTrivial: nontrivial, Classes: classes}
}

func TestProp(t *testing.T) {
	pbt.Main(t, pbt.Spec{
		ID:   "C14",
		Rule: "three generated input layers against real agent (some pieces complete) and origin torrents. dispatch: 1-8 structured p2p messages of every type (plus an unknown type), bodies present or absent, index/offset/length from {valid, -1, MinInt32, MaxInt32, N, N+1, 0, ...}, delivered synchronously to a real Dispatcher (verif hook) as a hostile peer next to an honest peer; after each message: no panic, bytes allocated <= 256 KiB + 4*(piece+blob), every payload served is a piece the victim has with exact bytes and an index in [0,N), the victim's bitfield equals a model (only a correct full payload completes a piece), the honest peer's request is still served; at the end stored bytes equal the blob. bitfield: handshake bitfields of 0..4096 bits for an N-piece torrent handed to the Dispatcher: no panic, bounded allocation, requests only for pieces in [0,N), honest peer still served. wire: frames after a correct length prefix (structured protobuf with hostile field values and bitset length headers up to 2^32, or raw bytes) into Handshaker.Accept and into an established Conn's read path over net.Pipe: no panic, allocation <= 256 KiB + 4*(input+piece), delivered payloads match their declared length and never exceed the torrent's piece length. non-trivial = at least one field outside its valid domain reaches a handler; distinct by case hash",
		Assumptions: []string{
			"PIECE_PAYLOAD messages at the dispatcher layer carry what a Conn can deliver (body present, buffer length = declared length <= piece length); other shapes are covered by the wire layer",
			"allocation is measured with runtime.MemStats.TotalAlloc around one synchronous call; the bound is generous (256 KiB slack) to absorb runtime noise",
			"panics are observed through synchronous verif-hook entry points; goroutine-level crashes are covered by the native fuzz targets of the thorough tier",
		},
		Parts: []pbt.Part{
			pbt.NewPart("dispatch", 5, genD, func(c DCase) pbt.Verdict { return confirmAlloc(func() pbt.Verdict { return runD(c) }) }),
			pbt.NewPart("bitfield", 2, genB, func(c BCase) pbt.Verdict { return confirmAlloc(func() pbt.Verdict { return runB(c) }) }),
			pbt.NewPart("wire", 3, genW, func(c WCase) pbt.Verdict { return confirmAlloc(func() pbt.Verdict { return runW(c) }) }),
		},
	})
}
