// C35 — a successful cluster blob download delivers the blob exactly once.
//
// 1-3 scripted origin HTTP fakes stand behind the real blobclient.ClusterClient
// (real client resolver, real HTTPClient, real net/http; unix sockets instead of TCP).
// Each origin answers the blob GET according to its generated script: the whole blob
// (with Content-Length or chunked), a 200 whose body is cut after k bytes, 404/4xx,
// 5xx, 202, a connection dropped before any answer, or it is not listening at all.
// Oracle: nil result => the destination holds exactly the blob's bytes; no request was
// answered with the whole blob => the call fails.
package c35

import (
	"bufio"
	"bytes"
	"context"
	"fmt"
	"io"
	"net/http"
	"net/url"
	"os"
	"strings"
	"sync"
	"testing"
	"time"

	"github.com/cenkalti/backoff"
	"github.com/uber/kraken/core"
	"github.com/uber/kraken/lib/hostlist"
	"github.com/uber/kraken/origin/blobclient"
	"pgregory.net/rapid"

	"verif/internal/fakenet"
	"verif/internal/pbt"
)

// Step kinds of an origin script.
const (
	skFull    = 0 // 200, whole blob, Content-Length
	skFullChk = 1 // 200, whole blob, chunked
	skCutCL   = 2 // 200, Content-Length = blob size, connection closed after CutAt bytes
	skCutChk  = 3 // 200, chunked, connection closed after CutAt bytes (no terminating chunk)
	skStatus  = 4 // Status with a small body
	skDrop    = 5 // connection closed without any answer
)

type Step struct {
	Kind   int `json:"k"`
	Status int `json:"s,omitempty"`
	CutAt  int `json:"cut,omitempty"`
}

type Origin struct {
	Down   bool   `json:"down,omitempty"` // not listening: connection refused
	Script []Step `json:"script,omitempty"`
}

type Case struct {
	BlobSize int    `json:"blob_size"`
	BlobSeed uint64 `json:"blob_seed"`
	// MaxPoll: retries the poll back-off allows on 202 answers (0 = none). The back-off is
	// installed through the verif hook blobclient.VerifSetPollBackOff (the default one
	// starts at one second); everything else is the real ClusterClient.DownloadBlob.
	MaxPoll   int      `json:"max_poll"`
	Dst       int      `json:"dst"` // 0 write-only io.Writer, 1 *bytes.Buffer, 2 *os.File
	Namespace string   `json:"namespace"`
	Origins   []Origin `json:"origins"`
}

func genCase(t *rapid.T) Case {
	var c Case
	c.BlobSize = rapid.OneOf(
		rapid.IntRange(1, 40),
		rapid.IntRange(1, 5000),
		rapid.SampledFrom([]int{1, 2, 4096, 32768, 32769, 65536}),
		rapid.IntRange(30000, 200000),
	).Draw(t, "blobSize")
	c.BlobSeed = rapid.Uint64Range(1, 1<<40).Draw(t, "blobSeed")
	c.MaxPoll = rapid.IntRange(0, 3).Draw(t, "maxPoll")
	c.Dst = rapid.IntRange(0, 2).Draw(t, "dst")
	c.Namespace = rapid.SampledFrom([]string{"ns", "library/ubuntu", "a b", "repo-1/x_y", "%41"}).Draw(t, "namespace")
	n := rapid.IntRange(1, 3).Draw(t, "origins")
	for i := 0; i < n; i++ {
		var o Origin
		if rapid.IntRange(0, 9).Draw(t, "down") == 0 {
			o.Down = true
			c.Origins = append(c.Origins, o)
			continue
		}
		ns := rapid.SampledFrom([]int{1, 1, 1, 2, 3}).Draw(t, "steps")
		for j := 0; j < ns; j++ {
			var s Step
			w := rapid.IntRange(0, 99).Draw(t, "kind")
			if j < ns-1 {
				// a step is only followed by another one on the same origin after a 202
				w = 100
			}
			switch {
			case w < 18:
				s.Kind = skFull
			case w < 30:
				s.Kind = skFullChk
			case w < 45:
				s.Kind = skCutCL
			case w < 58:
				s.Kind = skCutChk
			case w < 66:
				s.Kind = skDrop
			case w < 88:
				s.Kind = skStatus
				s.Status = rapid.SampledFrom([]int{500, 502, 503, 504, 500, 503}).Draw(t, "status5xx")
			case w < 96:
				s.Kind = skStatus
				s.Status = rapid.SampledFrom([]int{404, 404, 400, 403, 409}).Draw(t, "status4xx")
			case w < 100:
				s.Kind = skStatus
				s.Status = 202
			default:
				s.Kind = skStatus
				s.Status = 202
			}
			if s.Kind == skCutCL || s.Kind == skCutChk {
				s.CutAt = rapid.OneOf(
					rapid.SampledFrom([]int{0, 1, c.BlobSize - 1, c.BlobSize / 2}),
					rapid.IntRange(0, c.BlobSize-1),
				).Draw(t, "cutAt")
				if s.CutAt > c.BlobSize-1 {
					s.CutAt = c.BlobSize - 1 // a cut always loses at least the last byte
				}
				if s.CutAt < 0 {
					s.CutAt = 0
				}
			}
			o.Script = append(o.Script, s)
		}
		c.Origins = append(c.Origins, o)
	}
	return c
}

func blobBytes(seed uint64, size int) []byte {
	b := make([]byte, size)
	x := seed*0x9E3779B97F4A7C15 + 1
	for i := range b {
		x ^= x << 13
		x ^= x >> 7
		x ^= x << 17
		b[i] = byte(x >> 24)
	}
	return b
}

// originFake serves one origin's script; the last step repeats.
type originFake struct {
	mu         sync.Mutex
	idx        int
	script     []Step
	blob       []byte
	wantPath   string
	requests   int
	fullServed int // requests the fake started to answer with the whole blob
	partial    int // requests answered with k>0 bytes of the blob and then cut
	badPath    int
	log        *eventLog
	index      int
}

// eventLog is the merged, ordered request log of all origins of a case.
type eventLog struct {
	mu     sync.Mutex
	events []event
}

type event struct {
	origin  int
	partial bool // the answer carried k>0 blob bytes and was cut
}

func (l *eventLog) add(e event) {
	l.mu.Lock()
	l.events = append(l.events, e)
	l.mu.Unlock()
}

func (o *originFake) ServeHTTP(w http.ResponseWriter, r *http.Request) {
	o.mu.Lock()
	o.requests++
	st := o.script[minInt(o.idx, len(o.script)-1)]
	o.idx++
	if r.Method != "GET" || r.URL.EscapedPath() != o.wantPath {
		o.badPath++
		o.mu.Unlock()
		http.Error(w, "verif: unexpected request "+r.Method+" "+r.URL.EscapedPath(), http.StatusBadRequest)
		return
	}
	o.mu.Unlock()
	o.log.add(event{origin: o.index, partial: (st.Kind == skCutCL || st.Kind == skCutChk) && minInt(st.CutAt, len(o.blob)-1) > 0})
	switch st.Kind {
	case skFull:
		// counted before the bytes leave: the client may finish reading before Write returns
		o.mu.Lock()
		o.fullServed++
		o.mu.Unlock()
		w.Header().Set("Content-Length", fmt.Sprint(len(o.blob)))
		w.WriteHeader(200)
		w.Write(o.blob)
	case skFullChk:
		o.mu.Lock()
		o.fullServed++
		o.mu.Unlock()
		w.WriteHeader(200)
		half := len(o.blob) / 2
		w.Write(o.blob[:half])
		if f, ok := w.(http.Flusher); ok {
			f.Flush()
		}
		w.Write(o.blob[half:])
	case skCutCL, skCutChk:
		hj, ok := w.(http.Hijacker)
		if !ok {
			return
		}
		conn, _, err := hj.Hijack()
		if err != nil {
			return
		}
		bw := bufio.NewWriter(conn)
		part := o.blob[:minInt(st.CutAt, len(o.blob)-1)]
		if st.Kind == skCutCL {
			fmt.Fprintf(bw, "HTTP/1.1 200 OK\r\nContent-Type: application/octet-stream\r\nContent-Length: %d\r\n\r\n", len(o.blob))
			bw.Write(part)
		} else {
			fmt.Fprintf(bw, "HTTP/1.1 200 OK\r\nContent-Type: application/octet-stream\r\nTransfer-Encoding: chunked\r\n\r\n")
			if len(part) > 0 {
				fmt.Fprintf(bw, "%x\r\n", len(part))
				bw.Write(part)
				bw.WriteString("\r\n")
			}
		}
		if len(part) > 0 {
			o.mu.Lock()
			o.partial++
			o.mu.Unlock()
		}
		bw.Flush()
		conn.Close()
	case skDrop:
		if hj, ok := w.(http.Hijacker); ok {
			if conn, _, err := hj.Hijack(); err == nil {
				conn.Close()
			}
		}
	default:
		w.WriteHeader(st.Status)
		if st.Status != 204 {
			io.WriteString(w, "verif: scripted status body that must never reach the destination")
		}
	}
}

type locator struct{ locs string }

func (l *locator) ServeHTTP(w http.ResponseWriter, r *http.Request) {
	if strings.HasSuffix(r.URL.Path, "/locations") {
		w.Header().Set("Origin-Locations", l.locs)
		w.WriteHeader(200)
		return
	}
	http.Error(w, "verif: locator only serves locations", http.StatusBadRequest)
}

// writeOnly hides every method of the buffer except Write.
type writeOnly struct{ b *bytes.Buffer }

func (w writeOnly) Write(p []byte) (int, error) { return w.b.Write(p) }

func minInt(a, b int) int {
	if a < b {
		return a
	}
	return b
}

func discard() pbt.Verdict { return pbt.Verdict{Discard: true} }

func run(c Case) pbt.Verdict {
	if len(c.Origins) == 0 || c.BlobSize < 1 {
		return discard()
	}
	fakenet.InstallDefault()
	defer http.DefaultTransport.(*http.Transport).CloseIdleConnections()
	blob := blobBytes(c.BlobSeed, c.BlobSize)
	d, err := core.NewDigester().FromBytes(blob)
	if err != nil {
		return discard()
	}
	wantPath := fmt.Sprintf("/namespace/%s/blobs/%s", url.PathEscape(c.Namespace), d)

	var fakes []*originFake
	var addrs []string
	elog := &eventLog{}
	for _, o := range c.Origins {
		if o.Down || len(o.Script) == 0 {
			addrs = append(addrs, fakenet.NewAddr())
			fakes = append(fakes, nil)
			continue
		}
		f := &originFake{script: o.Script, blob: blob, wantPath: wantPath, log: elog, index: len(fakes)}
		srv, err := fakenet.Serve(f)
		if err != nil {
			return discard()
		}
		defer srv.Close()
		addrs = append(addrs, srv.Addr)
		fakes = append(fakes, f)
	}
	locSrv, err := fakenet.Serve(&locator{locs: strings.Join(addrs, ",")})
	if err != nil {
		return discard()
	}
	defer locSrv.Close()

	resolver := blobclient.NewClientResolver(blobclient.NewProvider(), hostlist.Fixture(locSrv.Addr))

	var buf bytes.Buffer
	var dst io.Writer
	var file *os.File
	switch c.Dst {
	case 1:
		dst = &buf
	case 2:
		f, err := os.CreateTemp("", "c35-dst-")
		if err != nil {
			return discard()
		}
		file = f
		defer os.Remove(f.Name())
		defer f.Close()
		dst = f
	default:
		dst = writeOnly{&buf}
	}

	if c.MaxPoll > 0 {
		n := uint64(c.MaxPoll)
		blobclient.VerifSetPollBackOff(func() backoff.BackOff {
			return backoff.WithMaxRetries(backoff.NewConstantBackOff(0*time.Second), n)
		})
	} else {
		blobclient.VerifSetPollBackOff(func() backoff.BackOff { return &backoff.StopBackOff{} })
	}
	defer blobclient.VerifSetPollBackOff(nil)
	callErr := blobclient.NewClusterClient(resolver).DownloadBlob(context.Background(), c.Namespace, d, dst)

	var got []byte
	if file != nil {
		got, err = os.ReadFile(file.Name())
		if err != nil {
			return discard()
		}
	} else {
		got = buf.Bytes()
	}

	var requests, full, partial, badPath int
	perOrigin := make([]int, len(fakes))
	polled := false
	for i, f := range fakes {
		if f == nil {
			continue
		}
		f.mu.Lock()
		if f.requests > 1 {
			polled = true
		}
		perOrigin[i] = f.requests
		requests += f.requests
		full += f.fullServed
		partial += f.partial
		badPath += f.badPath
		f.mu.Unlock()
	}

	desc := func() string {
		var sb strings.Builder
		fmt.Fprintf(&sb, "blob of %d bytes, %d poll retries, origins:", len(blob), c.MaxPoll)
		for i, o := range c.Origins {
			fmt.Fprintf(&sb, " [%d:", i)
			if o.Down {
				sb.WriteString(" down")
			}
			for _, s := range o.Script {
				switch s.Kind {
				case skFull:
					sb.WriteString(" 200-full")
				case skFullChk:
					sb.WriteString(" 200-full-chunked")
				case skCutCL:
					fmt.Fprintf(&sb, " 200-cut@%d", s.CutAt)
				case skCutChk:
					fmt.Fprintf(&sb, " 200-chunked-cut@%d", s.CutAt)
				case skDrop:
					sb.WriteString(" drop")
				default:
					fmt.Fprintf(&sb, " %d", s.Status)
				}
			}
			if fakes[i] != nil {
				fmt.Fprintf(&sb, " (%d requests)", perOrigin[i])
			}
			sb.WriteString("]")
		}
		fmt.Fprintf(&sb, "; result err=%v; destination holds %d bytes", callErr, len(got))
		return sb.String()
	}

	if callErr == nil {
		if !bytes.Equal(got, blob) {
			kind := "different bytes"
			switch {
			case len(got) > len(blob) && bytes.HasSuffix(got, blob):
				kind = fmt.Sprintf("%d bytes of an earlier partial transfer followed by the blob", len(got)-len(blob))
			case len(got) < len(blob) && bytes.HasPrefix(blob, got):
				kind = "a truncated blob"
			case len(got) == 2*len(blob):
				kind = "the blob twice"
			}
			return pbt.Fail("download reported success but the destination does not hold exactly the blob\ndestination holds %s; %s", kind, desc())
		}
		if full == 0 {
			return pbt.Fail("download reported success although no origin delivered the whole blob\n%s", desc())
		}
	}

	cl := []string{fmt.Sprintf("origins:%d", len(c.Origins))}
	if polled {
		cl = append(cl, "polled-after-202")
	}
	if callErr == nil {
		cl = append(cl, "success")
		if requests > 1 {
			cl = append(cl, "success-after-failed-attempt")
		}
		if partial > 0 {
			cl = append(cl, "success-after-partial-transfer")
		}
	} else {
		cl = append(cl, "failure")
		if callErr == blobclient.ErrBlobNotFound {
			cl = append(cl, "failure-not-found")
		}
		if full > 0 {
			cl = append(cl, "failure-although-blob-was-delivered")
		}
	}
	if partial > 0 {
		cl = append(cl, "partial-transfer")
		elog.mu.Lock()
		seen := false
		for _, e := range elog.events {
			if seen {
				cl = append(cl, "request-after-partial-transfer")
				break
			}
			if e.partial {
				seen = true
				if e.origin < len(c.Origins)-1 {
					cl = append(cl, "partial-transfer-with-origins-left")
				}
			}
		}
		elog.mu.Unlock()
	}
	if badPath > 0 {
		cl = append(cl, "unexpected-request-path")
	}
	nontrivial := requests >= 2 || partial > 0
	return pbt.OK(nontrivial, cl...)
}

func TestProp(t *testing.T) {
	pbt.Main(t, pbt.Spec{
		ID: "C35",
		Rule: "1-3 scripted origin fakes (each down, or answering the blob GET per script: 200 whole blob with Content-Length or chunked, 200 cut after k bytes with Content-Length or chunked, 404/4xx, 5xx, 202, connection dropped) behind the real client resolver, HTTPClient and ClusterClient.DownloadBlob with a zero poll back-off of 0-3 retries installed through the verif hook; blob 1 B-200 KB, destination a write-only writer, a bytes.Buffer or a file; oracle: nil error => destination bytes equal the blob exactly and some request was answered with the whole blob; non-trivial = at least two blob requests were made or a partial body was transferred; distinct by case hash",
		Assumptions: []string{
			"the scripted origin fakes and the locations fake are trusted; they speak real net/http over unix-domain sockets",
			"a truncated 200 is always detectable (Content-Length or chunked framing, as produced by a Go HTTP/1.1 server); close-delimited bodies are not generated",
			"origins never deliver well-formed wrong content (not a failure pattern of the statement)",
			"ClusterClient.DownloadBlob's default poll back-off (1 s first interval, 15 min limit) is replaced through the verif hook by a zero-delay back-off with 0-3 retries",
			"failure is never judged: the statement only demands it when no origin delivered the whole blob, which is implied by the success-side oracle",
		},
		Parts: []pbt.Part{pbt.NewPart("download", 19, genCase, run), pbt.NewPart("overlap", 1, genOverlap, runOverlap)},
	})
}
