package c35

import (
	"bytes"
	"context"
	"fmt"
	"net/http"
	"net/url"
	"runtime"
	"strings"
	"sync"
	"time"

	"github.com/uber/kraken/core"
	"github.com/uber/kraken/lib/hostlist"
	"github.com/uber/kraken/origin/blobclient"
	"pgregory.net/rapid"

	"verif/internal/fakenet"
	"verif/internal/pbt"
)

// Part overlap (un-owned schedule): several cluster downloads of different blobs run at the
// same time in one process, through healthy origins, into destinations that are slow to
// accept bytes (a registry client pulls the layers of an image in parallel). Every download
// that reports success must have delivered exactly its own blob.

type OvCase struct {
	Sizes   []int  `json:"sizes"` // one blob per concurrent download
	Seed    uint64 `json:"seed"`
	Slow    []int  `json:"slow"`    // per download: the destination yields this many times per Write
	Stagger []int  `json:"stagger"` // per download: start delay in units of 100 microseconds
	Rounds  int    `json:"rounds"`
}

func genOverlap(t *rapid.T) OvCase {
	n := rapid.IntRange(2, 5).Draw(t, "downloads")
	c := OvCase{Seed: rapid.Uint64Range(1, 1<<40).Draw(t, "seed"), Rounds: rapid.IntRange(1, 3).Draw(t, "rounds")}
	for i := 0; i < n; i++ {
		c.Sizes = append(c.Sizes, rapid.SampledFrom([]int{1, 4096, 65536, 200000, 300000, rapid.IntRange(1, 400000).Draw(t, "size")}).Draw(t, "sizeclass"))
		c.Slow = append(c.Slow, rapid.SampledFrom([]int{0, 1, 5, 50}).Draw(t, "slow"))
		c.Stagger = append(c.Stagger, rapid.IntRange(0, 20).Draw(t, "stagger"))
	}
	return c
}

type ovOrigin struct {
	mu    sync.Mutex
	blobs map[string][]byte // escaped path -> blob
}

func (o *ovOrigin) ServeHTTP(w http.ResponseWriter, r *http.Request) {
	if strings.HasSuffix(r.URL.Path, "/locations") {
		w.Header().Set("Origin-Locations", r.Host)
		w.WriteHeader(200)
		return
	}
	o.mu.Lock()
	b, ok := o.blobs[r.URL.EscapedPath()]
	o.mu.Unlock()
	if !ok || r.Method != "GET" {
		http.Error(w, "verif: unexpected request "+r.Method+" "+r.URL.EscapedPath(), http.StatusBadRequest)
		return
	}
	w.WriteHeader(200)
	// several writes, so that the client reads the body in several steps
	for off := 0; off < len(b); off += 32 << 10 {
		end := off + 32<<10
		if end > len(b) {
			end = len(b)
		}
		w.Write(b[off:end])
		if f, ok := w.(http.Flusher); ok {
			f.Flush()
		}
	}
}

// slowBuffer is a destination that takes its time over every Write.
type slowBuffer struct {
	b      bytes.Buffer
	yields int
}

func (s *slowBuffer) Write(p []byte) (int, error) {
	// the bytes are taken over only after the pause, as a slow disk or socket would
	cp := p
	for i := 0; i < s.yields; i++ {
		runtime.Gosched()
	}
	return s.b.Write(cp)
}

func runOverlap(c OvCase) pbt.Verdict {
	n := len(c.Sizes)
	if n < 2 || n > 8 || len(c.Slow) != n || len(c.Stagger) != n || c.Rounds < 1 || c.Rounds > 5 {
		return discard()
	}
	fakenet.InstallDefault()
	defer http.DefaultTransport.(*http.Transport).CloseIdleConnections()
	origin := &ovOrigin{blobs: map[string][]byte{}}
	var blobs [][]byte
	var digests []core.Digest
	for i, size := range c.Sizes {
		if size < 1 || size > 1<<20 {
			return discard()
		}
		b := blobBytes(c.Seed+uint64(i)*7919, size)
		d, err := core.NewDigester().FromBytes(b)
		if err != nil {
			return discard()
		}
		blobs, digests = append(blobs, b), append(digests, d)
		origin.blobs[fmt.Sprintf("/namespace/%s/blobs/%s", url.PathEscape("ns"), d)] = b
	}
	srv, err := fakenet.Serve(origin)
	if err != nil {
		return discard()
	}
	defer srv.Close()
	cluster := blobclient.NewClusterClient(blobclient.NewClientResolver(blobclient.NewProvider(), hostlist.Fixture(srv.Addr)))
	overlapped := false
	for round := 0; round < c.Rounds; round++ {
		dsts := make([]*slowBuffer, n)
		errs := make([]error, n)
		var wg sync.WaitGroup
		var running, maxRunning int32
		var mu sync.Mutex
		start := make(chan struct{})
		for i := 0; i < n; i++ {
			dsts[i] = &slowBuffer{yields: c.Slow[i]}
			wg.Add(1)
			go func(i int) {
				defer wg.Done()
				<-start
				time.Sleep(time.Duration(c.Stagger[i]) * 100 * time.Microsecond)
				mu.Lock()
				running++
				if running > maxRunning {
					maxRunning = running
				}
				mu.Unlock()
				errs[i] = cluster.DownloadBlob(context.Background(), "ns", digests[i], dsts[i])
				mu.Lock()
				running--
				mu.Unlock()
			}(i)
		}
		close(start)
		done := make(chan struct{})
		go func() { wg.Wait(); close(done) }()
		select {
		case <-done:
		case <-time.After(120 * time.Second):
			return pbt.Verdict{Discard: true, Classes: []string{"downloads-did-not-finish"}}
		}
		if maxRunning >= 2 {
			overlapped = true
		}
		for i := 0; i < n; i++ {
			if errs[i] != nil {
				continue // a failed download is not this part's business (healthy origin: not expected)
			}
			if got := dsts[i].b.Bytes(); !bytes.Equal(got, blobs[i]) {
				at := 0
				for at < len(got) && at < len(blobs[i]) && got[at] == blobs[i][at] {
					at++
				}
				return pbt.Fail("a download that reported success did not deliver its blob: download %d of %d running at the same time (round %d): destination holds %d bytes, the blob has %d, first difference at byte %d", i, n, round, len(got), len(blobs[i]), at)
			}
		}
	}
	v := pbt.Verdict{NonTrivial: overlapped}
	if overlapped {
		v.Classes = append(v.Classes, "downloads-overlapped")
	}
	return v
}
