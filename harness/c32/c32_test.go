// C32 — build-index tag puts are dependency-checked, stable and written back.
//
// Real tagserver.Server (driven through its http.Handler), real tagstore over a
// real SimpleStore, real write-back persistedretry.Manager + writeback.Executor
// over the real sqlite store. Fakes (trusted): the origin cluster client (Stat per
// dependency: present / not found / error), the dependency resolver, and an
// in-memory backend.Client with scripted fault modes.
package c32

import (
	"bytes"
	"context"
	"errors"
	"fmt"
	"io"
	stdlog "log"
	"net/http"
	"net/http/httptest"
	"net/url"
	"os"
	"path/filepath"
	"strings"
	"sync"
	"testing"
	"time"

	"github.com/uber-go/tally"
	"go.opentelemetry.io/otel"
	"go.uber.org/zap"
	"pgregory.net/rapid"

	"github.com/uber/kraken/build-index/tagserver"
	"github.com/uber/kraken/build-index/tagstore"
	"github.com/uber/kraken/core"
	"github.com/uber/kraken/lib/backend"
	"github.com/uber/kraken/lib/backend/backenderrors"
	"github.com/uber/kraken/lib/persistedretry"
	"github.com/uber/kraken/lib/persistedretry/tagreplication"
	"github.com/uber/kraken/lib/persistedretry/writeback"
	"github.com/uber/kraken/lib/store"
	"github.com/uber/kraken/localdb"
	"github.com/uber/kraken/origin/blobclient"
	"github.com/uber/kraken/utils/httputil"
	"github.com/uber/kraken/utils/log"
	"github.com/uber/kraken/utils/stringset"

	"verif/internal/memscratch"
	"verif/internal/pbt"
)

func init() {
	log.SetGlobalLogger(zap.NewNop().Sugar())
	stdlog.SetOutput(io.Discard)
}

func TestMain(m *testing.M) {
	code := m.Run()
	memscratch.Cleanup()
	os.Exit(code)
}

const (
	nTags    = 2
	nDigests = 3
	maxDeps  = 3
)

// Op kinds.
const (
	opPut     = 0
	opGet     = 1
	opBackend = 2 // set backend fault mode N
	opSleep   = 3 // N ms (lets the asynchronous write-back make progress or not)
)

// Dependency states.
const (
	depPresent  = 0
	depNotFound = 1
	depError    = 2
)

// Backend fault modes.
const (
	beHealthy     = 0
	beDown        = 1 // every call fails
	beUploadFails = 2 // Upload fails, nothing stored
	beStatErrors  = 3 // Stat fails with a non-"not found" error; Upload works
	beAckLost     = 4 // Upload stores the blob and reports an error
	beReadHalf    = 5 // Upload reads half of the source, then fails; nothing stored
	nBackendModes = 6
)

type Op struct {
	K          int   `json:"k"`
	Tag        int   `json:"tag,omitempty"`
	Dig        int   `json:"dig,omitempty"`
	Deps       []int `json:"deps,omitempty"`
	ResolveErr bool  `json:"resolve_err,omitempty"`
	N          int   `json:"n,omitempty"`
}

type Case struct {
	WriteThrough bool `json:"write_through"`
	Workers      int  `json:"workers"`
	Ops          []Op `json:"ops"`
}

func gen(t *rapid.T) Case {
	c := Case{WriteThrough: rapid.Bool().Draw(t, "write_through"), Workers: rapid.IntRange(1, 2).Draw(t, "workers")}
	n := rapid.IntRange(1, 14).Draw(t, "n")
	for i := 0; i < n; i++ {
		switch rapid.IntRange(0, 10).Draw(t, "kind") {
		case 0, 1, 2, 3, 4:
			op := Op{K: opPut, Tag: rapid.IntRange(0, nTags-1).Draw(t, "tag"), Dig: rapid.IntRange(0, nDigests-1).Draw(t, "dig")}
			nd := rapid.IntRange(0, maxDeps).Draw(t, "ndeps")
			// Mostly-present dependencies, so that successful puts are frequent.
			allPresent := rapid.IntRange(0, 9).Draw(t, "all_present") < 6
			for j := 0; j < nd; j++ {
				st := depPresent
				if !allPresent {
					st = rapid.SampledFrom([]int{depPresent, depPresent, depNotFound, depError}).Draw(t, "dep")
				}
				op.Deps = append(op.Deps, st)
			}
			op.ResolveErr = rapid.IntRange(0, 19).Draw(t, "resolve_err") == 0
			c.Ops = append(c.Ops, op)
		case 5:
			c.Ops = append(c.Ops, Op{K: opGet, Tag: rapid.IntRange(0, nTags-1).Draw(t, "tag")})
		case 6, 7, 10:
			c.Ops = append(c.Ops, Op{K: opBackend, N: rapid.IntRange(1, nBackendModes-1).Draw(t, "mode")})
		case 8:
			c.Ops = append(c.Ops, Op{K: opBackend, N: beHealthy})
		case 9:
			c.Ops = append(c.Ops, Op{K: opSleep, N: rapid.IntRange(1, 15).Draw(t, "ms")})
		}
	}
	return c
}

// ---------------------------------------------------------------------------

func tagName(i int) string { return fmt.Sprintf("repo%d:v1", i) }

var digests, depDigests []core.Digest

func init() {
	for i := 0; i < nDigests; i++ {
		d, err := core.NewDigester().FromBytes([]byte(fmt.Sprintf("manifest-%d", i)))
		if err != nil {
			panic(err)
		}
		digests = append(digests, d)
	}
	for i := 0; i < maxDeps; i++ {
		d, err := core.NewDigester().FromBytes([]byte(fmt.Sprintf("layer-%d", i)))
		if err != nil {
			panic(err)
		}
		depDigests = append(depDigests, d)
	}
}

// fake origin cluster + dependency resolver: answers come from the PUT in progress.
type fakeOrigin struct {
	blobclient.ClusterClient // nil: any other method panics (recovered by the runner as a violation of the harness assumption)
	mu                       sync.Mutex
	cur                      *Op
	statCalls                int
}

func (o *fakeOrigin) set(op *Op) {
	o.mu.Lock()
	o.cur = op
	o.mu.Unlock()
}

func (o *fakeOrigin) Stat(namespace string, d core.Digest) (*core.BlobInfo, error) {
	o.mu.Lock()
	defer o.mu.Unlock()
	o.statCalls++
	if o.cur == nil {
		return nil, errors.New("no request in progress")
	}
	for i := range o.cur.Deps {
		if i < maxDeps && depDigests[i] == d {
			switch o.cur.Deps[i] {
			case depPresent:
				return core.NewBlobInfo(1), nil
			case depNotFound:
				return nil, blobclient.ErrBlobNotFound
			default:
				return nil, errors.New("origin unavailable")
			}
		}
	}
	return nil, blobclient.ErrBlobNotFound
}

func (o *fakeOrigin) Resolve(tag string, d core.Digest) (core.DigestList, error) {
	o.mu.Lock()
	defer o.mu.Unlock()
	if o.cur == nil || o.cur.ResolveErr {
		return nil, errors.New("cannot resolve dependencies")
	}
	var l core.DigestList
	for i := range o.cur.Deps {
		if i < maxDeps {
			l = append(l, depDigests[i])
		}
	}
	return l, nil
}

// fake backend.
type fakeBackend struct {
	mu       sync.Mutex
	mode     int
	data     map[string][]byte
	uploads  int
	failures int
}

func (b *fakeBackend) Stat(namespace, name string) (*core.BlobInfo, error) {
	b.mu.Lock()
	defer b.mu.Unlock()
	if b.mode == beDown || b.mode == beStatErrors {
		b.failures++
		return nil, errors.New("backend stat failed")
	}
	if v, ok := b.data[name]; ok {
		return core.NewBlobInfo(int64(len(v))), nil
	}
	return nil, backenderrors.ErrBlobNotFound
}

func (b *fakeBackend) Upload(namespace, name string, src io.Reader) error {
	b.mu.Lock()
	mode := b.mode
	b.uploads++
	b.mu.Unlock()
	switch mode {
	case beDown, beUploadFails:
		b.note()
		return errors.New("backend upload failed")
	case beReadHalf:
		io.CopyN(io.Discard, src, 30)
		b.note()
		return errors.New("backend upload broke")
	}
	v, err := io.ReadAll(src)
	if err != nil {
		return err
	}
	b.mu.Lock()
	b.data[name] = v
	b.mu.Unlock()
	if mode == beAckLost {
		b.note()
		return errors.New("backend upload: response lost")
	}
	return nil
}

func (b *fakeBackend) note() {
	b.mu.Lock()
	b.failures++
	b.mu.Unlock()
}

func (b *fakeBackend) Download(namespace, name string, dst io.Writer) error {
	b.mu.Lock()
	defer b.mu.Unlock()
	if b.mode == beDown {
		b.failures++
		return errors.New("backend download failed")
	}
	v, ok := b.data[name]
	if !ok {
		return backenderrors.ErrBlobNotFound
	}
	_, err := dst.Write(v)
	return err
}

func (b *fakeBackend) List(prefix string, opts ...backend.ListOption) (*backend.ListResult, error) {
	return nil, errors.New("not supported")
}

func (b *fakeBackend) Close() error { return nil }

func (b *fakeBackend) setMode(m int) {
	b.mu.Lock()
	b.mode = m
	b.mu.Unlock()
}

// content returns what the backend holds for the tag, bypassing fault modes.
func (b *fakeBackend) content(name string) (string, bool) {
	b.mu.Lock()
	defer b.mu.Unlock()
	v, ok := b.data[name]
	return string(v), ok
}

type noNeighbors struct{}

func (noNeighbors) Resolve() stringset.Set { return stringset.New() }

// ---------------------------------------------------------------------------

type node struct {
	handler http.Handler
	be      *fakeBackend
	origin  *fakeOrigin
	close   func()
}

func newNode(dir string, c Case) (*node, error) {
	var closers []func()
	closeAll := func() {
		for i := len(closers) - 1; i >= 0; i-- {
			closers[i]()
		}
	}
	ss, err := store.NewSimpleStore(store.SimpleStoreConfig{
		UploadDir: filepath.Join(dir, "upload"),
		CacheDir:  filepath.Join(dir, "cache"),
	}, tally.NoopScope)
	if err != nil {
		return nil, fmt.Errorf("simple store: %v", err)
	}
	closers = append(closers, ss.Close)
	db, err := localdb.New(localdb.Config{Source: filepath.Join(dir, "db", "kraken.db")})
	if err != nil {
		closeAll()
		return nil, fmt.Errorf("localdb: %v", err)
	}
	closers = append(closers, func() { db.Close() })
	backends, err := backend.NewManager(backend.ManagerConfig{}, nil, backend.AuthConfig{}, tally.NoopScope)
	if err != nil {
		closeAll()
		return nil, fmt.Errorf("backend manager: %v", err)
	}
	be := &fakeBackend{data: map[string][]byte{}}
	if err := backends.Register(".*", be, false); err != nil {
		closeAll()
		return nil, err
	}
	workers := c.Workers
	if workers < 1 || workers > 4 {
		workers = 1
	}
	wbm, err := persistedretry.NewManager(persistedretry.Config{
		IncomingBuffer:      4,
		RetryBuffer:         4,
		NumIncomingWorkers:  workers,
		NumRetryWorkers:     1,
		MaxTaskThroughput:   time.Millisecond,
		RetryInterval:       2 * time.Millisecond,
		PollRetriesInterval: 3 * time.Millisecond,
		SyncRetryBackoff: httputil.ExponentialBackOffConfig{
			Enabled: true, InitialInterval: time.Millisecond, MaxInterval: 2 * time.Millisecond, MaxRetries: 2,
		},
		Testing: true,
	}, tally.NoopScope, writeback.NewStore(db), writeback.NewExecutor(tally.NoopScope, ss, backends))
	if err != nil {
		closeAll()
		return nil, fmt.Errorf("write-back manager: %v", err)
	}
	closers = append(closers, wbm.Close)
	ts := tagstore.New(tagstore.Config{WriteThrough: c.WriteThrough}, ss, backends, wbm)
	origin := &fakeOrigin{}
	srv := tagserver.New(tagserver.Config{}, tally.NoopScope, backends, "origin.local", origin, noNeighbors{}, ts,
		tagreplication.Remotes{}, nil, nil, origin, otel.Tracer("c32"))
	return &node{handler: srv.Handler(), be: be, origin: origin, close: closeAll}, nil
}

func (n *node) do(method, path string) (int, string) {
	req := httptest.NewRequest(method, path, nil).WithContext(context.Background())
	rec := httptest.NewRecorder()
	n.handler.ServeHTTP(rec, req)
	return rec.Code, rec.Body.String()
}

func (n *node) put(op *Op) int {
	n.origin.set(op)
	defer n.origin.set(nil)
	code, _ := n.do("PUT", fmt.Sprintf("/tags/%s/digest/%s", url.PathEscape(tagName(op.Tag)), digests[op.Dig].String()))
	return code
}

func (n *node) get(tag int) (int, string) {
	return n.do("GET", "/tags/"+url.PathEscape(tagName(tag)))
}

func ok2xx(code int) bool { return code >= 200 && code < 300 }

// model of one tag, written from the statement.
type tagModel struct {
	allowed   map[string]bool // digests put for the tag in a request whose dependencies were all present
	succeeded bool            // some PUT returned 2xx
	pinned    string          // digest the node resolved the tag to the first time it resolved it
}

type outcome struct {
	violation string
	liveness  string
	infra     string
	classes   []string
	nontriv   bool
}

const livenessBound = 10 * time.Second

func runOnce(c Case) (out outcome) {
	dir, err := os.MkdirTemp(memscratch.Base("c32"), "c32-")
	if err != nil {
		out.infra = err.Error()
		return
	}
	defer os.RemoveAll(dir)
	n, err := newNode(dir, c)
	if err != nil {
		out.infra = err.Error()
		return
	}
	defer n.close()

	tags := make([]*tagModel, nTags)
	for i := range tags {
		tags[i] = &tagModel{allowed: map[string]bool{}}
	}
	cls := map[string]bool{}

	// observe applies the oracles that hold at every moment.
	observe := func(where string) string {
		for ti, tm := range tags {
			code, body := n.get(ti)
			switch {
			case code == http.StatusOK:
				if !tm.allowed[body] {
					return fmt.Sprintf("tag resolves to a digest that was never put for it with all dependencies present\n  %s: tag %d -> %q, digests validly put: %v", where, ti, body, keys(tm.allowed))
				}
				if tm.pinned == "" {
					tm.pinned = body
				} else if tm.pinned != body {
					return fmt.Sprintf("tag changed on the node after it was stored\n  %s: tag %d resolved to %s before, now %s", where, ti, tm.pinned, body)
				}
			case tm.succeeded:
				return fmt.Sprintf("tag does not resolve although a PUT for it succeeded\n  %s: GET tag %d -> %d %q", where, ti, code, strings.TrimSpace(body))
			}
			if v, ok := n.be.content(tagName(ti)); ok {
				if !tm.allowed[v] {
					return fmt.Sprintf("backend holds a digest for the tag that was never validly put\n  %s: tag %d backend=%q", where, ti, v)
				}
				if tm.pinned != "" && v != tm.pinned {
					return fmt.Sprintf("backend holds a different digest than the build-index resolves\n  %s: tag %d backend=%s node=%s", where, ti, v, tm.pinned)
				}
			}
		}
		return ""
	}

	for i := range c.Ops {
		op := c.Ops[i]
		where := fmt.Sprintf("after step %d", i)
		switch op.K {
		case opPut:
			if op.Tag < 0 || op.Tag >= nTags || op.Dig < 0 || op.Dig >= nDigests {
				continue
			}
			if len(op.Deps) > maxDeps {
				op.Deps = op.Deps[:maxDeps]
			}
			tm := tags[op.Tag]
			depsOK := !op.ResolveErr
			missing, erroring := false, false
			for _, s := range op.Deps {
				if s == depNotFound {
					missing = true
				} else if s != depPresent {
					erroring = true
				}
			}
			if missing || erroring {
				depsOK = false
			}
			d := digests[op.Dig].String()
			if depsOK {
				tm.allowed[d] = true
				if tm.pinned != "" && tm.pinned != d {
					cls["put-of-other-digest-on-stored-tag"] = true
				}
			}
			n.be.mu.Lock()
			mode := n.be.mode
			n.be.mu.Unlock()
			code := n.put(&op)
			if ok2xx(code) {
				if !depsOK {
					what := "a dependency is missing"
					if op.ResolveErr {
						what = "the dependencies could not be resolved"
					} else if !missing {
						what = "a dependency check failed"
					}
					out.violation = fmt.Sprintf("tag PUT succeeded although %s\n  step %d: PUT tag %d digest %d deps=%v resolve_err=%v -> %d", what, i, op.Tag, op.Dig, op.Deps, op.ResolveErr, code)
					return
				}
				tm.succeeded = true
				cls["put-ok"] = true
				if c.WriteThrough {
					// Synchronous write-back: the backend holds the tag now, with the digest the node resolves.
					code2, body := n.get(op.Tag)
					v, have := n.be.content(tagName(op.Tag))
					if !have {
						out.violation = fmt.Sprintf("write-through PUT succeeded but the backend does not hold the tag\n  step %d: PUT tag %d digest %d -> %d (backend mode %d)", i, op.Tag, op.Dig, code, mode)
						return
					}
					if code2 == http.StatusOK && v != body {
						out.violation = fmt.Sprintf("write-through PUT succeeded but the backend holds a different digest than the node\n  step %d: tag %d backend=%s node=%s", i, op.Tag, v, body)
						return
					}
					if mode != beHealthy {
						cls["write-through-ok-despite-backend-fault"] = true
					}
				}
			} else {
				switch {
				case op.ResolveErr:
					cls["put-rejected-resolver-error"] = true
				case missing:
					cls["put-rejected-missing-dependency"] = true
				case erroring:
					cls["put-rejected-dependency-error"] = true
				case c.WriteThrough && mode != beHealthy:
					cls["write-through-put-failed-backend-fault"] = true
				default:
					cls["put-failed-unexpectedly"] = true
				}
			}
		case opGet:
			code, _ := n.get(op.Tag % nTags)
			if code == http.StatusOK {
				cls["get-200"] = true
			} else {
				cls["get-miss"] = true
			}
		case opBackend:
			m := op.N
			if m < 0 || m >= nBackendModes {
				m = beHealthy
			}
			n.be.setMode(m)
		case opSleep:
			ms := op.N
			if ms < 0 || ms > 50 {
				ms = 50
			}
			time.Sleep(time.Duration(ms) * time.Millisecond)
		}
		if v := observe(where); v != "" {
			out.violation = v
			return
		}
	}

	// Quiescence: backend healthy; every tag whose PUT succeeded reaches the backend.
	n.be.setMode(beHealthy)
	deadline := time.Now().Add(livenessBound)
	for {
		var missing []string
		for ti, tm := range tags {
			if tm.succeeded {
				if _, ok := n.be.content(tagName(ti)); !ok {
					missing = append(missing, fmt.Sprintf("tag %d", ti))
				}
			}
		}
		if len(missing) == 0 {
			break
		}
		if time.Now().After(deadline) {
			out.liveness = fmt.Sprintf("%s not in the backend (write-through=%v)", strings.Join(missing, ", "), c.WriteThrough)
			return
		}
		time.Sleep(2 * time.Millisecond)
	}
	if v := observe("at quiescence"); v != "" {
		out.violation = v
		return
	}
	n.be.mu.Lock()
	if n.be.failures > 0 && n.be.uploads > 0 {
		cls["backend-fault-hit"] = true
	}
	n.be.mu.Unlock()
	anyOK := false
	for _, tm := range tags {
		anyOK = anyOK || tm.succeeded
	}
	if c.WriteThrough {
		cls["mode-write-through"] = true
	} else {
		cls["mode-async"] = true
	}
	rejected := cls["put-rejected-missing-dependency"] || cls["put-rejected-dependency-error"] || cls["put-rejected-resolver-error"]
	out.nontriv = anyOK && (rejected || cls["put-of-other-digest-on-stored-tag"] || cls["backend-fault-hit"])
	for k := range cls {
		out.classes = append(out.classes, k)
	}
	return
}

func keys(m map[string]bool) []string {
	var l []string
	for k := range m {
		l = append(l, k[:14])
	}
	return l
}

func run(c Case) pbt.Verdict {
	var last outcome
	for attempt := 0; attempt < 3; attempt++ {
		last = runOnce(c)
		if last.infra != "" {
			return pbt.Verdict{Discard: true, Classes: []string{"infra"}}
		}
		if last.violation != "" {
			return pbt.Fail("%s", last.violation)
		}
		if last.liveness == "" {
			return pbt.OK(last.nontriv, last.classes...)
		}
	}
	return pbt.Fail("a successfully put tag never reaches the backend although the backend is healthy (3 runs, 10 s each)\n  %s", last.liveness)
}

var _ = bytes.NewReader

func TestProp(t *testing.T) {
	pbt.Main(t, pbt.Spec{
		ID: "C32",
		Rule: "generated histories (<=14 steps) of PUT /tags/{tag}/digest/{digest} (2 tags x 3 digests, 0-3 dependencies each present / not found / erroring, resolver errors), GET, backend fault modes " +
			"(down, upload fails, stat errors, acknowledgement lost, broken mid-upload) and short sleeps, in write-through or asynchronous mode, against the real tag server + tag store + SimpleStore + write-back manager; " +
			"oracles: 2xx only if the resolver answered and every dependency was present; a tag only ever resolves to a digest that was put with all dependencies present, never changes once it resolved, and keeps resolving after a 2xx; " +
			"the backend never holds another digest than the node; write-through: backend holds the node's digest when the PUT returns 2xx; at quiescence (healthy backend) every successfully put tag is in the backend with the node's digest; " +
			"non-trivial = at least one PUT succeeded AND (a PUT was rejected for its dependencies OR another digest was put on a stored tag OR a backend fault hit a write-back); distinct by case hash",
		Assumptions: []string{
			"fake origin cluster client, dependency resolver and in-memory backend are trusted; only this node writes to the backend (no pre-populated tags, no neighbours, no remotes)",
			"no cache eviction: SimpleStore cleanup is disabled, so 'stored on a node' lasts for the whole history",
			"liveness is bounded: 10 s of healthy backend without the tag arriving, reproduced 3 times, counts as never",
		},
		Parts: []pbt.Part{pbt.NewPart("history", 1, gen, run)},
	})
}
