// C22 — rendezvous ordering is insertion-independent and minimally disruptive.
//
// Part "order": a generated node set (labels, weights, hash/score-function pair) is loaded
// into hrw.RendezvousHash objects in two different insertion orders. For ALL 65 536
// four-hex-digit keys, the 256 two-digit keys the CA store uses and generated long keys (up to
// 512 key bytes; labels up to ~230 bytes) the
// ordered list is compared with the order given by a reference score the harness computes
// itself, the two insertion orders must agree, removing a drawn node / adding a new node must
// only delete / insert that node, and on a key subset the same is checked for EVERY single
// node removal and re-addition.
//
// Part "scorefunc": hrw.UInt64ToFloat64 against its documented definition, with inputs
// concentrated on the values whose 53 low bits are zero (the re-hash rule).
package c22

import (
	"crypto/sha256"
	"encoding/binary"
	"encoding/hex"
	"fmt"
	"hash"
	"math"
	"os"
	"runtime/debug"
	"sort"
	"strings"
	"sync"
	"testing"

	"github.com/spaolacci/murmur3"
	"github.com/uber/kraken/lib/hrw"
	"pgregory.net/rapid"

	"verif/internal/pbt"
)

// Node is one weighted node.
type Node struct {
	Label  string `json:"l"`
	Weight int    `json:"w"`
}

// Hash/score-function pairs.
const (
	murmurUint = iota // what hashring and the CA store volumes use
	shaBig
	shaUint
	murmurBig
	nKinds
)

var kindName = []string{"murmur3+UInt64ToFloat64", "sha256+BigIntToFloat64", "sha256+UInt64ToFloat64", "murmur3+BigIntToFloat64"}

// Case is one generated configuration.
type Case struct {
	Kind     int      `json:"kind"`
	Nodes    []Node   `json:"nodes"`  // distinct labels, weights >= 1; insertion order of the first hash
	Order2   []int    `json:"order2"` // permutation of node indices: insertion order of the second hash
	Remove   int      `json:"remove"` // node removed for the sweep over all keys
	Extra    Node     `json:"extra"`  // new node added for the sweep over all keys
	LongKeys []string `json:"long"`   // even-length hex strings, 2..1024 digits (1..512 key bytes), any case
	Trunc    []int    `json:"trunc"`  // values of n for GetOrderedNodes(key, n), >= 0
	Stride   int      `json:"stride"` // the key subset takes every 64th shard starting here (0..63)
}

// ---------------------------------------------------------------- generator

func genLabel(t *rapid.T) string {
	switch rapid.IntRange(0, 4).Draw(t, "form") {
	case 0:
		return fmt.Sprintf("10.%d.%d.%d:%d", rapid.IntRange(0, 3).Draw(t, "a"), rapid.IntRange(0, 255).Draw(t, "b"), rapid.IntRange(1, 254).Draw(t, "c"),
			rapid.SampledFrom([]int{80, 5055, 15002}).Draw(t, "port"))
	case 1:
		return fmt.Sprintf("kraken-origin%02d-%s:15002", rapid.IntRange(1, 40).Draw(t, "n"), rapid.SampledFrom([]string{"dca1", "sjc1"}).Draw(t, "dc"))
	case 2:
		return fmt.Sprintf("/mnt/disk%d/kraken", rapid.IntRange(0, 30).Draw(t, "disk"))
	case 3:
		return rapid.StringMatching(`[a-z0-9]{1,8}`).Draw(t, "short")
	default:
		return fmt.Sprintf("n%d", rapid.IntRange(0, 50).Draw(t, "k"))
	}
}

// genFamilyLabel draws labels that are prefixes/extensions of one another (host:80 vs host:8080,
// /mnt/disk1 vs /mnt/disk10), as real host lists and volume lists contain.
func genFamilyLabel(t *rapid.T) string {
	base := rapid.SampledFrom([]string{"10.0.0.1:80", "origin1:80", "/mnt/disk1", "n1", "origin1", "10.0.0.1"}).Draw(t, "base")
	return base + rapid.SampledFrom([]string{"", "0", "80", "1", "00"}).Draw(t, "ext")
}

// genLongFamily returns a generator of long labels (up to ~230 bytes) that share one drawn prefix and
// differ only in a short tail: fully qualified host:port names of one cluster differing in the host
// number or the port, volume paths below one deep mount point. Nothing in lib/hrw bounds the label
// length, and the statement quantifies over all node sets.
func genLongFamily(t *rapid.T) *rapid.Generator[string] {
	head := rapid.SampledFrom([]string{"kraken-origin-", "/var/lib/kraken/volumes/", "agent-"}).Draw(t, "head")
	seg := rapid.SampledFrom([]string{"prod.dca1.example.internal.", "rack12/shelf03/", "x"}).Draw(t, "seg")
	padLen := rapid.SampledFrom([]int{0, 16, 30, 40, 62, 64, 100, 110, 126, 128, 160, 200}).Draw(t, "padLen")
	if rapid.Bool().Draw(t, "anyPad") {
		padLen = rapid.IntRange(0, 200).Draw(t, "padLenAny")
	}
	prefix := head + strings.Repeat(seg, padLen/len(seg)+1)[:padLen]
	return rapid.Custom(func(t *rapid.T) string {
		switch rapid.IntRange(0, 2).Draw(t, "tail") {
		case 0:
			return fmt.Sprintf("%s%02d:15002", prefix, rapid.IntRange(0, 40).Draw(t, "host"))
		case 1:
			return fmt.Sprintf("%shost:%d", prefix, rapid.IntRange(15000, 15040).Draw(t, "port"))
		default:
			return prefix + rapid.StringMatching(`[a-z0-9]{1,6}`).Draw(t, "sfx")
		}
	})
}

// genKey draws an even-length hex key of 1..512 key bytes: half of them in the digest range (1..32
// bytes), the rest longer, with the lengths around powers of two and around 128 bytes over-represented.
func genKey(t *rapid.T) string {
	var nb int
	switch rapid.IntRange(0, 7).Draw(t, "keyForm") {
	case 0, 1, 2, 3:
		nb = rapid.IntRange(1, 32).Draw(t, "keyBytes")
	case 4:
		nb = rapid.IntRange(33, 128).Draw(t, "keyBytesMid")
	case 5:
		nb = rapid.SampledFrom([]int{33, 48, 63, 64, 65, 96, 100, 120, 127, 128, 129, 130, 160, 192, 255, 256, 257, 384, 512}).Draw(t, "keyBytesEdge")
	default:
		nb = rapid.IntRange(129, 512).Draw(t, "keyBytesLong")
	}
	raw := rapid.SliceOfN(rapid.Byte(), nb, nb).Draw(t, "keyRaw")
	k := []byte(hex.EncodeToString(raw))
	switch rapid.IntRange(0, 2).Draw(t, "keyCase") {
	case 0: // lower case
	case 1:
		k = []byte(strings.ToUpper(string(k)))
	default: // mixed: the bits of a drawn word, cyclically, choose the case of each digit
		m := rapid.Uint64().Draw(t, "caseBits")
		for i := range k {
			if m>>(uint(i)%64)&1 == 1 && k[i] >= 'a' {
				k[i] -= 'a' - 'A'
			}
		}
	}
	return string(k)
}

func genWeight(t *rapid.T) int {
	switch rapid.IntRange(0, 3).Draw(t, "wform") {
	case 0:
		return 100
	case 1:
		return rapid.SampledFrom([]int{1, 2, 3, 999, 1000}).Draw(t, "wedge")
	default:
		return rapid.IntRange(1, 1000).Draw(t, "w")
	}
}

func gen(t *rapid.T) Case {
	n := rapid.IntRange(1, 16).Draw(t, "n")
	if rapid.Bool().Draw(t, "atLeast4") && n < 4 {
		n = rapid.IntRange(4, 16).Draw(t, "n4")
	}
	kind := rapid.SampledFrom([]int{murmurUint, murmurUint, murmurUint, shaBig, shaUint, murmurBig}).Draw(t, "kind")
	if (kind == shaBig || kind == murmurBig) && n > 10 {
		n = 10 // big.Float scoring is an order of magnitude slower; keeps the per-case cost bounded
	}
	labelGen := rapid.Custom(genLabel)
	switch rapid.IntRange(0, 5).Draw(t, "family") {
	case 0, 1:
		labelGen = rapid.OneOf(rapid.Custom(genFamilyLabel), rapid.Custom(genFamilyLabel), rapid.Custom(genLabel))
	case 2, 3:
		long := genLongFamily(t)
		labelGen = rapid.OneOf(long, long, long, rapid.Custom(genLabel))
	}
	labels := rapid.SliceOfNDistinct(labelGen, n+1, n+1, rapid.ID[string]).Draw(t, "labels")
	equalWeights := rapid.IntRange(0, 3).Draw(t, "equalWeights") == 0
	c := Case{Kind: kind}
	for i := 0; i < n; i++ {
		w := 100
		if !equalWeights {
			w = genWeight(t)
		}
		c.Nodes = append(c.Nodes, Node{labels[i], w})
	}
	c.Extra = Node{labels[n], genWeight(t)}
	idx := make([]int, n)
	for i := range idx {
		idx[i] = i
	}
	c.Order2 = rapid.Permutation(idx).Draw(t, "order2")
	same := true
	for i, v := range c.Order2 {
		if v != i {
			same = false
		}
	}
	if same { // make the second order different whenever that is possible
		for i, j := 0, n-1; i < j; i, j = i+1, j-1 {
			c.Order2[i], c.Order2[j] = c.Order2[j], c.Order2[i]
		}
	}
	c.Remove = rapid.IntRange(0, n-1).Draw(t, "remove")
	c.LongKeys = rapid.SliceOfN(rapid.Custom(genKey), 8, 48).Draw(t, "long")
	c.Trunc = rapid.SliceOfN(rapid.IntRange(0, n+2), 1, 4).Draw(t, "trunc")
	c.Stride = rapid.IntRange(0, 63).Draw(t, "stride")
	return c
}

// ---------------------------------------------------------------- reference score

const mask53 = uint64(1)<<53 - 1

// refL returns ln(u) where u in (0,1) is the documented uniform value derived from the hash of
// key||label; the reference score is -weight/refL. ok=false when u is 0 or 1 (score undefined).
func refL(kind int, key []byte, label string) (float64, bool) {
	buf := make([]byte, 0, len(key)+len(label))
	buf = append(buf, key...)
	buf = append(buf, label...)
	var sum []byte
	switch kind {
	case murmurUint, murmurBig:
		var b [8]byte
		binary.BigEndian.PutUint64(b[:], murmur3.Sum64(buf))
		sum = b[:]
	default:
		s := sha256.Sum256(buf)
		sum = s[:]
	}
	var u float64
	switch kind {
	case murmurUint, shaUint:
		// UInt64ToFloat64: the low 53 bits of the first 8 bytes, as a fraction of 2^53; when they are
		// all zero the whole hash value is hashed once more.
		v := binary.BigEndian.Uint64(sum[:8]) & mask53
		if v == 0 {
			if kind == murmurUint {
				v = murmur3.Sum64(sum) & mask53
			} else {
				s := sha256.Sum256(sum)
				v = binary.BigEndian.Uint64(s[:8]) & mask53
			}
		}
		u = float64(v) / float64(uint64(1)<<53)
	default:
		// BigIntToFloat64: the hash as a big-endian integer divided by the largest hash value. The 128
		// leading bits determine the quotient far beyond the tolerance used below.
		hi := float64(binary.BigEndian.Uint64(sum[:8]))
		if len(sum) >= 16 { // keep full float64 precision when the hash starts with zero bits
			hi += float64(binary.BigEndian.Uint64(sum[8:16])) / float64(math.MaxUint64)
		}
		u = hi / float64(math.MaxUint64)
	}
	if !(u > 0 && u < 1) {
		return 0, false
	}
	return math.Log(u), true
}

func newHash(kind int) *hrw.RendezvousHash {
	switch kind {
	case murmurUint:
		return hrw.NewRendezvousHash(hrw.Murmur3Hash, hrw.UInt64ToFloat64)
	case shaBig:
		return hrw.NewRendezvousHash(sha256.New, hrw.BigIntToFloat64)
	case shaUint:
		return hrw.NewRendezvousHash(sha256.New, hrw.UInt64ToFloat64)
	default:
		return hrw.NewRendezvousHash(func() hash.Hash { return murmur3.New64() }, hrw.BigIntToFloat64)
	}
}

// ---------------------------------------------------------------- run

func validate(c Case) string {
	n := len(c.Nodes)
	if n == 0 || n > 64 || c.Kind < 0 || c.Kind >= nKinds || len(c.Order2) != n || c.Remove < 0 || c.Remove >= n || c.Stride < 0 || c.Stride > 63 {
		return "malformed case"
	}
	seen := map[string]bool{}
	for _, nd := range append(append([]Node{}, c.Nodes...), c.Extra) {
		if seen[nd.Label] || nd.Weight < 1 {
			return "duplicate label or non-positive weight"
		}
		seen[nd.Label] = true
	}
	p := map[int]bool{}
	for _, v := range c.Order2 {
		if v < 0 || v >= n || p[v] {
			return "order2 is not a permutation"
		}
		p[v] = true
	}
	for _, k := range c.LongKeys {
		if len(k)%2 != 0 || len(k) == 0 {
			return "bad long key"
		}
		if _, err := hex.DecodeString(k); err != nil {
			return "bad long key"
		}
	}
	for _, v := range c.Trunc {
		if v < 0 {
			return "negative n"
		}
	}
	return ""
}

type failure struct {
	key int
	msg string
}

type stats struct {
	lists     int
	ambiguous int
	undefined int
}

// idCache maps (label, weight) to the "label/weight" identity used in lists and messages.
type idCache map[string]map[int]string

func (ic idCache) labelsOf(nodes []*hrw.RendezvousHashNode) []string {
	out := make([]string, len(nodes))
	for i, n := range nodes {
		if n == nil {
			out[i] = "<nil>"
			continue
		}
		if s, ok := ic[n.Label][n.Weight]; ok {
			out[i] = s
			continue
		}
		out[i] = fmt.Sprintf("%s/%d", n.Label, n.Weight)
	}
	return out
}

func run(c Case) pbt.Verdict {
	if why := validate(c); why != "" {
		return pbt.Verdict{Discard: true, Classes: []string{"discard:" + why}}
	}
	n := len(c.Nodes)
	workers := 4
	if os.Getenv("VERIF_TIER") == "thorough" {
		workers = 2
	}

	// Key space: all shards, the CA store's 256 upper-case subdirectory keys, generated long keys.
	keys := make([]string, 0, 1<<16+256+len(c.LongKeys))
	subset := make([]bool, 0, cap(keys))
	for s := 0; s < 1<<16; s++ {
		keys = append(keys, fmt.Sprintf("%04x", s))
		subset = append(subset, s%64 == c.Stride)
	}
	for s := 0; s < 256; s++ {
		keys = append(keys, fmt.Sprintf("%02X", s))
		subset = append(subset, true)
	}
	for _, k := range c.LongKeys {
		keys = append(keys, k)
		subset = append(subset, true)
	}

	id := func(nd Node) string { return fmt.Sprintf("%s/%d", nd.Label, nd.Weight) }
	ids := make([]string, n)
	for i, nd := range c.Nodes {
		ids[i] = id(nd)
	}
	extraID := id(c.Extra)
	ic := idCache{} // read-only once the workers start
	for _, nd := range append(append([]Node{}, c.Nodes...), c.Extra) {
		ic[nd.Label] = map[int]string{nd.Weight: id(nd)}
	}
	labelsOf := ic.labelsOf

	fails := make([]*failure, workers)
	sts := make([]stats, workers)
	var wg sync.WaitGroup
	for w := 0; w < workers; w++ {
		wg.Add(1)
		go func(w int) {
			defer wg.Done()
			cur := -1
			defer func() {
				if r := recover(); r != nil {
					fails[w] = &failure{cur, fmt.Sprintf("panic in rendezvous hash (key index %d): %v", cur, r)}
				}
			}()
			st := &sts[w]
			fail := func(ki int, format string, args ...interface{}) {
				fails[w] = &failure{ki, fmt.Sprintf(format, args...) + fmt.Sprintf(" [key %q, %s, nodes in insertion order %v]", keys[ki], kindName[c.Kind], ids)}
			}
			// Every worker owns its hash objects (the type documents no concurrency guarantees).
			a, b := newHash(c.Kind), newHash(c.Kind)
			for _, nd := range c.Nodes {
				a.AddNode(nd.Label, nd.Weight)
			}
			// b: the same nodes in the second insertion order, with the new node inserted in the middle.
			for k, i := range c.Order2 {
				if k == n/2 {
					b.AddNode(c.Extra.Label, c.Extra.Weight)
				}
				b.AddNode(c.Nodes[i].Label, c.Nodes[i].Weight)
			}

			var mine []int
			for ki := w; ki < len(keys); ki += workers {
				mine = append(mine, ki)
			}
			var held []*hrw.RendezvousHashNode // the list returned by the previous lookup on a, still referenced
			var heldLabels []string
			heldKey := -1
			base := make(map[int][]string, len(mine)) // key index -> ordered ids; absent = key skipped (ambiguous reference)
			type rs struct {
				id string
				l  float64
				s  float64
			}
			ref := make([]rs, n)

			without := func(list []string, x string) []string {
				out := make([]string, 0, len(list))
				for _, l := range list {
					if l != x {
						out = append(out, l)
					}
				}
				return out
			}

			// Relative score gap below which the reference does not determine the order of two nodes: the
			// UInt64ToFloat64 reference is the documented float64 formula itself, the BigIntToFloat64
			// reference rounds differently from big.Float (error < 1e-15 relative).
			tieTol := 1e-12
			if c.Kind == shaBig || c.Kind == murmurBig {
				tieTol = 1e-9
			}
			// Phase 1: base order against the reference, insertion independence + node addition, truncation.
			for _, ki := range mine {
				cur = ki
				key := keys[ki]
				kb, _ := hex.DecodeString(key)
				defined := true
				for i, nd := range c.Nodes {
					l, ok := refL(c.Kind, kb, nd.Label)
					if !ok {
						defined = false
					}
					ref[i] = rs{ids[i], l, -float64(nd.Weight) / l}
				}
				if !defined {
					st.undefined++
					continue
				}
				sorted := append([]rs{}, ref...)
				sort.Slice(sorted, func(i, j int) bool { return sorted[i].s > sorted[j].s })
				unambiguous := true
				for i := 0; i+1 < n; i++ {
					if !(sorted[i].s-sorted[i+1].s > tieTol*math.Abs(sorted[i].s)) {
						unambiguous = false
					}
				}
				if !unambiguous {
					// Two nodes have (nearly) the same score for this key: the statement's "sorted by
					// descending score" does not determine their order. Skipped and counted.
					st.ambiguous++
					continue
				}
				la := a.GetOrderedNodes(key, n)
				st.lists++
				got := labelsOf(la)
				// A list handed out earlier is the caller's: later lookups must not rewrite it.
				if held != nil && !equal(labelsOf(held), heldLabels) {
					fail(heldKey, "the ordered list returned for this key changed when key %q was looked up afterwards: was %v, now %v", key, heldLabels, labelsOf(held))
					return
				}
				held, heldLabels, heldKey = la, got, ki
				if len(got) != n {
					fail(ki, "ordered list has %d entries for %d nodes: %v", len(got), n, got)
					return
				}
				for i := range sorted {
					if got[i] != sorted[i].id {
						want := make([]string, n)
						for j := range sorted {
							want[j] = sorted[j].id
						}
						fail(ki, "ordered list is not the node set sorted by descending score: got %v, reference order %v", got, want)
						return
					}
				}
				// The exported Score must be the documented weighted score and strictly descend along the list.
				prev := math.Inf(1)
				for i, nd := range la {
					s := nd.Score(key)
					if !(s < prev) {
						fail(ki, "scores along the ordered list are not strictly descending at position %d (%v then %v): %v", i, prev, s, got)
						return
					}
					prev = s
					lcode := -float64(nd.Weight) / s
					if !(math.Abs(lcode-sorted[i].l) <= 1e-12+1e-9*math.Abs(sorted[i].l)) {
						fail(ki, "Score of node %s is %v, the documented weighted rendezvous score is %v", got[i], s, sorted[i].s)
						return
					}
				}
				// One lookup judges two claims: a hash holding the same nodes in another insertion order
				// plus one new node must return the same list with only the new node inserted.
				lb := labelsOf(b.GetOrderedNodes(key, n+1))
				st.lists++
				if len(lb) != n+1 || !equal(without(lb, extraID), got) {
					// Tell the two claims apart for the report.
					b0 := newHash(c.Kind)
					for _, i := range c.Order2 {
						b0.AddNode(c.Nodes[i].Label, c.Nodes[i].Weight)
					}
					if l0 := labelsOf(b0.GetOrderedNodes(key, n)); !equal(l0, got) {
						fail(ki, "ordered list depends on insertion order: %v vs %v (second insertion order %v)", got, l0, c.Order2)
						return
					}
					fail(ki, "adding node %s did more than insert it: without it %v, with it %v", extraID, got, lb)
					return
				}
				base[ki] = got
				if subset[ki] {
					for _, tn := range c.Trunc {
						lt := labelsOf(a.GetOrderedNodes(key, tn))
						st.lists++
						m := tn
						if m > n {
							m = n
						}
						if !equal(lt, got[:m]) {
							fail(ki, "GetOrderedNodes(key, %d) is not the first min(n, len) entries of the full list: got %v, full %v", tn, lt, got)
							return
						}
					}
				}
			}

			// Phase 2: remove one drawn node, all keys.
			rm := c.Nodes[c.Remove]
			a.RemoveNode(rm.Label)
			for _, ki := range mine {
				cur = ki
				bl, ok := base[ki]
				if !ok {
					continue
				}
				got := labelsOf(a.GetOrderedNodes(keys[ki], n))
				st.lists++
				if held != nil && !equal(labelsOf(held), heldLabels) {
					fail(heldKey, "the ordered list returned for this key changed when node %s was removed and key %q looked up afterwards: was %v, now %v", ids[c.Remove], keys[ki], heldLabels, labelsOf(held))
					return
				}
				held = nil
				if want := without(bl, ids[c.Remove]); !equal(got, want) {
					fail(ki, "removing node %s changed more than its own entry: before %v, after %v", ids[c.Remove], bl, got)
					return
				}
			}

			// Phase 3: every single-node removal and re-addition, on the key subset.
			for x := 0; x < n; x++ {
				// A fresh hash per removal, alternating between the two insertion orders, so that the node
				// removed sits at every position of the node list, behind and before every other label.
				d := newHash(c.Kind)
				for k := range c.Nodes {
					i := k
					if x%2 == 1 {
						i = c.Order2[k]
					}
					d.AddNode(c.Nodes[i].Label, c.Nodes[i].Weight)
				}
				d.RemoveNode(c.Nodes[x].Label)
				if len(d.Nodes) != n-1 {
					fail(mine[0], "RemoveNode(%s) left %d of %d nodes", ids[x], len(d.Nodes), n)
					return
				}
				for _, ki := range mine {
					cur = ki
					bl, ok := base[ki]
					if !ok || !subset[ki] {
						continue
					}
					got := labelsOf(d.GetOrderedNodes(keys[ki], n))
					st.lists++
					if want := without(bl, ids[x]); !equal(got, want) {
						fail(ki, "removing node %s changed more than its own entry: before %v, after %v", ids[x], bl, got)
						return
					}
				}
				d.AddNode(c.Nodes[x].Label, c.Nodes[x].Weight)
				for _, ki := range mine {
					cur = ki
					bl, ok := base[ki]
					if !ok || !subset[ki] {
						continue
					}
					got := labelsOf(d.GetOrderedNodes(keys[ki], n))
					st.lists++
					if !equal(got, bl) {
						fail(ki, "re-adding node %s did not restore the list: original %v, now %v", ids[x], bl, got)
						return
					}
				}
				// The same key looked up right before and right after a change that keeps the number
				// of nodes: node x is replaced by the new node, then put back.
				probes := 0
				for _, ki := range mine {
					bl, ok := base[ki]
					if !ok || !subset[ki] {
						continue
					}
					if probes++; probes > 12 {
						break
					}
					cur = ki
					if got := labelsOf(d.GetOrderedNodes(keys[ki], n)); !equal(got, bl) {
						fail(ki, "a repeated lookup differs from the first: %v, then %v", bl, got)
						return
					}
					d.RemoveNode(c.Nodes[x].Label)
					d.AddNode(c.Extra.Label, c.Extra.Weight)
					got := labelsOf(d.GetOrderedNodes(keys[ki], n))
					st.lists += 2
					if len(got) != n || !equal(without(got, extraID), without(bl, ids[x])) || len(without(got, extraID)) != n-1 {
						fail(ki, "replacing node %s by %s: the list for the same key is %v; before the change it was %v", ids[x], extraID, got, bl)
						return
					}
					d.RemoveNode(c.Extra.Label)
					d.AddNode(c.Nodes[x].Label, c.Nodes[x].Weight)
					if got := labelsOf(d.GetOrderedNodes(keys[ki], n)); !equal(got, bl) {
						fail(ki, "putting node %s back in place of %s did not restore the list for the same key: original %v, now %v", ids[x], extraID, bl, got)
						return
					}
					st.lists++
				}
			}
		}(w)
	}
	wg.Wait()
	var worst *failure
	for _, f := range fails {
		if f != nil && (worst == nil || f.key < worst.key) {
			worst = f
		}
	}
	if worst != nil {
		return pbt.Verdict{Violation: worst.msg, NonTrivial: true}
	}
	var tot stats
	for _, s := range sts {
		tot.lists += s.lists
		tot.ambiguous += s.ambiguous
		tot.undefined += s.undefined
	}
	cls := []string{"kind:" + kindName[c.Kind]}
	switch {
	case n == 1:
		cls = append(cls, "nodes:1")
	case n <= 4:
		cls = append(cls, "nodes:2-4")
	case n <= 9:
		cls = append(cls, "nodes:5-9")
	default:
		cls = append(cls, "nodes:10-16")
	}
	eq := true
	for _, nd := range c.Nodes {
		if nd.Weight != c.Nodes[0].Weight {
			eq = false
		}
	}
	prefixPair := false
	for i := range c.Nodes {
		for j := range c.Nodes {
			if i != j && strings.HasPrefix(c.Nodes[j].Label, c.Nodes[i].Label) {
				prefixPair = true
			}
		}
	}
	if prefixPair {
		cls = append(cls, "labels-with-prefix-pair")
	}
	maxLabel, maxKey, maxSum := 0, 0, 0
	for _, nd := range c.Nodes {
		if len(nd.Label) > maxLabel {
			maxLabel = len(nd.Label)
		}
	}
	for _, k := range c.LongKeys {
		if len(k)/2 > maxKey {
			maxKey = len(k) / 2
		}
	}
	maxSum = maxKey + maxLabel
	switch {
	case maxLabel > 128:
		cls = append(cls, "label>128B")
	case maxLabel > 40:
		cls = append(cls, "label:41-128B")
	}
	switch {
	case maxKey > 128:
		cls = append(cls, "key>128B")
	case maxKey > 32:
		cls = append(cls, "key:33-128B")
	}
	if maxSum > 256 {
		cls = append(cls, "key+label>256B")
	}
	if eq {
		cls = append(cls, "equal-weights")
	} else {
		cls = append(cls, "mixed-weights")
	}
	if tot.ambiguous > 0 {
		cls = append(cls, "has-skipped-near-tie-keys")
	}
	if tot.undefined > 0 {
		cls = append(cls, "has-skipped-undefined-score-keys")
	}
	sortedIDs := append([]string{}, ids...)
	sort.Strings(sortedIDs)
	return pbt.Verdict{NonTrivial: n >= 2, Classes: cls, Evals: tot.lists,
		NonTrivialKeys: []string{kindName[c.Kind] + "|" + strings.Join(sortedIDs, ",")}}
}

func equal(a, b []string) bool {
	if len(a) != len(b) {
		return false
	}
	for i := range a {
		if a[i] != b[i] {
			return false
		}
	}
	return true
}

// ---------------------------------------------------------------- part "scorefunc"

// SFCase is a batch of 64-bit hash values for UInt64ToFloat64.
type SFCase struct {
	Values []uint64 `json:"values"`
	Dirty  []byte   `json:"dirty"` // bytes already written to the hasher handed in (Score hands in the hasher it used for key||label)
}

func genSF(t *rapid.T) SFCase {
	v := rapid.SliceOfN(rapid.Custom(func(t *rapid.T) uint64 {
		switch rapid.IntRange(0, 4).Draw(t, "shape") {
		case 0: // low 53 bits all zero: k<<53, k in 0..2047
			return uint64(rapid.IntRange(0, 2047).Draw(t, "k")) << 53
		case 1: // one low bit set
			return uint64(rapid.IntRange(0, 2047).Draw(t, "k"))<<53 | uint64(1)<<uint(rapid.IntRange(0, 52).Draw(t, "bit"))
		case 2: // all 53 low bits set
			return uint64(rapid.IntRange(0, 2047).Draw(t, "k"))<<53 | mask53
		default:
			return rapid.Uint64().Draw(t, "any")
		}
	}), 1, 256).Draw(t, "values")
	return SFCase{v, rapid.SliceOfN(rapid.Byte(), 0, 24).Draw(t, "dirty")}
}

func runSF(c SFCase) pbt.Verdict {
	max := []byte{0xff, 0xff, 0xff, 0xff, 0xff, 0xff, 0xff, 0xff}
	zeros := 0
	for _, x := range c.Values {
		var b [8]byte
		binary.BigEndian.PutUint64(b[:], x)
		v := x & mask53
		if v == 0 {
			zeros++
			v = murmur3.Sum64(b[:]) & mask53
		}
		if v == 0 {
			continue // the re-hash is zero as well (probability 2^-53): the documentation promises nothing
		}
		want := float64(v) / float64(uint64(1)<<53)
		h := murmur3.New64()
		h.Write(c.Dirty)
		got := hrw.UInt64ToFloat64(b[:], max, h)
		if got != want {
			return pbt.Fail("UInt64ToFloat64 differs from its documented value (input %#016x: got %v, want %v)", x, got, want)
		}
		if !(got > 0 && got < 1) || math.IsInf(math.Log(got), 0) || math.IsNaN(math.Log(got)) {
			return pbt.Fail("UInt64ToFloat64 returned a value outside (0,1) (input %#016x: %v)", x, got)
		}
	}
	cls := []string{}
	if zeros > 0 {
		cls = append(cls, "has-zero-low-bits")
	}
	if len(c.Dirty) > 0 {
		cls = append(cls, "used-hasher")
	}
	return pbt.Verdict{NonTrivial: zeros > 0, Classes: cls, Evals: len(c.Values)}
}

func TestProp(t *testing.T) {
	// The code under test allocates several small objects per score evaluation; a larger GC target
	// only trades a few MB of heap for less collector work.
	debug.SetGCPercent(400)
	pbt.Main(t, pbt.Spec{
		ID: "C22",
		Rule: "part order: generated node set (1-16 distinct labels, weights 1-1000 or all equal), hash/score pair in {murmur3,sha256}x{UInt64ToFloat64,BigIntToFloat64} (murmur3+UInt64 half of the cases), " +
			"a second insertion order, a node to remove, a new node to add, 8-48 long hex keys (1-512 key bytes, half of them beyond 32 bytes, lengths around 64/128/256 over-represented; one case in three has labels of up to ~230 bytes sharing a long prefix), truncation sizes; for ALL 65536 four-hex-digit keys + the 256 two-digit upper-case keys + the long keys: " +
			"GetOrderedNodes equals the node set ordered by the harness's own reference score (keys where two reference scores are within 1e-12 relative, 1e-9 for BigIntToFloat64, are skipped and counted), exported Score values strictly descend and match the reference, a list returned earlier is not rewritten by a later lookup or removal, the same key looked up right before and after a node is replaced by another (node count unchanged) reflects the replacement, " +
			"a second hash holding the nodes in the other insertion order plus the new node returns the same list with only the new node inserted, RemoveNode of the drawn node only deletes it; on a subset (every 64th shard, the two-digit keys, the long keys) " +
			"truncation to n and EVERY single-node RemoveNode and re-AddNode are checked; evaluations = ordered lists judged; non-trivial = at least 2 nodes; distinct = distinct (hash pair, node set). " +
			"part scorefunc: batches of 64-bit values concentrated on k<<53; UInt64ToFloat64 with a murmur3 re-hasher that already absorbed 0-24 bytes must equal the documented value and lie in (0,1); evaluations = values. " +
			"part neartie: 8-16 nodes (murmur3+UInt64ToFloat64), 300000-600000 consecutive 8-byte keys from a drawn start; the harness computes the reference scores of every key and hands to GetOrderedNodes (two hashes: nodes inserted as generated and reversed) only the keys whose smallest neighbouring-score gap is between 1e-11 and 1e-6 relative; the list must be the reference order; evaluations = lists judged; non-trivial = at least one such key found",
		Assumptions: []string{
			"reference score written from the documentation of lib/hrw (weighted rendezvous hashing: -weight/ln(u), u derived from hash(key bytes||label)) on spaolacci/murmur3 and crypto/sha256 directly",
			"node labels are distinct, weights are positive, keys are even-length hex strings (what hex.DecodeString accepts)",
			"keys for which two reference scores are within 1e-12 (1e-9 for BigIntToFloat64) relative of each other are not judged (order undetermined by the statement); cases containing such keys are reported as a class",
		},
		Parts: []pbt.Part{
			pbt.NewPart("order", 1, gen, run),
			pbt.NewPart("scorefunc", 10, genSF, runSF),
			pbt.NewPart("neartie", 3, genNT, runNT),
		},
	})
}
