package c22

// Part "neartie": a directed search for keys on which two nodes have almost, but not exactly,
// the same score. Part "order" draws keys without looking at the scores, so a pair of scores that
// agrees to 7 significant digits turns up about once in 10^7 (key, node pair) combinations; an
// implementation that compares scores with less than float64 precision (seeded change c22-m135:
// scores cached as float32) orders every other key correctly. Here the harness enumerates keys,
// computes the reference scores itself, and hands a key to the implementation only when the
// smallest gap between neighbouring reference scores is below 1e-6 relative, yet well above the
// tolerance under which the order part calls the order undetermined. The oracle is the same
// as in part "order": the list must be the node set sorted by descending reference score,
// whichever order the nodes were inserted in.

import (
	"encoding/binary"
	"encoding/hex"
	"fmt"
	"math"
	"sort"

	"github.com/uber/kraken/lib/hrw"
	"pgregory.net/rapid"

	"verif/internal/pbt"
)

type NTCase struct {
	Nodes []Node `json:"nodes"`
	Start uint64 `json:"start"` // first key of the enumeration (8 key bytes, big endian)
	Count int    `json:"count"` // number of consecutive keys looked at
}

func genNT(t *rapid.T) NTCase {
	n := rapid.IntRange(8, 16).Draw(t, "n")
	equal := rapid.Bool().Draw(t, "equalWeights")
	seen := map[string]bool{}
	var c NTCase
	for len(c.Nodes) < n {
		l := genLabel(t)
		if seen[l] {
			l = fmt.Sprintf("%s#%d", l, len(c.Nodes))
		}
		if seen[l] {
			continue
		}
		seen[l] = true
		w := 100
		if !equal {
			w = genWeight(t)
		}
		c.Nodes = append(c.Nodes, Node{l, w})
	}
	c.Start = rapid.Uint64().Draw(t, "start")
	c.Count = rapid.IntRange(300000, 600000).Draw(t, "count")
	return c
}

const (
	ntNear = 1e-6 // keys with a neighbouring-score gap below this (relative) are handed to the implementation
	ntTie  = 1e-11
)

func runNT(c NTCase) pbt.Verdict {
	n := len(c.Nodes)
	if n < 2 || c.Count < 1 || c.Count > 1<<20 {
		return pbt.Verdict{Discard: true}
	}
	seen := map[string]bool{}
	for _, nd := range c.Nodes {
		if seen[nd.Label] || nd.Weight < 1 {
			return pbt.Verdict{Discard: true}
		}
		seen[nd.Label] = true
	}
	fwd, rev := newHash(murmurUint), newHash(murmurUint)
	for i := range c.Nodes {
		fwd.AddNode(c.Nodes[i].Label, c.Nodes[i].Weight)
		rev.AddNode(c.Nodes[n-1-i].Label, c.Nodes[n-1-i].Weight)
	}
	type rs struct {
		label string
		s     float64
	}
	ref := make([]rs, n)
	judged, tight := 0, 0
	var kb [8]byte
	for k := 0; k < c.Count; k++ {
		binary.BigEndian.PutUint64(kb[:], c.Start+uint64(k))
		ok := true
		for i, nd := range c.Nodes {
			l, def := refL(murmurUint, kb[:], nd.Label)
			if !def {
				ok = false
				break
			}
			ref[i] = rs{nd.Label, -float64(nd.Weight) / l}
		}
		if !ok {
			continue
		}
		sort.Slice(ref, func(i, j int) bool { return ref[i].s > ref[j].s })
		minGap := math.Inf(1)
		for i := 0; i+1 < n; i++ {
			g := (ref[i].s - ref[i+1].s) / math.Abs(ref[i].s)
			if g < minGap {
				minGap = g
			}
		}
		if !(minGap < ntNear) || !(minGap > ntTie) {
			continue // ordinary key (part "order" covers those), or a tie the statement does not decide
		}
		judged++
		if minGap < 1e-7 {
			tight++
		}
		key := hex.EncodeToString(kb[:])
		for which, h := range []*hrw.RendezvousHash{fwd, rev} {
			got := h.GetOrderedNodes(key, n)
			if len(got) != n {
				return pbt.Fail("near-tie key %s: ordered list has %d entries for %d nodes", key, len(got), n)
			}
			for i := range ref {
				if got[i].Label != ref[i].label {
					gl := make([]string, n)
					wl := make([]string, n)
					for j := range ref {
						gl[j], wl[j] = got[j].Label, fmt.Sprintf("%s(%.17g)", ref[j].label, ref[j].s)
					}
					return pbt.Fail("ordered list is not the node set sorted by descending score on a key where two scores differ by only %.3g relative (key %s, insertion order %s): got %v, reference order %v",
						minGap, key, []string{"as generated", "reversed"}[which], gl, wl)
				}
			}
		}
	}
	cls := []string{}
	if judged > 0 {
		cls = append(cls, "has-near-tie<1e-6")
	}
	if tight > 0 {
		cls = append(cls, "has-near-tie<1e-7")
	}
	return pbt.Verdict{NonTrivial: judged > 0, Classes: cls, Evals: 2 * judged}
}
