package c22

import (
	"fmt"
	"testing"
	"time"
)

func TestTiming(t *testing.T) {
	for kind := 0; kind < nKinds; kind++ {
		for _, n := range []int{4, 8, 16} {
			c := Case{Kind: kind, Remove: 0, Extra: Node{"extra", 7}, LongKeys: []string{"abcd12"}, Trunc: []int{1, 2}, Stride: 3}
			for i := 0; i < n; i++ {
				c.Nodes = append(c.Nodes, Node{fmt.Sprintf("node%d:80", i), 100 + i})
				c.Order2 = append(c.Order2, n-1-i)
			}
			t0 := time.Now()
			v := run(c)
			fmt.Printf("kind=%d n=%d %.2fs evals=%d viol=%q\n", kind, n, time.Since(t0).Seconds(), v.Evals, v.Violation)
		}
	}
}
