package c01

import "verif/internal/pbt"

func parts() []pbt.Part {
	return []pbt.Part{
		pbt.NewPart("store", 10, gen, run),
		pbt.NewPart("http", 2, genHTTP, runHTTP),
		pbt.NewPart("race", 1, genRace, runRace),
	}
}
