// Part "race" of C01: what CONCURRENT readers see while a write is still in progress.
//
// Parts "store" and "http" observe between operations, so they can only see what a write
// leaves behind. The statement forbids mismatching content from EVER being readable under a
// digest, which includes the time during which the (eventually failing) write is still running.
// This part therefore keeps poller goroutines reading data, size and torrent metainfo of one
// digest in a tight loop while the main goroutine pushes matching and mismatching writes of a
// large blob (hundreds of KiB to several MiB, so that every pass over the bytes — hashing, piece
// sums, copying — takes long enough for a reader to fall into any gap between "visible" and
// "verified") through every CAStore write path, optionally with a concurrent drain worker.
//
// Oracle (holds under every interleaving on correct code, no timing assumption): whatever a
// poller manages to read under d is the content of d (bytes sha256 to d, size is the length of
// d's content, metainfo describes d's content). A poll that finds nothing or fails is never
// judged. Correct code makes bytes visible only after verifying them, so no schedule of pollers,
// writer and drain worker can produce a mismatching observation.
package c01

import (
	"bytes"
	"crypto/sha256"
	"encoding/binary"
	"encoding/hex"
	"fmt"
	"hash/crc32"
	"io"
	"os"
	"path/filepath"
	"runtime"
	"sort"
	"sync"
	"sync/atomic"
	"time"

	"github.com/andres-erbsen/clock"
	"github.com/c2h5oh/datasize"
	"github.com/uber-go/tally"
	"github.com/uber/kraken/core"
	"github.com/uber/kraken/lib/metainfogen"
	"github.com/uber/kraken/lib/store"
	"github.com/uber/kraken/lib/store/metadata"
	"pgregory.net/rapid"

	"verif/internal/pbt"
)

// RaceOp is one step of the writer goroutine.
//
//	refresh  WriteBlobToCacheWithMetaInfo (what blobrefresh.Refresher.download calls)
//	write    WriteCacheFile
//	upload   CreateUploadFile + chunks + MoveUploadFileToCache (+ metainfogen.Generate on success)
//	delete   DeleteCacheFile
//	drain    drain steps until the queue is empty (in addition to the concurrent drain worker, if any)
type RaceOp struct {
	Kind     string `json:"kind"`
	Mut      string `json:"mut,omitempty"` // same | flip | other | trunc | extend
	Arg      int    `json:"arg,omitempty"`
	ChunkKiB int    `json:"chunk_kib,omitempty"`
	Rev      bool   `json:"rev,omitempty"`
	Seek     bool   `json:"seek,omitempty"`
	PLKiB    int    `json:"pl_kib,omitempty"`
	// refresh: the backend's Stat reports the length of the digest's true content (what a real
	// backend does when only the stream is damaged) instead of the length of the stream.
	StatTrue bool `json:"stat_true,omitempty"`
	Fail     bool `json:"fail,omitempty"` // refresh: the stream ends with an error after the bytes
}

type RaceCase struct {
	Seed    uint64   `json:"seed"`     // content of the digest = fillBytes(Seed, size)
	SizeKiB int      `json:"size_kib"` // size = SizeKiB*1024 + Odd
	Odd     int      `json:"odd"`
	Mem     bool     `json:"mem"`
	MemMode int      `json:"mem_mode"` // capacity: 0 nothing, 1 one byte short of the blob, 2 exactly the blob, 3 ample
	Retries int      `json:"retries"`
	Pollers int      `json:"pollers"` // goroutines per observation kind
	Drain   bool     `json:"drain"`   // a concurrent drain worker runs for the whole case
	Ops     []RaceOp `json:"ops"`
}

func genRace(t *rapid.T) RaceCase {
	var c RaceCase
	c.Seed = rapid.Uint64Range(0, 1<<53).Draw(t, "seed")
	sizes := []int{64, 512, 2048, 4096, 4096}
	if os.Getenv("VERIF_TIER") == "thorough" {
		sizes = []int{64, 512, 2048, 4096, 4096, 8192}
	}
	c.SizeKiB = rapid.SampledFrom(sizes).Draw(t, "size_kib")
	c.Odd = rapid.SampledFrom([]int{0, 0, 1, 511, 4095}).Draw(t, "odd")
	c.Mem = rapid.IntRange(0, 7).Draw(t, "mem") > 0
	c.MemMode = rapid.SampledFrom([]int{0, 1, 2, 3, 3, 3, 3, 3, 3}).Draw(t, "mem_mode")
	c.Retries = rapid.IntRange(1, 3).Draw(t, "retries")
	c.Pollers = rapid.IntRange(1, 2).Draw(t, "pollers")
	c.Drain = rapid.Bool().Draw(t, "drain")
	kinds := []string{"refresh", "refresh", "refresh", "refresh", "refresh", "refresh", "write", "upload", "delete", "drain"}
	muts := []string{"same", "same", "flip", "flip", "flip", "other", "trunc", "extend"}
	c.Ops = rapid.SliceOfN(rapid.Custom(func(t *rapid.T) RaceOp {
		op := RaceOp{Kind: rapid.SampledFrom(kinds).Draw(t, "kind")}
		switch op.Kind {
		case "refresh", "write", "upload":
			op.Mut = rapid.SampledFrom(muts).Draw(t, "mut")
			op.Arg = rapid.IntRange(0, 1<<30).Draw(t, "arg")
			op.ChunkKiB = rapid.SampledFrom([]int{16, 64, 256, 1024, 32768}).Draw(t, "chunk_kib")
			op.Rev = rapid.Bool().Draw(t, "rev")
			op.Seek = rapid.Bool().Draw(t, "seek")
			op.PLKiB = rapid.SampledFrom([]int{4, 64, 256, 1024}).Draw(t, "pl_kib")
		}
		if op.Kind == "refresh" {
			op.StatTrue = rapid.IntRange(0, 3).Draw(t, "stat_true") == 0
			op.Fail = rapid.IntRange(0, 11).Draw(t, "fail") == 0
		}
		return op
	}), 1, 4).Draw(t, "ops")
	return c
}

// fillBytes expands a seed into n bytes (xorshift64; a pure function of the case).
func fillBytes(seed uint64, n int) []byte {
	return fillInto(make([]byte, n+8), seed, n)
}

// fillInto does the same into b, which must have room for n+8 bytes.
func fillInto(b []byte, seed uint64, n int) []byte {
	x := seed | 1
	for i := 0; i < n; i += 8 {
		x ^= x << 13
		x ^= x >> 7
		x ^= x << 17
		binary.LittleEndian.PutUint64(b[i:], x)
	}
	return b[:n:n]
}

// racePayload builds the bytes of a write op in scratch (reused between the ops of a case: the
// store copies what it is given, and pollers only ever read blob, never scratch).
func racePayload(blob []byte, seed uint64, op RaceOp, scratch []byte) []byte {
	n := len(blob)
	switch op.Mut {
	case "flip": // same length, one bit differs
		out := scratch[:n]
		copy(out, blob)
		out[(op.Arg/8)%n] ^= 1 << uint(op.Arg%8)
		return out
	case "other": // same length, unrelated content
		return fillInto(scratch, seed+0x9e3779b97f4a7c15, n)
	case "trunc":
		cut := 1 + op.Arg%4096
		if cut > n {
			cut = n
		}
		out := scratch[:n-cut]
		copy(out, blob)
		return out
	case "extend":
		k := 1 + op.Arg%9
		out := scratch[:n+k]
		copy(out, blob)
		for i := 0; i < k; i++ {
			out[n+i] = byte(op.Arg + i)
		}
		return out
	}
	return blob
}

// servedIs reads r to the end and reports whether it served exactly blob. The common case is a
// streaming comparison; only when the stream deviates are the served bytes hashed (prefix that
// equalled blob + the rest of the stream), so that the verdict is "sha256(served) != name".
func servedIs(r io.Reader, blob []byte, name string, buf []byte) (match bool, n int, servedHex string, err error) {
	off := 0
	for {
		k, rerr := r.Read(buf)
		if k > 0 {
			if off+k > len(blob) || !bytes.Equal(buf[:k], blob[off:off+k]) {
				h := sha256.New()
				if off <= len(blob) {
					h.Write(blob[:off])
				}
				h.Write(buf[:k])
				m, cerr := io.Copy(h, r)
				if cerr != nil {
					return false, 0, "", cerr
				}
				sum := hex.EncodeToString(h.Sum(nil))
				return sum == name, off + k + int(m), sum, nil
			}
			off += k
		}
		if rerr == io.EOF {
			break
		}
		if rerr != nil {
			return false, 0, "", rerr
		}
		if k == 0 {
			runtime.Gosched()
		}
	}
	if off != len(blob) {
		sum := hexOf(blob[:off])
		return sum == name, off, sum, nil
	}
	return true, off, name, nil
}

// refMetaInfoMemo is refMetaInfo with the reference crc32 piece sums of blob memoised per piece
// length (the reference is still computed here, from blob, with hash/crc32).
func refMetaInfoMemo(mi *core.MetaInfo, name string, blob []byte, memo map[int64][]uint32) string {
	if mi == nil {
		return "nil metainfo"
	}
	pl := mi.PieceLength()
	if mi.Digest().Hex() != name || mi.Length() != int64(len(blob)) || pl <= 0 {
		return refMetaInfo(mi, name, blob) // produces the message
	}
	ref, ok := memo[pl]
	if !ok {
		for lo := int64(0); lo < int64(len(blob)); lo += pl {
			hi := lo + pl
			if hi > int64(len(blob)) {
				hi = int64(len(blob))
			}
			ref = append(ref, crc32.ChecksumIEEE(blob[lo:hi]))
		}
		memo[pl] = ref
	}
	if mi.NumPieces() != len(ref) {
		return fmt.Sprintf("metainfo has %d pieces, want %d (length %d, piece length %d)", mi.NumPieces(), len(ref), len(blob), pl)
	}
	for i, want := range ref {
		if mi.GetPieceSum(i) != want {
			return fmt.Sprintf("metainfo piece %d checksum does not match the content of the digest", i)
		}
	}
	return ""
}

type raceWatch struct {
	stop      chan struct{}
	wg        sync.WaitGroup
	started   atomic.Int64
	polls     atomic.Int64 // completed poll iterations (any kind)
	sawData   atomic.Int64 // polls that found matching data / size / metainfo
	sawStat   atomic.Int64
	sawMeta   atomic.Int64
	readErrs  atomic.Int64
	panics    atomic.Int64
	phase     atomic.Value // string: what the writer is doing right now
	mu        sync.Mutex
	violation string
}

func (w *raceWatch) fail(format string, args ...interface{}) {
	w.mu.Lock()
	if w.violation == "" {
		w.violation = fmt.Sprintf(format, args...)
	}
	w.mu.Unlock()
}

func (w *raceWatch) failed() bool {
	w.mu.Lock()
	defer w.mu.Unlock()
	return w.violation != ""
}

// loop runs body until stop (or until a violation was recorded).
func (w *raceWatch) loop(body func()) {
	w.wg.Add(1)
	go func() {
		defer w.wg.Done()
		first := true
		defer func() {
			if r := recover(); r != nil {
				w.panics.Add(1)
			}
			if first {
				w.started.Add(1) // never leave the start barrier waiting
			}
		}()
		for {
			select {
			case <-w.stop:
				return
			default:
			}
			body()
			if first {
				first = false
				w.started.Add(1)
			}
			w.polls.Add(1)
			if w.failed() {
				return
			}
			runtime.Gosched()
		}
	}()
}

func openStoreRace(root string, mem bool, memMax uint64, retries int, clk *clock.Mock) (*env, error) {
	cfg := store.CAStoreConfig{
		UploadDir:     filepath.Join(root, "upload"),
		CacheDir:      filepath.Join(root, "cache"),
		UploadCleanup: store.CleanupConfig{Disabled: true},
		CacheCleanup:  store.CleanupConfig{Disabled: true},
		MemoryCache: store.MemoryCacheConfig{Enabled: mem, MaxSize: memMax, DrainWorkers: 1,
			DrainMaxRetries: retries, TTL: time.Hour},
	}
	// The mock clock never moves: the store's own drain / TTL workers never wake up; the drain
	// worker of this part is a harness goroutine making the same drainNext call.
	cas, err := store.NewCAStoreWithClock(cfg, tally.NoopScope, clk)
	if err != nil {
		return nil, err
	}
	g, err := metainfogen.New(metainfogen.Config{PieceLengths: map[datasize.ByteSize]datasize.ByteSize{0: 64 << 10, 1 << 20: 256 << 10}}, cas)
	if err != nil {
		cas.Close()
		return nil, err
	}
	return &env{cfg, clk, cas, g}, nil
}

func runRace(c RaceCase) pbt.Verdict {
	if c.SizeKiB < 1 || c.SizeKiB > 32768 || c.Odd < 0 || c.Odd > 4095 || len(c.Ops) == 0 {
		return pbt.Verdict{Discard: true}
	}
	size := c.SizeKiB<<10 + c.Odd
	blob := fillBytes(c.Seed, size)
	name := hexOf(blob)
	d, derr := core.NewSHA256DigestFromHex(name)
	if derr != nil {
		return pbt.Verdict{Discard: true}
	}
	var memMax uint64
	switch c.MemMode {
	case 1:
		memMax = uint64(size - 1)
	case 2:
		memMax = uint64(size)
	case 3:
		memMax = uint64(4*size + 4096)
	}
	root, err := os.MkdirTemp("", "c01-race-")
	if err != nil {
		return pbt.Verdict{Discard: true}
	}
	defer os.RemoveAll(root)
	clk := clock.NewMock()
	clk.Set(time.Unix(1700000000, 0))
	e, err := openStoreRace(root, c.Mem, memMax, c.Retries, clk)
	if err != nil {
		return pbt.Verdict{Discard: true, Classes: []string{"open-error"}}
	}
	defer e.cas.Close()

	w := &raceWatch{stop: make(chan struct{})}
	w.phase.Store("before the first op")
	var stopOnce sync.Once
	stopAll := func() {
		stopOnce.Do(func() { close(w.stop) })
		w.wg.Wait()
	}
	defer stopAll() // runs before cas.Close

	pollers := c.Pollers
	if pollers < 1 {
		pollers = 1
	}
	if pollers > 4 {
		pollers = 4
	}
	// Every poll that did not find a violation is followed by a brief pause (pacing only: it keeps
	// the pollers from starving the writer of CPU; no verdict depends on it).
	idle := func() { time.Sleep(80 * time.Microsecond) }
	nLoops := 0
	for i := 0; i < pollers; i++ {
		nLoops += 3
		buf := make([]byte, 256<<10) // one read buffer per data poller
		w.loop(func() {              // data
			r, err := e.cas.GetCacheFileReader(name)
			if err != nil {
				idle()
				return
			}
			match, n, sum, rerr := servedIs(r, blob, name, buf)
			r.Close()
			if rerr != nil {
				w.readErrs.Add(1)
				return
			}
			if !match {
				w.fail("blob served under a digest it does not hash to (GetCacheFileReader, concurrent reader)\n  while %s: name %s served %d bytes hashing to %s",
					w.phase.Load(), name, n, sum)
				return
			}
			w.sawData.Add(1)
			idle()
		})
		w.loop(func() { // size
			st, err := e.cas.GetCacheFileStat(name)
			if err != nil {
				idle()
				return
			}
			if st.Size() != int64(len(blob)) {
				w.fail("size served under a digest does not belong to its content (GetCacheFileStat, concurrent reader)\n  while %s: name %s stats to %d bytes, the content of the digest has %d",
					w.phase.Load(), name, st.Size(), len(blob))
				return
			}
			w.sawStat.Add(1)
			idle()
		})
		sums := map[int64][]uint32{} // reference piece sums of blob per piece length, computed by this poller
		// torrent metainfo
		w.loop(func() {
			var tm metadata.TorrentMeta
			if err := e.cas.GetCacheFileMetadata(name, &tm); err != nil {
				idle()
				return
			}
			if msg := refMetaInfoMemo(tm.MetaInfo, name, blob, sums); msg != "" {
				w.fail("torrent metainfo served under a digest does not describe its content (GetCacheFileMetadata, concurrent reader)\n  while %s: name %s: %s",
					w.phase.Load(), name, msg)
				return
			}
			w.sawMeta.Add(1)
			idle()
		})
	}
	if c.Drain && c.Mem {
		nLoops++
		w.loop(func() {
			e.cas.VerifDrainNext()
			time.Sleep(80 * time.Microsecond) // pacing only; nothing depends on it
		})
	}
	// Structural barrier: every goroutine has completed one iteration before the first write.
	for w.started.Load() < int64(nLoops) {
		runtime.Gosched()
	}

	scratch := make([]byte, size+32)
	classes := map[string]bool{}
	nontrivial := false
	if c.Drain && c.Mem {
		classes["race-concurrent-drain-worker"] = true
	}
	for i, op := range c.Ops {
		var werr error
		var data []byte
		isWrite := false
		memPath := false
		wop := Op{Chunk: op.ChunkKiB << 10, Rev: op.Rev, Seek: op.Seek}
		when := fmt.Sprintf("op %d (%s mut=%s) is running", i, op.Kind, op.Mut)
		w.phase.Store(when)
		p0 := w.polls.Load()
		switch op.Kind {
		case "refresh":
			isWrite = true
			data = racePayload(blob, c.Seed, op, scratch)
			stat := len(data)
			if op.StatTrue {
				stat = len(blob)
			}
			memPath = c.Mem && e.cas.VerifMemCacheTotalBytes()+uint64(stat) <= memMax && stat == len(data)
			pl := int64(op.PLKiB) << 10
			if pl <= 0 {
				pl = 64 << 10
			}
			werr = e.cas.WriteBlobToCacheWithMetaInfo(name, uint64(stat), func(fw store.FileReadWriter) error {
				if err := writeChunks(fw, data, wop); err != nil {
					return err
				}
				if op.Fail {
					return fmt.Errorf("backend stream broke")
				}
				return nil
			}, pl)
		case "write":
			isWrite = true
			data = racePayload(blob, c.Seed, op, scratch)
			werr = e.cas.WriteCacheFile(name, func(fw store.FileReadWriter) error { return writeChunks(fw, data, wop) })
		case "upload":
			isWrite = true
			data = racePayload(blob, c.Seed, op, scratch)
			uid := fmt.Sprintf("upload-%d", i)
			werr = e.cas.CreateUploadFile(uid, 0)
			if werr == nil {
				var fw store.FileReadWriter
				fw, werr = e.cas.GetUploadFileReadWriter(uid)
				if werr == nil {
					werr = writeChunks(fw, data, wop)
					fw.Close()
				}
			}
			if werr != nil {
				stopAll()
				return pbt.Verdict{Discard: true, Classes: []string{"upload-io-error"}}
			}
			werr = e.cas.MoveUploadFileToCache(uid, name)
			if werr == nil {
				e.gen.Generate(d)
			}
		case "delete":
			e.cas.DeleteCacheFile(name)
		case "drain":
			for k := 0; e.cas.VerifDrainQueueLen() > 0 && k < (c.Retries+2)*4; k++ {
				e.cas.VerifDrainNext()
			}
		default:
			continue
		}
		polled := w.polls.Load() - p0
		w.phase.Store(fmt.Sprintf("op %d (%s mut=%s) has returned", i, op.Kind, op.Mut))
		if isWrite {
			if hexOf(data) != name {
				path := op.Kind
				if op.Kind == "refresh" {
					path = "refresh-disk-path"
					if memPath && !op.Fail {
						path = "refresh-memory-path"
					}
				}
				classes["race-mismatch-"+path] = true
				if polled > 0 {
					// pollers completed observations while the mismatching write was running
					classes["race-polled-during-mismatch-"+path] = true
					nontrivial = true
				}
				if werr == nil && !(op.Kind == "refresh" && op.Fail) {
					stopAll()
					return pbt.Fail("write of bytes that do not hash to the claimed digest reported success (%s, concurrent readers)\n  op %d mut=%s: %d bytes hashing to %s written under %s, memory cache enabled=%v max=%d",
						op.Kind, i, op.Mut, len(data), hexOf(data), name, c.Mem, memMax)
				}
			} else if werr == nil {
				classes["race-match-"+op.Kind+"-ok"] = true
			}
		}
		if w.failed() {
			break
		}
	}
	// Let every poller finish one more full round against the final state of the ops.
	if !w.failed() {
		target := w.polls.Load() + int64(2*nLoops)
		for w.polls.Load() < target && !w.failed() && w.panics.Load() == 0 {
			runtime.Gosched()
		}
	}
	stopAll()
	if w.violation != "" {
		return pbt.Fail("%s", w.violation)
	}
	if w.panics.Load() > 0 {
		return pbt.Verdict{Discard: true, Classes: []string{"race-poller-panic"}}
	}
	if w.sawData.Load() > 0 {
		classes["race-pollers-read-the-blob"] = true
	}
	if w.sawMeta.Load() > 0 {
		classes["race-pollers-read-metainfo"] = true
	}
	if w.readErrs.Load() > 0 {
		classes["race-poller-read-error-ignored"] = true
	}

	// Quiescence, sequentially, with the oracle of part "store" (streaming comparison instead of
	// io.ReadAll: the blobs are large).
	qbuf := make([]byte, 256<<10)
	qsums := map[int64][]uint32{}
	observeOne := func(when string) string {
		if r, err := e.cas.GetCacheFileReader(name); err == nil {
			match, n, sum, rerr := servedIs(r, blob, name, qbuf)
			r.Close()
			if rerr != nil {
				return fmt.Sprintf("%s: blob %s opens but reading fails: %v", when, name, rerr)
			}
			if !match {
				return fmt.Sprintf("blob served under a digest it does not hash to (GetCacheFileReader)\n  %s: name %s serves %d bytes hashing to %s", when, name, n, sum)
			}
			classes["race-blob-visible-at-end"] = true
		}
		if st, err := e.cas.GetCacheFileStat(name); err == nil && st.Size() != int64(len(blob)) {
			return fmt.Sprintf("size served under a digest does not belong to its content (GetCacheFileStat)\n  %s: name %s stats to %d bytes, the content of the digest has %d", when, name, st.Size(), len(blob))
		}
		var tm metadata.TorrentMeta
		if err := e.cas.GetCacheFileMetadata(name, &tm); err == nil {
			if msg := refMetaInfoMemo(tm.MetaInfo, name, blob, qsums); msg != "" {
				return fmt.Sprintf("torrent metainfo served under a digest does not describe its content (GetCacheFileMetadata)\n  %s: name %s: %s", when, name, msg)
			}
		}
		if listed, err := e.cas.ListCacheFiles(); err == nil {
			for _, n := range listed {
				if n == name {
					continue
				}
				// a listed name with unknown content is judged by the reader-hash test alone
				if r, err := e.cas.GetCacheFileReader(n); err == nil {
					got, rerr := io.ReadAll(r)
					r.Close()
					if rerr == nil && hexOf(got) != n {
						return fmt.Sprintf("blob served under a digest it does not hash to (GetCacheFileReader)\n  %s: listed name %s serves %d bytes hashing to %s", when, n, len(got), hexOf(got))
					}
				}
			}
		}
		return ""
	}
	for k := 0; e.cas.VerifDrainQueueLen() > 0; k++ {
		if k > (c.Retries+2)*(len(c.Ops)+1) {
			return pbt.Fail("drain queue does not empty: %d items after %d steps", e.cas.VerifDrainQueueLen(), k)
		}
		e.cas.VerifDrainNext()
		if msg := observeOne(fmt.Sprintf("final drain step %d", k)); msg != "" {
			return pbt.Fail("%s", msg)
		}
	}
	if msg := observeOne("at quiescence"); msg != "" {
		return pbt.Fail("%s", msg)
	}
	var cl []string
	for k := range classes {
		cl = append(cl, k)
	}
	sort.Strings(cl)
	return pbt.OK(nontrivial, cl...)
}
