package c01

// Part "http": the C01 oracle on the HTTP surface of an in-process origin blob server.
//
// Requests are served by blobserver.Server.Handler() through httptest recorders (no
// sockets), using exactly the routes, headers and bodies origin/blobclient sends.

import (
	"bytes"
	"encoding/json"
	"fmt"
	"hash/crc32"
	"io"
	"net/http"
	"net/http/httptest"
	"net/url"
	"os"
	"sort"
	"sync"
	"time"

	"github.com/andres-erbsen/clock"
	"github.com/uber-go/tally"
	"github.com/uber/kraken/core"
	"github.com/uber/kraken/lib/backend"
	"github.com/uber/kraken/lib/backend/backenderrors"
	"github.com/uber/kraken/lib/blobrefresh"
	"github.com/uber/kraken/lib/hashring"
	"github.com/uber/kraken/lib/healthcheck"
	"github.com/uber/kraken/lib/hostlist"
	"github.com/uber/kraken/lib/persistedretry"
	"github.com/uber/kraken/lib/torrent/storage/originstorage"
	"github.com/uber/kraken/origin/blobclient"
	"github.com/uber/kraken/origin/blobserver"
	"pgregory.net/rapid"

	"verif/internal/pbt"
)

const ns = "verif-ns"

// HOp kinds:
//
//	transfer   internal transfer routes   POST/PATCH/PUT /internal/blobs/{d}/uploads[/{uid}]
//	upload     cluster upload routes      POST/PATCH/PUT /namespace/{ns}/blobs/{d}/uploads[/{uid}]
//	duplicate  duplicate upload           same start/patch, PUT /internal/duplicate/namespace/{ns}/blobs/{d}/uploads/{uid}
//	refresh    the backend holds (Stat size, stream) for the name; a GET of the blob, of its metainfo
//	           or a prefetch triggers the real Refresher; the request is polled until it is no longer 202
//	drain / expire / delete (DELETE /internal/blobs/{d})
type HOp struct {
	Kind    string `json:"kind"`
	Name    int    `json:"name"`
	Mut     string `json:"mut,omitempty"`
	Arg     int    `json:"arg,omitempty"`
	Src     int    `json:"src,omitempty"`
	Chunk   int    `json:"chunk,omitempty"`
	Rev     bool   `json:"rev,omitempty"`
	Stat    int    `json:"stat,omitempty"`
	Fail    bool   `json:"fail,omitempty"`
	Trigger string `json:"trigger,omitempty"` // blob | metainfo | prefetch
	Steps   int    `json:"steps,omitempty"`
}

type HCase struct {
	Blobs   [][]byte `json:"blobs"`
	Mem     bool     `json:"mem"`
	MemMax  int      `json:"mem_max"`
	Retries int      `json:"retries"`
	Ops     []HOp    `json:"ops"`
}

func genHTTP(t *rapid.T) HCase {
	var c HCase
	c.Blobs = genBlobs(t)
	nb := len(c.Blobs)
	c.Mem = rapid.IntRange(0, 3).Draw(t, "mem") > 0
	total := 0
	for _, b := range c.Blobs {
		total += len(b)
	}
	c.MemMax = rapid.SampledFrom([]int{0, len(c.Blobs[nb-1]) + 1, total + 8, 4*total + 4096}).Draw(t, "memmax")
	c.Retries = rapid.IntRange(1, 2).Draw(t, "retries")
	kinds := []string{"transfer", "upload", "duplicate", "refresh", "refresh", "refresh", "delete"}
	if c.Mem {
		kinds = append(kinds, "refresh", "refresh", "drain", "drain", "expire")
	}
	c.Ops = rapid.SliceOfN(rapid.Custom(func(t *rapid.T) HOp {
		op := HOp{Kind: rapid.SampledFrom(kinds).Draw(t, "kind"), Name: rapid.IntRange(0, nb-1).Draw(t, "name")}
		switch op.Kind {
		case "transfer", "upload", "duplicate", "refresh":
			op.Mut = rapid.SampledFrom(writeMuts).Draw(t, "mut")
			op.Arg = rapid.IntRange(0, 400).Draw(t, "arg")
			op.Src = rapid.IntRange(0, nb-1).Draw(t, "src")
			op.Chunk = rapid.IntRange(1, 64).Draw(t, "chunk")
			op.Rev = rapid.Bool().Draw(t, "rev")
			if op.Kind == "refresh" {
				op.Stat = rapid.SampledFrom([]int{0, 0, 0, -1, 1, 9}).Draw(t, "stat")
				op.Fail = rapid.IntRange(0, 9).Draw(t, "fail") == 0
				op.Trigger = rapid.SampledFrom([]string{"blob", "blob", "metainfo", "prefetch"}).Draw(t, "trigger")
			}
		case "drain":
			op.Steps = rapid.IntRange(1, 3).Draw(t, "steps")
		}
		return op
	}), 1, 7).Draw(t, "ops")
	return c
}

// scriptBackend is a backend.Client whose content is set by the running op.
type scriptBackend struct {
	mu       sync.Mutex
	have     bool
	stat     int64
	stream   []byte
	chunk    int
	rev      bool
	fail     bool
	inFlight int
	calls    int
	probe    bool // barrier mode: Stat succeeds with size 0, Download fails immediately
}

var errProbe = fmt.Errorf("verif barrier probe")

func (b *scriptBackend) setProbe(on bool) {
	b.mu.Lock()
	defer b.mu.Unlock()
	b.probe = on
}

func (b *scriptBackend) numCalls() int {
	b.mu.Lock()
	defer b.mu.Unlock()
	return b.calls
}

func (b *scriptBackend) set(stat int64, stream []byte, chunk int, rev, fail bool) {
	b.mu.Lock()
	defer b.mu.Unlock()
	b.have, b.stat, b.stream, b.chunk, b.rev, b.fail = true, stat, stream, chunk, rev, fail
}

func (b *scriptBackend) clear() {
	b.mu.Lock()
	defer b.mu.Unlock()
	b.have = false
}

func (b *scriptBackend) idle() bool {
	b.mu.Lock()
	defer b.mu.Unlock()
	return b.inFlight == 0
}

func (b *scriptBackend) Stat(namespace, name string) (*core.BlobInfo, error) {
	b.mu.Lock()
	defer b.mu.Unlock()
	if b.probe {
		return core.NewBlobInfo(0), nil
	}
	if !b.have {
		return nil, backenderrors.ErrBlobNotFound
	}
	return core.NewBlobInfo(b.stat), nil
}

func (b *scriptBackend) Upload(namespace, name string, src io.Reader) error { return nil }

func (b *scriptBackend) Download(namespace, name string, dst io.Writer) error {
	b.mu.Lock()
	if b.probe {
		b.mu.Unlock()
		return errProbe
	}
	if !b.have {
		b.mu.Unlock()
		return backenderrors.ErrBlobNotFound
	}
	data, chunkSize, rev, fail := b.stream, b.chunk, b.rev, b.fail
	b.inFlight++
	b.calls++
	b.mu.Unlock()
	defer func() {
		b.mu.Lock()
		b.inFlight--
		b.mu.Unlock()
	}()
	// Parallel downloaders (s3) use WriteAt when the destination offers it, plain
	// streaming backends use Write.
	if wa, ok := dst.(io.WriterAt); ok && rev {
		for _, ck := range chunksOf(len(data), chunkSize, true) {
			if _, err := wa.WriteAt(data[ck.off:ck.end], int64(ck.off)); err != nil {
				return err
			}
		}
	} else {
		for _, ck := range chunksOf(len(data), chunkSize, false) {
			if _, err := dst.Write(data[ck.off:ck.end]); err != nil {
				return err
			}
		}
	}
	if fail {
		return fmt.Errorf("backend stream broke")
	}
	return nil
}

func (b *scriptBackend) List(prefix string, opts ...backend.ListOption) (*backend.ListResult, error) {
	return &backend.ListResult{}, nil
}

func (b *scriptBackend) Close() error { return nil }

// nopWriteBack accepts write-back tasks and never runs them.
type nopWriteBack struct{}

func (nopWriteBack) Add(persistedretry.Task) error                   { return nil }
func (nopWriteBack) SyncExec(persistedretry.Task) error              { return nil }
func (nopWriteBack) Close()                                          {}
func (nopWriteBack) Find(interface{}) ([]persistedretry.Task, error) { return nil, nil }

type origin struct {
	e       *env
	be      *scriptBackend
	bm      *backend.Manager
	ring    hashring.Ring
	h       http.Handler
	refresh *blobrefresh.Refresher
	archive *originstorage.TorrentArchive
}

const originAddr = "verif-origin:80"

// newHTTPLayer builds a fresh Refresher and Server on the same store and backend. It is
// called again before every refresh op because the Refresher caches download errors per
// digest for 15 s of real time, which would turn later refreshes of that digest into no-ops.
func (o *origin) newHTTPLayer() error {
	o.refresh = blobrefresh.New(blobrefresh.Config{}, tally.NoopScope, o.e.cas, o.bm, o.e.gen)
	s, err := blobserver.New(blobserver.Config{}, tally.NoopScope, o.e.clk, originAddr, o.ring, o.e.cas,
		blobclient.NewProvider(), blobclient.NewClusterProvider(), core.PeerContextFixture(), o.bm, o.refresh, o.e.gen, nopWriteBack{})
	if err != nil {
		return err
	}
	o.h = s.Handler()
	o.archive = originstorage.NewTorrentArchive(o.e.cas, o.refresh)
	return nil
}

func newOrigin(e *env) (*origin, error) {
	o := &origin{e: e, be: &scriptBackend{}}
	o.bm = backend.ManagerFixture()
	if err := o.bm.Register(ns, o.be, false); err != nil {
		return nil, err
	}
	o.ring = hashring.New(hashring.Config{MaxReplica: 1}, hostlist.Fixture(originAddr), healthcheck.IdentityFilter{}, tally.NoopScope)
	if err := o.newHTTPLayer(); err != nil {
		return nil, err
	}
	return o, nil
}

func (o *origin) do(method, path string, hdr map[string]string, body []byte) *httptest.ResponseRecorder {
	var rd io.Reader
	if body != nil {
		rd = bytes.NewReader(body)
	}
	req := httptest.NewRequest(method, "http://"+originAddr+path, rd)
	for k, v := range hdr {
		req.Header.Set(k, v)
	}
	rec := httptest.NewRecorder()
	o.h.ServeHTTP(rec, req)
	return rec
}

func ok2xx(code int) bool { return code >= 200 && code < 300 }

// chunkedUpload mirrors blobclient.runChunkedUploadHelper. It returns the status of the
// request that ended the upload and whether the upload was cut short by a 409 Conflict
// (blob already present), which blobclient treats as success.
func (o *origin) chunkedUpload(kind string, d core.Digest, data []byte, chunkSize int, rev bool) (code int, conflict bool) {
	base := "/internal/blobs/" + d.String() + "/uploads"
	if kind != "transfer" {
		base = "/namespace/" + url.PathEscape(ns) + "/blobs/" + d.String() + "/uploads"
	}
	rec := o.do("POST", fmt.Sprintf("%s?size=%d", base, len(data)), nil, nil)
	if rec.Code == http.StatusConflict {
		return rec.Code, true
	}
	if !ok2xx(rec.Code) {
		return rec.Code, false
	}
	uid := rec.Header().Get("Location")
	for _, ck := range chunksOf(len(data), chunkSize, rev) {
		rec = o.do("PATCH", base+"/"+uid, map[string]string{"Content-Range": fmt.Sprintf("%d-%d", ck.off, ck.end)}, data[ck.off:ck.end])
		if rec.Code == http.StatusConflict {
			return rec.Code, true
		}
		if !ok2xx(rec.Code) {
			return rec.Code, false
		}
	}
	switch kind {
	case "duplicate":
		body, _ := json.Marshal(blobclient.DuplicateCommitUploadRequest{Delay: time.Minute})
		rec = o.do("PUT", "/internal/duplicate/namespace/"+url.PathEscape(ns)+"/blobs/"+d.String()+"/uploads/"+uid, nil, body)
	default:
		rec = o.do("PUT", base+"/"+uid, nil, nil)
	}
	return rec.Code, rec.Code == http.StatusConflict
}

// observeHTTP applies the read-side oracle through the HTTP routes and the torrent archive.
// The backend is empty while observing, so a GET of an absent blob answers 404 without a download.
func (o *origin) observeHTTP(contentOf map[string][]byte, names []string, when string) (string, int) {
	visible := 0
	for _, name := range names {
		blob := contentOf[name]
		d, _ := core.NewSHA256DigestFromHex(name)
		rec := o.do("GET", "/namespace/"+url.PathEscape(ns)+"/blobs/"+d.String(), nil, nil)
		if rec.Code == http.StatusOK {
			got := rec.Body.Bytes()
			if hexOf(got) != name {
				return fmt.Sprintf("blob served under a digest it does not hash to (GET blob)\n  %s: name %s serves %d bytes hashing to %s", when, name, len(got), hexOf(got)), visible
			}
			visible++
		}
		rec = o.do("HEAD", "/internal/namespace/"+url.PathEscape(ns)+"/blobs/"+d.String()+"?local=true", nil, nil)
		if rec.Code == http.StatusOK {
			if cl := rec.Header().Get("Content-Length"); cl != fmt.Sprint(len(blob)) {
				return fmt.Sprintf("size served under a digest does not belong to its content (HEAD blob)\n  %s: name %s stats to %s bytes, the content of the digest has %d", when, name, cl, len(blob)), visible
			}
		}
		rec = o.do("GET", "/internal/namespace/"+url.PathEscape(ns)+"/blobs/"+d.String()+"/metainfo", nil, nil)
		if rec.Code == http.StatusOK {
			mi, err := core.DeserializeMetaInfo(rec.Body.Bytes())
			if err != nil {
				return fmt.Sprintf("metainfo served under a digest does not parse (GET metainfo)\n  %s: name %s: %v", when, name, err), visible
			}
			if msg := refMetaInfo(mi, name, blob); msg != "" {
				return fmt.Sprintf("torrent metainfo served under a digest does not describe its content (GET metainfo)\n  %s: name %s: %s", when, name, msg), visible
			}
		}
		// Pieces as the origin's seeder serves them.
		if tor, err := o.archive.GetTorrent(ns, d); err == nil {
			for pi := 0; pi < tor.NumPieces(); pi++ {
				pr, err := tor.GetPieceReader(pi)
				if err != nil {
					continue
				}
				got, rerr := io.ReadAll(pr)
				pr.Close()
				if rerr != nil {
					continue // the blob may have been deleted meanwhile: unavailable, not wrong
				}
				lo := int64(pi) * tor.MaxPieceLength()
				hi := lo + int64(len(got))
				if lo > int64(len(blob)) || hi > int64(len(blob)) || !bytes.Equal(got, blob[lo:hi]) || crc32.ChecksumIEEE(got) != crc32.ChecksumIEEE(blob[lo:hi]) {
					return fmt.Sprintf("piece served by the origin torrent is not part of the content of its digest\n  %s: name %s piece %d: %d bytes at offset %d", when, name, pi, len(got), lo), visible
				}
			}
		}
	}
	if msg, _ := observe(o.e.cas, contentOf, names, when); msg != "" {
		return msg, visible
	}
	return "", visible
}

func runHTTP(c HCase) pbt.Verdict {
	if len(c.Blobs) == 0 {
		return pbt.Verdict{Discard: true}
	}
	root, err := os.MkdirTemp("", "c01h-")
	if err != nil {
		return pbt.Verdict{Discard: true}
	}
	defer os.RemoveAll(root)
	clk := clock.NewMock()
	clk.Set(time.Unix(1700000000, 0))
	e, err := openStore(root, c.Mem, c.MemMax, c.Retries, clk)
	if err != nil {
		return pbt.Verdict{Discard: true, Classes: []string{"open-error"}}
	}
	defer e.cas.Close()
	o, err := newOrigin(e)
	if err != nil {
		return pbt.Verdict{Discard: true, Classes: []string{"origin-error"}}
	}
	// Never leave a download goroutine behind.
	defer func() {
		for k := 0; k < 5000 && !o.be.idle(); k++ {
			time.Sleep(time.Millisecond)
		}
	}()

	contentOf := map[string][]byte{}
	var names []string
	for _, b := range c.Blobs {
		h := hexOf(b)
		if _, dup := contentOf[h]; !dup {
			names = append(names, h)
		}
		contentOf[h] = b
	}
	classes := map[string]bool{}
	nontrivial := false
	inWindow := false

	for i, op := range c.Ops {
		op.Name %= len(c.Blobs)
		name := hexOf(c.Blobs[op.Name])
		d, _ := core.NewSHA256DigestFromHex(name)
		when := fmt.Sprintf("after op %d (%s slot %d mut=%s)", i, op.Kind, op.Name, op.Mut)
		wop := Op{Name: op.Name, Mut: op.Mut, Arg: op.Arg, Src: op.Src}
		switch op.Kind {
		case "transfer", "upload", "duplicate":
			data := payload(c.Blobs, wop)
			_, statErr := e.cas.GetCacheFileStat(name)
			present := statErr == nil
			code, conflict := o.chunkedUpload(op.Kind, d, data, op.Chunk, op.Rev)
			if hexOf(data) != name {
				classes["mismatch-"+op.Kind] = true
				if !present {
					nontrivial = true
				}
				if ok2xx(code) && !conflict {
					return pbt.Fail("upload of bytes that do not hash to the claimed digest was accepted (%s)\n  %s: %d bytes hashing to %s committed under %s with status %d",
						op.Kind, when, len(data), hexOf(data), name, code)
				}
			} else if ok2xx(code) {
				classes["match-"+op.Kind+"-ok"] = true
			}
			if conflict {
				classes["upload-conflict-short-circuit"] = true
			}
		case "refresh":
			data := payload(c.Blobs, wop)
			stat := len(data) + op.Stat
			if stat < 0 {
				stat = 0
			}
			if err := o.newHTTPLayer(); err != nil {
				return pbt.Verdict{Discard: true}
			}
			memPath := c.Mem && e.cas.VerifMemCacheTotalBytes()+uint64(stat) <= uint64(c.MemMax)
			o.be.set(int64(stat), data, op.Chunk, op.Rev, op.Fail)
			path := "/namespace/" + url.PathEscape(ns) + "/blobs/" + d.String()
			method := "GET"
			switch op.Trigger {
			case "metainfo":
				path = "/internal/namespace/" + url.PathEscape(ns) + "/blobs/" + d.String() + "/metainfo"
			case "prefetch":
				path += "/prefetch"
				method = "POST"
			}
			callsBefore := o.be.numCalls()
			var rec *httptest.ResponseRecorder
			deadline := time.Now().Add(20 * time.Second)
			for {
				rec = o.do(method, path, nil, nil)
				if op.Trigger == "prefetch" {
					// prefetch answers 202 when it starts a download and 200 when the blob is present;
					// poll the blob route (which never starts a second download while one is pending
					// and reports the cached error afterwards)
					path, method = "/namespace/"+url.PathEscape(ns)+"/blobs/"+d.String(), "GET"
					op.Trigger = "blob"
					if rec.Code != http.StatusAccepted {
						break
					}
					continue
				}
				if rec.Code != http.StatusAccepted {
					break
				}
				if time.Now().After(deadline) {
					o.be.clear()
					return pbt.Verdict{Discard: true, Classes: []string{"refresh-poll-timeout"}}
				}
				time.Sleep(200 * time.Microsecond)
			}
			// The backend forgets the blob, so that observations never start downloads.
			o.be.clear()
			started := o.be.numCalls() > callsBefore
			// Barrier: wait until the Refresher's request goroutine for this digest has returned
			// (the blob and metainfo are written / the drain item is queued before it does).
			// With the backend in probe mode Refresh answers ErrPending while the request runs,
			// the cached error once it failed, and otherwise starts a probe request whose
			// download fails immediately without touching the cache; its cached error ends the loop.
			o.be.setProbe(true)
			for k := 0; ; k++ {
				err := o.refresh.Refresh(ns, d)
				if err != nil && err != blobrefresh.ErrPending {
					break
				}
				if k > 100000 {
					o.be.setProbe(false)
					return pbt.Verdict{Discard: true, Classes: []string{"refresh-barrier-timeout"}}
				}
				time.Sleep(100 * time.Microsecond)
			}
			o.be.setProbe(false)
			if started {
				classes["refresh-downloaded"] = true
			}
			if hexOf(data) != name && !op.Fail && started {
				if memPath {
					classes["mismatch-refresh-memory-path"] = true
					inWindow = true
				} else {
					classes["mismatch-refresh-disk-path"] = true
				}
				if rec.Code == http.StatusOK && method == "GET" {
					// judged by the observation below as well; report the triggering request itself
					classes["mismatch-refresh-answered-200"] = true
				}
			} else if hexOf(data) == name && started && rec.Code == http.StatusOK {
				classes["match-refresh-ok"] = true
			}
		case "drain":
			for k := 0; k < op.Steps; k++ {
				if e.cas.VerifDrainQueueLen() > 0 {
					classes["drain-step-with-queued-entry"] = true
				}
				e.cas.VerifDrainNext()
			}
			inWindow = false
		case "expire":
			clk.Add(2 * time.Nanosecond)
			e.cas.VerifCleanupExpiredMemoryEntries()
		case "delete":
			o.do("DELETE", "/internal/blobs/"+d.String(), nil, nil)
		default:
			continue
		}
		msg, _ := o.observeHTTP(contentOf, names, when)
		if msg != "" {
			return pbt.Fail("%s", msg)
		}
		if inWindow {
			nontrivial = true
			classes["observed-before-drain-after-mismatching-memory-write"] = true
		}
	}
	for k := 0; e.cas.VerifDrainQueueLen() > 0 && k < 64; k++ {
		e.cas.VerifDrainNext()
	}
	msg, visible := o.observeHTTP(contentOf, names, "at quiescence")
	if msg != "" {
		return pbt.Fail("%s", msg)
	}
	if visible > 0 {
		classes["some-blob-visible-at-end"] = true
	}
	var cl []string
	for k := range classes {
		cl = append(cl, k)
	}
	sort.Strings(cl)
	return pbt.OK(nontrivial, cl...)
}
