// C01 — content-addressed stores never serve bytes that do not hash to their name.
//
// Part "store": generated histories of writes (matching and mismatching) through
// every CAStore write path, with the memory write-through cache off or on at several
// capacities, explicit synchronous drain steps and TTL expiry on a mock clock that is
// never advanced far enough to wake the background workers. After every step every
// name is observed through the read API and judged by an oracle that uses
// crypto/sha256 and hash/crc32 directly.
//
// Part "http" (c01_http_test.go): the same oracle on the HTTP surface of an
// in-process origin server, including refreshes through the real blobrefresh.Refresher.
//
// Part "race" (c01_race_test.go): concurrent pollers read one digest while large matching and
// mismatching writes to it are still running; whatever they manage to read must be its content.
package c01

import (
	"bytes"
	"crypto/sha256"
	"encoding/hex"
	"fmt"
	"hash/crc32"
	"io"
	"os"
	"path/filepath"
	"sort"
	"testing"
	"time"

	"github.com/andres-erbsen/clock"
	"github.com/c2h5oh/datasize"
	"github.com/uber-go/tally"
	"github.com/uber/kraken/core"
	"github.com/uber/kraken/lib/metainfogen"
	"github.com/uber/kraken/lib/store"
	"github.com/uber/kraken/lib/store/metadata"
	"github.com/uber/kraken/utils/log"
	"go.uber.org/zap"
	"pgregory.net/rapid"

	"verif/internal/pbt"
)

// Op kinds of part "store":
//
//	upload   chunked client upload / internal transfer as origin/blobserver/uploader.go does it:
//	         CreateUploadFile, write chunks (WriteAt or Seek+Write, in order or reversed),
//	         MoveUploadFileToCache, and on success metainfogen.Generate
//	create   CreateCacheFile(name, reader)
//	write    WriteCacheFile(name, write func)
//	refresh  WriteBlobToCacheWithMetaInfo(name, statSize, write func, pieceLength): exactly what
//	         blobrefresh.Refresher.download does with a backend client whose Stat size may
//	         disagree with the stream
//	drain    Steps synchronous drain-worker steps
//	expire   memory-cache TTL pass after the clock moved past the (1 ns) TTL
//	delete   DeleteCacheFile(name)
//	reopen   Close and open a new CAStore on the same directories
//	hold     GetCacheFileReader(name) and read the first half; the reader is kept (a slow client)
//	resume   read a kept reader to its end: everything it served must hash to the name it was opened under
type Op struct {
	Kind  string `json:"kind"`
	Name  int    `json:"name"`            // slot whose digest is the claimed name
	Mut   string `json:"mut,omitempty"`   // same | flip | trunc | extend | other | empty
	Arg   int    `json:"arg,omitempty"`   // position / amount for the mutation
	Src   int    `json:"src,omitempty"`   // slot providing the bytes for mut=other
	Chunk int    `json:"chunk,omitempty"` // chunk size of the write
	Rev   bool   `json:"rev,omitempty"`   // chunks written in reverse order (WriteAt)
	Seek  bool   `json:"seek,omitempty"`  // Seek+Write instead of WriteAt (in order)
	PL    int    `json:"pl,omitempty"`    // piece length
	Stat  int    `json:"stat,omitempty"`  // refresh: Stat size = len(stream)+Stat (clamped at 0)
	Fail  bool   `json:"fail,omitempty"`  // refresh: the backend stream ends with an error after the bytes
	Steps int    `json:"steps,omitempty"` // drain steps
}

type Case struct {
	Blobs   [][]byte `json:"blobs"`
	Mem     bool     `json:"mem"`
	MemMax  int      `json:"mem_max"`
	Retries int      `json:"retries"`
	Ops     []Op     `json:"ops"`
}

func sizeScale() int {
	if os.Getenv("VERIF_TIER") == "thorough" {
		return 4
	}
	return 1
}

func genBlobs(t *rapid.T) [][]byte {
	nb := rapid.IntRange(2, 4).Draw(t, "nblobs")
	maxLen := 96 * sizeScale()
	var blobs [][]byte
	for i := 0; i < nb; i++ {
		if i == 0 && rapid.IntRange(0, 4).Draw(t, "empty0") == 0 {
			blobs = append(blobs, []byte{}) // the empty blob is a legitimate content
			continue
		}
		l := rapid.IntRange(0, maxLen).Draw(t, "len")
		b := rapid.SliceOfN(rapid.Byte(), l, l).Draw(t, "blob")
		b = append(b, byte(i+1)) // distinct contents, non-empty
		blobs = append(blobs, b)
	}
	return blobs
}

var writeMuts = []string{"same", "same", "same", "flip", "flip", "trunc", "extend", "other", "empty"}

func genWrite(t *rapid.T, op *Op, nb int) {
	op.Mut = rapid.SampledFrom(writeMuts).Draw(t, "mut")
	op.Arg = rapid.IntRange(0, 400).Draw(t, "arg")
	op.Src = rapid.IntRange(0, nb-1).Draw(t, "src")
	op.Chunk = rapid.IntRange(1, 64).Draw(t, "chunk")
	op.Rev = rapid.Bool().Draw(t, "rev")
	op.Seek = rapid.Bool().Draw(t, "seek")
	op.PL = rapid.IntRange(1, 48).Draw(t, "pl")
}

func gen(t *rapid.T) Case {
	var c Case
	c.Blobs = genBlobs(t)
	nb := len(c.Blobs)
	c.Mem = rapid.IntRange(0, 3).Draw(t, "mem") > 0
	total := 0
	for _, b := range c.Blobs {
		total += len(b)
	}
	// capacities: nothing fits, less than one typical blob, one blob, everything (with slack for extended streams)
	c.MemMax = rapid.SampledFrom([]int{0, len(c.Blobs[nb-1]) / 2, len(c.Blobs[nb-1]) + 1, total + 8, 4*total + 4096}).Draw(t, "memmax")
	c.Retries = rapid.IntRange(1, 3).Draw(t, "retries")
	kinds := []string{"upload", "upload", "create", "write", "refresh", "refresh", "refresh", "delete", "reopen", "hold", "resume"}
	if c.Mem {
		kinds = []string{"upload", "create", "write", "refresh", "refresh", "refresh", "refresh", "refresh", "drain", "drain", "drain", "drain", "expire", "expire", "delete", "reopen", "hold", "hold", "resume"}
	}
	c.Ops = rapid.SliceOfN(rapid.Custom(func(t *rapid.T) Op {
		op := Op{Kind: rapid.SampledFrom(kinds).Draw(t, "kind"), Name: rapid.IntRange(0, nb-1).Draw(t, "name")}
		switch op.Kind {
		case "upload", "create", "write":
			genWrite(t, &op, nb)
		case "refresh":
			genWrite(t, &op, nb)
			op.Stat = rapid.SampledFrom([]int{0, 0, 0, 0, -1, 1, -7, 9, 100000}).Draw(t, "stat")
			op.Fail = rapid.IntRange(0, 9).Draw(t, "fail") == 0
		case "drain":
			op.Steps = rapid.IntRange(1, 4).Draw(t, "steps")
		}
		return op
	}), 1, 14).Draw(t, "ops")
	if c.Mem && rapid.IntRange(0, 3).Draw(t, "slow_reader_prefix") == 0 {
		// A slow client: a blob arrives from the backend, a reader of it is opened and half
		// read, the drain moves the blob to disk, the next blob arrives from the backend.
		a, b := rapid.IntRange(0, nb-1).Draw(t, "pa"), rapid.IntRange(0, nb-1).Draw(t, "pb")
		first := Op{Kind: "refresh", Name: a}
		genWrite(t, &first, nb)
		first.Mut = "same"
		second := Op{Kind: "refresh", Name: b}
		genWrite(t, &second, nb)
		pre := []Op{first, {Kind: "hold", Name: a}, {Kind: "drain", Steps: rapid.IntRange(1, 3).Draw(t, "psteps")}, second}
		c.Ops = append(pre, c.Ops...)
	}
	return c
}

// payload returns the bytes the write op sends under the name of slot op.Name.
func payload(blobs [][]byte, op Op) []byte {
	base := blobs[op.Name%len(blobs)]
	switch op.Mut {
	case "flip":
		if len(base) == 0 {
			return []byte{byte(op.Arg)}
		}
		out := append([]byte{}, base...)
		out[(op.Arg/8)%len(out)] ^= 1 << uint(op.Arg%8)
		return out
	case "trunc":
		if len(base) == 0 {
			return []byte{0}
		}
		return append([]byte{}, base[:len(base)-1-op.Arg%len(base)]...)
	case "extend":
		out := append([]byte{}, base...)
		for i := 0; i <= op.Arg%9; i++ {
			out = append(out, byte(op.Arg+i))
		}
		return out
	case "other":
		return append([]byte{}, blobs[op.Src%len(blobs)]...)
	case "empty":
		return []byte{}
	}
	return append([]byte{}, base...)
}

func hexOf(b []byte) string {
	s := sha256.Sum256(b)
	return hex.EncodeToString(s[:])
}

type chunk struct{ off, end int }

func chunksOf(n, size int, rev bool) []chunk {
	if size <= 0 {
		size = 1
	}
	var cs []chunk
	for off := 0; off < n; off += size {
		end := off + size
		if end > n {
			end = n
		}
		cs = append(cs, chunk{off, end})
	}
	if rev {
		sort.Slice(cs, func(i, j int) bool { return cs[i].off > cs[j].off })
	}
	return cs
}

type seekWriter interface {
	io.Writer
	io.WriterAt
	io.Seeker
}

// writeChunks sends data the way an upload PATCH (Seek+Write) or a parallel
// downloader (WriteAt, any order) does.
func writeChunks(w seekWriter, data []byte, op Op) error {
	if op.Seek {
		for _, ck := range chunksOf(len(data), op.Chunk, false) {
			if _, err := w.Seek(int64(ck.off), io.SeekStart); err != nil {
				return err
			}
			if _, err := w.Write(data[ck.off:ck.end]); err != nil {
				return err
			}
		}
		return nil
	}
	for _, ck := range chunksOf(len(data), op.Chunk, op.Rev) {
		if _, err := w.WriteAt(data[ck.off:ck.end], int64(ck.off)); err != nil {
			return err
		}
	}
	return nil
}

type env struct {
	cfg store.CAStoreConfig
	clk *clock.Mock
	cas *store.CAStore
	gen *metainfogen.Generator
}

func openStore(root string, mem bool, memMax, retries int, clk *clock.Mock) (*env, error) {
	cfg := store.CAStoreConfig{
		UploadDir:     filepath.Join(root, "upload"),
		CacheDir:      filepath.Join(root, "cache"),
		UploadCleanup: store.CleanupConfig{Disabled: true},
		CacheCleanup:  store.CleanupConfig{Disabled: true},
		MemoryCache: store.MemoryCacheConfig{Enabled: mem, MaxSize: uint64(memMax), DrainWorkers: 1,
			DrainMaxRetries: retries, TTL: time.Nanosecond},
	}
	// The mock clock only ever moves by nanoseconds (op "expire"), far below the 100 ms
	// drain tick and the TTL interval: the background workers never wake up, every drain
	// and TTL step is an explicit synchronous call made by the case.
	cas, err := store.NewCAStoreWithClock(cfg, tally.NoopScope, clk)
	if err != nil {
		return nil, err
	}
	g, err := metainfogen.New(metainfogen.Config{PieceLengths: map[datasize.ByteSize]datasize.ByteSize{0: 4, 32: 16}}, cas)
	if err != nil {
		cas.Close()
		return nil, err
	}
	return &env{cfg, clk, cas, g}, nil
}

// refMetaInfo checks mi against a reference computed from the true content of the digest.
func refMetaInfo(mi *core.MetaInfo, name string, blob []byte) string {
	if mi == nil {
		return "nil metainfo"
	}
	if mi.Digest().Hex() != name {
		return fmt.Sprintf("metainfo names digest %s", mi.Digest().Hex())
	}
	if mi.Length() != int64(len(blob)) {
		return fmt.Sprintf("metainfo length %d, the content of the digest has %d bytes", mi.Length(), len(blob))
	}
	pl := mi.PieceLength()
	if pl <= 0 {
		return fmt.Sprintf("metainfo piece length %d", pl)
	}
	want := (int64(len(blob)) + pl - 1) / pl
	if int64(mi.NumPieces()) != want {
		return fmt.Sprintf("metainfo has %d pieces, want %d (length %d, piece length %d)", mi.NumPieces(), want, len(blob), pl)
	}
	for i := 0; i < mi.NumPieces(); i++ {
		lo := int64(i) * pl
		hi := lo + pl
		if hi > int64(len(blob)) {
			hi = int64(len(blob))
		}
		if mi.GetPieceSum(i) != crc32.ChecksumIEEE(blob[lo:hi]) {
			return fmt.Sprintf("metainfo piece %d checksum does not match the content of the digest", i)
		}
	}
	return ""
}

// observe applies the read-side oracle to every name. contentOf maps the hex digest of
// every slot to the slot's bytes (the unique content that hashes to the name).
func observe(cas *store.CAStore, contentOf map[string][]byte, names []string, when string) (string, int) {
	visible := 0
	check := func(name string) string {
		r, err := cas.GetCacheFileReader(name)
		if err == nil {
			got, rerr := io.ReadAll(r)
			r.Close()
			if rerr != nil {
				return fmt.Sprintf("%s: blob %s opens but reading fails: %v", when, name, rerr)
			}
			if hexOf(got) != name {
				return fmt.Sprintf("blob served under a digest it does not hash to (GetCacheFileReader)\n  %s: name %s serves %d bytes hashing to %s", when, name, len(got), hexOf(got))
			}
			visible++
		}
		blob, known := contentOf[name]
		if st, err := cas.GetCacheFileStat(name); err == nil && known {
			if st.Size() != int64(len(blob)) {
				return fmt.Sprintf("size served under a digest does not belong to its content (GetCacheFileStat)\n  %s: name %s stats to %d bytes, the content of the digest has %d", when, name, st.Size(), len(blob))
			}
		}
		var tm metadata.TorrentMeta
		if err := cas.GetCacheFileMetadata(name, &tm); err == nil && known {
			if msg := refMetaInfo(tm.MetaInfo, name, blob); msg != "" {
				return fmt.Sprintf("torrent metainfo served under a digest does not describe its content (GetCacheFileMetadata)\n  %s: name %s: %s", when, name, msg)
			}
		}
		return ""
	}
	for _, n := range names {
		if msg := check(n); msg != "" {
			return msg, visible
		}
	}
	listed, err := cas.ListCacheFiles()
	if err == nil {
		sort.Strings(listed)
		for _, n := range listed {
			if _, ok := contentOf[n]; ok {
				continue // judged above
			}
			if msg := check(n); msg != "" {
				return msg, visible
			}
		}
	}
	return "", visible
}

func run(c Case) pbt.Verdict {
	if len(c.Blobs) == 0 {
		return pbt.Verdict{Discard: true}
	}
	root, err := os.MkdirTemp("", "c01-")
	if err != nil {
		return pbt.Verdict{Discard: true}
	}
	defer os.RemoveAll(root)
	clk := clock.NewMock()
	clk.Set(time.Unix(1700000000, 0))
	e, err := openStore(root, c.Mem, c.MemMax, c.Retries, clk)
	if err != nil {
		return pbt.Verdict{Discard: true, Classes: []string{"open-error"}}
	}
	defer func() { e.cas.Close() }()

	contentOf := map[string][]byte{}
	var names []string
	for _, b := range c.Blobs {
		h := hexOf(b)
		if _, dup := contentOf[h]; !dup {
			names = append(names, h)
		}
		contentOf[h] = b
	}
	classes := map[string]bool{}
	nontrivial := false
	// readers kept open by "hold" ops, oldest first
	type heldReader struct {
		r     store.FileReader
		name  string
		first []byte
		at    int
	}
	var held []*heldReader
	defer func() {
		for _, h := range held {
			h.r.Close()
		}
	}()
	// resumeOne reads a kept reader to its end. A read error is not judged (the blob may have
	// been deleted meanwhile); what is served without error must hash to the name.
	resumeOne := func(h *heldReader, when string) string {
		rest, rerr := io.ReadAll(h.r)
		h.r.Close()
		if rerr != nil {
			classes["held-reader-read-error"] = true
			return ""
		}
		all := append(append([]byte{}, h.first...), rest...)
		if hexOf(all) != h.name {
			return fmt.Sprintf("blob served under a digest it does not hash to (reader kept open since op %d)\n  %s: the reader opened under %s served %d bytes hashing to %s", h.at, when, h.name, len(all), hexOf(all))
		}
		classes["held-reader-read-on"] = true
		return ""
	}
	pendingMismatchInMemWindow := false // a mismatching refresh went down the memory path and no drain step ran since

	for i, op := range c.Ops {
		op.Name %= len(c.Blobs)
		name := hexOf(c.Blobs[op.Name])
		d, derr := core.NewSHA256DigestFromHex(name)
		if derr != nil {
			return pbt.Verdict{Discard: true}
		}
		var werr error
		isWrite := false
		var data []byte
		switch op.Kind {
		case "upload":
			isWrite = true
			data = payload(c.Blobs, op)
			uid := fmt.Sprintf("upload-%d", i)
			werr = e.cas.CreateUploadFile(uid, 0)
			if werr == nil {
				var w store.FileReadWriter
				w, werr = e.cas.GetUploadFileReadWriter(uid)
				if werr == nil {
					werr = writeChunks(w, data, op)
					w.Close()
				}
			}
			if werr != nil {
				// infrastructure trouble before the commit; nothing to judge
				return pbt.Verdict{Discard: true, Classes: []string{"upload-io-error"}}
			}
			werr = e.cas.MoveUploadFileToCache(uid, name)
			if werr == nil {
				// commitTransferHandler: generate metainfo after a successful commit
				e.gen.Generate(d)
			}
		case "create":
			isWrite = true
			data = payload(c.Blobs, op)
			werr = e.cas.CreateCacheFile(name, bytes.NewReader(data))
		case "write":
			isWrite = true
			data = payload(c.Blobs, op)
			werr = e.cas.WriteCacheFile(name, func(w store.FileReadWriter) error { return writeChunks(w, data, op) })
		case "refresh":
			isWrite = true
			data = payload(c.Blobs, op)
			stat := len(data) + op.Stat
			if stat < 0 {
				stat = 0
			}
			memPath := c.Mem && e.cas.VerifMemCacheTotalBytes()+uint64(stat) <= uint64(c.MemMax)
			werr = e.cas.WriteBlobToCacheWithMetaInfo(name, uint64(stat), func(w store.FileReadWriter) error {
				if err := writeChunks(w, data, op); err != nil {
					return err
				}
				if op.Fail {
					return fmt.Errorf("backend stream broke")
				}
				return nil
			}, int64(op.PL))
			if hexOf(data) != name && !op.Fail {
				if memPath {
					classes["mismatch-refresh-memory-path"] = true
					pendingMismatchInMemWindow = true
				} else {
					classes["mismatch-refresh-disk-path"] = true
				}
				if op.Stat != 0 {
					classes["mismatch-refresh-stat-disagrees"] = true
				}
			} else if hexOf(data) == name && werr == nil && memPath {
				classes["match-refresh-memory-path"] = true
			}
		case "drain":
			for k := 0; k < op.Steps; k++ {
				if e.cas.VerifDrainQueueLen() > 0 {
					classes["drain-step-with-queued-entry"] = true
				}
				e.cas.VerifDrainNext()
			}
			pendingMismatchInMemWindow = false
		case "expire":
			clk.Add(2 * time.Nanosecond)
			if e.cas.VerifMemCacheNumEntries() > 0 {
				classes["ttl-expiry-of-memory-entry"] = true
			}
			e.cas.VerifCleanupExpiredMemoryEntries()
		case "delete":
			e.cas.DeleteCacheFile(name)
		case "hold":
			if len(held) >= 3 {
				continue
			}
			r, err := e.cas.GetCacheFileReader(name)
			if err != nil {
				continue
			}
			half := make([]byte, len(contentOf[name])/2)
			n, rerr := io.ReadFull(r, half)
			if rerr != nil && n == 0 && len(half) > 0 {
				r.Close()
				continue
			}
			held = append(held, &heldReader{r: r, name: name, first: half[:n], at: i})
			classes["reader-held"] = true
			if e.cas.VerifMemCacheNumEntries() > 0 {
				classes["reader-held-while-memory-cache-holds-entries"] = true
			}
		case "resume":
			if len(held) == 0 {
				continue
			}
			h := held[0]
			held = held[1:]
			if msg := resumeOne(h, fmt.Sprintf("op %d (resume)", i)); msg != "" {
				return pbt.Fail("%s", msg)
			}
		case "reopen":
			e.cas.Close()
			ne, err := openStore(root, c.Mem, c.MemMax, c.Retries, clk)
			if err != nil {
				return pbt.Fail("store does not reopen: %v", err)
			}
			e = ne
			pendingMismatchInMemWindow = false
		default:
			continue
		}
		when := fmt.Sprintf("after op %d (%s slot %d mut=%s)", i, op.Kind, op.Name, op.Mut)
		if isWrite {
			matches := hexOf(data) == name
			if !matches {
				switch op.Kind {
				case "upload":
					classes["mismatch-upload-commit"] = true
					nontrivial = true
				case "create", "write":
					classes["mismatch-"+op.Kind] = true
				}
				if werr == nil {
					return pbt.Fail("write of bytes that do not hash to the claimed digest reported success (%s)\n  %s: %d bytes hashing to %s written under %s, memory cache enabled=%v max=%d",
						op.Kind, when, len(data), hexOf(data), name, c.Mem, c.MemMax)
				}
			} else if werr == nil {
				classes["match-"+op.Kind+"-ok"] = true
			}
		}
		msg, _ := observe(e.cas, contentOf, names, when)
		if msg != "" {
			return pbt.Fail("%s", msg)
		}
		if pendingMismatchInMemWindow {
			// observed between the mismatching memory-path write and the first drain step
			nontrivial = true
			classes["observed-before-drain-after-mismatching-memory-write"] = true
		}
	}
	// Quiescence: drain everything (each item is tried at most Retries+1 times).
	for k := 0; e.cas.VerifDrainQueueLen() > 0; k++ {
		if k > (c.Retries+2)*(len(c.Ops)+1) {
			return pbt.Fail("drain queue does not empty: %d items after %d steps", e.cas.VerifDrainQueueLen(), k)
		}
		e.cas.VerifDrainNext()
		if msg, _ := observe(e.cas, contentOf, names, fmt.Sprintf("final drain step %d", k)); msg != "" {
			return pbt.Fail("%s", msg)
		}
	}
	msg, visible := observe(e.cas, contentOf, names, "at quiescence")
	if msg != "" {
		return pbt.Fail("%s", msg)
	}
	// Readers still kept open are read to their end now, after everything was drained.
	for len(held) > 0 {
		h := held[0]
		held = held[1:]
		if msg := resumeOne(h, "at quiescence"); msg != "" {
			return pbt.Fail("%s", msg)
		}
	}
	if visible > 0 {
		classes["some-blob-visible-at-end"] = true
	}
	var cl []string
	for k := range classes {
		cl = append(cl, k)
	}
	sort.Strings(cl)
	return pbt.OK(nontrivial, cl...)
}

func TestMain(m *testing.M) {
	log.SetGlobalLogger(zap.NewNop().Sugar())
	os.Exit(m.Run())
}

func TestProp(t *testing.T) {
	pbt.Main(t, pbt.Spec{
		ID: "C01",
		Rule: "store: rapid draws 2-4 blobs (0-97 bytes quick, 0-385 thorough; slot 0 sometimes the empty blob), a memory write-through configuration (off / on with capacity 0, half a blob, one blob, all blobs, ample; 1-3 drain retries) and 1-14 ops over the slots' digests: writes through chunked upload+commit(+metainfo generation), CreateCacheFile, WriteCacheFile and the backend-refresh call WriteBlobToCacheWithMetaInfo (Stat size equal to or different from the stream, stream optionally failing), each sending the slot's bytes or a bit-flipped / truncated / extended / other-slot / empty variant, in WriteAt (any order) or Seek+Write chunks; drain steps, TTL expiry, delete, reopen. " +
			"After EVERY op, after every final drain step and at quiescence, every name is read back: reader bytes must sha256 to the name, Stat size must equal the length of the name's content, TorrentMeta must name the digest and carry length and crc32 piece sums of the name's content, listed names must pass the same test; a write whose bytes do not hash to the name must return an error; readers kept open by hold ops (first half read) are read to their end by a later resume op or at quiescence, and what they served in total must hash to the name they were opened under (a read error is not judged). " +
			"http: the same oracle on an in-process origin blobserver (cluster upload, internal transfer and duplicate-upload routes, backend refresh through the real Refresher triggered by GET; reads through GET blob, GET metainfo and originstorage torrent piece readers). " +
			"race: one large blob (64 KiB-4 MiB quick, up to 8 MiB thorough, content expanded from a drawn seed) and 1-4 writer ops on its digest (refresh / WriteCacheFile / upload+commit sending the same bytes or a same-length bit-flipped / same-length foreign / truncated / extended variant, backend Stat equal to the stream or to the true length; delete; drain) run while 1-2 poller goroutines per kind read GetCacheFileReader / GetCacheFileStat / GetCacheFileMetadata of that digest in a loop, optionally next to a concurrent drain worker; memory cache off or on with capacity nothing / one byte short / exact / ample. Every successful concurrent observation must be the content of the digest (bytes sha256 to the name, size, metainfo); polls that find nothing or fail are not judged; a mismatching write must return an error; the sequential oracle runs at quiescence. " +
			"non-trivial = the case has a mismatching upload commit, or a mismatching refresh that could take the memory path and is observed before the next drain step, or (race) pollers completed observations while a mismatching write was running; distinct by case hash",
		Assumptions: []string{
			"sha256 (crypto/sha256) and crc32-IEEE (hash/crc32) are used directly by the oracle; two different slot contents never collide",
			"drain and TTL steps of the memory cache are driven synchronously through the verif hook on a mock clock that never reaches the background tick interval",
			"SkipHashVerification stays false (documented opt-out); only the store's write APIs are used to create content (no direct SetCacheFileMetadata with foreign metainfo)",
			"the refresh path is exercised as the exact call Refresher.download makes (part store) and through the real Refresher (part http)",
			"part race explores thread schedules by sampling (pollers spinning against multi-MiB writes), not exhaustively; its oracle judges only successful observations and therefore holds under every interleaving on code that verifies before publishing",
		},
		Parts: parts(),
	})
}
