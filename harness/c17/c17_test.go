//go:build verif

// C17 — every blob download request returns exactly once.
//
// The scheduler runs behind a harness-driven event loop (verif hook): senders
// block in send, the case decides which pending event is applied next. So the
// order of the dispatcher's asynchronous completion notice relative to removals,
// idle-timeout ticks, further downloads and shutdown is drawn by the generator.
package c17

import (
	"fmt"
	"os"
	"runtime"
	"testing"
	"time"

	"github.com/uber/kraken/lib/torrent/scheduler"
	"pgregory.net/rapid"

	"verif/internal/pbt"
	"verif/internal/schedh"
)

// Step kinds:
//
//	download  start Scheduler.Download(blob) on its own goroutine
//	feed      deliver N correct missing pieces of blob through a fake full-bitfield peer
//	apply     apply the pending event number Pick (mod number pending), if any
//	applyc    apply the pending completion notice of blob, if any
//	applyk    apply the oldest pending event of kind Event, if any
//	incoming  a fresh remote peer opens a real TCP connection for blob (full bitfield if N is odd);
//	          the scheduler reads its handshake and the incomingHandshakeEvent becomes pending
//	seed      place the blob in the agent's cache (only while the scheduler has nothing of it open or pending)
//	remove    start Scheduler.RemoveTorrent(blob) on its own goroutine
//	tick      advance the clock by Advance seconds and apply a preemption tick
//	stop      start Scheduler.Stop on its own goroutine
type Step struct {
	Kind    string `json:"kind"`
	Blob    int    `json:"blob,omitempty"`
	N       int    `json:"n,omitempty"`
	Pick    int    `json:"pick,omitempty"`
	Advance int    `json:"advance,omitempty"`
	Event   string `json:"event,omitempty"`
}

type Case struct {
	Blobs      [][]byte `json:"blobs"`
	PieceLen   int      `json:"piece_len"`
	SeederTTI  int      `json:"seeder_tti_s"`
	LeecherTTI int      `json:"leecher_tti_s"`
	Steps      []Step   `json:"steps"`
}

func gen(t *rapid.T) Case {
	var c Case
	nb := rapid.IntRange(1, 2).Draw(t, "nblobs")
	for i := 0; i < nb; i++ {
		l := rapid.IntRange(1, 12).Draw(t, "len")
		b := rapid.SliceOfN(rapid.Byte(), l, l).Draw(t, "blob")
		c.Blobs = append(c.Blobs, append(b, byte(i)))
	}
	c.PieceLen = rapid.IntRange(3, 8).Draw(t, "pl")
	c.SeederTTI = rapid.IntRange(1, 20).Draw(t, "seeder")
	c.LeecherTTI = rapid.IntRange(1, 20).Draw(t, "leecher")
	kinds := []string{"download", "download", "feed", "feed", "feed", "apply", "apply", "apply", "apply", "applyc", "applyk", "incoming", "remove", "tick", "tick", "stop", "seed"}
	evKinds := []string{"newTorrentEvent", "incomingHandshakeEvent", "incomingConnEvent", "failedIncomingHandshakeEvent", "removeTorrentEvent", "connClosedEvent", "peerRemovedEvent"}
	// Half of the cases start by driving blob 0 to the point where all pieces are written
	// and the completion notice is pending, so that the random tail explores what can be
	// applied before it.
	switch rapid.IntRange(0, 3).Draw(t, "prefix") {
	case 0, 1:
		c.Steps = append(c.Steps, Step{Kind: "download"}, Step{Kind: "apply"})
		if rapid.Bool().Draw(t, "second-waiter") {
			c.Steps = append(c.Steps, Step{Kind: "download"})
		}
		c.Steps = append(c.Steps, Step{Kind: "feed", N: 5})
	case 2:
		// A remote peer connects for blob 0 while the local Download's new-torrent event
		// is still pending (the file is already on disk): the tail decides which of the
		// two creates the torrent's control.
		c.Steps = append(c.Steps, Step{Kind: "download"}, Step{Kind: "incoming", N: rapid.IntRange(0, 1).Draw(t, "full")},
			Step{Kind: "applyk", Event: "incomingHandshakeEvent"})
	}
	n := rapid.IntRange(3, 18).Draw(t, "nsteps")
	for i := 0; i < n; i++ {
		k := rapid.SampledFrom(kinds).Draw(t, "kind")
		if k == "stop" && rapid.IntRange(0, 2).Draw(t, "reallystop") != 0 {
			k = "apply"
		}
		s := Step{Kind: k, Blob: rapid.IntRange(0, nb-1).Draw(t, "blob")}
		switch k {
		case "feed":
			s.N = rapid.IntRange(1, 5).Draw(t, "n")
		case "apply":
			s.Pick = rapid.IntRange(0, 5).Draw(t, "pick")
		case "tick":
			s.Advance = rapid.IntRange(0, 25).Draw(t, "adv")
		case "incoming":
			s.N = rapid.IntRange(0, 1).Draw(t, "full")
		case "applyk":
			s.Event = rapid.SampledFrom(evKinds).Draw(t, "event")
		}
		c.Steps = append(c.Steps, s)
	}
	return c
}

func run(c Case) pbt.Verdict {
	h, err := schedh.New(schedh.Config{Blobs: c.Blobs, PieceLen: c.PieceLen,
		SeederTTI: time.Duration(c.SeederTTI) * time.Second, LeecherTTI: time.Duration(c.LeecherTTI) * time.Second})
	if err != nil {
		return pbt.Verdict{Discard: true, Classes: []string{"harness-setup-failed"}}
	}
	defer h.Close()
	classes := map[string]bool{}
	var log []string
	note := func(f string, a ...interface{}) { log = append(log, fmt.Sprintf(f, a...)) }
	pendingComplete := func() bool {
		for i := range h.Blobs {
			if h.HasPendingComplete(i) {
				return true
			}
		}
		return false
	}
	// applyEv applies a pending event and classifies what it did to the torrent's control.
	applyEv := func(e scheduler.VerifPending) {
		knownBefore, _ := h.VH.LocalRequest(e.InfoHash)
		h.ApplyID(e)
		known, local := h.VH.LocalRequest(e.InfoHash)
		switch e.Kind {
		case "incomingConnEvent":
			if !knownBefore && known && !local {
				classes["control-created-by-incoming-conn"] = true
			}
		case "newTorrentEvent":
			if knownBefore && known && !local {
				classes["download-joins-control-of-incoming-conn"] = true
			}
		}
	}
	for si, s := range c.Steps {
		switch s.Kind {
		case "download":
			h.StartDownload(s.Blob)
			note("%d: download blob %d", si, s.Blob)
		case "feed":
			w := h.Feed(s.Blob, s.N)
			note("%d: feed blob %d: %d pieces written, completion pending=%v", si, s.Blob, w, h.HasPendingComplete(s.Blob))
			if h.HasPendingComplete(s.Blob) {
				classes["completion-notice-pending"] = true
			}
		case "apply":
			p := h.VH.Pending()
			if len(p) == 0 {
				continue
			}
			e := p[s.Pick%len(p)]
			if pendingComplete() && (e.Kind == "removeTorrentEvent" || e.Kind == "shutdownEvent" || e.Kind == "newTorrentEvent") {
				classes[e.Kind+"-before-completion-notice"] = true
			}
			note("%d: apply %s", si, e.Kind)
			applyEv(e)
		case "applyc":
			for _, e := range h.VH.Pending() {
				if e.Kind == "dispatcherCompleteEvent" && e.InfoHash == h.Blobs[s.Blob].MetaInfo.InfoHash() {
					note("%d: apply completion notice of blob %d", si, s.Blob)
					h.ApplyID(e)
					classes["completion-notice-applied"] = true
					break
				}
			}
		case "applyk":
			for _, e := range h.VH.Pending() {
				if e.Kind == s.Event {
					note("%d: apply oldest %s", si, e.Kind)
					applyEv(e)
					break
				}
			}
		case "incoming":
			if h.VH.Stopped() {
				continue
			}
			h.Incoming(s.Blob, s.N%2 == 1)
			note("%d: remote peer connects for blob %d (full bitfield=%v)", si, s.Blob, s.N%2 == 1)
		case "seed":
			// the blob arrives in the agent's cache by another way (it is not open in the scheduler)
			if h.VH.Stopped() || h.VH.Dispatcher(h.Blobs[s.Blob].MetaInfo.InfoHash()) != nil {
				continue
			}
			pendingNew := false
			for _, e := range h.VH.Pending() {
				if e.Kind == "newTorrentEvent" && e.InfoHash == h.Blobs[s.Blob].MetaInfo.InfoHash() {
					pendingNew = true
				}
			}
			if pendingNew {
				continue // a caller holds a Torrent of it already; writing through a second one is undefined
			}
			if err := h.SeedCache(s.Blob); err == nil {
				classes["blob-placed-in-cache"] = true
				note("%d: blob %d placed in the cache", si, s.Blob)
			}
		case "remove":
			h.StartRemove(s.Blob)
			note("%d: remove blob %d", si, s.Blob)
		case "tick":
			if h.VH.Stopped() {
				continue
			}
			if pendingComplete() {
				classes["tick-before-completion-notice"] = true
			}
			h.Clock.Add(time.Duration(s.Advance) * time.Second)
			h.VH.Tick()
			h.Settle()
			note("%d: +%ds tick", si, s.Advance)
		case "stop":
			h.StartStop()
			note("%d: stop", si)
		}
	}
	stuck := h.DrainAndStop(8 * time.Second)
	if h.Inconclusive {
		return pbt.Verdict{Discard: true, Classes: []string{"call-did-not-reach-the-loop-in-60s"}}
	}
	history := ""
	for _, l := range log {
		history += "\n    " + l
	}
	if len(stuck) > 0 {
		if os.Getenv("VERIF_DEBUG") != "" {
			buf := make([]byte, 1<<20)
			n := runtime.Stack(buf, true)
			fmt.Println(string(buf[:n]))
		}
		return pbt.Fail("a Download call never returns: %d of %d calls still blocked after every pending event was applied and the scheduler was stopped (first: blob %d)\n  history:%s",
			len(stuck), len(h.Calls), stuck[0].Blob, history)
	}
	for ci, call := range h.Calls {
		switch call.Err {
		case nil:
			classes["download-ok"] = true
			if !call.CacheOK {
				// Not judged only when a manual removal of the blob was applied after the call's
				// own new-torrent event: the download may then have completed and been removed
				// again before the harness could look at the cache. A removal applied before
				// that event cannot excuse a success without the blob.
				if call.RemovalsAtApply >= 0 && h.Removals[call.Blob] != call.RemovalsAtApply {
					classes["ok-with-concurrent-removal-unjudged"] = true
					continue
				}
				return pbt.Fail("Download reported success but the cache does not hold the blob: call %d blob %d: %s\n  history:%s", ci, call.Blob, call.CacheErr, history)
			}
		case scheduler.ErrTorrentNotFound, scheduler.ErrTorrentTimeout, scheduler.ErrTorrentRemoved, scheduler.ErrSchedulerStopped:
			classes["download-err:"+call.Err.Error()] = true
		default:
			return pbt.Fail("Download returned an error outside {not found, timed out, removed, stopped}: call %d blob %d: %v\n  history:%s", ci, call.Blob, call.Err, history)
		}
	}
	v := pbt.Verdict{}
	for k := range classes {
		v.Classes = append(v.Classes, k)
	}
	v.NonTrivial = classes["removeTorrentEvent-before-completion-notice"] || classes["shutdownEvent-before-completion-notice"] ||
		classes["tick-before-completion-notice"] || classes["newTorrentEvent-before-completion-notice"] ||
		classes["download-joins-control-of-incoming-conn"]
	if len(h.Calls) == 0 {
		v.NonTrivial = false
	}
	return v
}

func TestProp(t *testing.T) {
	pbt.Main(t, pbt.Spec{
		ID:   "C17",
		Rule: "rapid generates schedules over one agent scheduler with a harness-driven event loop: steps from {start Download (1-2 blobs), feed k correct pieces through a fake peer, apply pending event #i, apply the pending completion notice, apply the oldest pending event of a named kind, a remote peer opens a real TCP connection for a blob (its handshake and connection events become pending like any other), start RemoveTorrent, clock advance + preemption tick, start Stop}; senders block exactly as with the real unbuffered loop and the case decides the order in which pending events (including the dispatcher's asynchronous completion notice) are applied. At the end all pending events are applied, the scheduler is stopped, and every Download call must have returned: nil only with the blob byte-exact in the cache, otherwise one of {not found, timed out, removed, stopped}. non-trivial = a removal, tick, shutdown or new download is applied while a completion notice is pending, or a Download joins a torrent control that an incoming connection created; distinct by case hash",
		Assumptions: []string{
			"schedules are owned at event granularity (the order of serialized events and of the completion notice); interleavings inside one event application are not explored",
			"a Download still blocked 8 s after the event loop has been stopped with nothing pending can never return (nothing can send to it any more)",
			"a nil result whose cache check failed is not judged when a manual removal of the same blob was applied after the call's own new-torrent event was applied",
		},
		Parts: []pbt.Part{pbt.NewPart("schedule", 1, gen, run)},
	})
}
