//go:build verif

// C18 — idle timeouts follow real activity and never delete completed blobs.
//
// Same owned scheduler harness as C17 (mock clock, harness-applied preemption
// ticks, fake peer attached to the dispatcher). The case is a timeline of piece
// uploads / downloads, clock advances and ticks; the oracle is a model of
// last-served / last-received times written from the property statement.
package c18

import (
	"bytes"
	"fmt"
	"os"
	"testing"
	"time"

	"pgregory.net/rapid"

	"verif/internal/pbt"
	"verif/internal/schedh"
)

// Step kinds:
//
//	serve    the fake peer requests piece N (mod pieces) and reads + closes the payload
//	recv     the fake peer delivers one missing piece to the in-progress torrent
//	advance  advance the clock by Advance seconds
//	tick     apply a preemption tick
//	download start another Download of the blob and apply its newTorrentEvent (re-adds a dropped torrent)
type Step struct {
	Kind    string `json:"kind"`
	N       int    `json:"n,omitempty"`
	Advance int    `json:"advance,omitempty"`
	// Hold (recv): if this piece completes the torrent, the dispatcher's completion
	// notice is left pending instead of being applied at once; a later "applyc" step
	// (or the end of the case) applies it. Ticks may therefore see a torrent that is
	// complete while its local requester has not been notified yet.
	Hold bool `json:"hold,omitempty"`
}

type Case struct {
	Blob       []byte `json:"blob"`
	PieceLen   int    `json:"piece_len"`
	Seeding    bool   `json:"seeding"` // blob already in cache before the first download
	SeederTTI  int    `json:"seeder_tti_s"`
	LeecherTTI int    `json:"leecher_tti_s"`
	Steps      []Step `json:"steps"`
}

func gen(t *rapid.T) Case {
	var c Case
	l := rapid.IntRange(4, 24).Draw(t, "len")
	c.Blob = rapid.SliceOfN(rapid.Byte(), l, l).Draw(t, "blob")
	c.PieceLen = rapid.IntRange(2, 6).Draw(t, "pl")
	c.Seeding = rapid.Bool().Draw(t, "seeding")
	c.SeederTTI = rapid.IntRange(2, 8).Draw(t, "seeder")
	c.LeecherTTI = rapid.IntRange(2, 8).Draw(t, "leecher")
	kinds := []string{"serve", "serve", "recv", "recv", "recv", "advance", "advance", "advance", "tick", "tick", "tick", "download", "applyc"}
	n := rapid.IntRange(3, 16).Draw(t, "nsteps")
	for i := 0; i < n; i++ {
		s := Step{Kind: rapid.SampledFrom(kinds).Draw(t, "kind")}
		switch s.Kind {
		case "serve":
			s.N = rapid.IntRange(0, 11).Draw(t, "n")
		case "advance":
			s.Advance = rapid.IntRange(0, 5).Draw(t, "adv")
		case "recv":
			s.Hold = rapid.Bool().Draw(t, "hold")
		}
		c.Steps = append(c.Steps, s)
	}
	return c
}

func run(c Case) pbt.Verdict {
	seederTTI := time.Duration(c.SeederTTI) * time.Second
	leecherTTI := time.Duration(c.LeecherTTI) * time.Second
	h, err := schedh.New(schedh.Config{Blobs: [][]byte{c.Blob}, PieceLen: c.PieceLen, SeederTTI: seederTTI, LeecherTTI: leecherTTI})
	if err != nil {
		return pbt.Verdict{Discard: true, Classes: []string{"harness-setup-failed"}}
	}
	defer func() {
		h.DrainAndStop(3 * time.Second)
		h.Close()
	}()
	b := h.Blobs[0]
	ih := b.MetaInfo.InfoHash()
	hex := b.Digest.Hex()
	if c.Seeding {
		if err := h.SeedCache(0); err != nil {
			return pbt.Verdict{Discard: true, Classes: []string{"seed-failed"}}
		}
	}
	classes := map[string]bool{}
	var log []string
	note := func(f string, a ...interface{}) { log = append(log, fmt.Sprintf(f, a...)) }
	history := func() string {
		s := ""
		for _, l := range log {
			s += "\n    " + l
		}
		return s
	}

	// model
	present := false
	var lastServed, lastReceived time.Time
	everComplete := c.Seeding
	straddle := false

	addTorrent := func() {
		h.StartDownload(0)
		for _, e := range h.VH.Pending() {
			if e.Kind == "newTorrentEvent" {
				wasPresent := h.VH.Dispatcher(ih) != nil
				h.ApplyID(e)
				if !wasPresent && h.VH.Dispatcher(ih) != nil {
					present = true
					lastServed, lastReceived = h.Clock.Now(), h.Clock.Now()
				}
			}
		}
		// announce results are irrelevant here; apply them so nothing piles up
		for _, e := range h.VH.Pending() {
			if e.Kind == "announceResultEvent" {
				h.ApplyID(e)
			}
		}
	}
	addTorrent()
	note("init: seeding=%v present=%v t0=%s", c.Seeding, present, h.Clock.Now().Format("15:04:05"))

	checkTimes := func(where string) string {
		d := h.VH.Dispatcher(ih)
		if d == nil {
			return ""
		}
		if !d.LastReadTime().Equal(lastServed) {
			return fmt.Sprintf("%s: the torrent's last-read time is %s but a piece was last served (or the torrent created) at %s", where, d.LastReadTime().Format("15:04:05"), lastServed.Format("15:04:05"))
		}
		if !d.LastWriteTime().Equal(lastReceived) {
			return fmt.Sprintf("%s: the torrent's last-write time is %s but a piece was last received (or the torrent created) at %s", where, d.LastWriteTime().Format("15:04:05"), lastReceived.Format("15:04:05"))
		}
		return ""
	}

	for si, s := range c.Steps {
		d := h.VH.Dispatcher(ih)
		if (d != nil) != present {
			return pbt.Fail("torrent presence differs from the model before step %d: scheduler has it=%v, model=%v\n  history:%s", si, d != nil, present, history())
		}
		switch s.Kind {
		case "serve":
			if d == nil {
				continue
			}
			k := s.N % b.NumPieces()
			if !d.Stat().Bitfield().Test(uint(k)) {
				continue // the torrent does not have that piece yet
			}
			if !h.RequestPiece(0, k) {
				note("%d: serve piece %d: not served (peer closed?)", si, k)
				continue
			}
			lastServed = h.Clock.Now()
			classes["served"] = true
			note("%d: served piece %d at %s", si, k, h.Clock.Now().Format("15:04:05"))
		case "recv":
			if d == nil || d.Complete() {
				continue
			}
			if w := h.Feed(0, 1); w == 1 {
				lastReceived = h.Clock.Now()
				classes["received"] = true
				note("%d: received a piece at %s (complete=%v)", si, h.Clock.Now().Format("15:04:05"), d.Complete())
				if d.Complete() {
					everComplete = true
					if s.Hold {
						classes["completion-notice-held"] = true
					}
					for _, e := range h.VH.Pending() {
						if e.Kind == "dispatcherCompleteEvent" && !s.Hold {
							h.ApplyID(e)
						}
					}
					for _, e := range h.VH.Pending() {
						if e.Kind == "announceResultEvent" {
							h.ApplyID(e)
						}
					}
				}
			}
		case "applyc":
			for _, e := range h.VH.Pending() {
				if e.Kind == "dispatcherCompleteEvent" {
					h.ApplyID(e)
					note("%d: completion notice applied", si)
				}
			}
			for _, e := range h.VH.Pending() {
				if e.Kind == "announceResultEvent" {
					h.ApplyID(e)
				}
			}
		case "advance":
			h.Clock.Add(time.Duration(s.Advance) * time.Second)
			note("%d: +%ds -> %s", si, s.Advance, h.Clock.Now().Format("15:04:05"))
		case "download":
			addTorrent()
			note("%d: download (present=%v)", si, present)
		case "tick":
			if d == nil {
				h.VH.Tick()
				continue
			}
			if msg := checkTimes(fmt.Sprintf("before tick at step %d", si)); msg != "" {
				return pbt.Fail("%s\n  history:%s", msg, history())
			}
			now := h.Clock.Now()
			complete := d.Complete()
			wantDrop := (complete && now.Sub(lastServed) >= seederTTI) || (!complete && now.Sub(lastReceived) >= leecherTTI)
			// would the verdict differ had the activity not been recorded? (the interesting, straddling case)
			h.VH.Tick()
			h.Settle()
			gone := h.VH.Dispatcher(ih) == nil
			note("%d: tick at %s complete=%v idle(served)=%s idle(received)=%s -> dropped=%v", si, now.Format("15:04:05"), complete, now.Sub(lastServed), now.Sub(lastReceived), gone)
			if gone != wantDrop {
				kind, idle, limit := "in-progress", now.Sub(lastReceived), leecherTTI
				if complete {
					kind, idle, limit = "completed", now.Sub(lastServed), seederTTI
				}
				if gone {
					return pbt.Fail("a %s torrent was dropped as idle although its last piece activity was only %s ago (limit %s)\n  history:%s", kind, idle, limit, history())
				}
				return pbt.Fail("a %s torrent was kept although its last piece activity was %s ago (limit %s)\n  history:%s", kind, idle, limit, history())
			}
			if classes["served"] || classes["received"] {
				straddle = true
			}
			if gone {
				present = false
				if complete {
					classes["dropped-seeder"] = true
				} else {
					classes["dropped-leecher"] = true
					// the partial download must be gone
					if _, err := h.Archive.Stat("ns", b.Digest); !os.IsNotExist(err) {
						return pbt.Fail("an in-progress torrent was dropped but the archive still knows it: Stat err=%v\n  history:%s", err, history())
					}
					if _, err := h.CADS.Download().GetFileStat(hex); !os.IsNotExist(err) {
						return pbt.Fail("an in-progress torrent was dropped but its partial download file still exists: err=%v\n  history:%s", err, history())
					}
				}
			} else {
				classes["kept"] = true
			}
		}
		if msg := checkTimes(fmt.Sprintf("after step %d (%s)", si, s.Kind)); msg != "" {
			return pbt.Fail("%s\n  history:%s", msg, history())
		}
		if everComplete {
			got, err := h.ReadCache(0)
			if err != nil || !bytes.Equal(got, c.Blob) {
				return pbt.Fail("the completed blob is no longer byte-identical in the cache after step %d (%s): err=%v\n  history:%s", si, s.Kind, err, history())
			}
		}
	}
	v := pbt.Verdict{}
	for k := range classes {
		v.Classes = append(v.Classes, k)
	}
	v.NonTrivial = straddle && (classes["dropped-seeder"] || classes["dropped-leecher"] || classes["kept"])
	return v
}

func TestProp(t *testing.T) {
	pbt.Main(t, pbt.Spec{
		ID:   "C18",
		Rule: "rapid generates timelines over one agent scheduler (owned event loop, mock clock): a blob that is either already cached (seeding) or being downloaded (leeching), seeder/leecher idle limits 2-8 s, steps from {fake peer requests a piece and reads+closes the payload, fake peer delivers a missing piece, clock advance 0-5 s, preemption tick, another Download, apply a held completion notice}; a piece that completes the torrent may leave the completion notice pending (held), so ticks can hit a torrent that is complete while its requester is still waiting. Model from the statement: last-served and last-received start at torrent creation; a tick drops the torrent iff complete and now-lastServed >= seeder limit, or in progress and now-lastReceived >= leecher limit; LastReadTime/LastWriteTime must equal the model after every step; a dropped in-progress torrent leaves no archive entry or partial file; a completed blob stays byte-identical in the cache whatever is dropped. non-trivial = a tick is judged after at least one piece was served or received; distinct by case hash",
		Assumptions: []string{
			"piece activity is produced through a fake peer attached to the dispatcher; it reads and closes served payloads as conn.Conn does",
			"ticks are applied by the harness (the real ticker loop is not started); the clock only moves when the case says so",
		},
		Parts: []pbt.Part{pbt.NewPart("timeline", 1, gen, func(c Case) pbt.Verdict { return conclusive(run(c)) })},
	})
}

// conclusive turns a verdict of a run in which the harness could not get a call into the
// event loop within a minute (machine too busy) into a discard.
func conclusive(v pbt.Verdict) pbt.Verdict {
	if schedh.TakeInconclusive() {
		return pbt.Verdict{Discard: true, Classes: []string{"call-did-not-reach-the-loop-in-60s"}}
	}
	return v
}
