// C27 — the in-memory peer store returns fresh, distinct announcements.

//go:debug randseednop=0

package c27

import (
	"encoding/json"
	"fmt"
	"hash/fnv"
	"math/rand"
	"os"
	"runtime"
	"sort"
	"sync"
	"sync/atomic"
	"testing"
	"time"

	"github.com/andres-erbsen/clock"
	"github.com/uber/kraken/core"
	"github.com/uber/kraken/tracker/peerstore"
	"pgregory.net/rapid"

	"verif/internal/pbt"
)

// hclock is the harness-owned clock: the library's Mock supplies the rest of the
// clock.Clock interface (its Timer/Ticker types cannot be re-implemented), Now is
// served from a harness counter because Mock.Add sleeps 1 ms of wall time per call.
// LocalStore only ever calls Now.
type hclock struct {
	*clock.Mock
	ns atomic.Int64
}

func newClock() *hclock {
	c := &hclock{Mock: clock.NewMock()}
	c.ns.Store(time.Unix(1600000000, 0).UnixNano())
	return c
}

func (c *hclock) Now() time.Time          { return time.Unix(0, c.ns.Load()) }
func (c *hclock) Advance(d time.Duration) { c.ns.Add(int64(d)) }

// seedGlobalRand pins the process-wide math/rand source LocalStore.GetPeers samples
// from to a value derived from the case, so that a case behaves the same on every
// run (rapid refuses to shrink a failure whose message changes between two runs).
// Needs the randseednop=0 directive above: go 1.24 made rand.Seed a no-op.
func seedGlobalRand(c interface{}) {
	b, _ := json.Marshal(c)
	h := fnv.New64a()
	h.Write(b)
	rand.Seed(int64(h.Sum64()))
}

func torrent(i int) core.InfoHash {
	var h core.InfoHash
	for k := range h {
		h[k] = byte(0x21 + 0x35*i + k)
	}
	return h
}

func peerID(i int) core.PeerID {
	var p core.PeerID
	for k := range p {
		p[k] = byte(0x07*(i+3) + k)
	}
	p[0] = byte(i)
	p[1] = byte(i >> 8)
	return p
}

// ---------------------------------------------------------------------------
// Part "model": sequential histories against a reference model.
// ---------------------------------------------------------------------------

const (
	seqTorrents = 2
	seqPeers    = 5
)

// Op kinds: 0 announce, 1 lookup, 2 advance clock, 3 cleanup of entries, 4 cleanup of groups.
type Op struct {
	K        int  `json:"k"`
	T        int  `json:"t,omitempty"`
	P        int  `json:"p,omitempty"`
	Addr     int  `json:"addr,omitempty"`
	Port     int  `json:"port,omitempty"`
	Complete bool `json:"complete,omitempty"`
	N        int  `json:"n,omitempty"`
	Adv      int  `json:"adv,omitempty"`
}

type SeqCase struct {
	TTLSec int  `json:"ttl_s"`
	Ops    []Op `json:"ops"`
}

func genSeq(t *rapid.T) SeqCase {
	c := SeqCase{TTLSec: rapid.SampledFrom([]int{8, 60, 3600}).Draw(t, "ttl")}
	// Slice of slices: long histories on average (about 30 operations) that the shrinker can still delete from.
	chunks := rapid.SliceOfN(rapid.SliceOfN(rapid.Custom(func(t *rapid.T) Op {
		k := rapid.SampledFrom([]int{0, 0, 0, 0, 1, 1, 1, 2, 2, 3, 3, 4}).Draw(t, "k")
		op := Op{K: k}
		switch k {
		case 0:
			op.T = rapid.SampledFrom([]int{0, 0, 1}).Draw(t, "t")
			op.P = rapid.IntRange(0, seqPeers-1).Draw(t, "p")
			op.Addr = rapid.IntRange(0, 2).Draw(t, "addr")
			op.Port = rapid.IntRange(0, 2).Draw(t, "port")
			op.Complete = rapid.Bool().Draw(t, "complete")
		case 1:
			op.T = rapid.SampledFrom([]int{0, 0, 1}).Draw(t, "t")
			op.N = rapid.SampledFrom([]int{seqPeers, seqPeers + 2, 50, 0, 1, 2, 3, 4}).Draw(t, "n")
		case 2:
			op.Adv = rapid.IntRange(0, 6).Draw(t, "adv")
		}
		return op
	}), 0, 12), 1, 10).Draw(t, "ops")
	for _, ch := range chunks {
		c.Ops = append(c.Ops, ch...)
	}
	return c
}

func advance(code int, ttl time.Duration) time.Duration {
	switch code {
	case 0:
		return time.Second
	case 1:
		return ttl / 4
	case 2:
		return ttl / 2
	case 3:
		return ttl - time.Second
	case 4:
		return ttl
	case 5:
		return ttl + time.Second
	default:
		return 2 * ttl
	}
}

type ann struct {
	ip       string
	port     int
	complete bool
	at       time.Time
	first    time.Time // first announcement of the current unbroken presence (evidence only)
}

func ipOf(p, v int) string { return fmt.Sprintf("10.%d.0.%d", v, p+1) }

func runSeq(c SeqCase) pbt.Verdict {
	if c.TTLSec < 4 || c.TTLSec > 1<<20 {
		return pbt.Verdict{Discard: true}
	}
	for _, op := range c.Ops {
		if op.K < 0 || op.K > 4 || op.T < 0 || op.T >= seqTorrents || op.P < 0 || op.P >= seqPeers || op.N < 0 || op.Adv < 0 {
			return pbt.Verdict{Discard: true}
		}
	}
	seedGlobalRand(c)
	ttl := time.Duration(c.TTLSec) * time.Second
	clk := newClock()
	s := peerstore.NewLocalStore(peerstore.LocalConfig{TTL: ttl}, clk)
	defer s.Close()

	model := make([]map[int]*ann, seqTorrents)
	for i := range model {
		model[i] = map[int]*ann{}
	}
	idx := map[core.PeerID]int{}
	for p := 0; p < seqPeers; p++ {
		idx[peerID(p)] = p
	}
	classes := map[string]bool{}
	var fullLookupsWithFresh, cleanupsWithExpired, renewalProtected, removedSeen int

	for i, op := range c.Ops {
		now := clk.Now()
		switch op.K {
		case 0:
			p := core.NewPeerInfo(peerID(op.P), ipOf(op.P, op.Addr), 6000+100*op.Port+op.P, false, op.Complete)
			if err := s.UpdatePeer(torrent(op.T), p); err != nil {
				return pbt.Fail("UpdatePeer failed (step %d): %v", i, err)
			}
			a := &ann{ip: p.IP, port: p.Port, complete: p.Complete, at: now, first: now}
			if old, ok := model[op.T][op.P]; ok {
				a.first = old.first
			}
			model[op.T][op.P] = a
		case 1:
			got, err := s.GetPeers(torrent(op.T), op.N)
			if err != nil {
				return pbt.Fail("GetPeers failed (step %d): %v", i, err)
			}
			where := fmt.Sprintf("step %d: GetPeers(t%d, %d) at +%s, ttl %s", i, op.T, op.N, now.Sub(time.Unix(1600000000, 0)), ttl)
			if len(got) > op.N {
				return pbt.Fail("GetPeers returned %d peers, more than the %d asked for (%s)", len(got), op.N, where)
			}
			seen := map[int]bool{}
			for _, g := range got {
				if g == nil {
					return pbt.Fail("GetPeers returned a nil peer (%s)", where)
				}
				p, ok := idx[g.PeerID]
				if !ok {
					return pbt.Fail("GetPeers returned an unknown peer id %s (%s)", g.PeerID, where)
				}
				if seen[p] {
					return pbt.Fail("GetPeers returned peer p%d twice (%s)", p, where)
				}
				seen[p] = true
				a, ok := model[op.T][p]
				if !ok {
					return pbt.Fail("GetPeers returned peer p%d which never announced this torrent (%s)", p, where)
				}
				if g.IP != a.ip || g.Port != a.port || g.Complete != a.complete {
					return pbt.Fail("GetPeers returned a stale announcement for peer p%d: got %s:%d complete=%v, latest announcement %s:%d complete=%v (%s)",
						p, g.IP, g.Port, g.Complete, a.ip, a.port, a.complete, where)
				}
				if !now.Before(a.at.Add(ttl)) {
					classes["expired-entry-still-returned"] = true
				}
			}
			if op.N >= len(model[op.T]) {
				// The store can hold at most one entry per peer that ever announced, so a
				// lookup this large returns every entry: each fresh announcement must be there.
				fresh := 0
				for p := 0; p < seqPeers; p++ { // fixed order: the message must not depend on map iteration
					a, ok := model[op.T][p]
					if !ok {
						continue
					}
					age := now.Sub(a.at)
					if age < ttl {
						fresh++
						if !seen[p] {
							return pbt.Fail("fresh announcement forgotten: peer p%d announced %s ago (ttl %s) is missing from a full lookup (%s): got %s", p, age, ttl, where, showPeers(got, idx))
						}
					} else if !seen[p] {
						removedSeen++
					}
				}
				if fresh > 0 {
					fullLookupsWithFresh++
				}
			} else {
				classes["partial-lookup"] = true
			}
		case 2:
			clk.Advance(advance(op.Adv, ttl))
		case 3, 4:
			for t := range model {
				for _, a := range model[t] {
					if now.Sub(a.at) > ttl {
						cleanupsWithExpired++
					} else if now.Sub(a.first) > ttl && a.at != a.first {
						renewalProtected++
					}
				}
			}
			if op.K == 3 {
				s.VerifCleanupExpiredPeerEntries()
			} else {
				s.VerifCleanupExpiredPeerGroups()
				classes["group-cleanup"] = true
			}
		}
	}
	if removedSeen > 0 {
		classes["expired-entry-removed"] = true
	}
	if renewalProtected > 0 {
		classes["renewed-entry-survives-cleanup"] = true
	}
	if cleanupsWithExpired > 0 {
		classes["cleanup-with-expired-entries"] = true
	}
	var cl []string
	for k := range classes {
		cl = append(cl, k)
	}
	sort.Strings(cl)
	nontrivial := fullLookupsWithFresh > 0 && (cleanupsWithExpired > 0 || renewalProtected > 0)
	return pbt.OK(nontrivial, cl...)
}

func showPeers(ps []*core.PeerInfo, idx map[core.PeerID]int) string {
	out := "["
	for i, p := range ps {
		if i > 0 {
			out += " "
		}
		out += fmt.Sprintf("p%d=%s:%d/%v", idx[p.PeerID], p.IP, p.Port, p.Complete)
	}
	return out + "]"
}

// ---------------------------------------------------------------------------
// Part "stress": announcements and lookups racing with cleanup passes. The Go
// scheduler picks the interleaving; the oracle is an invariant that holds under
// every interleaving.
// ---------------------------------------------------------------------------

type Round struct {
	Adv   int    `json:"adv"`   // clock advance before the round, in eighths of the TTL (1..7, always < TTL)
	Churn uint32 `json:"churn"` // which churn peers announce in this round
	// Settle: wait for one complete pass of both cleanups after the clock advance and
	// before announcing (expired entries are then gone instead of being renewed in place).
	Settle bool `json:"settle,omitempty"`
}

type StressCase struct {
	Keep       int     `json:"keep"`       // peers of torrent 0 that announce in every round
	Churn      int     `json:"churn"`      // peers (of both torrents) that announce only in some rounds
	Announcers int     `json:"announcers"` // goroutines sharing the announcements of a round
	Rounds     []Round `json:"rounds"`
}

func genStress(t *rapid.T) StressCase {
	c := StressCase{
		Keep:       rapid.IntRange(1, 4).Draw(t, "keep"),
		Churn:      rapid.IntRange(2, 32).Draw(t, "churn"),
		Announcers: rapid.IntRange(1, 3).Draw(t, "announcers"),
	}
	maxChunks := 4
	if os.Getenv("VERIF_TIER") == "thorough" {
		maxChunks = 8
	}
	chunks := rapid.SliceOfN(rapid.SliceOfN(rapid.Custom(func(t *rapid.T) Round {
		a := rapid.Uint32().Draw(t, "m1")
		b := rapid.Uint32().Draw(t, "m2")
		m := a & b // each churn peer announces in about a quarter of the rounds
		if rapid.IntRange(0, 3).Draw(t, "all") == 3 {
			m = 0xffffffff
		}
		return Round{Adv: rapid.IntRange(1, 7).Draw(t, "adv"), Churn: m, Settle: rapid.IntRange(0, 4).Draw(t, "settle") == 4}
	}), 1, 10), 1, maxChunks).Draw(t, "rounds")
	for _, ch := range chunks {
		c.Rounds = append(c.Rounds, ch...)
	}
	return c
}

const stressTTL = 80 * time.Second

// An announcement of round r carries r in all three fields so that a lookup can
// tell which announcement it reflects and whether the fields belong together.
func stressInfo(p, r int) *core.PeerInfo {
	return core.NewPeerInfo(peerID(p), fmt.Sprintf("10.7.%d.%d", r/250, r%250), 10000+r, false, r%2 == 1)
}

func stressVersion(g *core.PeerInfo) (int, bool) {
	r := g.Port - 10000
	if r < 0 {
		return 0, false
	}
	w := stressInfo(0, r)
	return r, g.IP == w.IP && g.Complete == w.Complete
}

type failbox struct {
	mu  sync.Mutex
	msg string
}

func (f *failbox) set(format string, a ...interface{}) {
	f.mu.Lock()
	if f.msg == "" {
		f.msg = fmt.Sprintf(format, a...)
	}
	f.mu.Unlock()
}

func (f *failbox) get() string {
	f.mu.Lock()
	defer f.mu.Unlock()
	return f.msg
}

func runStress(c StressCase) pbt.Verdict {
	if c.Keep < 1 || c.Keep > 16 || c.Churn < 1 || c.Churn > 32 || c.Announcers < 1 || c.Announcers > 8 || len(c.Rounds) == 0 || len(c.Rounds) > 2000 {
		return pbt.Verdict{Discard: true}
	}
	for _, r := range c.Rounds {
		if r.Adv < 1 || r.Adv > 7 {
			return pbt.Verdict{Discard: true}
		}
	}
	clk := newClock()
	s := peerstore.NewLocalStore(peerstore.LocalConfig{TTL: stressTTL}, clk)
	defer s.Close()

	// Peers 0..Keep-1 are kept alive in torrent 0; peers Keep..Keep+Churn-1 churn in both torrents.
	total := c.Keep + c.Churn
	idx := map[core.PeerID]int{}
	for p := 0; p < total; p++ {
		idx[peerID(p)] = p
	}
	var fb failbox
	var stop atomic.Bool
	var curRound atomic.Int64  // highest round whose announcements may have started
	var doneRound atomic.Int64 // highest round whose announcements have all returned
	curRound.Store(-1)
	doneRound.Store(-1)
	var bg sync.WaitGroup
	guard := func(name string, f func()) {
		bg.Add(1)
		go func() {
			defer bg.Done()
			defer func() {
				if r := recover(); r != nil {
					fb.set("panic in %s: %v", name, r)
				}
			}()
			f()
		}()
	}
	var entryPasses, groupPasses, lookups atomic.Int64
	guard("entry cleanup", func() {
		for !stop.Load() {
			s.VerifCleanupExpiredPeerEntries()
			entryPasses.Add(1)
			runtime.Gosched()
		}
	})
	guard("group cleanup", func() {
		for !stop.Load() {
			s.VerifCleanupExpiredPeerGroups()
			groupPasses.Add(1)
			runtime.Gosched()
		}
	})
	// Reader: concurrent lookups must always be well-formed, and peers that announce in
	// every round (never older than 7/8 TTL) must be in every full lookup.
	guard("reader", func() {
		lastSeen := make([]map[int]int, 2)
		for t := range lastSeen {
			lastSeen[t] = map[int]int{}
		}
		for k := 0; !stop.Load(); k++ {
			t := k % 2
			n := total
			if k%3 == 2 {
				n = 1 + k%total
			}
			doneBefore := doneRound.Load()
			got, err := s.GetPeers(torrent(t), n)
			upper := curRound.Load()
			lookups.Add(1)
			if err != nil {
				fb.set("concurrent GetPeers failed: %v", err)
				return
			}
			if len(got) > n {
				fb.set("concurrent GetPeers returned %d peers, more than the %d asked for", len(got), n)
				return
			}
			seen := map[int]bool{}
			for _, g := range got {
				p, ok := idx[g.PeerID]
				if !ok {
					fb.set("concurrent GetPeers returned an unknown peer id %s", g.PeerID)
					return
				}
				if seen[p] {
					fb.set("concurrent GetPeers returned peer p%d twice", p)
					return
				}
				seen[p] = true
				v, consistent := stressVersion(g)
				if !consistent {
					fb.set("concurrent GetPeers returned fields of different announcements for peer p%d: %s:%d complete=%v", p, g.IP, g.Port, g.Complete)
					return
				}
				if int64(v) > upper {
					fb.set("concurrent GetPeers returned an announcement of round %d for peer p%d before round %d started", v, p, upper+1)
					return
				}
				if v < lastSeen[t][p] {
					fb.set("concurrent GetPeers went back to an older announcement of peer p%d: round %d after round %d", p, v, lastSeen[t][p])
					return
				}
				lastSeen[t][p] = v
				if t == 1 && p < c.Keep {
					fb.set("concurrent GetPeers(t1) returned peer p%d which only announced torrent t0", p)
					return
				}
			}
			if t == 0 && n >= total && doneBefore >= 0 {
				for p := 0; p < c.Keep; p++ {
					if !seen[p] {
						fb.set("fresh announcement forgotten: peer p%d re-announces in every round (at most 7/8 TTL apart) but is missing from a concurrent full lookup of t0 after round %d", p, doneBefore)
						return
					}
				}
			}
			if k%8 == 7 {
				runtime.Gosched()
			}
		}
	})

	// lastAnn[t][p] = (round, time) of the latest announcement.
	type la struct {
		round int
		at    time.Time
	}
	lastAnn := []map[int]la{{}, {}}
	var renewedExpired, overlapped, rounds int
	finish := func() {
		stop.Store(true)
		bg.Wait()
	}
	// waitPasses blocks until both cleanup loops completed a pass that was not finished
	// at the time of the call (structural wait; the bound only guards against a dead loop).
	waitPasses := func() bool {
		e0, g0 := entryPasses.Load(), groupPasses.Load()
		deadline := time.Now().Add(20 * time.Second)
		for entryPasses.Load() == e0 || groupPasses.Load() == g0 {
			if fb.get() != "" || time.Now().After(deadline) {
				return false
			}
			runtime.Gosched()
		}
		return true
	}
	if !waitPasses() {
		finish()
		if m := fb.get(); m != "" {
			return pbt.Fail("%s", m)
		}
		return pbt.Verdict{Discard: true}
	}
	for r, rd := range c.Rounds {
		if fb.get() != "" {
			break
		}
		clk.Advance(time.Duration(rd.Adv) * stressTTL / 8)
		now := clk.Now()
		curRound.Store(int64(r))
		if rd.Settle && !waitPasses() {
			break
		}
		// Work list of the round.
		type job struct{ t, p int }
		var jobs []job
		for p := 0; p < c.Keep; p++ {
			jobs = append(jobs, job{0, p})
		}
		for q := 0; q < c.Churn; q++ {
			if rd.Churn&(1<<uint(q)) != 0 {
				p := c.Keep + q
				jobs = append(jobs, job{0, p}, job{1, p})
			}
		}
		renewing := 0
		for _, j := range jobs {
			if old, ok := lastAnn[j.t][j.p]; ok && now.Sub(old.at) > stressTTL {
				renewing++ // re-announcement of an entry a cleanup pass may be deleting right now
			}
		}
		ePre := entryPasses.Load()
		var wg sync.WaitGroup
		for a := 0; a < c.Announcers; a++ {
			wg.Add(1)
			go func(a int) {
				defer wg.Done()
				defer func() {
					if rec := recover(); rec != nil {
						fb.set("panic in announcer: %v", rec)
					}
				}()
				for k := a; k < len(jobs); k += c.Announcers {
					if err := s.UpdatePeer(torrent(jobs[k].t), stressInfo(jobs[k].p, r)); err != nil {
						fb.set("UpdatePeer failed: %v", err)
						return
					}
					runtime.Gosched()
				}
			}(a)
		}
		wg.Wait()
		if renewing > 0 && !rd.Settle {
			renewedExpired++
			if entryPasses.Load() > ePre {
				overlapped++ // a cleanup pass finished while expired entries were being re-announced
			}
		}
		// Let the passes that were in flight during the announcements finish before judging.
		if !waitPasses() {
			break
		}
		for _, j := range jobs {
			lastAnn[j.t][j.p] = la{r, now}
		}
		doneRound.Store(int64(r))
		rounds++
		// Quiescent check (announcers idle, cleanup and reader still running): every
		// announcement younger than the TTL is returned by a full lookup, exactly as announced.
		for t := 0; t < 2; t++ {
			got, err := s.GetPeers(torrent(t), total)
			if err != nil {
				finish()
				return pbt.Fail("GetPeers failed: %v", err)
			}
			seen := map[int]*core.PeerInfo{}
			for _, g := range got {
				p, ok := idx[g.PeerID]
				if !ok || seen[p] != nil {
					finish()
					return pbt.Fail("full lookup after round %d returned an unknown or duplicate peer: %s", r, showPeers(got, idx))
				}
				seen[p] = g
				l, ok := lastAnn[t][p]
				if !ok {
					finish()
					return pbt.Fail("full lookup of t%d after round %d returned peer p%d which never announced it", t, r, p)
				}
				w := stressInfo(p, l.round)
				if g.IP != w.IP || g.Port != w.Port || g.Complete != w.Complete {
					finish()
					return pbt.Fail("stale announcement: full lookup of t%d after round %d returned %s:%d complete=%v for peer p%d, latest announcement (round %d) was %s:%d complete=%v",
						t, r, g.IP, g.Port, g.Complete, p, l.round, w.IP, w.Port, w.Complete)
				}
			}
			for p, l := range lastAnn[t] {
				if now.Sub(l.at) < stressTTL && seen[p] == nil {
					finish()
					return pbt.Fail("fresh announcement forgotten: peer p%d announced t%d in round %d (%s ago, ttl %s) and is missing from a full lookup after round %d while cleanup runs concurrently",
						p, t, l.round, now.Sub(l.at), stressTTL, r)
				}
			}
		}
	}
	finish()
	if m := fb.get(); m != "" {
		return pbt.Fail("%s", m)
	}
	if rounds < len(c.Rounds) {
		return pbt.Verdict{Discard: true} // a cleanup loop did not make progress within the bound
	}
	var cl []string
	if renewedExpired > 0 {
		cl = append(cl, "expired-entry-re-announced")
	}
	if overlapped > 0 {
		cl = append(cl, "cleanup-pass-overlapped-re-announcement")
	}
	if overlapped >= 3 {
		cl = append(cl, "overlap-in>=3-rounds")
	}
	if lookups.Load() >= int64(rounds) {
		cl = append(cl, "concurrent-lookups>=rounds")
	}
	v := pbt.OK(overlapped > 0, cl...)
	v.Evals = rounds
	return v
}

func TestProp(t *testing.T) {
	pbt.Main(t, pbt.Spec{
		ID: "C27",
		Rule: "part model: 0-120 operations (about 30 on average) (announce with drawn address/port/flag, GetPeers(n) with n from 0 to beyond the population, clock advance by 1s..2*TTL, one entry-cleanup pass, one group-cleanup pass) over 2 torrents x 5 peers on a harness clock, applied to the real LocalStore and to a model of the latest announcement per (torrent, peer); every lookup must return <= n distinct peers that announced the torrent, each with the fields of its latest announcement, and a lookup with n >= number of peers that ever announced must contain every announcement younger than the TTL (older ones may or may not be returned). " +
			"part stress: rounds of concurrent announcements (kept-alive peers every round, churn peers in random rounds, clock advanced < TTL per round) race with goroutines looping both cleanup passes and a reader; invariants: after each round a full lookup returns every announcement younger than TTL exactly as announced, concurrent lookups are distinct, <= n, field-consistent, never go back to an older announcement, and always contain the kept-alive peers. " +
			"non-trivial (model) = a full lookup with a fresh peer and a cleanup pass that ran with an expired entry or with a renewed entry whose first announcement is older than TTL; (stress) = in at least one round an entry-cleanup pass completed while expired entries were being re-announced; distinct by case hash; evaluations (stress) = rounds",
		Assumptions: []string{
			"reference model written from the property statement; expired entries may be returned or dropped (not asserted either way); nothing asserted at age == TTL exactly",
			"cleanup passes are invoked through the verif-tagged export of the unexported functions the store's ticker calls",
			"stress part samples Go scheduler interleavings (not owned, not shrinkable); weaker than the model part",
		},
		Parts: []pbt.Part{
			pbt.NewPart("model", 6, genSeq, runSeq),
			pbt.NewPart("stress", 1, genStress, runStress),
		},
	})
}
