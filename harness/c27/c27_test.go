// C27 — the in-memory peer store returns fresh, distinct announcements.

//go:debug randseednop=0

package c27

import (
	"encoding/json"
	"fmt"
	"hash/fnv"
	"math/rand"
	"sort"
	"sync/atomic"
	"testing"
	"time"

	"github.com/andres-erbsen/clock"
	"github.com/uber/kraken/core"
	"github.com/uber/kraken/tracker/peerstore"
	"pgregory.net/rapid"

	"verif/internal/pbt"
)

// hclock is the harness-owned clock: the library's Mock supplies the rest of the
// clock.Clock interface (its Timer/Ticker types cannot be re-implemented), Now is
// served from a harness counter because Mock.Add sleeps 1 ms of wall time per call.
// LocalStore only ever calls Now.
type hclock struct {
	*clock.Mock
	ns atomic.Int64
}

func newClock() *hclock {
	c := &hclock{Mock: clock.NewMock()}
	c.ns.Store(time.Unix(1600000000, 0).UnixNano())
	return c
}

func (c *hclock) Now() time.Time          { return time.Unix(0, c.ns.Load()) }
func (c *hclock) Advance(d time.Duration) { c.ns.Add(int64(d)) }

// seedGlobalRand pins the process-wide math/rand source LocalStore.GetPeers samples
// from to a value derived from the case, so that a case behaves the same on every
// run (rapid refuses to shrink a failure whose message changes between two runs).
// Needs the randseednop=0 directive above: go 1.24 made rand.Seed a no-op.
func seedGlobalRand(c interface{}) {
	b, _ := json.Marshal(c)
	h := fnv.New64a()
	h.Write(b)
	rand.Seed(int64(h.Sum64()))
}

func torrent(i int) core.InfoHash {
	var h core.InfoHash
	for k := range h {
		h[k] = byte(0x21 + 0x35*i + k)
	}
	return h
}

func peerID(i int) core.PeerID {
	var p core.PeerID
	for k := range p {
		p[k] = byte(0x07*(i+3) + k)
	}
	p[0] = byte(i)
	p[1] = byte(i >> 8)
	return p
}

// ---------------------------------------------------------------------------
// Part "model": sequential histories against a reference model.
// ---------------------------------------------------------------------------

const (
	seqTorrents = 2
	seqPeers    = 5
)

// Op kinds: 0 announce, 1 lookup, 2 advance clock, 3 cleanup of entries, 4 cleanup of groups.
type Op struct {
	K        int  `json:"k"`
	T        int  `json:"t,omitempty"`
	P        int  `json:"p,omitempty"`
	Addr     int  `json:"addr,omitempty"`
	Port     int  `json:"port,omitempty"`
	Complete bool `json:"complete,omitempty"`
	N        int  `json:"n,omitempty"`
	Adv      int  `json:"adv,omitempty"`
}

type SeqCase struct {
	TTLSec int  `json:"ttl_s"`
	Ops    []Op `json:"ops"`
}

func genSeq(t *rapid.T) SeqCase {
	c := SeqCase{TTLSec: rapid.SampledFrom([]int{8, 60, 3600}).Draw(t, "ttl")}
	// Slice of slices: long histories on average (about 30 operations) that the shrinker can still delete from.
	chunks := rapid.SliceOfN(rapid.SliceOfN(rapid.Custom(func(t *rapid.T) Op {
		k := rapid.SampledFrom([]int{0, 0, 0, 0, 1, 1, 1, 2, 2, 3, 3, 4}).Draw(t, "k")
		op := Op{K: k}
		switch k {
		case 0:
			op.T = rapid.SampledFrom([]int{0, 0, 1}).Draw(t, "t")
			op.P = rapid.IntRange(0, seqPeers-1).Draw(t, "p")
			op.Addr = rapid.IntRange(0, 2).Draw(t, "addr")
			op.Port = rapid.IntRange(0, 2).Draw(t, "port")
			op.Complete = rapid.Bool().Draw(t, "complete")
		case 1:
			op.T = rapid.SampledFrom([]int{0, 0, 1}).Draw(t, "t")
			op.N = rapid.SampledFrom([]int{seqPeers, seqPeers + 2, 50, 0, 1, 2, 3, 4}).Draw(t, "n")
		case 2:
			op.Adv = rapid.IntRange(0, 6).Draw(t, "adv")
		}
		return op
	}), 0, 12), 1, 10).Draw(t, "ops")
	for _, ch := range chunks {
		c.Ops = append(c.Ops, ch...)
	}
	return c
}

func advance(code int, ttl time.Duration) time.Duration {
	switch code {
	case 0:
		return time.Second
	case 1:
		return ttl / 4
	case 2:
		return ttl / 2
	case 3:
		return ttl - time.Second
	case 4:
		return ttl
	case 5:
		return ttl + time.Second
	default:
		return 2 * ttl
	}
}

type ann struct {
	ip       string
	port     int
	complete bool
	at       time.Time
	first    time.Time // first announcement of the current unbroken presence (evidence only)
}

func ipOf(p, v int) string { return fmt.Sprintf("10.%d.0.%d", v, p+1) }

func runSeq(c SeqCase) pbt.Verdict {
	if c.TTLSec < 4 || c.TTLSec > 1<<20 {
		return pbt.Verdict{Discard: true}
	}
	for _, op := range c.Ops {
		if op.K < 0 || op.K > 4 || op.T < 0 || op.T >= seqTorrents || op.P < 0 || op.P >= seqPeers || op.N < 0 || op.Adv < 0 {
			return pbt.Verdict{Discard: true}
		}
	}
	seedGlobalRand(c)
	ttl := time.Duration(c.TTLSec) * time.Second
	clk := newClock()
	s := peerstore.NewLocalStore(peerstore.LocalConfig{TTL: ttl}, clk)
	defer s.Close()

	model := make([]map[int]*ann, seqTorrents)
	for i := range model {
		model[i] = map[int]*ann{}
	}
	idx := map[core.PeerID]int{}
	for p := 0; p < seqPeers; p++ {
		idx[peerID(p)] = p
	}
	classes := map[string]bool{}
	var fullLookupsWithFresh, cleanupsWithExpired, renewalProtected, removedSeen int

	// The previous lookup's result is the caller's (the tracker sorts and serialises it): later
	// store operations must not rewrite it.
	var held []*core.PeerInfo
	var heldVals []core.PeerInfo
	heldAt := -1
	for i, op := range c.Ops {
		for k, g := range held {
			if g == nil || *g != heldVals[k] {
				return pbt.Fail("the result of an earlier lookup changed afterwards: entry %d of the list returned at step %d was %+v, is now %+v (before step %d)", k, heldAt, heldVals[k], g, i)
			}
		}
		now := clk.Now()
		switch op.K {
		case 0:
			p := core.NewPeerInfo(peerID(op.P), ipOf(op.P, op.Addr), 6000+100*op.Port+op.P, false, op.Complete)
			if err := s.UpdatePeer(torrent(op.T), p); err != nil {
				return pbt.Fail("UpdatePeer failed (step %d): %v", i, err)
			}
			a := &ann{ip: p.IP, port: p.Port, complete: p.Complete, at: now, first: now}
			if old, ok := model[op.T][op.P]; ok {
				a.first = old.first
			}
			model[op.T][op.P] = a
		case 1:
			got, err := s.GetPeers(torrent(op.T), op.N)
			if err != nil {
				return pbt.Fail("GetPeers failed (step %d): %v", i, err)
			}
			where := fmt.Sprintf("step %d: GetPeers(t%d, %d) at +%s, ttl %s", i, op.T, op.N, now.Sub(time.Unix(1600000000, 0)), ttl)
			held, heldVals, heldAt = got, nil, i
			for _, g := range got {
				if g != nil {
					heldVals = append(heldVals, *g)
				} else {
					heldVals = append(heldVals, core.PeerInfo{})
				}
			}
			if len(got) > op.N {
				return pbt.Fail("GetPeers returned %d peers, more than the %d asked for (%s)", len(got), op.N, where)
			}
			seen := map[int]bool{}
			for _, g := range got {
				if g == nil {
					return pbt.Fail("GetPeers returned a nil peer (%s)", where)
				}
				p, ok := idx[g.PeerID]
				if !ok {
					return pbt.Fail("GetPeers returned an unknown peer id %s (%s)", g.PeerID, where)
				}
				if seen[p] {
					return pbt.Fail("GetPeers returned peer p%d twice (%s)", p, where)
				}
				seen[p] = true
				a, ok := model[op.T][p]
				if !ok {
					return pbt.Fail("GetPeers returned peer p%d which never announced this torrent (%s)", p, where)
				}
				if g.IP != a.ip || g.Port != a.port || g.Complete != a.complete {
					return pbt.Fail("GetPeers returned a stale announcement for peer p%d: got %s:%d complete=%v, latest announcement %s:%d complete=%v (%s)",
						p, g.IP, g.Port, g.Complete, a.ip, a.port, a.complete, where)
				}
				if !now.Before(a.at.Add(ttl)) {
					classes["expired-entry-still-returned"] = true
				}
			}
			if op.N >= len(model[op.T]) {
				// The store can hold at most one entry per peer that ever announced, so a
				// lookup this large returns every entry: each fresh announcement must be there.
				fresh := 0
				for p := 0; p < seqPeers; p++ { // fixed order: the message must not depend on map iteration
					a, ok := model[op.T][p]
					if !ok {
						continue
					}
					age := now.Sub(a.at)
					if age < ttl {
						fresh++
						if !seen[p] {
							return pbt.Fail("fresh announcement forgotten: peer p%d announced %s ago (ttl %s) is missing from a full lookup (%s): got %s", p, age, ttl, where, showPeers(got, idx))
						}
					} else if !seen[p] {
						removedSeen++
					}
				}
				if fresh > 0 {
					fullLookupsWithFresh++
				}
			} else {
				classes["partial-lookup"] = true
			}
		case 2:
			clk.Advance(advance(op.Adv, ttl))
		case 3, 4:
			for t := range model {
				for _, a := range model[t] {
					if now.Sub(a.at) > ttl {
						cleanupsWithExpired++
					} else if now.Sub(a.first) > ttl && a.at != a.first {
						renewalProtected++
					}
				}
			}
			if op.K == 3 {
				s.VerifCleanupExpiredPeerEntries()
			} else {
				s.VerifCleanupExpiredPeerGroups()
				classes["group-cleanup"] = true
			}
		}
	}
	if removedSeen > 0 {
		classes["expired-entry-removed"] = true
	}
	if renewalProtected > 0 {
		classes["renewed-entry-survives-cleanup"] = true
	}
	if cleanupsWithExpired > 0 {
		classes["cleanup-with-expired-entries"] = true
	}
	var cl []string
	for k := range classes {
		cl = append(cl, k)
	}
	sort.Strings(cl)
	nontrivial := fullLookupsWithFresh > 0 && (cleanupsWithExpired > 0 || renewalProtected > 0)
	return pbt.OK(nontrivial, cl...)
}

func showPeers(ps []*core.PeerInfo, idx map[core.PeerID]int) string {
	out := "["
	for i, p := range ps {
		if i > 0 {
			out += " "
		}
		out += fmt.Sprintf("p%d=%s:%d/%v", idx[p.PeerID], p.IP, p.Port, p.Complete)
	}
	return out + "]"
}

func TestProp(t *testing.T) {
	pbt.Main(t, pbt.Spec{
		ID: "C27",
		Rule: "part model: 0-120 operations (about 30 on average) (announce with drawn address/port/flag, GetPeers(n) with n from 0 to beyond the population, clock advance by 1s..2*TTL, one entry-cleanup pass, one group-cleanup pass) over 2 torrents x 5 peers on a harness clock, applied to the real LocalStore and to a model of the latest announcement per (torrent, peer); every lookup must return <= n distinct peers that announced the torrent, each with the fields of its latest announcement, and a lookup with n >= number of peers that ever announced must contain every announcement younger than the TTL (older ones may or may not be returned). " +
			"part stress: rounds of concurrent announcements over 2-6 torrents (kept-alive peers announce torrent 0 every round, churn peers announce in random rounds, clock advanced by 1/8..7/8 TTL per round while announcers are idle) race with goroutines looping both cleanup passes (free-running, or parked during the advance and released together with the announcers, or settled first) and a reader; invariants: after each round a full lookup of every torrent returns every announcement younger than TTL exactly as announced, concurrent lookups are distinct, <= n, field-consistent, never go back to an older announcement, and always contain the kept-alive peers. " +
			"non-trivial (model) = a full lookup with a fresh peer and a cleanup pass that ran with an expired entry or with a renewed entry whose first announcement is older than TTL; (stress) = in at least one round an entry-cleanup pass completed while expired entries were being re-announced; distinct by case hash; evaluations (stress) = rounds",
		Assumptions: []string{
			"reference model written from the property statement; expired entries may be returned or dropped (not asserted either way); nothing asserted at age == TTL exactly",
			"cleanup passes are invoked through the verif-tagged export of the unexported functions the store's ticker calls",
			"stress part samples Go scheduler interleavings (not owned, not shrinkable); weaker than the model part",
		},
		Parts: []pbt.Part{
			pbt.NewPart("model", 12, genSeq, runSeq),
			pbt.NewPart("stress", 1, genStress, runStress),
		},
	})
}
