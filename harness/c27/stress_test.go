package c27

import (
	"fmt"
	"math/bits"
	"os"
	"runtime"
	"sync"
	"sync/atomic"
	"time"

	"github.com/uber/kraken/core"
	"github.com/uber/kraken/tracker/peerstore"
	"pgregory.net/rapid"

	"verif/internal/pbt"
)

// ---------------------------------------------------------------------------
// Part "stress": announcements and lookups racing with cleanup passes. The Go
// scheduler picks the interleaving (it is not part of the case and does not
// shrink); the oracle is a set of invariants that hold under every interleaving.
// ---------------------------------------------------------------------------

// Round modes.
const (
	modeFree   = 0 // cleanup loops run freely through clock advance and announcements
	modeGated  = 1 // cleanup loops are parked during the clock advance and released together with the announcers
	modeSettle = 2 // a full pass of both cleanups completes after the advance, before anything is announced
)

type Round struct {
	Adv   int    `json:"adv"`   // clock advance before the round, in eighths of the TTL (1..7, always < TTL)
	Churn uint32 `json:"churn"` // which churn peers announce in this round (rotated by torrent index)
	Mode  int    `json:"mode,omitempty"`
}

type StressCase struct {
	Keep       int     `json:"keep"`       // peers that announce torrent 0 in every round
	Churn      int     `json:"churn"`      // peers that announce (every torrent) only in some rounds
	Extra      int     `json:"extra"`      // further torrents, announced by churn peers only
	Announcers int     `json:"announcers"` // goroutines sharing the announcements of a round
	Rounds     []Round `json:"rounds"`
}

func genStress(t *rapid.T) StressCase {
	c := StressCase{
		Keep:       rapid.IntRange(1, 4).Draw(t, "keep"),
		Churn:      rapid.IntRange(2, 32).Draw(t, "churn"),
		Extra:      rapid.IntRange(1, 5).Draw(t, "extra"),
		Announcers: rapid.IntRange(1, 4).Draw(t, "announcers"),
	}
	maxChunks := 4
	if os.Getenv("VERIF_TIER") == "thorough" {
		maxChunks = 8
	}
	chunks := rapid.SliceOfN(rapid.SliceOfN(rapid.Custom(func(t *rapid.T) Round {
		a := rapid.Uint32().Draw(t, "m1")
		b := rapid.Uint32().Draw(t, "m2")
		m := a & b // each churn peer announces in about a quarter of the rounds
		if rapid.IntRange(0, 3).Draw(t, "all") == 3 {
			m = 0xffffffff
		}
		return Round{
			Adv:   rapid.IntRange(1, 7).Draw(t, "adv"),
			Churn: m,
			Mode:  rapid.SampledFrom([]int{modeGated, modeGated, modeFree, modeFree, modeSettle}).Draw(t, "mode"),
		}
	}), 1, 10), 1, maxChunks).Draw(t, "rounds")
	for _, ch := range chunks {
		c.Rounds = append(c.Rounds, ch...)
	}
	return c
}

const stressTTL = 80 * time.Second

// An announcement of round r carries r in all three fields so that a lookup can
// tell which announcement it reflects and whether the fields belong together.
func stressInfo(p, r int) *core.PeerInfo {
	return core.NewPeerInfo(peerID(p), fmt.Sprintf("10.7.%d.%d", r/250, r%250), 10000+r, false, r%2 == 1)
}

func stressVersion(g *core.PeerInfo) (int, bool) {
	r := g.Port - 10000
	if r < 0 {
		return 0, false
	}
	w := stressInfo(0, r)
	return r, g.IP == w.IP && g.Complete == w.Complete
}

type failbox struct {
	mu  sync.Mutex
	msg string
}

func (f *failbox) set(format string, a ...interface{}) {
	f.mu.Lock()
	if f.msg == "" {
		f.msg = fmt.Sprintf(format, a...)
	}
	f.mu.Unlock()
}

func (f *failbox) get() string {
	f.mu.Lock()
	defer f.mu.Unlock()
	return f.msg
}

func runStress(c StressCase) pbt.Verdict {
	if c.Keep < 1 || c.Keep > 16 || c.Churn < 1 || c.Churn > 32 || c.Extra < 1 || c.Extra > 16 ||
		c.Announcers < 1 || c.Announcers > 8 || len(c.Rounds) == 0 || len(c.Rounds) > 2000 {
		return pbt.Verdict{Discard: true}
	}
	for _, r := range c.Rounds {
		if r.Adv < 1 || r.Adv > 7 || r.Mode < 0 || r.Mode > 2 {
			return pbt.Verdict{Discard: true}
		}
	}
	clk := newClock()
	s := peerstore.NewLocalStore(peerstore.LocalConfig{TTL: stressTTL}, clk)
	defer s.Close()

	// Peers 0..Keep-1 are kept alive in torrent 0; peers Keep..Keep+Churn-1 churn in every torrent.
	total := c.Keep + c.Churn
	torrents := 1 + c.Extra
	idx := map[core.PeerID]int{}
	for p := 0; p < total; p++ {
		idx[peerID(p)] = p
	}
	var fb failbox
	var stop, hold atomic.Bool
	var parked atomic.Int32
	var curRound atomic.Int64  // highest round whose announcements may have started
	var doneRound atomic.Int64 // highest round whose announcements have all returned
	curRound.Store(-1)
	doneRound.Store(-1)
	var bg sync.WaitGroup
	guard := func(name string, f func()) {
		bg.Add(1)
		go func() {
			defer bg.Done()
			defer func() {
				if r := recover(); r != nil {
					fb.set("panic in %s: %v", name, r)
				}
			}()
			f()
		}()
	}
	var entryPasses, groupPasses, lookups atomic.Int64
	cleanupLoop := func(pass func(), counter *atomic.Int64) func() {
		return func() {
			for !stop.Load() {
				if hold.Load() {
					parked.Add(1)
					for hold.Load() && !stop.Load() {
						runtime.Gosched()
					}
					parked.Add(-1)
					continue
				}
				pass()
				counter.Add(1)
				runtime.Gosched()
			}
		}
	}
	guard("entry cleanup", cleanupLoop(s.VerifCleanupExpiredPeerEntries, &entryPasses))
	guard("group cleanup", cleanupLoop(s.VerifCleanupExpiredPeerGroups, &groupPasses))

	// Reader: concurrent lookups must always be well-formed, and peers that announce in
	// every round (never older than 7/8 TTL) must be in every full lookup of torrent 0.
	guard("reader", func() {
		lastSeen := make([]map[int]int, torrents)
		for t := range lastSeen {
			lastSeen[t] = map[int]int{}
		}
		for k := 0; !stop.Load(); k++ {
			t := k % torrents
			if k%2 == 0 {
				t = 0
			}
			n := total
			if k%5 == 4 {
				n = 1 + k%total
			}
			doneBefore := doneRound.Load()
			got, err := s.GetPeers(torrent(t), n)
			upper := curRound.Load()
			lookups.Add(1)
			if err != nil {
				fb.set("concurrent GetPeers failed: %v", err)
				return
			}
			if len(got) > n {
				fb.set("concurrent GetPeers returned %d peers, more than the %d asked for", len(got), n)
				return
			}
			seen := map[int]bool{}
			for _, g := range got {
				p, ok := idx[g.PeerID]
				if !ok {
					fb.set("concurrent GetPeers returned an unknown peer id %s", g.PeerID)
					return
				}
				if seen[p] {
					fb.set("concurrent GetPeers returned peer p%d twice", p)
					return
				}
				seen[p] = true
				v, consistent := stressVersion(g)
				if !consistent {
					fb.set("concurrent GetPeers returned fields of different announcements for peer p%d: %s:%d complete=%v", p, g.IP, g.Port, g.Complete)
					return
				}
				if int64(v) > upper {
					fb.set("concurrent GetPeers returned an announcement of round %d for peer p%d before that round started", v, p)
					return
				}
				if v < lastSeen[t][p] {
					fb.set("concurrent GetPeers went back to an older announcement of peer p%d: round %d after round %d", p, v, lastSeen[t][p])
					return
				}
				lastSeen[t][p] = v
				if t != 0 && p < c.Keep {
					fb.set("concurrent GetPeers(t%d) returned peer p%d which only announced torrent t0", t, p)
					return
				}
			}
			if t == 0 && n >= total && doneBefore >= 0 {
				for p := 0; p < c.Keep; p++ {
					if !seen[p] {
						fb.set("fresh announcement forgotten: peer p%d re-announces t0 in every round (at most 7/8 TTL apart) but is missing from a concurrent full lookup", p)
						return
					}
				}
			}
			if k%8 == 7 {
				runtime.Gosched()
			}
		}
	})

	finish := func() {
		stop.Store(true)
		hold.Store(false)
		bg.Wait()
	}
	bounded := func(cond func() bool) bool {
		// Structural wait; the bound only guards against a loop that died.
		deadline := time.Now().Add(30 * time.Second)
		for !cond() {
			if fb.get() != "" || time.Now().After(deadline) {
				return false
			}
			runtime.Gosched()
		}
		return true
	}
	// waitPasses blocks until both cleanup loops completed a pass that was not finished at the time of the call.
	waitPasses := func() bool {
		e0, g0 := entryPasses.Load(), groupPasses.Load()
		return bounded(func() bool { return entryPasses.Load() != e0 && groupPasses.Load() != g0 })
	}
	giveUp := func() pbt.Verdict {
		finish()
		if m := fb.get(); m != "" {
			return pbt.Fail("%s", m)
		}
		return pbt.Verdict{Discard: true} // a background loop made no progress within the bound (machine overloaded)
	}
	if !waitPasses() {
		return giveUp()
	}

	// lastAnn[t][p] = (round, time) of the latest announcement.
	type la struct {
		round int
		at    time.Time
	}
	lastAnn := make([]map[int]la, torrents)
	for t := range lastAnn {
		lastAnn[t] = map[int]la{}
	}
	var renewedExpired, overlapped, gatedRenewals, expiredGroupRenewals, rounds int
	type job struct{ t, p int }
	for r, rd := range c.Rounds {
		if fb.get() != "" {
			break
		}
		if rd.Mode == modeGated {
			hold.Store(true)
			if !bounded(func() bool { return parked.Load() == 2 }) {
				return giveUp()
			}
		}
		clk.Advance(time.Duration(rd.Adv) * stressTTL / 8)
		now := clk.Now()
		curRound.Store(int64(r))
		if rd.Mode == modeSettle && !waitPasses() {
			return giveUp()
		}
		// Work list of the round: consecutive jobs go to different torrents.
		// Churn-only torrents first: their groups are the ones that can be expired when the
		// announcers and the (possibly just released) cleanup loops start together.
		var jobs []job
		for q := 0; q < c.Churn; q++ {
			for t := torrents - 1; t >= 0; t-- {
				if bits.RotateLeft32(rd.Churn, 3*t)&(1<<uint(q)) != 0 {
					jobs = append(jobs, job{t, c.Keep + q})
				}
			}
		}
		for p := 0; p < c.Keep; p++ {
			jobs = append(jobs, job{0, p})
		}
		renewing := 0
		groupExpired := make([]bool, torrents)
		for t := 1; t < torrents; t++ {
			groupExpired[t] = len(lastAnn[t]) > 0
			for _, l := range lastAnn[t] {
				if now.Sub(l.at) <= stressTTL {
					groupExpired[t] = false
				}
			}
		}
		for _, j := range jobs {
			if old, ok := lastAnn[j.t][j.p]; ok && now.Sub(old.at) > stressTTL {
				renewing++ // re-announcement of an entry a cleanup pass may be deleting right now
			}
			if groupExpired[j.t] {
				expiredGroupRenewals++
				groupExpired[j.t] = false
			}
		}
		ePre := entryPasses.Load()
		start := make(chan struct{})
		var wg sync.WaitGroup
		for a := 0; a < c.Announcers; a++ {
			wg.Add(1)
			go func(a int) {
				defer wg.Done()
				defer func() {
					if rec := recover(); rec != nil {
						fb.set("panic in announcer: %v", rec)
					}
				}()
				<-start
				for k := a; k < len(jobs); k += c.Announcers {
					if err := s.UpdatePeer(torrent(jobs[k].t), stressInfo(jobs[k].p, r)); err != nil {
						fb.set("UpdatePeer failed: %v", err)
						return
					}
					if k%4 == 3 {
						runtime.Gosched()
					}
				}
			}(a)
		}
		hold.Store(false) // releases parked cleanup loops (no-op in the other modes)
		close(start)
		wg.Wait()
		if renewing > 0 && rd.Mode != modeSettle {
			renewedExpired++
			if entryPasses.Load() > ePre {
				overlapped++ // a cleanup pass finished while expired entries were being re-announced
				if rd.Mode == modeGated {
					gatedRenewals++
				}
			}
		}
		for _, j := range jobs {
			lastAnn[j.t][j.p] = la{r, now}
		}
		doneRound.Store(int64(r))
		// Let the passes that were in flight during the announcements finish before judging.
		if !waitPasses() {
			return giveUp()
		}
		rounds++
		// Quiescent check (announcers idle, cleanup and reader still running): every
		// announcement younger than the TTL is returned by a full lookup, exactly as announced.
		for t := 0; t < torrents; t++ {
			got, err := s.GetPeers(torrent(t), total)
			if err != nil {
				finish()
				return pbt.Fail("GetPeers failed: %v", err)
			}
			seen := map[int]*core.PeerInfo{}
			for _, g := range got {
				p, ok := idx[g.PeerID]
				if !ok || seen[p] != nil {
					finish()
					return pbt.Fail("full lookup of t%d after round %d returned an unknown or duplicate peer", t, r)
				}
				seen[p] = g
				l, ok := lastAnn[t][p]
				if !ok {
					finish()
					return pbt.Fail("full lookup of t%d after round %d returned peer p%d which never announced it", t, r, p)
				}
				w := stressInfo(p, l.round)
				if g.IP != w.IP || g.Port != w.Port || g.Complete != w.Complete {
					finish()
					return pbt.Fail("stale announcement: full lookup of t%d after round %d returned %s:%d complete=%v for peer p%d, latest announcement (round %d) was %s:%d complete=%v",
						t, r, g.IP, g.Port, g.Complete, p, l.round, w.IP, w.Port, w.Complete)
				}
			}
			for p := 0; p < total; p++ {
				l, ok := lastAnn[t][p]
				if ok && now.Sub(l.at) < stressTTL && seen[p] == nil {
					finish()
					return pbt.Fail("fresh announcement forgotten: peer p%d announced t%d in round %d (%s ago, ttl %s) and is missing from a full lookup after round %d while cleanup runs concurrently",
						p, t, l.round, now.Sub(l.at), stressTTL, r)
				}
			}
		}
	}
	finish()
	if m := fb.get(); m != "" {
		return pbt.Fail("%s", m)
	}
	var cl []string
	if renewedExpired > 0 {
		cl = append(cl, "expired-entry-re-announced")
	}
	if overlapped > 0 {
		cl = append(cl, "cleanup-pass-overlapped-re-announcement")
	}
	if overlapped >= 3 {
		cl = append(cl, "overlap-in>=3-rounds")
	}
	if gatedRenewals > 0 {
		cl = append(cl, "gated-release-with-expired-entries")
	}
	if expiredGroupRenewals > 0 {
		cl = append(cl, "expired-group-re-announced")
	}
	if lookups.Load() >= int64(rounds) {
		cl = append(cl, "concurrent-lookups>=rounds")
	}
	v := pbt.OK(overlapped > 0, cl...)
	v.Evals = rounds
	return v
}
