// C33 — tags reach a remote cluster only after their blobs do.
//
// The real tagreplication.Executor runs with the real tagclient (towards a scripted
// remote build-index fake) and the real blobclient.ClusterClient / client resolver /
// HTTPClient (towards scripted local origin fakes answering the replicate-to-remote
// request with 200, 202, 4xx, 5xx or a dropped connection). Part "exec" calls Exec the
// way the retry manager does (again after every failure); part "manager" puts the same
// executor behind the real persistedretry.Manager and the real sqlite task store.
// The merged request log of the fakes is the observation.
package c33

import (
	"fmt"
	"net/http"
	"net/url"
	"os"
	"path/filepath"
	"strings"
	"sync"
	"testing"
	"time"

	"github.com/cenkalti/backoff"
	"github.com/uber-go/tally"
	"github.com/uber/kraken/build-index/tagclient"
	"github.com/uber/kraken/core"
	"github.com/uber/kraken/lib/hostlist"
	"github.com/uber/kraken/lib/persistedretry"
	"github.com/uber/kraken/lib/persistedretry/tagreplication"
	"github.com/uber/kraken/localdb"
	"github.com/uber/kraken/origin/blobclient"
	"pgregory.net/rapid"

	"verif/internal/fakenet"
	"verif/internal/pbt"
)

// Outcomes of a Has / Origin call at the remote build-index.
const (
	boTruth = 0 // Has: 200 iff the remote holds the tag, else 404. Origin: 200 + cluster name
	bo500   = 1
	boDrop  = 2 // connection closed without an answer
)

// Outcomes of a replicate-to-remote request at a local origin.
const (
	rpOK   = 0 // 200: the blob has been uploaded to the remote origin cluster
	rp202  = 1 // the local origin is still fetching the blob
	rp500  = 2
	rp503  = 3
	rp404  = 4
	rpDrop = 5
	rp409  = 6
)

// Outcomes of a tag put at the remote build-index.
const (
	ptOK         = 0 // stored, 200
	pt500        = 1
	pt503        = 2
	ptDrop       = 3 // connection closed, nothing stored
	ptStoredDrop = 4 // stored, then the connection is closed without an answer
	pt409        = 5
)

type Case struct {
	Tag       string  `json:"tag"`
	NDeps     int     `json:"ndeps"`
	Origins   int     `json:"origins"`              // local origins behind the cluster client (1-2)
	FirstDown bool    `json:"first_down,omitempty"` // first of two local origins refuses connections
	MaxPoll   int     `json:"max_poll"`             // retries the poll back-off allows on 202
	Present   bool    `json:"present,omitempty"`    // the remote build-index already holds the tag
	Has       []int   `json:"has,omitempty"`        // outcome per Has call, then truthful
	Origin    []int   `json:"origin,omitempty"`     // outcome per Origin call, then ok
	Rep       [][]int `json:"rep,omitempty"`        // per dependency: outcome per replicate request, then 200
	Put       []int   `json:"put,omitempty"`        // outcome per put, then ok
	Repush    int     `json:"repush,omitempty"`     // manager part: the tag is pushed again with another digest that has this many (other) dependencies
}

func genCase(t *rapid.T) Case {
	var c Case
	c.Tag = rapid.SampledFrom([]string{"repo:latest", "library/ubuntu:20.04", "a/b/c:v1", "team/app:sha-1", "x y:z"}).Draw(t, "tag")
	c.NDeps = rapid.SampledFrom([]int{0, 1, 1, 2, 2, 3, 3, 4}).Draw(t, "ndeps")
	c.Origins = rapid.IntRange(1, 2).Draw(t, "origins")
	if c.Origins == 2 {
		c.FirstDown = rapid.IntRange(0, 5).Draw(t, "firstDown") == 0
	}
	c.MaxPoll = rapid.IntRange(0, 3).Draw(t, "maxPoll")
	c.Present = rapid.IntRange(0, 14).Draw(t, "present") == 0
	c.Has = rapid.SliceOfN(rapid.SampledFrom([]int{boTruth, boTruth, boTruth, bo500, boDrop}), 0, 3).Draw(t, "has")
	c.Origin = rapid.SliceOfN(rapid.SampledFrom([]int{boTruth, boTruth, boTruth, bo500, boDrop}), 0, 2).Draw(t, "origin")
	for i := 0; i < c.NDeps; i++ {
		c.Rep = append(c.Rep, rapid.SliceOfN(rapid.SampledFrom([]int{rpOK, rpOK, rp202, rp202, rp202, rp500, rp503, rp404, rpDrop, rp409}), 0, 5).Draw(t, "rep"))
	}
	c.Put = rapid.SliceOfN(rapid.SampledFrom([]int{ptOK, pt500, pt503, ptDrop, ptStoredDrop, pt409}), 0, 3).Draw(t, "put")
	if rapid.IntRange(0, 2).Draw(t, "repush") == 0 {
		c.Repush = rapid.IntRange(1, 3).Draw(t, "repushDeps")
	}
	return c
}

func depDigest(i int) core.Digest {
	d, err := core.NewDigester().FromBytes([]byte(fmt.Sprintf("c33 dependency blob %d", i)))
	if err != nil {
		panic(err)
	}
	return d
}

func tagDigest2() core.Digest {
	d, err := core.NewDigester().FromBytes([]byte("c33 manifest, pushed again"))
	if err != nil {
		panic(err)
	}
	return d
}

func tagDigest() core.Digest {
	d, err := core.NewDigester().FromBytes([]byte("c33 manifest"))
	if err != nil {
		panic(err)
	}
	return d
}

type event struct {
	exec int    // execution during which the request arrived (exec part), 0 otherwise
	what string // "has", "origin", "rep", "put"
	dep  int
	out  string
}

// world is the remote cluster (build-index + origin cluster state) and the request log.
type world struct {
	mu           sync.Mutex
	c            Case
	deps         []core.Digest
	digest       core.Digest
	digest2      core.Digest // digest of the re-pushed tag; its dependencies are deps[c.NDeps:]
	remoteOrigin string
	hasTag       bool
	confirmed    []bool // dependency i has been answered 200 by a local origin for the right remote
	hasCalls     int
	originCalls  int
	repCalls     []int
	putCalls     int
	exec         int
	events       []event
	violation    string
	badRequests  []string
	non200Rep    int
	present      func(i int) bool // if set: ground truth for "dependency i is in the remote origin cluster"
}

func (w *world) logf(what string, dep int, out string) {
	w.events = append(w.events, event{exec: w.exec, what: what, dep: dep, out: out})
}

func (w *world) history() string {
	var sb strings.Builder
	for _, e := range w.events {
		if sb.Len() > 0 {
			sb.WriteString(", ")
		}
		if e.exec > 0 {
			fmt.Fprintf(&sb, "#%d ", e.exec)
		}
		if e.what == "rep" {
			fmt.Fprintf(&sb, "replicate(dep%d)=%s", e.dep, e.out)
		} else {
			fmt.Fprintf(&sb, "%s=%s", e.what, e.out)
		}
	}
	return sb.String()
}

func drop(w http.ResponseWriter) {
	if hj, ok := w.(http.Hijacker); ok {
		if conn, _, err := hj.Hijack(); err == nil {
			conn.Close()
		}
	}
}

// buildIndex is the remote build-index fake.
type buildIndex struct{ w *world }

func (b buildIndex) ServeHTTP(rw http.ResponseWriter, r *http.Request) {
	w := b.w
	p := r.URL.EscapedPath()
	tagPath := "/tags/" + url.PathEscape(w.c.Tag)
	switch {
	case r.Method == "HEAD" && p == tagPath:
		w.mu.Lock()
		o := boTruth
		if w.hasCalls < len(w.c.Has) {
			o = w.c.Has[w.hasCalls]
		}
		w.hasCalls++
		has := w.hasTag
		w.logf("has", 0, map[int]string{boTruth: fmt.Sprint(has), bo500: "500", boDrop: "drop"}[o])
		w.mu.Unlock()
		switch o {
		case bo500:
			rw.WriteHeader(500)
		case boDrop:
			drop(rw)
		default:
			if has {
				rw.WriteHeader(200)
			} else {
				rw.WriteHeader(404)
			}
		}
	case r.Method == "GET" && p == "/origin":
		w.mu.Lock()
		o := boTruth
		if w.originCalls < len(w.c.Origin) {
			o = w.c.Origin[w.originCalls]
		}
		w.originCalls++
		w.logf("origin", 0, map[int]string{boTruth: "ok", bo500: "500", boDrop: "drop"}[o])
		w.mu.Unlock()
		switch o {
		case bo500:
			rw.WriteHeader(500)
		case boDrop:
			drop(rw)
		default:
			rw.WriteHeader(200)
			rw.Write([]byte(w.remoteOrigin))
		}
	case r.Method == "PUT" && strings.HasPrefix(p, tagPath+"/digest/"):
		w.mu.Lock()
		// The remote build-index is being asked to store the tag: the property's moment.
		putDigest := strings.TrimPrefix(p, tagPath+"/digest/")
		lo, hi := 0, w.c.NDeps
		if w.c.Repush > 0 && putDigest == w.digest2.String() {
			lo, hi = w.c.NDeps, len(w.confirmed)
		}
		var missing []string
		for i, ok := range w.confirmed {
			if i < lo || i >= hi {
				continue
			}
			if w.present != nil {
				ok = w.present(i) // chain part: look into the remote origin's store
			}
			if !ok {
				missing = append(missing, fmt.Sprintf("dep%d", i))
			}
		}
		if len(missing) > 0 && w.violation == "" {
			w.logf("put", 0, "ASKED")
			w.violation = fmt.Sprintf("remote build-index asked to store the tag before every dependency was confirmed in the remote origin cluster\nunconfirmed: %s; requests so far: %s", strings.Join(missing, ","), w.history())
		}
		o := ptOK
		if w.putCalls < len(w.c.Put) {
			o = w.c.Put[w.putCalls]
		}
		w.putCalls++
		okDigest := putDigest == w.digest.String() || (w.c.Repush > 0 && putDigest == w.digest2.String())
		if !okDigest {
			w.badRequests = append(w.badRequests, r.Method+" "+p)
			w.logf("put", 0, "wrong-digest")
			w.mu.Unlock()
			rw.WriteHeader(400)
			return
		}
		if o == ptOK || o == ptStoredDrop {
			w.hasTag = true
		}
		w.logf("put", 0, map[int]string{ptOK: "stored", pt500: "500", pt503: "503", ptDrop: "drop", ptStoredDrop: "stored-then-drop", pt409: "409"}[o])
		w.mu.Unlock()
		switch o {
		case pt500:
			rw.WriteHeader(500)
		case pt503:
			rw.WriteHeader(503)
		case pt409:
			rw.WriteHeader(409)
		case ptDrop, ptStoredDrop:
			drop(rw)
		default:
			rw.WriteHeader(200)
		}
	default:
		w.mu.Lock()
		w.badRequests = append(w.badRequests, r.Method+" "+p)
		w.mu.Unlock()
		rw.WriteHeader(400)
	}
}

// localOrigin is a local origin fake: it serves the locations lookup and the
// replicate-to-remote request.
type localOrigin struct {
	w    *world
	locs *string
}

func (l localOrigin) ServeHTTP(rw http.ResponseWriter, r *http.Request) {
	w := l.w
	p := r.URL.EscapedPath()
	if r.Method == "GET" && strings.HasSuffix(p, "/locations") {
		rw.Header().Set("Origin-Locations", *l.locs)
		rw.WriteHeader(200)
		return
	}
	prefix := "/namespace/" + url.PathEscape(w.c.Tag) + "/blobs/"
	if r.Method != "POST" || !strings.HasPrefix(p, prefix) {
		w.mu.Lock()
		w.badRequests = append(w.badRequests, r.Method+" "+p)
		w.mu.Unlock()
		rw.WriteHeader(400)
		return
	}
	rest := strings.SplitN(strings.TrimPrefix(p, prefix), "/remote/", 2)
	dep := -1
	for i, d := range w.deps {
		if len(rest) == 2 && rest[0] == d.String() {
			dep = i
		}
	}
	if dep < 0 {
		w.mu.Lock()
		w.badRequests = append(w.badRequests, r.Method+" "+p)
		w.mu.Unlock()
		rw.WriteHeader(404)
		return
	}
	w.mu.Lock()
	o := rpOK
	if w.repCalls[dep] < len(w.c.Rep[dep]) {
		o = w.c.Rep[dep][w.repCalls[dep]]
	}
	w.repCalls[dep]++
	rightRemote := rest[1] == w.remoteOrigin
	if o == rpOK && rightRemote {
		w.confirmed[dep] = true
	}
	if o != rpOK {
		w.non200Rep++
	}
	name := map[int]string{rpOK: "200", rp202: "202", rp500: "500", rp503: "503", rp404: "404", rpDrop: "drop", rp409: "409"}[o]
	if !rightRemote {
		name += "(wrong remote " + rest[1] + ")"
		w.badRequests = append(w.badRequests, r.Method+" "+p)
	}
	w.logf("rep", dep, name)
	w.mu.Unlock()
	switch o {
	case rp202:
		rw.WriteHeader(202)
	case rp500:
		rw.WriteHeader(500)
	case rp503:
		rw.WriteHeader(503)
	case rp404:
		rw.WriteHeader(404)
	case rp409:
		rw.WriteHeader(409)
	case rpDrop:
		drop(rw)
	default:
		rw.WriteHeader(200)
	}
}

// rig is everything a case needs.
type rig struct {
	w     *world
	exec  *tagreplication.Executor
	task  *tagreplication.Task
	task2 *tagreplication.Task // the same tag pushed again with another digest (manager part)
	close func()
}

func discard() pbt.Verdict { return pbt.Verdict{Discard: true} }

func sanitize(c Case) (Case, bool) {
	if c.NDeps < 0 || c.NDeps > 8 || c.Origins < 1 || c.Origins > 2 || c.Tag == "" {
		return c, false
	}
	if c.Repush < 0 || c.Repush > 4 {
		return c, false
	}
	for len(c.Rep) < c.NDeps+c.Repush {
		c.Rep = append(c.Rep, nil)
	}
	return c, true
}

func newRig(c Case) (*rig, error) {
	fakenet.InstallDefault()
	w := &world{c: c, digest: tagDigest(), digest2: tagDigest2(), remoteOrigin: "remote-origin.zone2:80", hasTag: c.Present,
		confirmed: make([]bool, c.NDeps+c.Repush), repCalls: make([]int, c.NDeps+c.Repush)}
	for i := 0; i < c.NDeps+c.Repush; i++ {
		w.deps = append(w.deps, depDigest(i))
	}
	var closers []func()
	closeAll := func() {
		for i := len(closers) - 1; i >= 0; i-- {
			closers[i]()
		}
		http.DefaultTransport.(*http.Transport).CloseIdleConnections()
	}
	bi, err := fakenet.Serve(buildIndex{w})
	if err != nil {
		return nil, err
	}
	closers = append(closers, bi.Close)
	locs := new(string)
	var addrs []string
	var first string
	for i := 0; i < c.Origins; i++ {
		if i == 0 && c.FirstDown && c.Origins == 2 {
			addrs = append(addrs, fakenet.NewAddr())
			continue
		}
		srv, err := fakenet.Serve(localOrigin{w: w, locs: locs})
		if err != nil {
			closeAll()
			return nil, err
		}
		closers = append(closers, srv.Close)
		addrs = append(addrs, srv.Addr)
		if first == "" {
			first = srv.Addr
		}
	}
	*locs = strings.Join(addrs, ",")
	if c.MaxPoll > 0 {
		n := uint64(c.MaxPoll)
		blobclient.VerifSetPollBackOff(func() backoff.BackOff {
			return backoff.WithMaxRetries(backoff.NewConstantBackOff(0*time.Second), n)
		})
	} else {
		blobclient.VerifSetPollBackOff(func() backoff.BackOff { return &backoff.StopBackOff{} })
	}
	closers = append(closers, func() { blobclient.VerifSetPollBackOff(nil) })
	// The cluster host list names a live origin: it answers the locations lookup.
	cluster := blobclient.NewClusterClient(blobclient.NewClientResolver(blobclient.NewProvider(), hostlist.Fixture(first)))
	ex := tagreplication.NewExecutor(tally.NoopScope, cluster, tagclient.NewProvider(nil))
	task := tagreplication.NewTask(c.Tag, w.digest, core.DigestList(w.deps[:c.NDeps]), bi.Addr, 0)
	var task2 *tagreplication.Task
	if c.Repush > 0 {
		task2 = tagreplication.NewTask(c.Tag, w.digest2, core.DigestList(w.deps[c.NDeps:]), bi.Addr, 0)
	}
	return &rig{w: w, exec: ex, task: task, task2: task2, close: closeAll}, nil
}

// badSteps counts the scripted outcomes that make an execution fail or poll again.
func badSteps(c Case) int {
	n := 0
	for _, o := range c.Origin {
		if o != boTruth {
			n++
		}
	}
	for _, r := range c.Rep {
		for _, o := range r {
			if o != rpOK {
				n++
			}
		}
	}
	for _, o := range c.Put {
		if o != ptOK {
			n++
		}
	}
	return n
}

func classes(c Case, w *world, execs int) ([]string, bool) {
	cl := []string{fmt.Sprintf("deps:%d", c.NDeps)}
	var puts, polls, repFail int
	for _, e := range w.events {
		switch {
		case e.what == "put":
			puts++
		case e.what == "rep" && e.out == "202":
			polls++
		case e.what == "rep" && e.out != "200":
			repFail++
		}
	}
	if c.Present {
		cl = append(cl, "tag-already-present")
	}
	if polls > 0 {
		cl = append(cl, "202-polled")
	}
	if repFail > 0 {
		cl = append(cl, "replicate-failed")
	}
	if puts > 1 {
		cl = append(cl, "put-repeated")
	}
	if execs > 1 {
		cl = append(cl, "re-executed")
	}
	if c.FirstDown {
		cl = append(cl, "first-origin-down")
	}
	nontrivial := puts > 0 && c.NDeps > 0 && (polls > 0 || repFail > 0 || execs > 1)
	return cl, nontrivial
}

func runExec(c Case) pbt.Verdict {
	c, ok := sanitize(c)
	if !ok {
		return discard()
	}
	r, err := newRig(c)
	if err != nil {
		return discard()
	}
	defer r.close()
	w := r.w

	// The retry manager executes the task again after every failure. Every failed
	// execution uses up at least one scripted failure (the scripts end in success), so
	// bad+1 executions are enough for a correct executor.
	limit := badSteps(c) + 1
	var execErr error
	execs := 0
	for execs < limit {
		execs++
		w.mu.Lock()
		w.exec = execs
		w.mu.Unlock()
		execErr = r.exec.Exec(r.task)
		w.mu.Lock()
		v, has := w.violation, w.hasTag
		w.mu.Unlock()
		if v != "" {
			return pbt.Fail("%s", v)
		}
		if execErr == nil {
			if !has {
				w.mu.Lock()
				h := w.history()
				w.mu.Unlock()
				return pbt.Fail("execution reported success although the remote build-index does not hold the tag (the task would not be retried)\nexecution %d; requests: %s", execs, h)
			}
			break
		}
	}
	w.mu.Lock()
	defer w.mu.Unlock()
	if execErr != nil {
		return pbt.Fail("replication does not complete although every scripted failure has been used up\n%d executions, last error: %v; requests: %s", execs, execErr, w.history())
	}
	cl, nt := classes(c, w, execs)
	return pbt.OK(nt, cl...)
}

func runManager(c Case) pbt.Verdict {
	c, ok := sanitize(c)
	if !ok {
		return discard()
	}
	dir, err := os.MkdirTemp("", "c33-db-")
	if err != nil {
		return discard()
	}
	defer os.RemoveAll(dir)
	db, err := localdb.New(localdb.Config{Source: filepath.Join(dir, "test.db")})
	if err != nil {
		return discard()
	}
	defer db.Close()
	r, err := newRig(c)
	if err != nil {
		return discard()
	}
	defer r.close()
	w := r.w
	remotes, err := tagreplication.RemotesConfig{r.task.Destination: []string{".*"}}.Build()
	if err != nil {
		return discard()
	}
	store, err := tagreplication.NewStore(db, remotes)
	if err != nil {
		return discard()
	}
	m, err := persistedretry.NewManager(persistedretry.Config{
		IncomingBuffer: 4, RetryBuffer: 4, NumIncomingWorkers: 1, NumRetryWorkers: 1,
		MaxTaskThroughput: time.Millisecond, RetryInterval: time.Millisecond, PollRetriesInterval: 2 * time.Millisecond,
	}, tally.NoopScope, store, r.exec)
	if err != nil {
		return discard()
	}
	closed := false
	defer func() {
		if !closed {
			m.Close()
		}
	}()
	if err := m.Add(r.task); err != nil {
		return discard()
	}
	count := func() (int, error) {
		var n int
		err := db.Get(&n, `SELECT COUNT(*) FROM replicate_tag_task`)
		return n, err
	}
	repushedWhilePersisted := false
	if r.task2 != nil {
		// The tag is pushed again, with another digest and other dependencies, once the first
		// task has met its first obstacle (or has gone through): the manager is handed a task
		// with the same (tag, destination) key while the first one may still be persisted.
		poll := time.Now().Add(2 * time.Second)
		for time.Now().Before(poll) {
			w.mu.Lock()
			met := w.hasTag
			for _, e := range w.events {
				if e.out == "500" || e.out == "503" || e.out == "drop" || e.out == "404" || e.out == "202" {
					met = true
				}
			}
			w.mu.Unlock()
			if met {
				break
			}
			time.Sleep(200 * time.Microsecond)
		}
		n, _ := count()
		w.mu.Lock()
		repushedWhilePersisted = n > 0 && !w.hasTag
		w.mu.Unlock()
		if err := m.Add(r.task2); err != nil {
			return discard()
		}
	}
	// Wait (generously; the work takes milliseconds) until the remote holds the tag. A
	// task that disappears from the store while the remote does not hold the tag will
	// never be retried: that is judged structurally, not by the clock.
	deadline := time.Now().Add(30 * time.Second)
	done := false
	for time.Now().Before(deadline) {
		w.mu.Lock()
		v, has := w.violation, w.hasTag
		w.mu.Unlock()
		if v != "" {
			return pbt.Fail("%s", v)
		}
		if has {
			done = true
			break
		}
		n, err := count()
		if err != nil {
			return discard()
		}
		if n == 0 {
			w.mu.Lock()
			has, h := w.hasTag, w.history()
			w.mu.Unlock()
			if !has {
				return pbt.Fail("replication task was given up although the remote build-index does not hold the tag\nrequests: %s", h)
			}
		}
		time.Sleep(500 * time.Microsecond)
	}
	if !done {
		return pbt.Verdict{Discard: true, Classes: []string{"not-finished-in-30s"}}
	}
	// Let the manager finish the execution in flight, then look at the whole log.
	for time.Now().Before(deadline) {
		n, err := count()
		if err != nil || n == 0 {
			break
		}
		time.Sleep(500 * time.Microsecond)
	}
	m.Close()
	closed = true
	w.mu.Lock()
	defer w.mu.Unlock()
	if w.violation != "" {
		return pbt.Fail("%s", w.violation)
	}
	execs := 0
	for _, e := range w.events {
		if e.what == "has" {
			execs++
		}
	}
	cl, nt := classes(c, w, execs)
	if r.task2 != nil {
		cl = append(cl, "tag-pushed-again-with-another-digest")
		if repushedWhilePersisted {
			cl = append(cl, "pushed-again-while-first-task-persisted")
		}
	}
	return pbt.OK(nt, cl...)
}

func TestProp(t *testing.T) {
	pbt.Main(t, pbt.Spec{
		ID:   "C33",
		Rule: "generated fault scripts for a replication task with 0-4 dependency blobs: per call outcomes of the remote build-index (Has: truthful/500/drop, Origin: ok/500/drop, tag put: stored/500/503/409/drop/stored-then-drop) and per dependency of the local origins' replicate-to-remote request (200/202/500/503/404/409/drop), 1-2 local origins (the first possibly down), 0-3 poll retries; real tagreplication.Executor + tagclient + blobclient.ClusterClient over HTTP fakes, executed again after every failure (part exec) or by the real persistedretry.Manager with the sqlite task store (part manager; in one case out of three the same tag is handed to the manager again with another digest and other dependencies while the first task may still be persisted); oracle on the merged request log: whenever the remote build-index is asked to store the tag with a digest every dependency of that digest has been answered 200 for the right remote cluster before, an execution reports success only if the remote holds the tag, and once the scripted failures are used up replication completes; non-trivial = a put happened for a task with dependencies after at least one 202/failed replicate or a re-execution; distinct by case hash",
		Assumptions: []string{
			"the remote build-index fake and the local origin fakes are trusted; a local origin's 200 to the replicate request stands for 'blob uploaded to the remote origin cluster' (the real origin server answers 200 only after the upload)",
			"'confirmed' is read cumulatively: a dependency confirmed in an earlier execution stays confirmed",
			"the cluster client's poll back-off is replaced through the verif hook by a zero-delay back-off with 0-3 retries",
			"Has answers are truthful or failures (a remote that wrongly claims to hold the tag is not a fault of this system)",
			"manager part: millisecond retry intervals; a case that does not finish within 30 s is discarded, a task removed from the store while the remote lacks the tag is a violation",
		},
		Parts: []pbt.Part{
			pbt.NewPart("exec", 16, genCase, runExec),
			pbt.NewPart("manager", 1, genCase, runManager),
			pbt.NewPart("chain", 1, genChain, runChain),
		},
	})
}
