package c33

// Part "chain": the whole replication path with real origin servers.
//
//	Executor -> ClusterClient -> real local origin blobserver (replicate-to-remote handler,
//	blob refresher, CAStore) -> ClusterClient -> real remote origin blobserver (upload
//	handlers, CAStore)            and            Executor -> tagclient -> remote build-index fake
//
// Here "confirmed present in the remote origin cluster" is not an assumption about a
// fake's 200: when the remote build-index fake is asked to store the tag it looks into
// the remote origin's CAStore. Faults: scripted 500/503/dropped connections in front of
// the remote origin (also after it processed the request), dependencies that are only in
// the local origin's storage backend (202 while the origin fetches them), failing puts.

import (
	"bytes"
	"fmt"
	"io"
	"net/http"
	"net/http/httptest"
	"os"
	"path/filepath"
	"sync"
	"time"

	"github.com/andres-erbsen/clock"
	"github.com/cenkalti/backoff"
	"github.com/uber-go/tally"
	"github.com/uber/kraken/build-index/tagclient"
	"github.com/uber/kraken/core"
	"github.com/uber/kraken/lib/backend"
	"github.com/uber/kraken/lib/backend/backenderrors"
	"github.com/uber/kraken/lib/blobrefresh"
	"github.com/uber/kraken/lib/hostlist"
	"github.com/uber/kraken/lib/metainfogen"
	"github.com/uber/kraken/lib/persistedretry"
	"github.com/uber/kraken/lib/persistedretry/tagreplication"
	"github.com/uber/kraken/lib/store"
	"github.com/uber/kraken/origin/blobclient"
	"github.com/uber/kraken/origin/blobserver"
	"github.com/uber/kraken/utils/stringset"
	"pgregory.net/rapid"

	"verif/internal/fakenet"
	"verif/internal/pbt"
)

// Outcomes of a request arriving at the remote origin.
const (
	rfPass          = 0
	rf500           = 1
	rf503           = 2
	rfDrop          = 3 // connection closed, request not processed
	rfProcessedDrop = 4 // request processed by the remote origin, then the connection is closed
)

type ChainDep struct {
	Size int `json:"size"`
	// Where: 0 in the local origin's cache, 1 only in the local origin's storage backend
	// (the origin answers 202 and fetches it), 2 nowhere (replication can never finish).
	Where int `json:"where"`
}

type ChainCase struct {
	Tag     string     `json:"tag"`
	Deps    []ChainDep `json:"deps"`
	MaxPoll int        `json:"max_poll"`
	Remote  []int      `json:"remote,omitempty"` // outcome per request reaching the remote origin, then pass
	Has     []int      `json:"has,omitempty"`
	Put     []int      `json:"put,omitempty"`
}

func genChain(t *rapid.T) ChainCase {
	var c ChainCase
	c.Tag = rapid.SampledFrom([]string{"repo:latest", "library/ubuntu:20.04", "a/b/c:v1"}).Draw(t, "tag")
	n := rapid.IntRange(1, 3).Draw(t, "ndeps")
	lost := rapid.IntRange(0, 19).Draw(t, "lost") == 0
	for i := 0; i < n; i++ {
		d := ChainDep{Size: rapid.SampledFrom([]int{1, 10, 100, 5000}).Draw(t, "size"), Where: rapid.SampledFrom([]int{0, 0, 1}).Draw(t, "where")}
		if lost && i == n-1 {
			d.Where = 2
		}
		c.Deps = append(c.Deps, d)
	}
	c.MaxPoll = rapid.IntRange(0, 2).Draw(t, "maxPoll")
	c.Remote = rapid.SliceOfN(rapid.SampledFrom([]int{rfPass, rfPass, rfPass, rf500, rf503, rfDrop, rfProcessedDrop}), 0, 8).Draw(t, "remote")
	c.Has = rapid.SliceOfN(rapid.SampledFrom([]int{boTruth, boTruth, bo500, boDrop}), 0, 2).Draw(t, "has")
	c.Put = rapid.SliceOfN(rapid.SampledFrom([]int{ptOK, pt500, ptDrop, ptStoredDrop}), 0, 2).Draw(t, "put")
	return c
}

// oneNodeRing places every blob on one origin.
type oneNodeRing struct{ addr string }

func (r oneNodeRing) Locations(d core.Digest) []string  { return []string{r.addr} }
func (r oneNodeRing) Contains(addr string) bool         { return addr == r.addr }
func (r oneNodeRing) WaitForContains(addr string) error { return nil }
func (r oneNodeRing) Members() stringset.Set            { return stringset.New(r.addr) }
func (r oneNodeRing) Monitor(stop <-chan struct{})      {}
func (r oneNodeRing) Refresh()                          {}

type nopManager struct{}

func (nopManager) Add(persistedretry.Task) error                     { return nil }
func (nopManager) SyncExec(persistedretry.Task) error                { return nil }
func (nopManager) Close()                                            {}
func (nopManager) Find(q interface{}) ([]persistedretry.Task, error) { return nil, nil }

// memBackend is an in-memory storage backend.
type memBackend struct {
	mu    sync.Mutex
	blobs map[string][]byte
	asked map[string]bool // names the origin has looked up (it does so before it starts a fetch)
}

func (m *memBackend) wasAsked(name string) bool {
	m.mu.Lock()
	defer m.mu.Unlock()
	return m.asked[name]
}

func (m *memBackend) Stat(namespace, name string) (*core.BlobInfo, error) {
	m.mu.Lock()
	defer m.mu.Unlock()
	m.asked[name] = true
	b, ok := m.blobs[name]
	if !ok {
		return nil, backenderrors.ErrBlobNotFound
	}
	return core.NewBlobInfo(int64(len(b))), nil
}

func (m *memBackend) Upload(namespace, name string, src io.Reader) error {
	b, err := io.ReadAll(src)
	if err != nil {
		return err
	}
	m.mu.Lock()
	defer m.mu.Unlock()
	m.blobs[name] = b
	return nil
}

func (m *memBackend) Download(namespace, name string, dst io.Writer) error {
	m.mu.Lock()
	b, ok := m.blobs[name]
	m.mu.Unlock()
	if !ok {
		return backenderrors.ErrBlobNotFound
	}
	_, err := io.Copy(dst, bytes.NewReader(b))
	return err
}

func (m *memBackend) List(prefix string, opts ...backend.ListOption) (*backend.ListResult, error) {
	return &backend.ListResult{}, nil
}

func (m *memBackend) Close() error { return nil }

// remoteClusters hands the local origin its client for the remote origin cluster.
type remoteClusters struct {
	dns  string
	addr string
}

func (p remoteClusters) Provide(dns string) (blobclient.ClusterClient, error) {
	if dns != p.dns {
		return nil, fmt.Errorf("verif: unknown remote cluster %q", dns)
	}
	return blobclient.NewClusterClient(blobclient.NewClientResolver(blobclient.NewProvider(), hostlist.Fixture(p.addr))), nil
}

type noClients struct{}

func (noClients) Provide(addr string) blobclient.Client { return blobclient.New(addr) }

type originNode struct {
	addr string
	cas  *store.CAStore
	mem  *memBackend
	srv  *fakenet.Server
	dir  string
}

func (o *originNode) close() {
	if o.srv != nil {
		o.srv.Close()
	}
	if o.cas != nil {
		o.cas.Close()
	}
	os.RemoveAll(o.dir)
}

// newOriginNode wires a blob server the way origin/cmd does (real server, CAStore,
// metainfo generator, blob refresher; in-memory storage backend, forgetful write-back
// queue, single-node hash ring). wrap may put a fault injector in front of the handler.
func newOriginNode(clusters blobclient.ClusterProvider, wrap func(http.Handler) http.Handler) (*originNode, error) {
	dir, err := os.MkdirTemp("", "c33-origin-")
	if err != nil {
		return nil, err
	}
	o := &originNode{dir: dir, addr: fakenet.NewAddr(), mem: &memBackend{blobs: map[string][]byte{}, asked: map[string]bool{}}}
	for _, d := range []string{"upload", "cache"} {
		if err := os.MkdirAll(filepath.Join(dir, d), 0775); err != nil {
			o.close()
			return nil, err
		}
	}
	o.cas, err = store.NewCAStore(store.CAStoreConfig{UploadDir: filepath.Join(dir, "upload"), CacheDir: filepath.Join(dir, "cache")}, tally.NoopScope)
	if err != nil {
		o.cas = nil
		o.close()
		return nil, err
	}
	backends := backend.ManagerFixture()
	if err := backends.Register(".*", o.mem, false); err != nil {
		o.close()
		return nil, err
	}
	mg := metainfogen.Fixture(o.cas, 4096)
	br := blobrefresh.New(blobrefresh.Config{}, tally.NoopScope, o.cas, backends, mg)
	s, err := blobserver.New(blobserver.Config{}, tally.NoopScope, clock.New(), o.addr, oneNodeRing{o.addr}, o.cas, noClients{}, clusters,
		core.PeerContext{}, backends, br, mg, nopManager{})
	if err != nil {
		o.close()
		return nil, err
	}
	h := s.Handler()
	if wrap != nil {
		h = wrap(h)
	}
	o.srv, err = fakenet.ServeAt(o.addr, h)
	if err != nil {
		o.close()
		return nil, err
	}
	return o, nil
}

func (o *originNode) has(d core.Digest) bool {
	_, err := o.cas.GetCacheFileStat(d.Hex())
	return err == nil
}

// faultInjector plays the scripted outcomes in front of the remote origin.
type faultInjector struct {
	mu     sync.Mutex
	script []int
	calls  int
	faults int
	next   http.Handler
}

func (f *faultInjector) ServeHTTP(rw http.ResponseWriter, r *http.Request) {
	f.mu.Lock()
	o := rfPass
	if f.calls < len(f.script) {
		o = f.script[f.calls]
	}
	f.calls++
	if o != rfPass {
		f.faults++
	}
	f.mu.Unlock()
	switch o {
	case rf500:
		io.Copy(io.Discard, r.Body)
		rw.WriteHeader(500)
	case rf503:
		io.Copy(io.Discard, r.Body)
		rw.WriteHeader(503)
	case rfDrop:
		drop(rw)
	case rfProcessedDrop:
		f.next.ServeHTTP(httptest.NewRecorder(), r)
		drop(rw)
	default:
		f.next.ServeHTTP(rw, r)
	}
}

func chainBlob(i, size int) []byte {
	b := make([]byte, size)
	x := uint64(i+1)*0x9E3779B97F4A7C15 + uint64(size)
	for j := range b {
		x ^= x << 13
		x ^= x >> 7
		x ^= x << 17
		b[j] = byte(x >> 24)
	}
	return b
}

func runChain(c ChainCase) pbt.Verdict {
	if len(c.Deps) == 0 || len(c.Deps) > 6 || c.Tag == "" {
		return discard()
	}
	fakenet.InstallDefault()
	defer http.DefaultTransport.(*http.Transport).CloseIdleConnections()

	const remoteDNS = "remote-origin.zone2:80"
	inj := &faultInjector{script: c.Remote}
	remote, err := newOriginNode(remoteClusters{}, func(h http.Handler) http.Handler { inj.next = h; return inj })
	if err != nil {
		return discard()
	}
	defer remote.close()
	local, err := newOriginNode(remoteClusters{dns: remoteDNS, addr: remote.addr}, nil)
	if err != nil {
		return discard()
	}
	defer local.close()

	// World: the build-index fake's "confirmed" is the remote origin's store.
	w := &world{c: Case{Tag: c.Tag, NDeps: len(c.Deps), Has: c.Has, Put: c.Put}, digest: tagDigest(), remoteOrigin: remoteDNS,
		confirmed: make([]bool, len(c.Deps)), repCalls: make([]int, len(c.Deps))}
	lost := false
	var fetch []core.Digest
	for i, dep := range c.Deps {
		blob := chainBlob(i, dep.Size)
		d, err := core.NewDigester().FromBytes(blob)
		if err != nil {
			return discard()
		}
		w.deps = append(w.deps, d)
		switch dep.Where {
		case 0:
			if err := local.cas.CreateCacheFile(d.Hex(), bytes.NewReader(blob)); err != nil {
				return discard()
			}
		case 1:
			local.mem.blobs[d.Hex()] = blob
			fetch = append(fetch, d)
		default:
			lost = true
		}
	}
	w.present = func(i int) bool { return remote.has(w.deps[i]) }
	bi, err := fakenet.Serve(buildIndex{w})
	if err != nil {
		return discard()
	}
	defer bi.Close()

	if c.MaxPoll > 0 {
		n := uint64(c.MaxPoll)
		blobclient.VerifSetPollBackOff(func() backoff.BackOff {
			return backoff.WithMaxRetries(backoff.NewConstantBackOff(0*time.Second), n)
		})
	} else {
		blobclient.VerifSetPollBackOff(func() backoff.BackOff { return &backoff.StopBackOff{} })
	}
	defer blobclient.VerifSetPollBackOff(nil)

	cluster := blobclient.NewClusterClient(blobclient.NewClientResolver(blobclient.NewProvider(), hostlist.Fixture(local.addr)))
	ex := tagreplication.NewExecutor(tally.NoopScope, cluster, tagclient.NewProvider(nil))
	task := tagreplication.NewTask(c.Tag, w.digest, core.DigestList(w.deps), bi.Addr, 0)

	bad := len(c.Remote) + len(c.Put) + len(fetch) + 2
	if lost {
		bad = 3
	}
	var execErr error
	execs := 0
	for execs < bad {
		execs++
		w.mu.Lock()
		w.exec = execs
		w.mu.Unlock()
		execErr = ex.Exec(task)
		w.mu.Lock()
		v, has := w.violation, w.hasTag
		w.mu.Unlock()
		if v != "" {
			return pbt.Fail("%s", v)
		}
		if execErr == nil {
			if !has {
				return pbt.Fail("execution reported success although the remote build-index does not hold the tag (the task would not be retried)\nexecution %d; requests: %s", execs, w.historyLocked())
			}
			break
		}
		// The retry manager comes back later; by then the local origin has fetched what
		// it was asked for. Wait for that condition instead of a time span.
		deadline := time.Now().Add(20 * time.Second)
		for _, d := range fetch {
			// only what the local origin has been asked to fetch so far
			for local.mem.wasAsked(d.Hex()) && !local.has(d) {
				if time.Now().After(deadline) {
					return pbt.Verdict{Discard: true, Classes: []string{"local-fetch-not-finished-in-20s"}}
				}
				time.Sleep(200 * time.Microsecond)
			}
		}
	}
	w.mu.Lock()
	puts := 0
	for _, e := range w.events {
		if e.what == "put" {
			puts++
		}
	}
	hist := w.history()
	w.mu.Unlock()
	if lost {
		// A dependency exists nowhere: replication can never finish; only the ordering rule
		// and the success rule (both checked above) apply.
		return pbt.OK(false, "dependency-lost")
	}
	if execErr != nil {
		return pbt.Fail("replication does not complete although every scripted failure has been used up\n%d executions, last error: %v; requests: %s", execs, execErr, hist)
	}
	inj.mu.Lock()
	faults, calls := inj.faults, inj.calls
	inj.mu.Unlock()
	cl := []string{fmt.Sprintf("deps:%d", len(c.Deps))}
	if len(fetch) > 0 {
		cl = append(cl, "dependency-fetched-by-local-origin")
	}
	if faults > 0 {
		cl = append(cl, "remote-origin-fault")
	}
	if execs > 1 {
		cl = append(cl, "re-executed")
	}
	if puts > 1 {
		cl = append(cl, "put-repeated")
	}
	if calls == 0 {
		cl = append(cl, "remote-origin-never-contacted")
	}
	return pbt.OK(puts > 0 && (faults > 0 || len(fetch) > 0 || execs > 1), cl...)
}

func (w *world) historyLocked() string {
	w.mu.Lock()
	defer w.mu.Unlock()
	return w.history()
}
