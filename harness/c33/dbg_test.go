package c33

import (
	"fmt"
	"testing"
	"time"
)

func TestDbg(t *testing.T) {
	for i, c := range []ChainCase{
		{Tag: "repo:latest", Deps: []ChainDep{{Size: 10, Where: 0}}},
		{Tag: "repo:latest", Deps: []ChainDep{{Size: 10, Where: 1}}},
		{Tag: "repo:latest", Deps: []ChainDep{{Size: 10, Where: 0}}, Remote: []int{1, 3, 4}},
	} {
		t0 := time.Now()
		v := runChain(c)
		fmt.Println(i, time.Since(t0), v.Violation, v.Classes, v.Discard)
	}
}
