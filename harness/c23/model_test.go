package c23

import (
	"fmt"
	"sort"
	"strings"
)

// hs is one candidate health state of a host as the property statement describes it:
// a health flag plus the number of consecutive failed / passed checks.
type hs struct {
	Healthy bool
	CF, CP  int // consecutive fails, consecutive passes (since the last opposite outcome)
}

func (s hs) String() string {
	h := "unhealthy"
	if s.Healthy {
		h = "healthy"
	}
	return fmt.Sprintf("%s(fails=%d,passes=%d)", h, s.CF, s.CP)
}

var fresh = hs{Healthy: true}

// hostModel: the candidate states of one host. cands == nil means "not a member":
// the next appearance starts healthy. Normally there is exactly one candidate; a
// second one exists only after a single-host round (see NOTES.md: the statement
// does not say whether a host absent from a single-host list counts as having left).
type hostModel struct {
	cands     []hs
	mayForget bool // absent during a single-host round: on return it may be fresh or retained
	// bookkeeping for the non-trivial rule
	leftUnhealthy, leftMidTrend, leftHealthy bool
}

type model struct {
	fails, passes int
	hosts         map[string]*hostModel
	// evidence
	rejoinAfterUnhealthy, rejoinMidTrend, rejoinHealthy int
	becameUnhealthy, recovered                          int
	singleRounds, singleOverride, emptyRounds           int
	ambiguous                                           int
}

func newModel(fails, passes int) *model {
	// Documented defaults (lib/healthcheck/config.go): Fails 0 -> 3, Passes 0 -> 2.
	if fails == 0 {
		fails = 3
	}
	if passes == 0 {
		passes = 2
	}
	return &model{fails: fails, passes: passes, hosts: map[string]*hostModel{}}
}

func (m *model) host(h string) *hostModel {
	x := m.hosts[h]
	if x == nil {
		x = &hostModel{}
		m.hosts[h] = x
	}
	return x
}

// apply one check outcome to a state, literally after the statement: unhealthy
// exactly when the last Fails checks failed after it was healthy; healthy again
// exactly after Passes consecutive successful checks.
func (m *model) apply(s hs, failed bool) hs {
	if failed {
		s.CF++
		s.CP = 0
		if s.Healthy && s.CF >= m.fails {
			s.Healthy = false
		}
	} else {
		s.CP++
		s.CF = 0
		if !s.Healthy && s.CP >= m.passes {
			s.Healthy = true
		}
	}
	// Counters beyond the thresholds carry no information.
	if s.CF > m.fails {
		s.CF = m.fails
	}
	if s.CP > m.passes {
		s.CP = m.passes
	}
	return s
}

func dedupe(in []hs) []hs {
	var out []hs
	for _, s := range in {
		dup := false
		for _, o := range out {
			if o == s {
				dup = true
			}
		}
		if !dup {
			out = append(out, s)
		}
	}
	return out
}

// step feeds one Run of the filter into the model and judges its result.
// list = addresses passed to Run; failing = addresses whose check fails this round;
// calls = number of checker invocations per address during this Run; got = Run result.
// Returns "" or a violation message.
func (m *model) step(round int, list []string, failing map[string]bool, calls map[string]int, got map[string]bool) string {
	in := map[string]bool{}
	for _, h := range list {
		in[h] = true
	}
	var extra []string
	for h := range got {
		if !in[h] {
			extra = append(extra, h)
		}
	}
	if len(extra) > 0 {
		sort.Strings(extra)
		return fmt.Sprintf("result contains hosts that are not in the list\nround %d list=%v extra=%v", round, list, extra)
	}

	if len(list) == 1 {
		h := list[0]
		m.singleRounds++
		x := m.host(h)
		for _, s := range x.cands {
			if !s.Healthy {
				m.singleOverride++
				break
			}
		}
		// Checks performed (if any) count as checks of that host.
		if calls[h] > 0 {
			if x.cands == nil {
				x.cands = []hs{fresh}
			}
			for i := range x.cands {
				for k := 0; k < calls[h]; k++ {
					x.cands[i] = m.apply(x.cands[i], failing[h])
				}
			}
			x.cands = dedupe(x.cands)
		}
		for o, y := range m.hosts {
			if o != h && y.cands != nil {
				y.mayForget = true
			}
		}
		if !got[h] {
			return fmt.Sprintf("single-host list does not report its host healthy\nround %d list=%v got=%v", round, list, keys(got))
		}
		return ""
	}
	if len(list) == 0 {
		m.emptyRounds++
	}

	// Hosts absent from a multi-host (or empty) list have left: forgotten.
	for o, y := range m.hosts {
		if in[o] {
			continue
		}
		if y.cands != nil {
			y.leftUnhealthy, y.leftMidTrend, y.leftHealthy = false, false, false
			for _, s := range y.cands {
				switch {
				case !s.Healthy:
					y.leftUnhealthy = true
				case s.CF > 0:
					y.leftMidTrend = true
				default:
					y.leftHealthy = true
				}
			}
		}
		y.cands = nil
		y.mayForget = false
	}

	for _, h := range list {
		x := m.host(h)
		if calls[h] == 0 {
			return fmt.Sprintf("host in a multi-host list was not health-checked\nround %d list=%v host=%s", round, list, h)
		}
		if x.cands == nil {
			if x.leftUnhealthy {
				m.rejoinAfterUnhealthy++
			}
			if x.leftMidTrend {
				m.rejoinMidTrend++
			}
			if x.leftHealthy {
				m.rejoinHealthy++
			}
			x.leftUnhealthy, x.leftMidTrend, x.leftHealthy = false, false, false
			x.cands = []hs{fresh}
		} else if x.mayForget {
			x.cands = dedupe(append(x.cands, fresh))
		}
		x.mayForget = false
		before := append([]hs(nil), x.cands...)
		for i := range x.cands {
			for k := 0; k < calls[h]; k++ {
				x.cands[i] = m.apply(x.cands[i], failing[h])
			}
		}
		if len(x.cands) > 1 {
			m.ambiguous++
		}
		var keep []hs
		for _, s := range x.cands {
			if s.Healthy == got[h] {
				keep = append(keep, s)
			}
		}
		if len(keep) == 0 {
			outcome := "passed"
			if failing[h] {
				outcome = "failed"
			}
			kind := "host reported unhealthy although the model says healthy"
			if got[h] {
				kind = "host reported healthy although the model says unhealthy"
			}
			return fmt.Sprintf("%s\nround %d host=%s check %s; model before=%v after=%v; Fails=%d Passes=%d; list=%v got=%v",
				kind, round, h, outcome, before, x.cands, m.fails, m.passes, list, keys(got))
		}
		if len(before) == 1 && len(keep) == 1 {
			if before[0].Healthy && !keep[0].Healthy {
				m.becameUnhealthy++
			}
			if !before[0].Healthy && keep[0].Healthy {
				m.recovered++
			}
		}
		x.cands = dedupe(keep)
	}
	return ""
}

func keys(m map[string]bool) []string {
	var out []string
	for k, v := range m {
		if v {
			out = append(out, k)
		}
	}
	sort.Strings(out)
	return out
}

func (m *model) classes() []string {
	var cl []string
	add := func(n int, name string) {
		if n > 0 {
			cl = append(cl, name)
		}
	}
	add(m.rejoinAfterUnhealthy, "rejoin-after-leaving-unhealthy")
	add(m.rejoinMidTrend, "rejoin-after-leaving-mid-trend")
	add(m.rejoinHealthy, "rejoin-after-leaving-healthy")
	add(m.becameUnhealthy, "became-unhealthy")
	add(m.recovered, "recovered")
	add(m.singleRounds, "single-host-round")
	add(m.singleOverride, "single-host-overrides-unhealthy")
	add(m.emptyRounds, "empty-list-round")
	add(m.ambiguous, "ambiguous-after-single-host-round")
	return cl
}

func (m *model) nontrivial() bool {
	return m.rejoinAfterUnhealthy+m.rejoinMidTrend > 0
}

var _ = strings.Join
