// C23 — active health checks follow the documented hysteresis.
package c23

import (
	"context"
	"errors"
	"fmt"
	"sync"
	"testing"
	"time"

	"github.com/uber/kraken/lib/healthcheck"
	"github.com/uber/kraken/utils/stringset"
	"pgregory.net/rapid"

	"verif/internal/pbt"
)

// Round is one health-check round: which hosts are in the list and whose check fails.
type Round struct {
	List []int `json:"list"` // host indices in the list passed to Run (distinct, ascending)
	Fail []int `json:"fail"` // host indices whose check fails this round (distinct, ascending)
}

type Case struct {
	Hosts  int     `json:"hosts"`
	Fails  int     `json:"fails"`  // 0 = documented default 3
	Passes int     `json:"passes"` // 0 = documented default 2
	Rounds []Round `json:"rounds"`
}

func name(i int) string { return fmt.Sprintf("host%d:80", i) }

func genCase(minRounds, maxRounds int) func(t *rapid.T) Case {
	return func(t *rapid.T) Case {
		n := rapid.SampledFrom([]int{1, 2, 3, 3, 4, 4}).Draw(t, "hosts")
		thr := rapid.SampledFrom([]int{1, 2, 3, 1, 2, 3, 1, 2, 3, 0})
		c := Case{Hosts: n, Fails: thr.Draw(t, "fails"), Passes: thr.Draw(t, "passes")}
		// Per-case biases (out of 10) so that long failing runs and short absences are both frequent.
		presentBias := rapid.SampledFrom([]int{6, 8, 9}).Draw(t, "presentBias")
		failBias := rapid.SampledFrom([]int{3, 5, 7, 9}).Draw(t, "failBias")
		nr := rapid.IntRange(minRounds, maxRounds).Draw(t, "nrounds")
		for r := 0; r < nr; r++ {
			var rd Round
			rd.List, rd.Fail = []int{}, []int{}
			for h := 0; h < n; h++ {
				if rapid.IntRange(0, 9).Draw(t, "present") < presentBias {
					rd.List = append(rd.List, h)
				}
				if rapid.IntRange(0, 9).Draw(t, "fail") < failBias {
					rd.Fail = append(rd.Fail, h)
				}
			}
			c.Rounds = append(c.Rounds, rd)
		}
		return c
	}
}

// scriptChecker is the scripted healthcheck.Checker: the outcome of a check is a
// function of (current round, address). It records how often each address is checked.
type scriptChecker struct {
	mu      sync.Mutex
	failing map[string]bool
	calls   map[string]int
}

func (s *scriptChecker) Check(ctx context.Context, addr string) error {
	s.mu.Lock()
	defer s.mu.Unlock()
	s.calls[addr]++
	if s.failing[addr] {
		return errors.New("scripted health check failure")
	}
	return nil
}

func (s *scriptChecker) begin(failing map[string]bool) {
	s.mu.Lock()
	s.failing = failing
	s.calls = map[string]int{}
	s.mu.Unlock()
}

// maxCalls returns the largest number of checks any one address has had since begin/take.
func (s *scriptChecker) maxCalls() int {
	s.mu.Lock()
	defer s.mu.Unlock()
	m := 0
	for _, n := range s.calls {
		if n > m {
			m = n
		}
	}
	return m
}

func (s *scriptChecker) take() map[string]int {
	s.mu.Lock()
	defer s.mu.Unlock()
	c := s.calls
	s.calls = map[string]int{}
	return c
}

func valid(c Case) bool {
	if c.Hosts < 1 || c.Hosts > 16 || c.Fails < 0 || c.Passes < 0 {
		return false
	}
	for _, r := range c.Rounds {
		for _, l := range [][]int{r.List, r.Fail} {
			for i, h := range l {
				if h < 0 || h >= c.Hosts || (i > 0 && l[i-1] >= h) {
					return false
				}
			}
		}
	}
	return true
}

func roundInputs(r Round) (list []string, addrs stringset.Set, failing map[string]bool) {
	addrs = stringset.New()
	failing = map[string]bool{}
	for _, h := range r.List {
		list = append(list, name(h))
		addrs.Add(name(h))
	}
	for _, h := range r.Fail {
		failing[name(h)] = true
	}
	return
}

func toBool(s stringset.Set) map[string]bool {
	m := map[string]bool{}
	for k := range s {
		m[k] = true
	}
	return m
}

// The per-check timeout is never a correctness signal: the scripted checker returns
// immediately and the timeout is far beyond any scheduling delay.
const checkTimeout = 30 * time.Minute

func runFilter(c Case) pbt.Verdict {
	if !valid(c) {
		return pbt.Verdict{Discard: true}
	}
	chk := &scriptChecker{}
	f := healthcheck.NewFilter(healthcheck.FilterConfig{Fails: c.Fails, Passes: c.Passes, Timeout: checkTimeout}, chk)
	m := newModel(c.Fails, c.Passes)
	for i, r := range c.Rounds {
		list, addrs, failing := roundInputs(r)
		chk.begin(failing)
		got := f.Run(addrs.Copy())
		if msg := m.step(i, list, failing, chk.take(), toBool(got)); msg != "" {
			return pbt.Fail("%s", msg)
		}
	}
	v := pbt.OK(m.nontrivial(), m.classes()...)
	v.Evals = len(c.Rounds)
	if v.Evals == 0 {
		v.Evals = 1
	}
	return v
}

// ---- Monitor part: the same histories observed through Monitor.Resolve ----

// gatedList is a hostlist.List whose Resolve (after the constructor's first call)
// announces itself and then waits for the harness to hand it the next list, so the
// harness knows when the monitor has stored the result of the previous round.
type gatedList struct {
	initial stringset.Set
	mu      sync.Mutex
	n       int
	arrived chan struct{}
	next    chan stringset.Set
	done    chan struct{}
}

func (g *gatedList) Resolve() stringset.Set {
	g.mu.Lock()
	g.n++
	first := g.n == 1
	g.mu.Unlock()
	if first {
		return g.initial.Copy()
	}
	select {
	case g.arrived <- struct{}{}:
	case <-g.done:
		return stringset.New()
	}
	select {
	case s := <-g.next:
		return s
	case <-g.done:
		return stringset.New()
	}
}

const structuralWait = 60 * time.Second

func runMonitor(c Case) pbt.Verdict {
	if !valid(c) || len(c.Rounds) == 0 {
		return pbt.Verdict{Discard: true}
	}
	chk := &scriptChecker{}
	chk.begin(nil)
	f := healthcheck.NewFilter(healthcheck.FilterConfig{Fails: c.Fails, Passes: c.Passes, Timeout: checkTimeout}, chk)
	model := newModel(c.Fails, c.Passes)

	// The first round's list is what the monitor sees at construction.
	_, init, _ := roundInputs(c.Rounds[0])
	g := &gatedList{initial: init, arrived: make(chan struct{}), next: make(chan stringset.Set), done: make(chan struct{})}
	mon := healthcheck.NewMonitor(healthcheck.MonitorConfig{Interval: time.Millisecond}, g, f)
	defer func() {
		close(g.done)
		mon.Stop()
	}()

	// Before any check every listed host is healthy ("start healthy").
	if got := mon.Resolve(); !stringset.Equal(got, init) {
		return pbt.Fail("monitor does not report the initial hosts healthy before the first check\ninitial=%v got=%v", init.ToSlice(), got.ToSlice())
	}
	// staleChecks: a round checks each listed host once (a few times, if an implementation
	// retried). A host checked this often without the monitor having asked for the host
	// list in between means check rounds are being run against a list that is not re-read.
	const staleChecks = 200
	stale := false
	waitArrive := func() bool {
		deadline := time.After(structuralWait)
		tick := time.NewTicker(2 * time.Millisecond)
		defer tick.Stop()
		for {
			select {
			case <-g.arrived:
				return true
			case <-tick.C:
				if chk.maxCalls() >= staleChecks {
					stale = true
					return false
				}
			case <-deadline:
				return false
			}
		}
	}
	notScheduled := pbt.Verdict{Discard: true, Classes: []string{"monitor-loop-not-scheduled"}}
	type pend struct {
		i       int
		list    []string
		failing map[string]bool
	}
	var pending *pend
	for i := 0; i <= len(c.Rounds); i++ {
		// The loop announcing its next Resolve call means the result of the previous
		// round has been stored; it then stays parked until the harness hands it a list.
		if !waitArrive() {
			if stale {
				return pbt.Fail("monitor: a host was checked %d times in a row without the monitor reading the host list in between: check rounds do not follow the list (hosts that join are never reported, hosts that left keep being reported); before round %d", chk.maxCalls(), i)
			}
			return notScheduled
		}
		if pending != nil {
			got := mon.Resolve()
			if msg := model.step(pending.i, pending.list, pending.failing, chk.take(), toBool(got)); msg != "" {
				return pbt.Fail("monitor: %s", msg)
			}
		}
		if i == len(c.Rounds) {
			break
		}
		list, addrs, failing := roundInputs(c.Rounds[i])
		chk.begin(failing)
		pending = &pend{i, list, failing}
		select {
		case g.next <- addrs:
		case <-time.After(structuralWait):
			return notScheduled
		}
	}
	v := pbt.OK(model.nontrivial(), model.classes()...)
	v.Evals = len(c.Rounds)
	return v
}

func TestProp(t *testing.T) {
	pbt.Main(t, pbt.Spec{
		ID: "C23",
		Rule: "histories of up to 30 rounds over 1-4 hosts, Fails/Passes in 1..3 (or 0 = documented defaults); each round draws the list passed to Filter.Run " +
			"(any subset incl. empty and single-host lists, hosts leave and rejoin) and the scripted check outcome per host; a per-host model written from the " +
			"statement (consecutive-fail / consecutive-pass counters, first appearance and re-appearance after absence healthy, single-host list healthy) is " +
			"compared with the Run result every round (part filter) and with Monitor.Resolve after every monitor round (part monitor); an evaluation is one round; " +
			"non-trivial = a host left the list while unhealthy or with a failure trend and later rejoined; distinct by case hash",
		Assumptions: []string{
			"reference model of the hysteresis written from the property statement",
			"every Run on a list of two or more hosts checks each listed host (documented: 'Run applies checker to addrs'); the model consumes the checks actually performed",
			"a host absent while the list had exactly one entry may return either fresh or with its old state (statement is silent; Run does not look at its state then)",
		},
		Parts: []pbt.Part{
			pbt.NewPart("filter", 4, genCase(0, 30), runFilter),
			pbt.NewPart("monitor", 1, genCase(1, 12), runMonitor),
		},
	})
}
