// C31 — an acknowledged origin upload reaches the backend before local deletion.
//
// In-process origin: real blobserver.Server (driven through its http.Handler),
// real CAStore (small LRU capacity, harness clock, cleanup passes run
// synchronously through a verif hook), real write-back persistedretry.Manager +
// writeback.Executor over the real sqlite store. Fakes (trusted): in-memory
// backends with scripted outages. A thin decorator around the write-back manager
// gives one pause point without a hook: the commit's "add write-back task" step.
package c31

import (
	"bytes"
	"encoding/json"
	"errors"
	"fmt"
	"io"
	stdlog "log"
	"net/http"
	"net/http/httptest"
	"os"
	"path/filepath"
	"sort"
	"strings"
	"sync"
	"testing"
	"time"

	"github.com/andres-erbsen/clock"
	"github.com/jmoiron/sqlx"
	"github.com/uber-go/tally"
	"go.uber.org/zap"
	"pgregory.net/rapid"

	"github.com/uber/kraken/core"
	"github.com/uber/kraken/lib/backend"
	"github.com/uber/kraken/lib/backend/backenderrors"
	"github.com/uber/kraken/lib/blobrefresh"
	"github.com/uber/kraken/lib/hashring"
	"github.com/uber/kraken/lib/healthcheck"
	"github.com/uber/kraken/lib/hostlist"
	"github.com/uber/kraken/lib/metainfogen"
	"github.com/uber/kraken/lib/persistedretry"
	"github.com/uber/kraken/lib/persistedretry/writeback"
	"github.com/uber/kraken/lib/store"
	"github.com/uber/kraken/lib/store/base"
	"github.com/uber/kraken/localdb"
	"github.com/uber/kraken/origin/blobserver"
	"github.com/uber/kraken/utils/httputil"
	"github.com/uber/kraken/utils/log"

	"verif/internal/memscratch"
	"verif/internal/pbt"
)

func init() {
	log.SetGlobalLogger(zap.NewNop().Sugar())
	stdlog.SetOutput(io.Discard)
}

func TestMain(m *testing.M) {
	code := m.Run()
	memscratch.Cleanup()
	os.Exit(code)
}

const (
	nBlobs = 4
	nSlots = 3
	nNS    = 2
)

// Op kinds.
const (
	opStart        = 0  // start a cluster upload of Blob into NS on Slot
	opPatch        = 1  // send the blob's bytes on Slot (N=0 one chunk, N=1 two chunks)
	opCommit       = 2  // commit Slot
	opCommitPaused = 3  // commit Slot, held at the "add write-back task" step until opResume
	opResume       = 4  // let the held commit finish
	opBackend      = 5  // backend NS enters fault mode N
	opAdvance      = 6  // clock += N hours
	opCleanupPass  = 7  // one pass of the periodic cache cleanup (TTI 1h, TTL 2h)
	opForceCleanup = 8  // POST /forcecleanup?ttl_hr=N
	opRestart      = 9  // graceful restart of the origin (store, database, manager, server)
	opSleep        = 10 // N ms
	opTouch        = 11 // read Blob from the cache if it is there (moves it in the LRU order)
)

// Backend fault modes.
const (
	beHealthy     = 0
	beDown        = 1
	beUploadFails = 2
	beAckLost     = 3 // upload stored, error reported
	nBackendModes = 4
)

type Op struct {
	K    int `json:"k"`
	Slot int `json:"slot,omitempty"`
	Blob int `json:"blob,omitempty"`
	NS   int `json:"ns,omitempty"`
	N    int `json:"n,omitempty"`
}

type Case struct {
	Split    bool `json:"split"`    // true: each namespace has its own backend; false: one backend serves both
	Capacity int  `json:"capacity"` // LRU capacity of the origin cache (entries)
	InBuf    int  `json:"in_buf"`
	Workers  int  `json:"workers"`
	Ops      []Op `json:"ops"`
	// Repeat > 1 (hand-written regression cases only): the history is run that many
	// times and the first violation counts. Used for defects that need a particular
	// interleaving of the write-back workers with the request, which no case can force.
	Repeat int `json:"repeat,omitempty"`
}

func gen(t *rapid.T) Case {
	c := Case{
		Split:    rapid.Bool().Draw(t, "split"),
		Capacity: rapid.IntRange(1, 4).Draw(t, "capacity"),
		InBuf:    rapid.IntRange(0, 3).Draw(t, "in_buf"),
		Workers:  rapid.IntRange(1, 2).Draw(t, "workers"),
	}
	blob := func() int { return rapid.IntRange(0, nBlobs-1).Draw(t, "blob") }
	ns := func() int { return rapid.IntRange(0, nNS-1).Draw(t, "ns") }
	slot := func() int { return rapid.IntRange(0, nSlots-1).Draw(t, "slot") }
	chunks := func() int { return rapid.IntRange(0, 1).Draw(t, "chunks") }
	deletion := func() Op {
		switch rapid.IntRange(0, 2).Draw(t, "deletion") {
		case 0:
			return Op{K: opForceCleanup, N: rapid.SampledFrom([]int{0, 0, 1, 4}).Draw(t, "ttl_hr")}
		case 1:
			return Op{K: opCleanupPass}
		default:
			return Op{K: opAdvance, N: rapid.IntRange(1, 3).Draw(t, "hours")}
		}
	}
	// Half of the histories start with a backend in trouble, so that acknowledged
	// blobs stay un-written-back while deletion paths run.
	switch rapid.IntRange(0, 3).Draw(t, "initial_outage") {
	case 0:
		c.Ops = append(c.Ops, Op{K: opBackend, NS: ns(), N: rapid.IntRange(1, nBackendModes-1).Draw(t, "mode")})
	case 1:
		c.Ops = append(c.Ops, Op{K: opBackend, NS: 0, N: beDown}, Op{K: opBackend, NS: 1, N: beDown})
	}
	n := rapid.IntRange(2, 12).Draw(t, "steps")
	for i := 0; i < n; i++ {
		switch rapid.IntRange(0, 15).Draw(t, "step") {
		case 0, 1, 2: // whole upload
			s := slot()
			c.Ops = append(c.Ops, Op{K: opStart, Slot: s, Blob: blob(), NS: ns()}, Op{K: opPatch, Slot: s, N: chunks()}, Op{K: opCommit, Slot: s})
		case 3: // two racing uploads of the same blob
			b, n0, n1 := blob(), ns(), ns()
			c.Ops = append(c.Ops,
				Op{K: opStart, Slot: 0, Blob: b, NS: n0}, Op{K: opStart, Slot: 1, Blob: b, NS: n1},
				Op{K: opPatch, Slot: 0}, Op{K: opPatch, Slot: 1, N: chunks()},
				Op{K: opCommit, Slot: 0}, Op{K: opCommit, Slot: 1})
		case 4: // duplicate commit
			s := slot()
			c.Ops = append(c.Ops, Op{K: opStart, Slot: s, Blob: blob(), NS: ns()}, Op{K: opPatch, Slot: s}, Op{K: opCommit, Slot: s}, Op{K: opCommit, Slot: s})
		case 5: // commit held at its write-back step while something else happens
			s := slot()
			c.Ops = append(c.Ops, Op{K: opStart, Slot: s, Blob: blob(), NS: ns()}, Op{K: opPatch, Slot: s}, Op{K: opCommitPaused, Slot: s})
			if rapid.Bool().Draw(t, "advance_first") {
				c.Ops = append(c.Ops, Op{K: opAdvance, N: 3})
			}
			c.Ops = append(c.Ops, deletion(), Op{K: opResume})
		case 6, 7:
			c.Ops = append(c.Ops, Op{K: opBackend, NS: ns(), N: rapid.IntRange(1, nBackendModes-1).Draw(t, "mode")})
		case 8:
			c.Ops = append(c.Ops, Op{K: opBackend, NS: ns(), N: beHealthy})
		case 9, 10, 11:
			c.Ops = append(c.Ops, deletion())
		case 12:
			c.Ops = append(c.Ops, Op{K: opRestart})
		case 13:
			c.Ops = append(c.Ops, Op{K: opSleep, N: rapid.IntRange(1, 15).Draw(t, "ms")})
		case 14:
			c.Ops = append(c.Ops, Op{K: opTouch, Blob: blob()})
		case 15: // single primitive step
			c.Ops = append(c.Ops, Op{K: rapid.IntRange(opStart, opCommit).Draw(t, "prim"), Slot: slot(), Blob: blob(), NS: ns()})
		}
	}
	return c
}

// ---------------------------------------------------------------------------

var (
	blobData [][]byte
	blobDig  []core.Digest
	nsNames  = []string{"nsa", "nsb"}
)

func init() {
	for i := 0; i < nBlobs; i++ {
		b := bytes.Repeat([]byte(fmt.Sprintf("blob-%d-content/", i)), 2+i)
		d, err := core.NewDigester().FromBytes(b)
		if err != nil {
			panic(err)
		}
		blobData = append(blobData, b)
		blobDig = append(blobDig, d)
	}
}

// fake backend ----------------------------------------------------------------

type fakeBackend struct {
	mu       sync.Mutex
	mode     int
	data     map[string][]byte
	uploads  int
	failures int
}

func (b *fakeBackend) Stat(namespace, name string) (*core.BlobInfo, error) {
	b.mu.Lock()
	defer b.mu.Unlock()
	if b.mode == beDown {
		b.failures++
		return nil, errors.New("backend stat failed")
	}
	if v, ok := b.data[name]; ok {
		return core.NewBlobInfo(int64(len(v))), nil
	}
	return nil, backenderrors.ErrBlobNotFound
}

func (b *fakeBackend) Upload(namespace, name string, src io.Reader) error {
	b.mu.Lock()
	mode := b.mode
	b.uploads++
	if mode == beDown || mode == beUploadFails {
		b.failures++
		b.mu.Unlock()
		return errors.New("backend upload failed")
	}
	b.mu.Unlock()
	v, err := io.ReadAll(src)
	if err != nil {
		return err
	}
	b.mu.Lock()
	defer b.mu.Unlock()
	b.data[name] = v
	if mode == beAckLost {
		b.failures++
		return errors.New("backend upload: response lost")
	}
	return nil
}

func (b *fakeBackend) Download(namespace, name string, dst io.Writer) error {
	b.mu.Lock()
	defer b.mu.Unlock()
	if b.mode == beDown {
		return errors.New("backend download failed")
	}
	v, ok := b.data[name]
	if !ok {
		return backenderrors.ErrBlobNotFound
	}
	_, err := dst.Write(v)
	return err
}

func (b *fakeBackend) List(prefix string, opts ...backend.ListOption) (*backend.ListResult, error) {
	return nil, errors.New("not supported")
}
func (b *fakeBackend) Close() error { return nil }

func (b *fakeBackend) setMode(m int) {
	b.mu.Lock()
	b.mode = m
	b.mu.Unlock()
}

func (b *fakeBackend) get(name string) ([]byte, bool) {
	b.mu.Lock()
	defer b.mu.Unlock()
	v, ok := b.data[name]
	return v, ok
}

// write-back manager decorator: one-shot gate at Add ------------------------------

type gateManager struct {
	persistedretry.Manager
	mu      sync.Mutex
	armed   bool
	reached chan struct{}
	release chan struct{}
}

func (g *gateManager) arm() (reached, release chan struct{}) {
	g.mu.Lock()
	defer g.mu.Unlock()
	g.armed = true
	g.reached = make(chan struct{})
	g.release = make(chan struct{})
	return g.reached, g.release
}

func (g *gateManager) disarm() {
	g.mu.Lock()
	g.armed = false
	g.mu.Unlock()
}

func (g *gateManager) Add(t persistedretry.Task) error {
	g.mu.Lock()
	if g.armed {
		g.armed = false
		reached, release := g.reached, g.release
		g.mu.Unlock()
		close(reached)
		<-release
	} else {
		g.mu.Unlock()
	}
	return g.Manager.Add(t)
}

// origin ---------------------------------------------------------------------

type world struct {
	c        Case
	dir      string
	clk      *clock.Mock
	backends []*fakeBackend // per namespace index (both entries are the same object when !Split)
}

type origin struct {
	closed  bool
	w       *world
	cas     *store.CAStore
	db      *sqlx.DB
	wbm     *gateManager
	handler http.Handler
}

const selfAddr = "origin-self:80"

func (w *world) open() (*origin, error) {
	cas, err := store.NewCAStoreWithClock(store.CAStoreConfig{
		UploadDir:     filepath.Join(w.dir, "upload"),
		CacheDir:      filepath.Join(w.dir, "cache"),
		Capacity:      w.c.Capacity,
		UploadCleanup: store.CleanupConfig{Disabled: true},
		CacheCleanup:  store.CleanupConfig{Disabled: true}, // passes are run by the harness (opCleanupPass)
	}, tally.NoopScope, w.clk)
	if err != nil {
		return nil, fmt.Errorf("castore: %v", err)
	}
	db, err := localdb.New(localdb.Config{Source: filepath.Join(w.dir, "db", "kraken.db")})
	if err != nil {
		cas.Close()
		return nil, fmt.Errorf("localdb: %v", err)
	}
	bm, err := backend.NewManager(backend.ManagerConfig{}, nil, backend.AuthConfig{}, tally.NoopScope)
	if err != nil {
		cas.Close()
		db.Close()
		return nil, err
	}
	if w.c.Split {
		bm.Register("^nsa$", w.backends[0], false)
		bm.Register("^nsb$", w.backends[1], false)
	} else {
		bm.Register(".*", w.backends[0], false)
	}
	workers := w.c.Workers
	if workers < 1 || workers > 4 {
		workers = 1
	}
	inBuf := w.c.InBuf
	if inBuf < 0 || inBuf > 16 {
		inBuf = 1
	}
	wbStore := writeback.NewStore(db)
	m, err := persistedretry.NewManager(persistedretry.Config{
		IncomingBuffer:      inBuf,
		RetryBuffer:         2,
		NumIncomingWorkers:  workers,
		NumRetryWorkers:     1,
		MaxTaskThroughput:   time.Millisecond,
		RetryInterval:       2 * time.Millisecond,
		PollRetriesInterval: 3 * time.Millisecond,
		SyncRetryBackoff: httputil.ExponentialBackOffConfig{
			Enabled: true, InitialInterval: time.Millisecond, MaxInterval: 2 * time.Millisecond, MaxRetries: 1,
		},
		Testing: true,
	}, tally.NoopScope, wbStore, writeback.NewExecutor(tally.NoopScope, cas, bm, writeback.WithTaskFinder(wbStore))) // wiring of origin/cmd
	if err != nil {
		cas.Close()
		db.Close()
		return nil, fmt.Errorf("write-back manager: %v", err)
	}
	gm := &gateManager{Manager: m}
	ring := hashring.New(hashring.Config{MaxReplica: 1}, hostlist.Fixture(selfAddr), healthcheck.IdentityFilter{}, tally.NoopScope)
	mg := metainfogen.Fixture(cas, 16)
	br := blobrefresh.New(blobrefresh.Config{}, tally.NoopScope, cas, bm, mg)
	srv, err := blobserver.New(blobserver.Config{}, tally.NoopScope, w.clk, selfAddr, ring, cas, nil, nil,
		core.PeerContextFixture(), bm, br, mg, gm)
	if err != nil {
		m.Close()
		cas.Close()
		db.Close()
		return nil, fmt.Errorf("blobserver: %v", err)
	}
	return &origin{w: w, cas: cas, db: db, wbm: gm, handler: srv.Handler()}, nil
}

func (o *origin) close() {
	if o.closed {
		return
	}
	o.closed = true
	o.wbm.Close()
	o.cas.Close()
	o.db.Close()
}

func (o *origin) do(method, path string, hdr map[string]string, body []byte) (int, http.Header, []byte) {
	var rd io.Reader
	if body != nil {
		rd = bytes.NewReader(body)
	}
	req := httptest.NewRequest(method, path, rd)
	for k, v := range hdr {
		req.Header.Set(k, v)
	}
	rec := httptest.NewRecorder()
	o.handler.ServeHTTP(rec, req)
	return rec.Code, rec.Header(), rec.Body.Bytes()
}

// cacheBytes returns the blob as the origin cache holds it. The store API is
// asked first; a miss there is double-checked on disk, because a reader can get a
// transient "not found" while another goroutine's LRU eviction drops the entry of
// a (persisted, hence undeletable) file from the in-memory map. The oracle is
// about the local copy, so the file on disk decides.
func (o *origin) cacheBytes(blob int) (data []byte, ok bool, viaDisk bool) {
	hex := blobDig[blob].Hex()
	if f, err := o.cas.GetCacheFileReader(hex); err == nil {
		b, err := io.ReadAll(f)
		f.Close()
		if err == nil {
			return b, true, false
		}
	}
	found := o.diskPath(blob)
	if found == "" {
		return nil, false, true
	}
	b, err := os.ReadFile(found)
	if err != nil {
		return nil, false, true
	}
	return b, true, true
}

// persistFlagOnDisk reports whether the blob's directory in the cache holds a
// persist flag that says true. Only used to tell findings apart, never as an oracle.
func (o *origin) persistFlagOnDisk(blob int) bool {
	p := o.diskPath(blob)
	if p == "" {
		return false
	}
	b, err := os.ReadFile(filepath.Join(filepath.Dir(p), "_persist"))
	return err == nil && strings.TrimSpace(string(b)) == "true"
}

// diskPath finds the blob's data file under the cache directory ("" if absent).
func (o *origin) diskPath(blob int) string {
	hex := blobDig[blob].Hex()
	var found string
	filepath.Walk(filepath.Join(o.w.dir, "cache"), func(p string, info os.FileInfo, err error) error {
		if err == nil && info.IsDir() && info.Name() == hex {
			found = filepath.Join(p, base.DefaultDataFileName)
			return filepath.SkipDir
		}
		return nil
	})
	if found != "" {
		if _, err := os.Stat(found); err != nil {
			return ""
		}
	}
	return found
}

// dump lists the cache tree and the write-back table (for violation reports).
func (o *origin) dump() string {
	var sb strings.Builder
	root := filepath.Join(o.w.dir, "cache")
	filepath.Walk(root, func(p string, info os.FileInfo, err error) error {
		if err == nil && !info.IsDir() {
			rel, _ := filepath.Rel(root, p)
			fmt.Fprintf(&sb, "    cache/%s (%d bytes)\n", rel, info.Size())
		}
		return nil
	})
	var rows []struct {
		NS     string `db:"namespace"`
		Name   string `db:"name"`
		Status string `db:"status"`
		Fail   int    `db:"failures"`
	}
	if err := o.db.Select(&rows, `SELECT namespace, name, status, failures FROM writeback_task`); err == nil {
		for _, r := range rows {
			fmt.Fprintf(&sb, "    task %s/%s status=%s failures=%d\n", r.NS, r.Name[:12], r.Status, r.Fail)
		}
		if len(rows) == 0 {
			sb.WriteString("    (no write-back tasks stored)\n")
		}
	}
	return sb.String()
}

// ---------------------------------------------------------------------------

type slotState struct {
	active bool
	blob   int
	ns     int
	uid    string
}

type ack struct {
	ns, blob int
}

type ackInfo struct {
	how        string // "commit 2xx" or "conflict 409 on <step>"
	step       int
	inWindow   string // deletion step that ran while this commit was held at its add-task step ("" = none)
	wasPending bool   // some deletion attempt happened while the blob was not yet in its backend
	// racedOther: while the acknowledging request ran, the write-back of the same blob for
	// the other namespace was completing (its task was still stored just before the
	// request, the blob was in the other backend right after it).
	racedOther bool
	// staleTask: the acknowledgement was a 2xx commit of a blob that was not in the cache,
	// yet a write-back task for the same (namespace, blob) was stored just before the
	// request — the left-over of an earlier commit that failed after adding its task.
	staleTask bool
	// What was seen on disk while the blob was cached and not yet in its backend
	// (classification of findings only): its persist flag set / not set.
	flagSetSeen, flagMissingSeen bool
}

// beforeSample is what the harness reads from the write-back table just before a request.
type beforeSample struct{ other, own bool }

type outcome struct {
	violation string
	liveness  string
	// livenessStale: every blob that did not arrive was acknowledged next to a stale task (open finding 2).
	livenessStale bool
	infra     string
	classes   []string
	nontriv   bool
}

const livenessBound = 10 * time.Second

// Two open findings are recognised by a label that the oracle attaches to the
// violation's first line only under the circumstances described at ackInfo.
//
// raceLabel (C31-ack-races-other-namespace): an acknowledgement for one namespace
// races the end of the blob's write-back for the other namespace, which removes the
// persist flag the acknowledging request has just relied on.
//
// staleLabel (C31-stale-task-dropped-under-commit): a commit is acknowledged while a
// left-over task of an earlier failed commit of the same (namespace, blob) is being
// dropped as "cache file missing"; the new commit's Add was a no-op on that task.
const (
	raceLabel  = "[acknowledged while the write-back for another namespace was completing]"
	staleLabel = "[acknowledged next to a stale write-back task of an earlier failed commit]"
)

const (
	sigLost     = "acknowledged upload is neither in its backend nor in the origin cache"
	sigLiveness = "acknowledged upload never reaches its backend"
)

func firstLineOf(v pbt.Verdict) string {
	first := v.Violation
	if i := strings.IndexByte(first, '\n'); i >= 0 {
		first = first[:i]
	}
	return first
}

func knownRaceOtherNamespace(c Case, v pbt.Verdict) bool {
	first := firstLineOf(v)
	return c.Split && strings.HasPrefix(first, sigLost) && strings.HasSuffix(first, raceLabel)
}

func knownStaleTask(c Case, v pbt.Verdict) bool {
	first := firstLineOf(v)
	return (strings.HasPrefix(first, sigLost) || strings.HasPrefix(first, sigLiveness)) && strings.HasSuffix(first, staleLabel)
}

func uploadPath(ns, blob int, uid string) string {
	p := fmt.Sprintf("/namespace/%s/blobs/%s/uploads", nsNames[ns], blobDig[blob].String())
	if uid != "" {
		p += "/" + uid
	}
	return p
}

func runOnce(c Case) (out outcome) {
	if c.Capacity < 1 || c.Capacity > 64 {
		c.Capacity = 2
	}
	dir, err := os.MkdirTemp(memscratch.Base("c31"), "c31-")
	if err != nil {
		out.infra = err.Error()
		return
	}
	defer os.RemoveAll(dir)
	clk := clock.NewMock()
	clk.Set(time.Now().Add(time.Minute)) // every cache file is older than "0 hours" for the forced cleanup
	w := &world{c: c, dir: dir, clk: clk}
	b0 := &fakeBackend{data: map[string][]byte{}}
	b1 := b0
	if c.Split {
		b1 = &fakeBackend{data: map[string][]byte{}}
	}
	w.backends = []*fakeBackend{b0, b1}
	o, err := w.open()
	if err != nil {
		out.infra = err.Error()
		return
	}
	defer func() { o.close() }()

	slots := make([]slotState, nSlots)
	acked := map[ack]*ackInfo{}
	cls := map[string]bool{}

	type heldCommit struct {
		slot    slotState
		step    int
		release chan struct{}
		done    chan int
		during  []string

		before beforeSample
	}
	var held *heldCommit

	inBackend := func(a ack) bool {
		v, ok := w.backends[a.ns].get(blobDig[a.blob].Hex())
		return ok && bytes.Equal(v, blobData[a.blob])
	}
	// safety oracle: every acknowledged blob is in its backend or byte-exact in the origin cache.
	observe := func(where string) string {
		keys := make([]ack, 0, len(acked))
		for a := range acked {
			keys = append(keys, a)
		}
		sort.Slice(keys, func(i, j int) bool {
			if keys[i].blob != keys[j].blob {
				return keys[i].blob < keys[j].blob
			}
			return keys[i].ns < keys[j].ns
		})
		for _, a := range keys {
			if v, ok := w.backends[a.ns].get(blobDig[a.blob].Hex()); ok {
				if !bytes.Equal(v, blobData[a.blob]) {
					return fmt.Sprintf("backend holds wrong bytes for an acknowledged blob\n  %s: blob %d namespace %s: %d bytes, want %d", where, a.blob, nsNames[a.ns], len(v), len(blobData[a.blob]))
				}
				continue
			}
			v, ok, viaDisk := o.cacheBytes(a.blob)
			if ok && bytes.Equal(v, blobData[a.blob]) {
				if viaDisk {
					cls["store-api-missed-blob-that-is-on-disk"] = true
				}
				if _, late := w.backends[a.ns].get(blobDig[a.blob].Hex()); !late {
					if o.persistFlagOnDisk(a.blob) {
						acked[a].flagSetSeen = true
					} else if _, late2 := w.backends[a.ns].get(blobDig[a.blob].Hex()); !late2 {
						acked[a].flagMissingSeen = true
					}
				}
				continue
			}
			// The write-back may have finished between the two reads (upload done, persist
			// flag cleared, blob evicted). The backend never loses data, so look again.
			if v2, ok2 := w.backends[a.ns].get(blobDig[a.blob].Hex()); ok2 && bytes.Equal(v2, blobData[a.blob]) {
				continue
			}
			info := acked[a]
			state := "the origin cache no longer holds it"
			if ok {
				state = fmt.Sprintf("the origin cache holds %d different bytes", len(v))
			}
			sig := sigLost
			// Classify the circumstances (first line = signature used for known findings).
			other := ack{ns: 1 - a.ns, blob: a.blob}
			switch {
			case info.staleTask && info.flagSetSeen && !info.flagMissingSeen:
				sig += " " + staleLabel
			case info.racedOther:
				sig += " " + raceLabel
			case c.Split && acked[other] != nil && inBackend(other):
				sig += " [the blob was written back for another namespace]"
			}
			return fmt.Sprintf("%s\n  %s: blob %d namespace %s acknowledged by %s at step %d; %s; backend %s does not have it (deletion in commit window: %q)\n  blob %d = %s\n  origin state:\n%s",
				sig, where, a.blob, nsNames[a.ns], info.how, info.step, state, nsNames[a.ns], info.inWindow, a.blob, blobDig[a.blob].Hex(), o.dump())
		}
		return ""
	}
	// otherTaskStored reports whether a write-back task for the blob is stored under the other namespace.
	otherTaskStored := func(s slotState) bool {
		if !c.Split {
			return false
		}
		var n int
		if err := o.db.Get(&n, `SELECT COUNT(*) FROM writeback_task WHERE namespace=? AND name=?`, nsNames[1-s.ns], blobDig[s.blob].Hex()); err != nil {
			return false
		}
		return n > 0
	}
	ownTaskStored := func(s slotState) bool {
		var n int
		if err := o.db.Get(&n, `SELECT COUNT(*) FROM writeback_task WHERE namespace=? AND name=?`, nsNames[s.ns], blobDig[s.blob].Hex()); err != nil {
			return false
		}
		return n > 0
	}
	noteAck := func(s slotState, how string, step int) *ackInfo {
		a := ack{ns: s.ns, blob: s.blob}
		if acked[a] == nil {
			acked[a] = &ackInfo{how: how, step: step}
		}
		return acked[a]
	}
	sample := func(s slotState) beforeSample {
		return beforeSample{other: otherTaskStored(s), own: ownTaskStored(s)}
	}
	handleStatus := func(s slotState, code int, what string, step int, b beforeSample) *ackInfo {
		var info *ackInfo
		_, had := acked[ack{ns: s.ns, blob: s.blob}]
		switch {
		case code >= 200 && code < 300 && what == "commit":
			cls["ack-commit-2xx"] = true
			info = noteAck(s, "commit 2xx", step)
			if !had && b.own {
				info.staleTask = true
				cls["commit-ack-with-stale-task-of-failed-commit"] = true
			}
		case code == http.StatusConflict:
			cls["ack-conflict-409-"+what] = true
			info = noteAck(s, "conflict 409 on "+what, step)
		default:
			return nil
		}
		if !had && c.Split && b.other && inBackend(ack{ns: 1 - s.ns, blob: s.blob}) {
			info.racedOther = true
			cls["ack-while-other-namespace-write-back-completes"] = true
		}
		return info
	}
	deletionAttempt := func(desc string) {
		for a, info := range acked {
			if !inBackend(a) {
				info.wasPending = true
				cls["deletion-attempt-while-write-back-pending"] = true
			}
		}
		if held != nil {
			held.during = append(held.during, desc)
		}
	}
	finishHeld := func() string {
		if held == nil {
			return ""
		}
		close(held.release)
		var code int
		select {
		case code = <-held.done:
		case <-time.After(20 * time.Second):
			held = nil
			return "held commit did not finish"
		}
		if info := handleStatus(held.slot, code, "commit", held.step, held.before); info != nil && len(held.during) > 0 && info.step == held.step {
			info.inWindow = strings.Join(held.during, ", ")
			cls["deletion-inside-commit-window"] = true
		}
		held = nil
		return ""
	}
	defer func() {
		if held != nil {
			close(held.release)
			select {
			case <-held.done:
			case <-time.After(20 * time.Second):
			}
		}
	}()

	for i := range c.Ops {
		op := c.Ops[i]
		if op.Slot < 0 || op.Slot >= nSlots {
			op.Slot = 0
		}
		if op.Blob < 0 || op.Blob >= nBlobs {
			op.Blob = 0
		}
		if op.NS < 0 || op.NS >= nNS {
			op.NS = 0
		}
		where := fmt.Sprintf("after step %d", i)
		switch op.K {
		case opStart:
			s := slotState{blob: op.Blob, ns: op.NS}
			before := sample(s)
			code, hdr, _ := o.do("POST", uploadPath(op.NS, op.Blob, ""), nil, nil)
			if code == http.StatusOK && hdr.Get("Location") != "" {
				s.active, s.uid = true, hdr.Get("Location")
				slots[op.Slot] = s
			} else {
				handleStatus(s, code, "start", i, before)
				slots[op.Slot] = slotState{}
			}
		case opPatch:
			s := slots[op.Slot]
			if !s.active {
				cls["skipped-step-without-upload"] = true
				continue
			}
			data := blobData[s.blob]
			cuts := []int{0, len(data)}
			if op.N == 1 {
				cuts = []int{0, len(data) / 2, len(data)}
			}
			for j := 0; j+1 < len(cuts); j++ {
				before := sample(s)
				code, _, _ := o.do("PATCH", uploadPath(s.ns, s.blob, s.uid),
					map[string]string{"Content-Range": fmt.Sprintf("%d-%d", cuts[j], cuts[j+1])}, data[cuts[j]:cuts[j+1]])
				if code == http.StatusConflict {
					handleStatus(s, code, "patch", i, before)
					break
				}
			}
		case opCommit, opCommitPaused:
			s := slots[op.Slot]
			if !s.active {
				cls["skipped-step-without-upload"] = true
				continue
			}
			before := sample(s)
			if op.K == opCommitPaused && held == nil {
				reached, release := o.wbm.arm()
				done := make(chan int, 1)
				oo := o
				go func() {
					defer func() {
						if r := recover(); r != nil {
							done <- -1
						}
					}()
					code, _, _ := oo.do("PUT", uploadPath(s.ns, s.blob, s.uid), nil, nil)
					done <- code
				}()
				select {
				case <-reached:
					held = &heldCommit{slot: s, step: i, release: release, done: done, before: before}
					cls["commit-held-at-add-task"] = true
				case code := <-done: // the commit never got to its write-back step
					o.wbm.disarm()
					handleStatus(s, code, "commit", i, before)
				case <-time.After(20 * time.Second):
					out.infra = "held commit neither reached the gate nor finished"
					close(release)
					return
				}
			} else {
				code, _, _ := o.do("PUT", uploadPath(s.ns, s.blob, s.uid), nil, nil)
				handleStatus(s, code, "commit", i, before)
			}
		case opResume:
			if msg := finishHeld(); msg != "" {
				out.infra = msg
				return
			}
		case opBackend:
			m := op.N
			if m < 0 || m >= nBackendModes {
				m = beHealthy
			}
			w.backends[op.NS].setMode(m)
		case opAdvance:
			h := op.N
			if h < 1 || h > 24 {
				h = 1
			}
			clk.Add(time.Duration(h) * time.Hour)
		case opCleanupPass:
			deletionAttempt(fmt.Sprintf("cleanup pass at step %d", i))
			cls["periodic-cleanup-pass"] = true
			if _, err := o.cas.VerifRunCacheCleanup(store.CleanupConfig{TTI: time.Hour, TTL: 2 * time.Hour}); err != nil {
				cls["cleanup-pass-error"] = true
			}
		case opForceCleanup:
			deletionAttempt(fmt.Sprintf("forced cleanup ttl_hr=%d at step %d", op.N, i))
			cls["forced-cleanup"] = true
			ttl := op.N
			if ttl < 0 || ttl > 100 {
				ttl = 0
			}
			code, _, body := o.do("POST", fmt.Sprintf("/forcecleanup?ttl_hr=%d", ttl), nil, nil)
			if code == http.StatusOK {
				var res struct {
					Deleted []string `json:"deleted"`
					Errors  []string `json:"errors"`
				}
				if json.Unmarshal(body, &res) == nil {
					if len(res.Deleted) > 0 {
						cls["forced-cleanup-deleted-blobs"] = true
					}
					if len(res.Errors) > 0 {
						cls["forced-cleanup-refused-blobs"] = true
					}
				}
			}
		case opRestart:
			if msg := finishHeld(); msg != "" {
				out.infra = msg
				return
			}
			deletionAttempt(fmt.Sprintf("restart at step %d", i))
			cls["restart"] = true
			o.close()
			for j := range slots {
				slots[j] = slotState{} // upload directory is wiped on start
			}
			no, err := w.open()
			if err != nil {
				out.infra = err.Error()
				return
			}
			o = no
		case opSleep:
			ms := op.N
			if ms < 0 || ms > 50 {
				ms = 50
			}
			time.Sleep(time.Duration(ms) * time.Millisecond)
		case opTouch:
			if _, ok, _ := o.cacheBytes(op.Blob); ok {
				cls["touch-cached-blob"] = true
			}
		}
		if v := observe(where); v != "" {
			out.violation = v
			return
		}
	}
	if msg := finishHeld(); msg != "" {
		out.infra = msg
		return
	}
	if v := observe("after the last step"); v != "" {
		out.violation = v
		return
	}

	// Quiescence: all backends healthy; every acknowledged blob reaches its backend.
	for _, b := range w.backends {
		b.setMode(beHealthy)
	}
	deadline := time.Now().Add(livenessBound)
	for {
		var missing []string
		for a, info := range acked {
			if !inBackend(a) {
				missing = append(missing, fmt.Sprintf("blob %d namespace %s (acknowledged by %s at step %d)", a.blob, nsNames[a.ns], info.how, info.step))
			}
		}
		if len(missing) == 0 {
			break
		}
		if v := observe("while waiting for quiescence"); v != "" {
			out.violation = v
			return
		}
		if time.Now().After(deadline) {
			sort.Strings(missing)
			out.liveness = strings.Join(missing, "; ")
			out.livenessStale = true
			for a, info := range acked {
				if !inBackend(a) && !(info.staleTask && info.flagSetSeen && !info.flagMissingSeen) {
					out.livenessStale = false
				}
			}
			return
		}
		time.Sleep(2 * time.Millisecond)
	}
	if v := observe("at quiescence"); v != "" {
		out.violation = v
		return
	}

	pendingDeletion := false
	for _, info := range acked {
		pendingDeletion = pendingDeletion || info.wasPending
	}
	for _, b := range w.backends {
		b.mu.Lock()
		if b.failures > 0 {
			cls["backend-fault-hit"] = true
		}
		b.mu.Unlock()
	}
	if c.Split {
		cls["backends-per-namespace"] = true
	} else {
		cls["backend-shared"] = true
	}
	if len(acked) == 0 {
		cls["nothing-acknowledged"] = true
	}
	out.nontriv = len(acked) > 0 && pendingDeletion
	for k := range cls {
		out.classes = append(out.classes, k)
	}
	sort.Strings(out.classes)
	return
}

func run(c Case) pbt.Verdict {
	reps := c.Repeat
	if reps < 1 || reps > 500 {
		reps = 1
	}
	var v pbt.Verdict
	for r := 0; r < reps; r++ {
		v = runCase(c)
		if v.Violation != "" {
			return v
		}
	}
	return v
}

func runCase(c Case) pbt.Verdict {
	var last outcome
	for attempt := 0; attempt < 3; attempt++ {
		last = runOnce(c)
		if last.infra != "" {
			return pbt.Verdict{Discard: true, Classes: []string{"infra"}}
		}
		if last.violation != "" {
			return pbt.Fail("%s", last.violation)
		}
		if last.liveness == "" {
			return pbt.OK(last.nontriv, last.classes...)
		}
	}
	label := ""
	if last.livenessStale {
		label = " " + staleLabel
	}
	return pbt.Fail("acknowledged upload never reaches its backend although the backends are healthy (3 runs, 10 s each)%s\n  %s", label, last.liveness)
}

func TestProp(t *testing.T) {
	pbt.Main(t, pbt.Spec{
		ID: "C31",
		Rule: "generated histories (2-12 steps, expanded from whole uploads, racing uploads of one blob, duplicate commits, single start/patch/commit steps, a commit held at its add-write-back-task step, " +
			"backend fault modes per namespace, clock advances, periodic cleanup passes, POST /forcecleanup, graceful restarts, cache reads) over 4 blobs x 2 namespaces with an LRU cache of 1-4 entries, " +
			"against the real blob server + CAStore + write-back manager/executor over sqlite; an upload counts as acknowledged when its commit returns 2xx or when start/patch/commit answers 409 (clients treat that as success); " +
			"oracle after every step: each acknowledged (namespace, blob) is byte-exact in the namespace's backend or byte-exact in the origin cache; at quiescence (healthy backends) it is in the backend; " +
			"non-trivial = something was acknowledged AND a deletion attempt (cleanup pass, forced cleanup, restart) happened while an acknowledged blob was not yet in its backend; distinct by case hash",
		Assumptions: []string{
			"in-memory backends are trusted and never lose data; only this origin writes to them",
			"single-origin ring (no replicas); cleanup passes are the periodic job's own function called synchronously (verif hook), with TTI 1h / TTL 2h on the harness clock",
			"interleavings inside the commit are explored at one pause point only (the write-back manager's Add, reachable without a hook)",
			"liveness is bounded: 10 s of healthy backends without the blob arriving, reproduced 3 times, counts as never",
		},
		Parts: []pbt.Part{pbt.WithKnown(pbt.WithKnown(pbt.NewPart("history", 1, gen, run),
			"c31.ack-races-other-namespace-write-back", knownRaceOtherNamespace),
			"c31.ack-next-to-stale-task-of-failed-commit", knownStaleTask)},
	})
}
