package c31

import (
	"encoding/json"
	"os"
	"strconv"
	"testing"
)

func TestDebugLoop(t *testing.T) {
	f := os.Getenv("C31_DEBUG_CASE")
	if f == "" {
		t.Skip()
	}
	b, _ := os.ReadFile(f)
	var rf struct{ Case Case `json:"case"` }
	if err := json.Unmarshal(b, &rf); err != nil {
		t.Fatal(err)
	}
	N, _ := strconv.Atoi(os.Getenv("C31_DEBUG_N"))
	if N == 0 {
		N = 100
	}
	n := 0
	sigs := map[string]int{}
	for i := 0; i < N; i++ {
		o := runOnce(rf.Case)
		if o.violation != "" || o.liveness != "" {
			n++
			sigs[firstLine(o.violation)+"|"+o.liveness]++
			if n <= 2 {
				t.Logf("iter %d: %s", i, o.violation)
			}
		}
	}
	t.Logf("failures: %d/%d %v", n, N, sigs)
}

func firstLine(s string) string {
	for i := range s {
		if s[i] == '\n' {
			return s[:i]
		}
	}
	return s
}
