package c31

import (
	"encoding/json"
	"os"
	"testing"
)

func TestDebugLoop(t *testing.T) {
	f := os.Getenv("C31_DEBUG_CASE")
	if f == "" {
		t.Skip()
	}
	b, _ := os.ReadFile(f)
	var rf struct{ Case Case `json:"case"` }
	if err := json.Unmarshal(b, &rf); err != nil {
		t.Fatal(err)
	}
	n := 0
	for i := 0; i < 300; i++ {
		o := runOnce(rf.Case)
		if o.violation != "" || o.liveness != "" {
			n++
			if o.violation != "" {
				t.Logf("iter %d: %s | %s", i, o.violation, o.liveness)
			}
		}
	}
	t.Logf("failures: %d/400", n)
}
