package c37

import (
	"errors"
	"io"
	"path"
	"sort"
	"strings"
	"sync"

	"github.com/uber-go/tally"
	"github.com/uber/kraken/lib/backend/backenderrors"
	"github.com/uber/kraken/lib/backend/hdfsbackend"
	"github.com/uber/kraken/lib/backend/hdfsbackend/webhdfs"
	"pgregory.net/rapid"

	"verif/internal/pbt"
)

// fakeHDFS is an in-memory name node behind the webhdfs.Client interface. Like the real
// WebHDFS endpoint (webhdfs.getURL path.Joins the request path) it resolves paths leniently:
// "//a" and "/a/" address the same inode as "/a". Directories created by Mkdirs stay.
type fakeHDFS struct {
	mu    sync.Mutex
	files map[string][]byte
	dirs  map[string]bool
}

func newFakeHDFS() *fakeHDFS {
	return &fakeHDFS{files: map[string][]byte{}, dirs: map[string]bool{"/": true}}
}

func (h *fakeHDFS) mkdirsLocked(p string) {
	for p = path.Clean(p); p != "/" && p != "."; p = path.Dir(p) {
		h.dirs[p] = true
	}
}

func (h *fakeHDFS) Create(p string, src io.Reader) error {
	b, err := io.ReadAll(src)
	if err != nil {
		return err
	}
	h.mu.Lock()
	defer h.mu.Unlock()
	p = path.Clean(p)
	h.mkdirsLocked(path.Dir(p))
	h.files[p] = b
	return nil
}

func (h *fakeHDFS) Rename(from, to string) error {
	h.mu.Lock()
	defer h.mu.Unlock()
	from, to = path.Clean(from), path.Clean(to)
	b, ok := h.files[from]
	if !ok {
		return errors.New("rename: source not found")
	}
	if !h.dirs[path.Dir(to)] {
		return errors.New("rename: destination directory does not exist")
	}
	delete(h.files, from)
	h.files[to] = b
	return nil
}

func (h *fakeHDFS) Mkdirs(p string) error {
	h.mu.Lock()
	defer h.mu.Unlock()
	h.mkdirsLocked(p)
	return nil
}

func (h *fakeHDFS) Open(p string, dst io.Writer) error {
	h.mu.Lock()
	b, ok := h.files[path.Clean(p)]
	h.mu.Unlock()
	if !ok {
		return webhdfsNotFound()
	}
	_, err := dst.Write(b)
	return err
}

func (h *fakeHDFS) GetFileStatus(p string) (webhdfs.FileStatus, error) {
	h.mu.Lock()
	defer h.mu.Unlock()
	b, ok := h.files[path.Clean(p)]
	if !ok {
		return webhdfs.FileStatus{}, webhdfsNotFound()
	}
	return webhdfs.FileStatus{Type: "FILE", Length: int64(len(b))}, nil
}

func (h *fakeHDFS) ListFileStatus(p string) ([]webhdfs.FileStatus, error) {
	h.mu.Lock()
	defer h.mu.Unlock()
	dir := path.Clean(p)
	if b, ok := h.files[dir]; ok {
		return []webhdfs.FileStatus{{Type: "FILE", Length: int64(len(b))}}, nil
	}
	if !h.dirs[dir] {
		return nil, webhdfsNotFound()
	}
	prefix := dir
	if !strings.HasSuffix(prefix, "/") {
		prefix += "/"
	}
	seen := map[string]bool{}
	var out []webhdfs.FileStatus
	add := func(full string, file bool, size int) {
		if !strings.HasPrefix(full, prefix) || full == dir {
			return
		}
		rest := full[len(prefix):]
		if i := strings.Index(rest, "/"); i >= 0 {
			rest, file = rest[:i], false
		}
		if rest == "" || seen[rest] {
			return
		}
		seen[rest] = true
		if file {
			out = append(out, webhdfs.FileStatus{PathSuffix: rest, Type: "FILE", Length: int64(size)})
		} else {
			out = append(out, webhdfs.FileStatus{PathSuffix: rest, Type: "DIRECTORY"})
		}
	}
	var keys []string
	for f := range h.files {
		keys = append(keys, f)
	}
	sort.Strings(keys)
	for _, f := range keys {
		add(f, true, len(h.files[f]))
	}
	var ds []string
	for d := range h.dirs {
		ds = append(ds, d)
	}
	sort.Strings(ds)
	for _, d := range ds {
		add(d, false, 0)
	}
	return out, nil
}

func webhdfsNotFound() error { return backenderrors.ErrBlobNotFound }

func genHDFS(t *rapid.T) Case {
	// Listing docker_tag names through the HDFS client is a catalog by design (it stops at
	// <repo>/_manifests and reports one placeholder tag per repository), so the name-exact
	// oracle is applied to the other two schemes only.
	c := Case{Scheme: rapid.SampledFrom([]string{schemeIdentity, schemeIdentity, schemeSharded}).Draw(t, "scheme"), Root: genRoot(t, true)}
	c.Names = genNames(t, c.Scheme)
	genOps(t, &c, genOpts{maxOps: 30})
	return c
}

func runHDFS(c Case) pbt.Verdict {
	fake := newFakeHDFS()
	client, err := hdfsbackend.NewClient(
		hdfsbackend.Config{NameNodes: []string{"name-node.invalid:50070"}, RootDirectory: c.Root, NamePath: c.Scheme},
		tally.NoopScope, hdfsbackend.WithWebHDFS(fake))
	if err != nil {
		return infra("hdfsbackend.NewClient(root=%q, name_path=%q): %v", c.Root, c.Scheme, err)
	}
	return interpret(&subject{name: "hdfs", client: client, tracksSize: true}, c)
}
