// C37 — backend clients honour the storage contract.
package c37

import (
	"testing"

	"github.com/uber/kraken/utils/log"
	"go.uber.org/zap"

	"verif/internal/pbt"
)

func init() {
	// testfs logs every 4xx/5xx response; keep the check's output to verdicts.
	log.SetGlobalLogger(zap.NewNop().Sugar())
}

func TestProp(t *testing.T) {
	pbt.Main(t, pbt.Spec{
		ID: "C37",
		Rule: "one part per backend client (testfs client+server over HTTP, sqlbackend on in-memory sqlite, s3backend over the harness in-memory S3, " +
			"shadowbackend built from configuration over sqlite+testfs in both orientations); a case is a key space of 4-8 names valid for a drawn " +
			"name-path scheme (docker tags with nested repositories, nested identity names, 64-hex digests; path segments drawn so that no segment is a " +
			"prefix of another) plus up to 25-40 generated upload/download/stat/list operations with arbitrary contents (sql: non-empty printable image ids), " +
			"list prefixes '' / '<repo>/_manifests/tags' / directory prefixes, unpaginated and paginated first requests with max keys 1..n+1, and for s3 a drawn " +
			"list_max_keys, download part size/order and short list pages; the history is applied to the real client and to a map model in lock-step: download = " +
			"last upload, not-found error for names never uploaded, Stat size where tracked, a listing followed through its continuation tokens returns exactly " +
			"the stored names under the prefix, each once; every case ends with an audit of every name and a full listing; non-trivial = the history overwrites a " +
			"stored name with different contents, reads back (download or stat) a stored name, and lists a prefix holding >= 2 stored names; distinct by case hash",
		Assumptions: []string{
			"the in-memory S3 (verif/internal/fakes3) is faithful to S3/aws-sdk-go: sorted keys, string prefix, MaxKeys, opaque continuation tokens, SDK paginator semantics, SDK URI cleaning of object keys, NotFound/NoSuchKey codes",
			"map reference model written from the property statement and the backend.Client interface documentation",
			"names are valid for the scheme and prefix-free, so string-prefix (S3) and directory-prefix (testfs) listings coincide; SQL prefixes are '' and '<repo>/_manifests/tags' as its callers pass; SQL contents are non-empty image ids",
			"listing a prefix under which nothing is stored may fail or return nothing (statement silent); returning names is still a violation",
			"a listing is followed the way build-index's tag client does: first request as generated, then paginated requests with the returned continuation token",
			"sqlbackend Stat does not track sizes (only existence is checked); its catalog listing is one repo:<placeholder> entry per repository",
		},
		Parts: []pbt.Part{
			pbt.NewPart("testfs", 3, genTestfs, runTestfs),
			pbt.NewPart("sql", 3, genSQL, runSQL),
			pbt.NewPart("s3", 5, genS3, runS3),
			pbt.NewPart("shadow", 2, genShadow, runShadow),
			pbt.NewPart("hdfs", 3, genHDFS, runHDFS),
		},
	})
}
