package c37

import (
	"fmt"
	"strings"

	"pgregory.net/rapid"
)

// Op is one step of a history.
type Op struct {
	K    string `json:"k"`              // "up", "down", "stat", "list"
	N    int    `json:"n"`              // index into Case.Names (up/down/stat)
	Data []byte `json:"d,omitempty"`    // up: contents
	Opq  bool   `json:"opq,omitempty"`  // up: hand the client a plain io.Reader instead of a *bytes.Reader
	At   bool   `json:"at,omitempty"`   // down: destination also implements io.WriterAt (as a file does)
	PK   string `json:"pk,omitempty"`   // list: "all", "repo" (tags of one repository), "dir" (directory prefix)
	PA   string `json:"pa,omitempty"`   // list: repository or directory
	Pag  bool   `json:"pag,omitempty"`  // list: first request is paginated
	Max  int    `json:"max,omitempty"`  // list: max keys of paginated requests
	Lead bool   `json:"lead,omitempty"` // list: prefix written with a leading slash
}

// Case is one generated history against one backend client.
type Case struct {
	Scheme string   `json:"scheme"` // namepath scheme (docker_tag for sql/shadow)
	Root   string   `json:"root"`
	Names  []string `json:"names"`
	Ops    []Op     `json:"ops"`

	// s3 only.
	ListMaxKeys int   `json:"list_max_keys,omitempty"` // config list_max_keys (0 = default 250)
	PartSize    int   `json:"part_size,omitempty"`     // download part size of the fake download manager
	Reverse     bool  `json:"reverse,omitempty"`       // parts written last-to-first
	Short       []int `json:"short,omitempty"`         // S3 answers some list requests with fewer keys than asked

	// shadow only.
	ActiveSQL bool `json:"active_sql,omitempty"` // active=sql shadow=testfs, else the other way round
}

const (
	schemeTag      = "docker_tag"
	schemeSharded  = "sharded_docker_blob"
	schemeIdentity = "identity"
)

// Segments have the shape letters[sep letters]digit. Two distinct segments of
// that shape are never a string prefix of one another (the only digit is the
// last character), so "names start with prefix" and "names below directory
// prefix" select the same names and no stored path is a directory of another.
func genSegments(t *rapid.T, n int) []string {
	seg := rapid.Custom(func(t *rapid.T) string {
		s := rapid.StringMatching(`[a-z]{1,3}`).Draw(t, "w")
		if rapid.IntRange(0, 3).Draw(t, "sep") == 0 {
			s += rapid.SampledFrom([]string{".", "-", "_", "__"}).Draw(t, "sepc") + rapid.StringMatching(`[a-z]{1,2}`).Draw(t, "w2")
		}
		return s + rapid.StringMatching(`[0-9]`).Draw(t, "d")
	})
	return rapid.SliceOfNDistinct(seg, n, n, rapid.ID[string]).Draw(t, "segments")
}

func genTagNames(t *rapid.T) []string {
	segs := genSegments(t, rapid.IntRange(2, 4).Draw(t, "nseg"))
	nrepo := rapid.IntRange(1, 3).Draw(t, "nrepo")
	repos := rapid.SliceOfNDistinct(rapid.Custom(func(t *rapid.T) string {
		depth := rapid.SampledFrom([]int{1, 1, 2, 2, 3}).Draw(t, "depth")
		parts := make([]string, depth)
		for i := range parts {
			parts[i] = rapid.SampledFrom(segs).Draw(t, "seg")
		}
		return strings.Join(parts, "/")
	}), nrepo, nrepo, rapid.ID[string]).Draw(t, "repos")
	tagGen := rapid.Custom(func(t *rapid.T) string {
		return rapid.StringMatching(`[A-Za-z_][A-Za-z_.-]{0,5}[0-9]`).Draw(t, "tag")
	})
	ntag := rapid.IntRange(2, 4).Draw(t, "ntag")
	tags := rapid.SliceOfNDistinct(tagGen, ntag, ntag, rapid.ID[string]).Draw(t, "tags")
	// All repo:tag combinations in a drawn order; the first 4-8 are the key space.
	var all []string
	for _, r := range repos {
		for _, tg := range tags {
			all = append(all, r+":"+tg)
		}
	}
	all = rapid.Permutation(all).Draw(t, "order")
	n := rapid.IntRange(4, 8).Draw(t, "nnames")
	if n > len(all) {
		n = len(all)
	}
	return all[:n]
}

func genIdentityNames(t *rapid.T) []string {
	n := rapid.IntRange(4, 8).Draw(t, "nnames")
	segs := genSegments(t, n+rapid.IntRange(1, 3).Draw(t, "ndir"))
	leaves, dirs := segs[:n], segs[n:]
	names := make([]string, n)
	for i := range names {
		depth := rapid.SampledFrom([]int{0, 0, 1, 1, 2}).Draw(t, "depth")
		parts := make([]string, 0, depth+1)
		for j := 0; j < depth; j++ {
			parts = append(parts, rapid.SampledFrom(dirs).Draw(t, "dir"))
		}
		names[i] = strings.Join(append(parts, leaves[i]), "/")
	}
	return names
}

func genShardedNames(t *rapid.T) []string {
	nshard := rapid.IntRange(1, 3).Draw(t, "nshard")
	shards := rapid.SliceOfNDistinct(rapid.StringMatching(`[0-9a-f]{2}`), nshard, nshard, rapid.ID[string]).Draw(t, "shards")
	n := rapid.IntRange(4, 8).Draw(t, "nnames")
	return rapid.SliceOfNDistinct(rapid.Custom(func(t *rapid.T) string {
		return rapid.SampledFrom(shards).Draw(t, "shard") + rapid.StringMatching(`[0-9a-f]{62}`).Draw(t, "rest")
	}), n, n, rapid.ID[string]).Draw(t, "names")
}

// dirPrefixes returns the directory prefixes (relative to the base path) that
// lie strictly above stored paths for the scheme.
func dirChoices(scheme string, names []string) []string {
	seen := map[string]bool{}
	var out []string
	add := func(s string) {
		if s != "" && !seen[s] {
			seen[s] = true
			out = append(out, s)
		}
	}
	for _, n := range names {
		switch scheme {
		case schemeTag:
			parts := strings.Split(strings.SplitN(n, ":", 2)[0], "/")
			for i := 1; i <= len(parts); i++ {
				add(strings.Join(parts[:i], "/"))
			}
		case schemeIdentity:
			parts := strings.Split(n, "/")
			for i := 1; i < len(parts); i++ {
				add(strings.Join(parts[:i], "/"))
			}
		case schemeSharded:
			add("sha256")
			add("sha256/" + n[:2])
		}
	}
	return out
}

func reposOf(names []string) []string {
	seen := map[string]bool{}
	var out []string
	for _, n := range names {
		r := strings.SplitN(n, ":", 2)[0]
		if !seen[r] {
			seen[r] = true
			out = append(out, r)
		}
	}
	return out
}

type genOpts struct {
	sqlContents bool // contents are non-empty printable image ids
	sqlPrefixes bool // only "" and <repo>/_manifests/tags
	pagination  bool // paginated list requests are generated
	maxOps      int
}

func genData(t *rapid.T, sql bool) []byte {
	if sql {
		// The SQL backend stores image ids (text column): non-empty printable ASCII.
		if rapid.IntRange(0, 2).Draw(t, "digestlike") > 0 {
			return []byte("sha256:" + rapid.StringMatching(`[0-9a-f]{64}`).Draw(t, "hex"))
		}
		return []byte(rapid.StringMatching(`[!-~]{1,80}`).Draw(t, "id"))
	}
	switch rapid.IntRange(0, 9).Draw(t, "datakind") {
	case 0:
		return []byte{}
	case 1:
		return rapid.SliceOfN(rapid.Byte(), 65, 700).Draw(t, "data")
	default:
		return rapid.SliceOfN(rapid.Byte(), 1, 64).Draw(t, "data")
	}
}

func genOps(t *rapid.T, c *Case, o genOpts) {
	n := len(c.Names)
	dirs := dirChoices(c.Scheme, c.Names)
	var repos []string
	if c.Scheme == schemeTag {
		repos = reposOf(c.Names)
	}
	kinds := []string{"up", "up", "up", "up", "down", "down", "stat", "stat", "list", "list", "list"}
	opGen := rapid.Custom(func(t *rapid.T) Op {
		op := Op{K: rapid.SampledFrom(kinds).Draw(t, "k")}
		switch op.K {
		case "up":
			op.N = rapid.IntRange(0, n-1).Draw(t, "n")
			op.Data = genData(t, o.sqlContents)
			op.Opq = !o.sqlContents && rapid.IntRange(0, 3).Draw(t, "opq") == 0
		case "down":
			op.N = rapid.IntRange(0, n-1).Draw(t, "n")
			op.At = rapid.Bool().Draw(t, "at")
		case "stat":
			op.N = rapid.IntRange(0, n-1).Draw(t, "n")
		case "list":
			pk := []string{"all", "all"}
			if len(repos) > 0 {
				pk = append(pk, "repo", "repo")
			}
			if len(dirs) > 0 && !o.sqlPrefixes {
				pk = append(pk, "dir", "dir")
			}
			op.PK = rapid.SampledFrom(pk).Draw(t, "pk")
			switch op.PK {
			case "repo":
				op.PA = rapid.SampledFrom(repos).Draw(t, "pa")
			case "dir":
				op.PA = rapid.SampledFrom(dirs).Draw(t, "pa")
			}
			if op.PK != "all" {
				op.Lead = rapid.IntRange(0, 4).Draw(t, "lead") == 0
			}
			if o.pagination && rapid.IntRange(0, 3).Draw(t, "pag") > 0 {
				op.Pag = true
				op.Max = rapid.IntRange(1, n+1).Draw(t, "max")
			}
		}
		return op
	})
	// Histories usually start with a few uploads so that reads and listings meet stored names.
	upGen := rapid.Custom(func(t *rapid.T) Op {
		return Op{K: "up", N: rapid.IntRange(0, n-1).Draw(t, "n"), Data: genData(t, o.sqlContents)}
	})
	pre := rapid.SliceOfN(upGen, 0, n).Draw(t, "preload")
	k := rapid.IntRange(1, o.maxOps).Draw(t, "nops")
	c.Ops = append(pre, rapid.SliceOfN(opGen, k, k).Draw(t, "ops")...)
}

func genRoot(t *rapid.T, absolute bool) string {
	if absolute {
		// S3 root_directory must be absolute; the documented form ends in a slash.
		return rapid.SampledFrom([]string{"/", "/root", "/root/", "/kraken/tags", "/kraken/tags/", "/r0/"}).Draw(t, "root")
	}
	// testfs roots in the shipped configurations and tests: tags, blobs, root.
	return rapid.SampledFrom([]string{"tags", "blobs", "root", "kraken/tags"}).Draw(t, "root")
}

func genNames(t *rapid.T, scheme string) []string {
	switch scheme {
	case schemeTag:
		return genTagNames(t)
	case schemeIdentity:
		return genIdentityNames(t)
	case schemeSharded:
		return genShardedNames(t)
	}
	panic(fmt.Sprintf("unknown scheme %q", scheme))
}

func genScheme(t *rapid.T) string {
	return rapid.SampledFrom([]string{schemeTag, schemeTag, schemeIdentity, schemeIdentity, schemeSharded}).Draw(t, "scheme")
}

func genTestfs(t *rapid.T) Case {
	c := Case{Scheme: genScheme(t), Root: genRoot(t, false)}
	c.Names = genNames(t, c.Scheme)
	genOps(t, &c, genOpts{maxOps: 30})
	return c
}

func genSQL(t *rapid.T) Case {
	c := Case{Scheme: schemeTag}
	c.Names = genNames(t, c.Scheme)
	genOps(t, &c, genOpts{sqlContents: true, sqlPrefixes: true, pagination: true, maxOps: 40})
	return c
}

func genS3(t *rapid.T) Case {
	c := Case{Scheme: genScheme(t), Root: genRoot(t, true)}
	c.Names = genNames(t, c.Scheme)
	n := len(c.Names)
	if rapid.IntRange(0, 4).Draw(t, "defaultmax") > 0 {
		c.ListMaxKeys = rapid.IntRange(1, n+1).Draw(t, "list_max_keys")
	}
	c.PartSize = rapid.SampledFrom([]int{0, 1, 3, 8, 64, 256}).Draw(t, "part_size")
	c.Reverse = rapid.Bool().Draw(t, "reverse")
	if rapid.IntRange(0, 2).Draw(t, "short") == 0 {
		c.Short = rapid.SliceOfN(rapid.IntRange(0, 3), 1, 4).Draw(t, "shortpages")
	}
	genOps(t, &c, genOpts{pagination: true, maxOps: 40})
	return c
}

func genShadow(t *rapid.T) Case {
	c := Case{Scheme: schemeTag, Root: genRoot(t, false), ActiveSQL: rapid.Bool().Draw(t, "active_sql")}
	c.Names = genNames(t, c.Scheme)
	genOps(t, &c, genOpts{sqlContents: true, sqlPrefixes: true, maxOps: 25})
	return c
}
