package c37

import (
	"bytes"
	"fmt"
	"net"
	"net/http"
	"os"
	"sync"
	"sync/atomic"

	"github.com/uber-go/tally"
	"github.com/uber/kraken/lib/backend"
	"github.com/uber/kraken/lib/backend/s3backend"
	"github.com/uber/kraken/lib/backend/shadowbackend"
	"github.com/uber/kraken/lib/backend/sqlbackend"
	"github.com/uber/kraken/lib/backend/testfs"

	"verif/internal/fakes3"
	"verif/internal/pbt"
)

// One HTTP listener per process serves whichever testfs server the current case
// created; this keeps client connections alive across thousands of cases.
var (
	httpOnce    sync.Once
	httpAddr    string
	httpErr     error
	httpCurrent atomic.Value // handlerBox
)

var shadowSeq int64

type handlerBox struct{ h http.Handler }

type noHandler struct{}

func (noHandler) ServeHTTP(w http.ResponseWriter, r *http.Request) {
	http.Error(w, "no testfs server installed", http.StatusServiceUnavailable)
}

func testfsAddr() (string, error) {
	httpOnce.Do(func() {
		httpCurrent.Store(handlerBox{noHandler{}})
		l, err := net.Listen("tcp", "127.0.0.1:0")
		if err != nil {
			// A busy machine can have every ephemeral port tied up in TIME_WAIT, which
			// defeats port 0. Fixed ports below the ephemeral range on another loopback
			// address still bind (listeners set SO_REUSEADDR).
			base := os.Getpid() * 7
			for i := 0; i < 400 && err != nil; i++ {
				l, err = net.Listen("tcp", fmt.Sprintf("127.37.0.1:%d", 12000+(base+i*13)%18000))
			}
		}
		if err != nil {
			httpErr = err
			return
		}
		httpAddr = l.Addr().String()
		srv := &http.Server{Handler: http.HandlerFunc(func(w http.ResponseWriter, r *http.Request) {
			httpCurrent.Load().(handlerBox).h.ServeHTTP(w, r)
		})}
		go srv.Serve(l)
	})
	return httpAddr, httpErr
}

// startTestfs creates a fresh testfs server (own directory) behind the shared listener.
func startTestfs() (addr string, stop func(), err error) {
	addr, err = testfsAddr()
	if err != nil {
		return "", nil, err
	}
	srv := testfs.NewServer()
	httpCurrent.Store(handlerBox{srv.Handler()})
	return addr, func() {
		httpCurrent.Store(handlerBox{noHandler{}})
		srv.Cleanup()
	}, nil
}

func infra(format string, args ...interface{}) pbt.Verdict {
	fmt.Fprintf(os.Stderr, "c37: harness setup problem: "+format+"\n", args...)
	return pbt.Verdict{Discard: true}
}

func runTestfs(c Case) pbt.Verdict {
	addr, stop, err := startTestfs()
	if err != nil {
		return infra("listen: %v", err)
	}
	defer stop()
	client, err := testfs.NewClient(testfs.Config{Addr: addr, Root: c.Root, NamePath: c.Scheme}, tally.NoopScope)
	if err != nil {
		return infra("testfs.NewClient(root=%q, name_path=%q): %v", c.Root, c.Scheme, err)
	}
	defer client.Close()
	return interpret(&subject{name: "testfs", client: client, tracksSize: true}, c)
}

func runSQL(c Case) pbt.Verdict {
	client, err := sqlbackend.NewClient(sqlbackend.Config{Dialect: "sqlite3", ConnectionString: ":memory:"}, sqlbackend.UserAuthConfig{}, tally.NoopScope)
	if err != nil {
		return infra("sqlite: %v", err)
	}
	defer client.Close()
	return interpret(&subject{name: "sql", client: client, sqlCatalog: true}, c)
}

func runS3(c Case) pbt.Verdict {
	const bucket, user = "verif-bucket", "verif-user"
	fake := fakes3.New(bucket, fakes3.Options{PartSize: c.PartSize, ReverseParts: c.Reverse, ShortPages: c.Short})
	client, err := s3backend.NewClient(
		s3backend.Config{Username: user, Region: "us-west-1", Bucket: bucket, RootDirectory: c.Root, NamePath: c.Scheme, ListMaxKeys: c.ListMaxKeys},
		s3backend.UserAuthConfig{user: s3backend.AuthConfig{}},
		tally.NoopScope, s3backend.WithS3(fake))
	if err != nil {
		return infra("s3backend.NewClient(root=%q, name_path=%q): %v", c.Root, c.Scheme, err)
	}
	defer client.Close()
	return interpret(&subject{name: "s3", client: client, tracksSize: true}, c)
}

// runShadow builds the shadow client from configuration, as production does,
// over a sqlite file and a testfs server, so that independent clients can look
// at each side afterwards.
func runShadow(c Case) pbt.Verdict {
	addr, stop, err := startTestfs()
	if err != nil {
		return infra("listen: %v", err)
	}
	defer stop()
	// A named shared-cache in-memory database: the shadow client's connection and the
	// audit's connection see the same tables; it vanishes when the last one closes.
	sqlCfg := sqlbackend.Config{Dialect: "sqlite3", ConnectionString: fmt.Sprintf("file:c37-shadow-%d-%d?mode=memory&cache=shared", os.Getpid(), atomic.AddInt64(&shadowSeq, 1))}
	fsCfg := testfs.Config{Addr: addr, Root: c.Root, NamePath: c.Scheme}
	cfg := shadowbackend.Config{
		ActiveClientConfig: map[string]interface{}{"sql": sqlCfg},
		ShadowClientConfig: map[string]interface{}{"testfs": fsCfg},
	}
	if !c.ActiveSQL {
		cfg.ActiveClientConfig, cfg.ShadowClientConfig = cfg.ShadowClientConfig, cfg.ActiveClientConfig
	}
	auth := backend.AuthConfig{"sql": sqlbackend.UserAuthConfig{}, "testfs": map[string]interface{}{}}
	client, err := shadowbackend.NewClient(cfg, auth, tally.NoopScope)
	if err != nil {
		return infra("shadowbackend.NewClient(active_sql=%v): %v", c.ActiveSQL, err)
	}
	defer client.Close()
	s := &subject{name: "shadow", client: client, tracksSize: !c.ActiveSQL, sqlCatalog: c.ActiveSQL}
	// The shadow backend documents that every write goes to both sides: after the
	// history, independent clients of each side must hold the last upload of every name.
	s.audit = func(model map[string][]byte) string {
		direct := map[string]backend.Client{}
		fsc, err := testfs.NewClient(fsCfg, tally.NoopScope)
		if err != nil {
			return ""
		}
		direct["testfs"] = fsc
		sqlc, err := sqlbackend.NewClient(sqlCfg, sqlbackend.UserAuthConfig{}, tally.NoopScope)
		if err != nil {
			return ""
		}
		defer sqlc.Close()
		direct["sql"] = sqlc
		for _, side := range []string{"sql", "testfs"} {
			role := "shadow"
			if (side == "sql") == c.ActiveSQL {
				role = "active"
			}
			for _, name := range keys(model) {
				var b bytes.Buffer
				if err := direct[side].Download("ns", name, &b); err != nil {
					return fmt.Sprintf("shadow client did not write to both backends: %s (%s) side Download(%q) err=%v", side, role, name, err)
				}
				if !bytes.Equal(b.Bytes(), model[name]) {
					return fmt.Sprintf("shadow client did not write to both backends: %s (%s) side holds %s for %q, last upload was %s", side, role, short(b.Bytes()), name, short(model[name]))
				}
			}
		}
		return ""
	}
	return interpret(s, c)
}
