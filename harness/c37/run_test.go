package c37

import (
	"bytes"
	"fmt"
	"io"
	"sort"
	"strings"

	"github.com/uber/kraken/lib/backend"
	"github.com/uber/kraken/lib/backend/backenderrors"

	"verif/internal/pbt"
)

// subject is one backend client under test plus what the statement lets the
// oracle demand of it.
type subject struct {
	name       string
	client     backend.Client
	tracksSize bool // Stat reports the stored size (testfs, s3; sql reports no size)
	sqlCatalog bool // List("") returns one entry per repository with a placeholder tag (sql)
	// audit, if set, runs after the history and checks state the client API cannot show.
	audit func(model map[string][]byte) string
	close func()
}

// memDst is a download destination that, like a file, also accepts WriteAt.
type memDst struct{ b []byte }

func (m *memDst) Write(p []byte) (int, error) {
	m.b = append(m.b, p...)
	return len(p), nil
}

func (m *memDst) WriteAt(p []byte, off int64) (int, error) {
	if end := int(off) + len(p); end > len(m.b) {
		m.b = append(m.b, make([]byte, end-len(m.b))...)
	}
	copy(m.b[off:], p)
	return len(p), nil
}

// plainDst hides everything but io.Writer.
type plainDst struct{ b bytes.Buffer }

func (p *plainDst) Write(b []byte) (int, error) { return p.b.Write(b) }

// opaqueReader hides everything but io.Reader.
type opaqueReader struct{ r io.Reader }

func (o opaqueReader) Read(p []byte) (int, error) { return o.r.Read(p) }

func short(b []byte) string {
	if len(b) <= 24 {
		return fmt.Sprintf("%q", b)
	}
	return fmt.Sprintf("%q...(%d bytes)", b[:24], len(b))
}

// expectedUnder returns the stored names a listing of the given prefix kind must return.
func expectedUnder(scheme string, model map[string][]byte, pk, pa string) []string {
	var out []string
	for name := range model {
		var p string // the path of name below the base path, as the scheme documents it
		switch scheme {
		case schemeTag:
			p = strings.SplitN(name, ":", 2)[0]
		case schemeIdentity:
			p = name
		case schemeSharded:
			p = "sha256/" + name[:2] + "/" + name
		}
		switch pk {
		case "all":
			out = append(out, name)
		case "repo":
			if p == pa {
				out = append(out, name)
			}
		case "dir":
			if p == pa || strings.HasPrefix(p, pa+"/") {
				out = append(out, name)
			}
		}
	}
	sort.Strings(out)
	return out
}

func prefixString(op Op) string {
	var p string
	switch op.PK {
	case "repo":
		// What tagserver's repository listing passes: path.Join(repo, "_manifests/tags").
		p = op.PA + "/_manifests/tags"
	case "dir":
		p = op.PA
	}
	if op.Lead && p != "" {
		p = "/" + p
	}
	return p
}

type listStats struct {
	pages    int
	expected int
}

// listAll follows a listing to its end the way build-index's tag client does:
// the first request as generated, then paginated requests carrying the
// continuation token until none is returned.
func listAll(s *subject, scheme string, model map[string][]byte, op Op, step string) (string, listStats) {
	prefix := prefixString(op)
	want := expectedUnder(scheme, model, op.PK, op.PA)
	st := listStats{expected: len(want)}
	var got []string
	token := ""
	maxPages := 2*len(model) + 4
	for page := 0; ; page++ {
		if page >= maxPages {
			return fmt.Sprintf("listing does not end: %s List(%q) still returns a continuation token after %d pages (%d names stored)", step, prefix, page, len(model)), st
		}
		var opts []backend.ListOption
		if page == 0 {
			if op.Pag {
				opts = append(opts, backend.ListWithPagination(), backend.ListWithMaxKeys(op.Max))
			}
		} else {
			opts = append(opts, backend.ListWithPagination(), backend.ListWithContinuationToken(token))
			if op.Pag {
				opts = append(opts, backend.ListWithMaxKeys(op.Max))
			}
		}
		res, err := s.client.List(prefix, opts...)
		if err != nil {
			if len(want) == 0 {
				// The statement says nothing about listing a prefix nothing is stored under.
				return "", st
			}
			return fmt.Sprintf("listing failed: %s List(%q) page %d: %v (stored under the prefix: %v)", step, prefix, page, err, want), st
		}
		if res == nil {
			return fmt.Sprintf("listing returned nil result and nil error: %s List(%q)", step, prefix), st
		}
		st.pages++
		got = append(got, res.Names...)
		token = res.ContinuationToken
		if token == "" {
			break
		}
	}
	if s.sqlCatalog && op.PK == "all" {
		// The SQL backend documents its catalog listing as one "repo:<placeholder>" entry per repository.
		wantRepos := map[string]bool{}
		for name := range model {
			wantRepos[strings.SplitN(name, ":", 2)[0]] = true
		}
		seen := map[string]int{}
		for _, g := range got {
			parts := strings.Split(g, ":")
			if len(parts) != 2 {
				return fmt.Sprintf("catalog entry not in repo:tag form: %s List(\"\") returned %q", step, g), st
			}
			seen[parts[0]]++
		}
		for r := range wantRepos {
			if seen[r] == 0 {
				return fmt.Sprintf("listing misses a stored name: %s catalog List(\"\") lacks repository %q (got %v)", step, r, got), st
			}
		}
		for r, n := range seen {
			if !wantRepos[r] {
				return fmt.Sprintf("listing returns a name never stored: %s catalog List(\"\") returned repository %q (stored %v)", step, r, keys(model)), st
			}
			if n > 1 {
				return fmt.Sprintf("listing returns a name more than once: %s catalog List(\"\") returned repository %q %d times", step, r, n), st
			}
		}
		return "", st
	}
	seen := map[string]int{}
	for _, g := range got {
		seen[g]++
	}
	for _, w := range want {
		if seen[w] == 0 {
			return fmt.Sprintf("listing misses a stored name: %s List(%q) over %d page(s) lacks %q (got %v, want %v)", step, prefix, st.pages, w, got, want), st
		}
	}
	for _, g := range got {
		if seen[g] > 1 {
			return fmt.Sprintf("listing returns a name more than once: %s List(%q) over %d page(s) returned %q %d times (got %v)", step, prefix, st.pages, g, seen[g], got), st
		}
	}
	wantSet := map[string]bool{}
	for _, w := range want {
		wantSet[w] = true
	}
	for _, g := range got {
		if !wantSet[g] {
			return fmt.Sprintf("listing returns a name not stored under the prefix: %s List(%q) returned %q (want %v)", step, prefix, g, want), st
		}
	}
	return "", st
}

func keys(m map[string][]byte) []string {
	var out []string
	for k := range m {
		out = append(out, k)
	}
	sort.Strings(out)
	return out
}

func checkDownload(s *subject, model map[string][]byte, name string, at bool, step string) string {
	var err error
	var got []byte
	if at {
		d := &memDst{}
		err = s.client.Download("ns", name, d)
		got = d.b
	} else {
		d := &plainDst{}
		err = s.client.Download("ns", name, d)
		got = d.b.Bytes()
	}
	want, stored := model[name]
	if !stored {
		if err != backenderrors.ErrBlobNotFound {
			return fmt.Sprintf("download of a name never uploaded does not return the not-found error: %s Download(%q) err=%v", step, name, err)
		}
		return ""
	}
	if err != nil {
		return fmt.Sprintf("download of a stored name fails: %s Download(%q) err=%v (uploaded %s)", step, name, err, short(want))
	}
	if !bytes.Equal(got, want) {
		return fmt.Sprintf("download returns bytes other than the last upload: %s Download(%q) got %s want %s", step, name, short(got), short(want))
	}
	return ""
}

func checkStat(s *subject, model map[string][]byte, name string, step string) string {
	info, err := s.client.Stat("ns", name)
	want, stored := model[name]
	if !stored {
		if err != backenderrors.ErrBlobNotFound {
			return fmt.Sprintf("stat of a name never uploaded does not return the not-found error: %s Stat(%q) err=%v info=%v", step, name, err, info)
		}
		return ""
	}
	if err != nil {
		return fmt.Sprintf("stat of a stored name fails: %s Stat(%q) err=%v", step, name, err)
	}
	if info == nil {
		return fmt.Sprintf("stat of a stored name returns nil info and nil error: %s Stat(%q)", step, name)
	}
	if s.tracksSize && info.Size != int64(len(want)) {
		return fmt.Sprintf("stat reports a size other than the last upload's: %s Stat(%q) size=%d want %d", step, name, info.Size, len(want))
	}
	return ""
}

// interpret runs the history against the subject and the map model in lock-step.
func interpret(s *subject, c Case) pbt.Verdict {
	model := map[string][]byte{}
	cl := map[string]bool{}
	var readHits, bigLists, multiPage int
	for i, op := range c.Ops {
		step := fmt.Sprintf("step %d", i)
		switch op.K {
		case "up":
			if op.N < 0 || op.N >= len(c.Names) {
				continue
			}
			name := c.Names[op.N]
			data := append([]byte{}, op.Data...)
			var src io.Reader = bytes.NewReader(data)
			if op.Opq {
				src = opaqueReader{src}
				cl["upload-plain-reader"] = true
			}
			if err := s.client.Upload("ns", name, src); err != nil {
				return pbt.Fail("upload fails: %s Upload(%q, %s) err=%v", step, name, short(data), err)
			}
			if old, ok := model[name]; ok {
				if !bytes.Equal(old, data) {
					cl["overwrite"] = true
					if len(old) != len(data) {
						cl["overwrite-other-size"] = true
					}
				}
			}
			if len(data) == 0 {
				cl["empty-content"] = true
			}
			model[name] = data
		case "down":
			if op.N < 0 || op.N >= len(c.Names) {
				continue
			}
			name := c.Names[op.N]
			if _, ok := model[name]; ok {
				cl["download-hit"] = true
				readHits++
				if c.PartSize > 0 && len(model[name]) > c.PartSize {
					cl["download-multi-part"] = true
				}
			} else {
				cl["download-miss"] = true
			}
			if op.At {
				cl["download-writer-at"] = true
			}
			if msg := checkDownload(s, model, name, op.At, step); msg != "" {
				return pbt.Fail("%s", msg)
			}
		case "stat":
			if op.N < 0 || op.N >= len(c.Names) {
				continue
			}
			name := c.Names[op.N]
			if _, ok := model[name]; ok {
				cl["stat-hit"] = true
				readHits++
			} else {
				cl["stat-miss"] = true
			}
			if msg := checkStat(s, model, name, step); msg != "" {
				return pbt.Fail("%s", msg)
			}
		case "list":
			msg, st := listAll(s, c.Scheme, model, op, step)
			if msg != "" {
				return pbt.Fail("%s", msg)
			}
			cl["list-"+op.PK] = true
			if st.expected >= 2 {
				bigLists++
			}
			if st.expected == 0 {
				cl["list-nothing-stored"] = true
			}
			if st.pages >= 2 {
				multiPage++
				cl["list-multi-page"] = true
				if !op.Pag {
					cl["list-unpaginated-first-then-token"] = true
				}
				if op.Pag && op.Max > 0 && st.expected%op.Max == 0 {
					cl["list-exact-multiple-of-max"] = true
				}
			}
		}
	}
	// Closing audit: every name of the key space and the complete listing, both request styles.
	for i, name := range c.Names {
		step := fmt.Sprintf("final audit of name %d", i)
		if msg := checkDownload(s, model, name, i%2 == 0, step); msg != "" {
			return pbt.Fail("%s", msg)
		}
		if msg := checkStat(s, model, name, step); msg != "" {
			return pbt.Fail("%s", msg)
		}
	}
	if msg, _ := listAll(s, c.Scheme, model, Op{K: "list", PK: "all"}, "final audit"); msg != "" {
		return pbt.Fail("%s", msg)
	}
	if s.audit != nil {
		if msg := s.audit(model); msg != "" {
			return pbt.Fail("%s", msg)
		}
	}
	if len(c.Short) > 0 {
		cl["s3-short-pages"] = true
	}
	if len(model) >= 3 {
		cl["stored>=3"] = true
	}
	var classes []string
	for k := range cl {
		classes = append(classes, k)
	}
	sort.Strings(classes)
	nontrivial := cl["overwrite"] && readHits > 0 && bigLists > 0
	return pbt.OK(nontrivial, classes...)
}
