package c11

import (
	"fmt"
	"path/filepath"

	"github.com/uber-go/tally"
	"github.com/uber/kraken/agent/agentserver"
	"github.com/uber/kraken/build-index/tagclient"
	"github.com/uber/kraken/core"
	"github.com/uber/kraken/lib/store"
	"github.com/uber/kraken/lib/torrent/scheduler"
	"pgregory.net/rapid"

	"verif/internal/pbt"
)

// Agent operations.
const (
	agGetBlob = iota
	agDeleteBlob
	agGetTag
	agNumOps
)

var agOpNames = []string{"GET-blob", "DELETE-blob", "GET-tag"}

// AGReq is one request to the agent; Name is URL text for the {digest} or {tag} slot.
type AGReq struct {
	Op   int    `json:"op"`
	Name string `json:"name"`
}

// AGCase is a sequence of requests.
type AGCase struct {
	Reqs []AGReq `json:"reqs"`
}

func genAGCase(t *rapid.T) AGCase {
	var c AGCase
	n := rapid.IntRange(1, 5).Draw(t, "nreqs")
	for i := 0; i < n; i++ {
		r := AGReq{Op: rapid.SampledFrom([]int{agGetBlob, agGetBlob, agGetBlob, agDeleteBlob, agDeleteBlob, agGetTag}).Draw(t, "op")}
		switch k := rapid.IntRange(0, 9).Draw(t, "kind"); {
		case r.Op == agGetTag || k < 4:
			r.Name = genName(t, "a")
		case k < 8:
			// the agent also accepts a bare hex digest: 64 characters of anything path-like
			r.Name = rapid.SampledFrom(hostileDigests).Draw(t, "dig")
			if rapid.Bool().Draw(t, "bare") && len(r.Name) > 7 {
				r.Name = r.Name[len("sha256:"):]
			}
		default:
			r.Name = "sha256:" + hexOf([]byte(fmt.Sprint(rapid.IntRange(0, 3).Draw(t, "absent"))))
		}
		c.Reqs = append(c.Reqs, r)
	}
	return c
}

// idleScheduler knows no torrents.
type idleScheduler struct{ scheduler.ReloadableScheduler }

func (idleScheduler) Download(namespace string, d core.Digest) error {
	return scheduler.ErrTorrentNotFound
}
func (idleScheduler) RemoveTorrent(d core.Digest) error { return nil }
func (idleScheduler) Probe() error                      { return nil }
func (idleScheduler) Stop()                             {}

// noTags is a build-index client that knows no tags.
type noTags struct{ tagclient.Client }

func (noTags) Get(tag string) (core.Digest, error) { return core.Digest{}, tagclient.ErrTagNotFound }

func runAGCase(c AGCase) pbt.Verdict {
	if len(c.Reqs) == 0 {
		return pbt.Verdict{Discard: true}
	}
	b, err := newBox()
	if err != nil {
		debugf("box: %v", err)
		return pbt.Verdict{Discard: true, Classes: []string{"infra:box"}}
	}
	defer b.remove()
	// The agent's download directory takes the place of the upload directory.
	cads, err := store.NewCADownloadStore(store.CADownloadStoreConfig{DownloadDir: b.upload + "/", CacheDir: b.cache + "/"}, tally.NoopScope)
	if err != nil {
		debugf("store: %v", err)
		return pbt.Verdict{Discard: true, Classes: []string{"infra:store"}}
	}
	defer cads.Close()
	victim := []byte("c11 agent victim blob")
	victimHex := hexOf(victim)
	if err := cads.CreateDownloadFile(victimHex, int64(len(victim))); err != nil {
		return pbt.Verdict{Discard: true, Classes: []string{"infra:victim"}}
	}
	if w, err := cads.GetDownloadFileReadWriter(victimHex); err != nil {
		return pbt.Verdict{Discard: true, Classes: []string{"infra:victim"}}
	} else {
		w.Write(victim)
		w.Close()
	}
	if err := cads.MoveDownloadFileToCache(victimHex); err != nil {
		return pbt.Verdict{Discard: true, Classes: []string{"infra:victim"}}
	}
	victimDir := filepath.Join(b.cache, casDir(victimHex))
	victimBefore := dirState(victimDir)
	cacheBefore := fmt.Sprint(listFiles(b.cache))

	s := agentserver.New(agentserver.Config{}, tally.NoopScope, cads, idleScheduler{}, noTags{}, nil, nil)
	srv, err := startServer(s.Handler())
	if err != nil {
		return pbt.Verdict{Discard: true, Classes: []string{"infra:server"}}
	}
	defer srv.stop()

	cs := classSet{}
	var keys []string
	before := b.snap()
	for i, r := range c.Reqs {
		if r.Op < 0 || r.Op >= agNumOps {
			return pbt.Verdict{Discard: true}
		}
		ni := classifyName(r.Name)
		var method, target string
		switch r.Op {
		case agGetBlob:
			method, target = "GET", "/namespace/c11-ns/blobs/"+r.Name
		case agDeleteBlob:
			method, target = "DELETE", "/blobs/"+r.Name
		case agGetTag:
			method, target = "GET", "/tags/"+r.Name
		}
		resp := rawRequest(srv.addr, method, target, nil, nil)
		after := b.snap()
		what := fmt.Sprintf("request %d: %s %s -> %d", i, method, short(target), resp.status)
		debugf("%s diff=%q", what, b.diff(before, after))
		if d := b.diff(before, after); d != "" {
			return pbt.Fail("agent: a request changed files outside the store directories\n%s\nname after unescaping: %q\noutside changes: %s", what, ni.decoded, d)
		}
		if s := b.leaked(resp.payload); s != "" {
			return pbt.Fail("agent: a response carries the content of a file outside the store directories\n%s\nname after unescaping: %q\nleaked file: %s", what, ni.decoded, s)
		}
		if vs := dirState(victimDir); vs != victimBefore {
			return pbt.Fail("agent: a request changed the files of a blob it does not name\n%s\nname after unescaping: %q\nvictim blob directory before: %s\nafter: %s", what, ni.decoded, victimBefore, vs)
		}
		if cn := fmt.Sprint(listFiles(b.cache)); cn != cacheBefore {
			return pbt.Fail("agent: a request for an absent blob changed the set of cache files\n%s\nname after unescaping: %q\nbefore: %s\nafter: %s", what, ni.decoded, cacheBefore, cn)
		}
		before = after
		cs.add(statusClass("ag:", resp.status))
		cs.add("ag:op:" + agOpNames[r.Op])
		cs.add(ni.classes("ag:")...)
		if ni.nontrivial() && !ni.rawSlash && resp.status != 0 {
			keys = append(keys, fmt.Sprintf("ag|%d|%s", r.Op, r.Name))
		}
	}
	return pbt.Verdict{NonTrivial: len(keys) > 0, Classes: cs.list(), Evals: len(c.Reqs), NonTrivialKeys: keys}
}
