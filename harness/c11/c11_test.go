// C11 — no client-supplied name makes a store touch files outside its directory.
package c11

import (
	"testing"

	"verif/internal/pbt"
)

func TestProp(t *testing.T) {
	pbt.Main(t, pbt.Spec{
		ID:    "C11",
		Level: "exploration",
		Rule: "Names are generated from a path grammar (plain segments, '.', '..', empty segments, '/' and '\\' separators, " +
			"leading/trailing separators, aliases of a really existing upload id, climbs into a sibling of the store directory — other services' " +
			"directories and names that merely extend the store directory's own base name such as ../upload.bak/victim, existing or not —, " +
			"over-long / NUL / doubly-encoded specials) and " +
			"encoded character by character (raw, %XX, %xx, %25XX). Each case sends a short sequence of raw HTTP/1.1 requests over " +
			"a TCP socket (no client-side path cleaning) to a real build-index tag server, origin blob server or agent server whose stores live in " +
			"<box>/l1/l2/svc/{upload,cache}, or calls the store APIs directly with the decoded names. Sentinel files named like the " +
			"stores' own files (data, _persist, _torrentmeta, _last_access_time) sit in every ancestor and sibling directory, including siblings " +
			"named upload.bak, upload2, cache.bak, cache-old (and an entry directory victim/ inside the .bak ones). After every " +
			"request the whole box outside the two store directories is compared with its state before (created / modified / deleted " +
			"objects), responses are searched for sentinel contents, new cache files of the origin must lie in the shard directory of a digest " +
			"of the case, a planted victim blob must be untouched, and the first accepted tag of a case must be found inside the cache directory " +
			"and read back. Rejections (any 4xx/5xx, closed connection) are always fine. Non-trivial: a request that reached a server " +
			"(or a store call) whose name, after one unescaping, contains a '.' or '..' segment or a separator produced by an escape " +
			"(and, for HTTP, no raw slash, so that it is routed as one path parameter); distinct = distinct (operation, name text).",
		Assumptions: []string{
			"the in-memory remote backend, the run-at-once persisted-retry queue and the single-node hash ring are trusted stand-ins; no file of theirs exists",
			"a store directory is the upload or cache directory handed to the store constructor; both are siblings under one service directory as in config/*/base.yaml",
			"escapes of more than four directory levels or to absolute paths leave the watched box and are only caught by the 'accepted name is found inside' oracle",
			"the proxy's registry routes are not driven (docker/distribution authenticates upload ids with an HMAC state before the storage driver sees them)",
		},
		Parts: []pbt.Part{
			pbt.NewPart("buildindex", 4, genBICase, runBICase),
			pbt.NewPart("origin", 4, genORCase, runORCase),
			pbt.NewPart("store", 3, genSTCase, runSTCase),
			pbt.NewPart("agent", 1, genAGCase, runAGCase),
		},
	})
}
