package c11

import (
	"bytes"
	"crypto/sha256"
	"encoding/hex"
	"fmt"
	"path/filepath"
	"strings"
	"time"

	"github.com/andres-erbsen/clock"
	"github.com/uber-go/tally"
	"github.com/uber/kraken/core"
	"github.com/uber/kraken/lib/backend"
	"github.com/uber/kraken/lib/blobrefresh"
	"github.com/uber/kraken/lib/metainfogen"
	"github.com/uber/kraken/lib/store"
	"github.com/uber/kraken/origin/blobclient"
	"github.com/uber/kraken/origin/blobserver"
	"github.com/uber/kraken/utils/stringset"
	"pgregory.net/rapid"

	"verif/internal/pbt"
)

// Origin operations.
const (
	orStartInternal = iota
	orStartCluster
	orPatchInternal
	orPatchCluster
	orCommitInternal
	orCommitCluster
	orCommitDuplicate
	orGetBlob
	orStatBlob
	orDeleteBlob
	orGetMetaInfo
	orNumOps
)

var orOpNames = []string{"POST-internal-uploads", "POST-cluster-uploads", "PATCH-internal-upload", "PATCH-cluster-upload",
	"PUT-internal-upload", "PUT-cluster-upload", "PUT-duplicate-upload", "GET-blob", "HEAD-blob", "DELETE-blob", "GET-metainfo"}

const realUID = "$U" // replaced by the upload id the server handed out last

// ORReq is one request to the origin.
type ORReq struct {
	Op  int    `json:"op"`
	UID string `json:"uid"` // URL text of the upload id; "$U" inside it stands for the id handed out by the server
	Dig string `json:"dig"` // "" = digest of the blob; "S" = digest of the sentinel next to the store roots; else raw text
}

// ORCase is a blob and a sequence of requests.
type ORCase struct {
	Blob []byte  `json:"blob"`
	Reqs []ORReq `json:"reqs"`
}

func genORCase(t *rapid.T) ORCase {
	c := ORCase{Blob: rapid.SliceOfN(rapid.Byte(), 1, 24).Draw(t, "blob")}
	// A small pool of hostile upload ids so that PATCH and PUT hit the same one.
	np := rapid.IntRange(1, 2).Draw(t, "npool")
	pool := []string{realUID}
	for i := 0; i < np; i++ {
		if rapid.IntRange(0, 3).Draw(t, "alias") == 0 {
			// another spelling of the upload id the server handed out
			a := rapid.SampledFrom([]string{"./" + realUID, realUID + "/.", "x/../" + realUID, realUID + "/../" + realUID,
				"../upload/" + realUID, realUID + "/..", "../cache/" + realUID, "/" + realUID, realUID + "/", "a/" + realUID}).Draw(t, "aliasform")
			pool = append(pool, strings.ReplaceAll(encodeName(t, strings.ReplaceAll(a, realUID, "\x01")), "%01", realUID))
			continue
		}
		pool = append(pool, genName(t, "a"))
	}
	// Usually an upload is really under way (started, maybe patched) when the hostile requests arrive.
	switch rapid.IntRange(0, 3).Draw(t, "prelude") {
	case 1:
		c.Reqs = append(c.Reqs, ORReq{Op: orStartCluster})
	case 2:
		c.Reqs = append(c.Reqs, ORReq{Op: orStartInternal}, ORReq{Op: orPatchInternal, UID: realUID})
	case 3:
		c.Reqs = append(c.Reqs, ORReq{Op: orStartCluster}, ORReq{Op: orPatchCluster, UID: realUID})
	}
	nr := rapid.IntRange(1, 6).Draw(t, "nreqs")
	for i := 0; i < nr; i++ {
		r := ORReq{}
		r.Op = rapid.SampledFrom([]int{orStartInternal, orStartCluster,
			orPatchInternal, orPatchInternal, orPatchCluster, orPatchCluster, orPatchCluster,
			orCommitInternal, orCommitInternal, orCommitCluster, orCommitCluster, orCommitCluster, orCommitDuplicate, orCommitDuplicate,
			orGetBlob, orGetBlob, orStatBlob, orDeleteBlob, orGetMetaInfo}).Draw(t, "op")
		if r.Op >= orPatchInternal && r.Op <= orCommitDuplicate {
			// the hostile ids are drawn twice as often as the real one
			r.UID = pool[rapid.SampledFrom([]int{0, 0, 1, 1, len(pool) - 1, len(pool) - 1}).Draw(t, "uid")]
		}
		switch k := rapid.IntRange(0, 9).Draw(t, "digkind"); {
		case k < 7:
		case k < 8:
			r.Dig = "S"
		default:
			r.Dig = rapid.SampledFrom(hostileDigests).Draw(t, "dig")
		}
		c.Reqs = append(c.Reqs, r)
	}
	return c
}

// oneNodeRing places every blob on this origin only.
type oneNodeRing struct{ addr string }

func (r oneNodeRing) Locations(d core.Digest) []string  { return []string{r.addr} }
func (r oneNodeRing) Contains(addr string) bool         { return addr == r.addr }
func (r oneNodeRing) WaitForContains(addr string) error { return nil }
func (r oneNodeRing) Members() stringset.Set            { return stringset.New(r.addr) }
func (r oneNodeRing) Monitor(stop <-chan struct{})      {}
func (r oneNodeRing) Refresh()                          {}

type noClients struct{}

func (noClients) Provide(addr string) blobclient.Client { return nil }

type noClusters struct{}

func (noClusters) Provide(dns string) (blobclient.ClusterClient, error) {
	return nil, fmt.Errorf("no remote clusters")
}

type origin struct {
	cas *store.CAStore
	srv *testServer
}

// newOrigin wires an origin blob server as origin/cmd does, with the real blob
// server, uploader, CAStore, metainfo generator and blob refresher; the remote
// backend is in memory and empty, the write-back queue forgets its tasks (their
// names are digests), and the hash ring holds this node only.
func newOrigin(b *box) (*origin, error) {
	cas, err := store.NewCAStore(store.CAStoreConfig{UploadDir: b.upload + "/", CacheDir: b.cache + "/"}, tally.NoopScope)
	if err != nil {
		return nil, err
	}
	backends := backend.ManagerFixture()
	if err := backends.Register(".*", newMemBackend(), false); err != nil {
		cas.Close()
		return nil, err
	}
	mg := metainfogen.Fixture(cas, 4)
	br := blobrefresh.New(blobrefresh.Config{}, tally.NoopScope, cas, backends, mg)
	clk := clock.NewMock()
	clk.Set(time.Unix(1700000000, 0))
	const self = "c11-origin:80"
	s, err := blobserver.New(blobserver.Config{}, tally.NoopScope, clk, self, oneNodeRing{self}, cas, noClients{}, noClusters{},
		core.PeerContext{}, backends, br, mg, nopManager{})
	if err != nil {
		cas.Close()
		return nil, err
	}
	srv, err := startServer(s.Handler())
	if err != nil {
		cas.Close()
		return nil, err
	}
	return &origin{cas: cas, srv: srv}, nil
}

func (o *origin) close() {
	o.srv.stop()
	o.cas.Close()
}

func hexOf(b []byte) string {
	s := sha256.Sum256(b)
	return hex.EncodeToString(s[:])
}

func casDir(hexd string) string { return filepath.Join(hexd[0:2], hexd[2:4], hexd) }

func runORCase(c ORCase) pbt.Verdict {
	if len(c.Blob) == 0 || len(c.Reqs) == 0 {
		return pbt.Verdict{Discard: true}
	}
	b, err := newBox()
	if err != nil {
		debugf("box: %v", err)
		return pbt.Verdict{Discard: true, Classes: []string{"infra:box"}}
	}
	defer b.remove()
	o, err := newOrigin(b)
	if err != nil {
		debugf("origin: %v", err)
		return pbt.Verdict{Discard: true, Classes: []string{"infra:server"}}
	}
	defer o.close()

	blobHex := hexOf(c.Blob)
	sentHex := hexOf(b.svcDataContent())
	// A victim blob committed through the store API before any request; no request names it.
	victim := []byte("c11 victim blob " + blobHex[:8])
	victimHex := hexOf(victim)
	if err := o.cas.CreateCacheFile(victimHex, bytes.NewReader(victim)); err != nil {
		debugf("victim: %v", err)
		return pbt.Verdict{Discard: true, Classes: []string{"infra:victim"}}
	}
	victimDir := filepath.Join(b.cache, casDir(victimHex))
	victimBefore := dirState(victimDir)
	allowed := []string{casDir(blobHex), casDir(sentHex), casDir(victimHex)}

	cs := classSet{}
	var keys []string
	lastUID := "00000000-0000-0000-0000-000000000000"
	committed := false
	before := b.snap()
	for i, r := range c.Reqs {
		if r.Op < 0 || r.Op >= orNumOps {
			return pbt.Verdict{Discard: true}
		}
		uid := strings.ReplaceAll(r.UID, realUID, lastUID)
		ni := classifyName(uid)
		dig, hostileDig := "sha256:"+blobHex, false
		switch r.Dig {
		case "":
		case "S":
			dig = "sha256:" + sentHex
		default:
			dig, hostileDig = r.Dig, true
		}
		di := classifyName(dig)
		var method, target string
		var body []byte
		hdr := map[string]string{}
		switch r.Op {
		case orStartInternal:
			method, target = "POST", "/internal/blobs/"+dig+"/uploads"
		case orStartCluster:
			method, target = "POST", "/namespace/c11-ns/blobs/"+dig+"/uploads"
		case orPatchInternal:
			method, target, body = "PATCH", "/internal/blobs/"+dig+"/uploads/"+uid, c.Blob
		case orPatchCluster:
			method, target, body = "PATCH", "/namespace/c11-ns/blobs/"+dig+"/uploads/"+uid, c.Blob
		case orCommitInternal:
			method, target = "PUT", "/internal/blobs/"+dig+"/uploads/"+uid
		case orCommitCluster:
			method, target = "PUT", "/namespace/c11-ns/blobs/"+dig+"/uploads/"+uid
		case orCommitDuplicate:
			method, target, body = "PUT", "/internal/duplicate/namespace/c11-ns/blobs/"+dig+"/uploads/"+uid, []byte(`{"delay":0}`)
		case orGetBlob:
			method, target = "GET", "/namespace/c11-ns/blobs/"+dig
		case orStatBlob:
			method, target = "HEAD", "/internal/namespace/c11-ns/blobs/"+dig+"?local=true"
		case orDeleteBlob:
			method, target = "DELETE", "/internal/blobs/"+dig
		case orGetMetaInfo:
			method, target = "GET", "/internal/namespace/c11-ns/blobs/"+dig+"/metainfo"
		}
		if r.Op == orPatchInternal || r.Op == orPatchCluster {
			hdr["Content-Range"] = fmt.Sprintf("0-%d", len(c.Blob))
		}
		resp := rawRequest(o.srv.addr, method, target, hdr, body)
		after := b.snap()
		what := fmt.Sprintf("request %d: %s %s -> %d", i, method, short(target), resp.status)
		debugf("%s diff=%q", what, b.diff(before, after))
		names := fmt.Sprintf("upload id after unescaping: %q, digest text after unescaping: %q", ni.decoded, di.decoded)

		if d := b.diff(before, after); d != "" {
			return pbt.Fail("origin: a request changed files outside the store directories\n%s\n%s\noutside changes: %s", what, names, d)
		}
		if s := b.leaked(resp.payload); s != "" {
			return pbt.Fail("origin: a response carries the content of a file outside the store directories\n%s\n%s\nleaked file: %s", what, names, s)
		}
		if vs := dirState(victimDir); vs != victimBefore {
			return pbt.Fail("origin: a request changed the files of a blob it does not name\n%s\n%s\nvictim blob directory before: %s\nafter: %s", what, names, victimBefore, vs)
		}
		for _, f := range listFiles(b.cache) {
			ok := false
			for _, a := range allowed {
				if strings.HasPrefix(f, a+string(filepath.Separator)) {
					ok = true
				}
			}
			if !ok {
				return pbt.Fail("origin: a request left a cache file outside the directory of the digests it names\n%s\n%s\nfile: cache/%s", what, names, f)
			}
		}
		ok2xx := resp.status >= 200 && resp.status < 300
		if ok2xx && (r.Op == orStartInternal || r.Op == orStartCluster) {
			if l := resp.header.Get("Location"); l != "" {
				lastUID = l
				cs.add("or:upload-started")
			}
		}
		if ok2xx && r.Op >= orCommitInternal && r.Op <= orCommitDuplicate && r.Dig == "" && !committed {
			// An accepted commit stored the blob where its digest says.
			committed = true
			if !findFileWithContent(filepath.Join(b.cache, casDir(blobHex)), c.Blob) {
				return pbt.Fail("origin: an accepted upload is not stored in the digest's cache directory\n%s\n%s\ncache directory holds: %v", what, names, listFiles(b.cache))
			}
			cs.add("or:commit-accepted")
		}
		before = after

		cs.add(statusClass("or:", resp.status))
		cs.add("or:op:" + orOpNames[r.Op])
		hasUID := r.Op >= orPatchInternal && r.Op <= orCommitDuplicate
		if hasUID {
			cs.add(ni.classes("or:uid-")...)
			if strings.Contains(r.UID, realUID) && r.UID != realUID {
				cs.add("or:uid-alias-of-real-upload")
			}
		}
		if hostileDig {
			cs.add("or:hostile-digest")
		}
		if r.Dig == "S" {
			cs.add("or:digest-of-sentinel")
		}
		if resp.status != 0 && ((hasUID && ni.nontrivial() && !ni.rawSlash) || (hostileDig && di.nontrivial() && !di.rawSlash)) {
			keys = append(keys, fmt.Sprintf("or|%d|%s|%s", r.Op, r.UID, r.Dig))
			if ok2xx {
				cs.add("or:nontrivial-name-accepted")
			}
		}
	}
	return pbt.Verdict{NonTrivial: len(keys) > 0, Classes: cs.list(), Evals: len(c.Reqs), NonTrivialKeys: keys}
}

// dirState is a digest of the regular files below dir (names, sizes, contents).
func dirState(dir string) string {
	h := sha256.New()
	n := 0
	for _, f := range listFiles(dir) {
		c, err := readFile(filepath.Join(dir, f))
		fmt.Fprintf(h, "%s|%d|%v|", f, len(c), err != nil)
		h.Write(c)
		n++
	}
	return fmt.Sprintf("%d files %s", n, hex.EncodeToString(h.Sum(nil))[:16])
}
