package c11

import (
	"bytes"
	"fmt"
	"io"
	"os"
	"strings"

	"github.com/uber-go/tally"
	"github.com/uber/kraken/lib/store"
	"github.com/uber/kraken/lib/store/metadata"
	"pgregory.net/rapid"

	"verif/internal/pbt"
)

// Store-level operations: the calls the HTTP handlers, the tag store, the uploader
// and the write-back executor make, with the (decoded) client name as argument.
const (
	stCreateUpload = iota
	stWriteUpload
	stSetUploadMeta
	stStatUpload
	stReadUpload
	stDeleteUpload
	stMoveUploadToCache
	stCreateCache
	stReadCache
	stSetCacheMeta
	stGetCacheMeta
	stStatCache
	stDeleteCacheMeta
	stDeleteCache
	stNumOps
)

var stOpNames = []string{"CreateUploadFile", "GetUploadFileReadWriter+Write", "SetUploadFileMetadata", "GetUploadFileStat",
	"GetUploadFileReader", "DeleteUploadFile", "MoveUploadFileToCache", "CreateCacheFile", "GetCacheFileReader",
	"SetCacheFileMetadata", "GetCacheFileMetadata", "GetCacheFileStat", "DeleteCacheFileMetadata", "DeleteCacheFile"}

// STOp is one store call; A and B index STCase.Names.
type STOp struct {
	Op int `json:"op"`
	A  int `json:"a"`
	B  int `json:"b"`
}

// STCase is a sequence of store calls over a small pool of decoded names.
type STCase struct {
	Kind    int      `json:"kind"` // 0 SimpleStore (build-index, proxy), 1 CAStore upload side (origin)
	Names   []string `json:"names"`
	Content []byte   `json:"content"`
	Ops     []STOp   `json:"ops"`
}

func genSTCase(t *rapid.T) STCase {
	c := STCase{Kind: rapid.IntRange(0, 1).Draw(t, "kind"), Content: rapid.SliceOfN(rapid.Byte(), 1, 16).Draw(t, "content")}
	c.Names = []string{"x"} // one ordinary name, so that aliases like x/../x meet an existing entry
	nn := rapid.IntRange(1, 3).Draw(t, "nnames")
	for i := 0; i < nn; i++ {
		n := genDecodedName(t, "x")
		if n == "" {
			n = ".."
		}
		c.Names = append(c.Names, n)
	}
	ops := []int{stCreateUpload, stCreateUpload, stWriteUpload, stWriteUpload, stSetUploadMeta, stStatUpload, stReadUpload,
		stDeleteUpload, stDeleteUpload, stMoveUploadToCache, stMoveUploadToCache}
	if c.Kind == 0 {
		ops = append(ops, stCreateCache, stCreateCache, stCreateCache, stReadCache, stReadCache, stSetCacheMeta, stSetCacheMeta,
			stGetCacheMeta, stStatCache, stDeleteCacheMeta, stDeleteCache, stDeleteCache)
	}
	no := rapid.IntRange(1, 8).Draw(t, "nops")
	for i := 0; i < no; i++ {
		// hostile names three times as often as the ordinary one
		pick := func(label string) int {
			if rapid.IntRange(0, 3).Draw(t, label+"plain") == 0 {
				return 0
			}
			return rapid.IntRange(1, len(c.Names)-1).Draw(t, label)
		}
		c.Ops = append(c.Ops, STOp{Op: rapid.SampledFrom(ops).Draw(t, "op"), A: pick("a"), B: pick("b")})
	}
	return c
}

// storeAPI is the part of SimpleStore and CAStore this part drives.
type storeAPI interface {
	CreateUploadFile(name string, length int64) error
	GetUploadFileReadWriter(name string) (store.FileReadWriter, error)
	SetUploadFileMetadata(name string, md metadata.Metadata) error
	GetUploadFileStat(name string) (os.FileInfo, error)
	GetUploadFileReader(name string) (store.FileReader, error)
	DeleteUploadFile(name string) error
	MoveUploadFileToCache(uploadName, cacheName string) error
	CreateCacheFile(name string, r io.Reader) error
	GetCacheFileReader(name string) (store.FileReader, error)
	SetCacheFileMetadata(name string, md metadata.Metadata) (bool, error)
	GetCacheFileMetadata(name string, md metadata.Metadata) error
	GetCacheFileStat(name string) (os.FileInfo, error)
	DeleteCacheFileMetadata(name string, md metadata.Metadata) error
	DeleteCacheFile(name string) error
	Close()
}

func hasDotSeg(name string) bool {
	for _, seg := range strings.FieldsFunc(name, func(r rune) bool { return r == '/' || r == '\\' }) {
		if seg == "." || seg == ".." {
			return true
		}
	}
	return false
}

func runSTCase(c STCase) pbt.Verdict {
	if len(c.Names) < 2 || len(c.Ops) == 0 || len(c.Content) == 0 || c.Kind < 0 || c.Kind > 1 {
		return pbt.Verdict{Discard: true}
	}
	for _, n := range c.Names {
		if n == "" { // ParseParam never hands an empty name to a store
			return pbt.Verdict{Discard: true}
		}
	}
	b, err := newBox()
	if err != nil {
		debugf("box: %v", err)
		return pbt.Verdict{Discard: true, Classes: []string{"infra:box"}}
	}
	defer b.remove()
	var s storeAPI
	prefix := "st:simple:"
	if c.Kind == 0 {
		ss, err := store.NewSimpleStore(store.SimpleStoreConfig{UploadDir: b.upload + "/", CacheDir: b.cache + "/"}, tally.NoopScope)
		if err != nil {
			debugf("store: %v", err)
			return pbt.Verdict{Discard: true, Classes: []string{"infra:store"}}
		}
		s = ss
	} else {
		prefix = "st:ca:"
		cas, err := store.NewCAStore(store.CAStoreConfig{UploadDir: b.upload + "/", CacheDir: b.cache + "/"}, tally.NoopScope)
		if err != nil {
			debugf("store: %v", err)
			return pbt.Verdict{Discard: true, Classes: []string{"infra:store"}}
		}
		s = cas
	}
	defer s.Close()
	contentHex := hexOf(c.Content)

	cs := classSet{}
	var keys []string
	cacheTouched := false
	before := b.snap()
	for i, op := range c.Ops {
		if op.Op < 0 || op.Op >= stNumOps || op.A < 0 || op.A >= len(c.Names) || op.B < 0 || op.B >= len(c.Names) {
			return pbt.Verdict{Discard: true}
		}
		if c.Kind == 1 && op.Op > stMoveUploadToCache {
			continue // cache names of a CAStore are digests, checked by their callers
		}
		a, bn := c.Names[op.A], c.Names[op.B]
		uploadsBefore := len(listFiles(b.upload))
		var read []byte
		var opErr error
		readAll := func(r io.ReadCloser, err error) {
			if err != nil {
				opErr = err
				return
			}
			defer r.Close()
			read, _ = io.ReadAll(io.LimitReader(r, 1<<20))
		}
		args := fmt.Sprintf("%q", a)
		switch op.Op {
		case stCreateUpload:
			opErr = s.CreateUploadFile(a, 0)
		case stWriteUpload:
			w, err := s.GetUploadFileReadWriter(a)
			if err != nil {
				opErr = err
				break
			}
			_, opErr = w.Write(c.Content)
			w.Close()
		case stSetUploadMeta:
			opErr = s.SetUploadFileMetadata(a, metadata.NewPersist(false))
		case stStatUpload:
			_, opErr = s.GetUploadFileStat(a)
		case stReadUpload:
			readAll(s.GetUploadFileReader(a))
		case stDeleteUpload:
			opErr = s.DeleteUploadFile(a)
		case stMoveUploadToCache:
			if c.Kind == 1 {
				bn = contentHex
			}
			args = fmt.Sprintf("%q, %q", a, bn)
			opErr = s.MoveUploadFileToCache(a, bn)
		case stCreateCache:
			opErr = s.CreateCacheFile(a, bytes.NewReader(c.Content))
		case stReadCache:
			readAll(s.GetCacheFileReader(a))
		case stSetCacheMeta:
			_, opErr = s.SetCacheFileMetadata(a, metadata.NewPersist(false))
		case stGetCacheMeta:
			var p metadata.Persist
			opErr = s.GetCacheFileMetadata(a, &p)
		case stStatCache:
			_, opErr = s.GetCacheFileStat(a)
		case stDeleteCacheMeta:
			opErr = s.DeleteCacheFileMetadata(a, &metadata.Persist{})
		case stDeleteCache:
			opErr = s.DeleteCacheFile(a)
		}
		after := b.snap()
		what := fmt.Sprintf("call %d: %s(%s) -> %v", i, stOpNames[op.Op], short(args), opErr)
		debugf("%s diff=%q", what, b.diff(before, after))
		if d := b.diff(before, after); d != "" {
			return pbt.Fail("store: a call changed files outside the store directories\n%s\noutside changes: %s", what, d)
		}
		if s := b.leaked(read); s != "" {
			return pbt.Fail("store: a reader returned the content of a file outside the store directories\n%s\nleaked file: %s", what, s)
		}
		if opErr == nil {
			switch op.Op {
			case stCreateUpload:
				// An accepted name is stored in the upload directory.
				if n := len(listFiles(b.upload)); n <= uploadsBefore {
					return pbt.Fail("store: an accepted upload name was not created inside the upload directory\n%s\nfiles in the upload directory before: %d, after: %d", what, uploadsBefore, n)
				}
			case stCreateCache:
				// First thing ever put into the cache directory (entries are write-once: a
				// later create of an existing name succeeds without storing anything).
				if !cacheTouched && !findFileWithContent(b.cache, c.Content) {
					return pbt.Fail("store: an accepted cache name was not stored inside the cache directory\n%s\ncache directory holds: %v", what, listFiles(b.cache))
				}
				cacheTouched = true
			case stMoveUploadToCache:
				cacheTouched = true
			}
			cs.add(prefix + "ok:" + stOpNames[op.Op])
		}
		before = after

		cs.add(prefix + "op:" + stOpNames[op.Op])
		dot := hasDotSeg(a) || (op.Op == stMoveUploadToCache && c.Kind == 0 && hasDotSeg(bn))
		switch {
		case a == "..":
			cs.add(prefix + "name:exactly-dotdot")
		case dot:
			cs.add(prefix + "name:dotseg")
		default:
			cs.add(prefix + "name:no-dotseg")
		}
		if climbsToPrefixSibling(a) || (op.Op == stMoveUploadToCache && c.Kind == 0 && climbsToPrefixSibling(bn)) {
			cs.add(prefix + "name:climbs-to-prefix-sibling")
		}
		if dot {
			keys = append(keys, fmt.Sprintf("st|%d|%d|%s|%s", c.Kind, op.Op, a, bn))
			if opErr == nil {
				cs.add(prefix + "dotseg-name-accepted")
			}
		}
	}
	return pbt.Verdict{NonTrivial: len(keys) > 0, Classes: cs.list(), Evals: len(c.Ops), NonTrivialKeys: keys}
}
