package c11

import (
	"bytes"
	"crypto/sha256"
	"encoding/hex"
	"fmt"
	"io/fs"
	"os"
	"path/filepath"
	"sort"
	"strings"
)

// A box is the sandbox of one case:
//
//	<tmp>/c11-*/                       box root (everything below is watched)
//	  data _persist _torrentmeta ...   sentinels
//	  l1/ {sentinels} l2/ {sentinels}
//	    svc/ {sentinels}               parent of the store roots: what a one-level escape hits
//	      upload/  cache/              the store roots (the only places the server may touch)
//	      nginx/data localdb/data      sibling decoys
//	      upload.bak/ upload2/         siblings whose names merely START WITH a store root's base name
//	      cache.bak/ cache-old/        (backups, rotated directories): sentinels, and in *.bak a victim/ entry
//
// Four directory levels below the box root keep every escape of up to four levels
// inside the watched tree.
type box struct {
	root      string
	svc       string
	upload    string
	cache     string
	sentinels map[string][]byte // absolute path -> content
}

// sentinelNames are the file names the stores use for the data file and its
// sidecars: an entry name that resolves to a directory outside the root makes the
// store operate on exactly these names in that directory.
var sentinelNames = []string{"data", "_persist", "_torrentmeta", "_last_access_time"}

// prefixSiblings are directories next to the store roots ("upload", "cache") whose
// names start with a store root's base name; siblingEntry is an entry directory
// inside the *.bak ones. The name grammar (names_test.go) aims at them.
var prefixSiblings = []string{"upload.bak", "upload2", "cache.bak", "cache-old"}

const siblingEntry = "victim"

// sentinelDigestHex returns a stable 64-hex string used as the content of "data"
// sentinels: it parses as a digest, so a tag read that escapes would be *served*.
func sentinelDigestHex(label string) string {
	s := sha256.Sum256([]byte("c11-sentinel-" + label))
	return hex.EncodeToString(s[:])
}

func newBox() (*box, error) {
	root, err := os.MkdirTemp("", "c11-")
	if err != nil {
		return nil, err
	}
	// Resolve symlinks so that comparisons of absolute paths are exact.
	if r, err := filepath.EvalSymlinks(root); err == nil {
		root = r
	}
	b := &box{root: root, sentinels: map[string][]byte{}}
	b.svc = filepath.Join(root, "l1", "l2", "svc")
	b.upload = filepath.Join(b.svc, "upload")
	b.cache = filepath.Join(b.svc, "cache")
	levels := []string{root, filepath.Join(root, "l1"), filepath.Join(root, "l1", "l2"), b.svc,
		filepath.Join(b.svc, "nginx"), filepath.Join(b.svc, "localdb")}
	// Siblings of the store roots whose names have a store root's base name as a proper
	// string prefix: "inside the directory" is a statement about path components, and
	// these are the directories that a textual prefix comparison takes for the inside.
	// A sibling holds sentinels directly (name "../upload.bak") and, for the *.bak ones,
	// in an entry directory below it (name "../upload.bak/victim").
	for _, s := range prefixSiblings {
		levels = append(levels, filepath.Join(b.svc, s))
		if strings.HasSuffix(s, ".bak") {
			levels = append(levels, filepath.Join(b.svc, s, siblingEntry))
		}
	}
	for _, d := range levels {
		if err := os.MkdirAll(d, 0775); err != nil {
			return nil, err
		}
	}
	for li, dir := range levels {
		for _, n := range sentinelNames {
			var content []byte
			switch n {
			case "data":
				content = []byte("sha256:" + sentinelDigestHex(fmt.Sprintf("%d-%s", li, n)))
			case "_persist":
				// what a real persist sidecar of an unpinned entry holds; anything else
				// makes Delete refuse to go on, which would hide what it removes
				content = []byte("false")
			default:
				content = []byte(fmt.Sprintf("SENTINEL-%d-%s-%s", li, n, sentinelDigestHex(fmt.Sprintf("%d-%s", li, n))[:24]))
			}
			p := filepath.Join(dir, n)
			if err := os.WriteFile(p, content, 0664); err != nil {
				return nil, err
			}
			b.sentinels[p] = content
		}
	}
	return b, nil
}

func (b *box) remove() { os.RemoveAll(b.root) }

// svcDataContent is the content of the sentinel a one-level escape of a "data" file hits.
func (b *box) svcDataContent() []byte { return b.sentinels[filepath.Join(b.svc, "data")] }

func (b *box) inRoots(p string) bool {
	for _, r := range []string{b.upload, b.cache} {
		if p == r || strings.HasPrefix(p, r+string(filepath.Separator)) {
			return true
		}
	}
	return false
}

// snapshot describes every file-system object of the box outside the two store
// roots: path -> "kind:mode:size:sha256(content)". The store roots themselves are
// recorded as bare directories (their disappearance is an outside change: the
// parent's listing changed), their content is not.
type snapshot map[string]string

func (b *box) snap() snapshot {
	s := snapshot{}
	filepath.WalkDir(b.root, func(p string, d fs.DirEntry, err error) error {
		if err != nil {
			s[p] = "error:" + err.Error()
			return nil
		}
		if p == b.upload || p == b.cache {
			s[p] = "storeroot"
			return filepath.SkipDir
		}
		info, ierr := d.Info()
		if ierr != nil {
			s[p] = "error:" + ierr.Error()
			return nil
		}
		switch {
		case d.IsDir():
			s[p] = "dir"
		case info.Mode()&os.ModeSymlink != 0:
			t, _ := os.Readlink(p)
			s[p] = "symlink:" + t
		case info.Mode().IsRegular():
			c, rerr := os.ReadFile(p)
			if rerr != nil {
				s[p] = "error:" + rerr.Error()
				return nil
			}
			h := sha256.Sum256(c)
			s[p] = fmt.Sprintf("file:%d:%s", len(c), hex.EncodeToString(h[:8]))
		default:
			s[p] = "other:" + info.Mode().String()
		}
		return nil
	})
	return s
}

// diff lists what changed outside the store roots between two snapshots, with
// paths relative to the box root, sorted; "" when nothing changed.
func (b *box) diff(before, after snapshot) string {
	var out []string
	rel := func(p string) string {
		r, err := filepath.Rel(b.root, p)
		if err != nil {
			return p
		}
		return r
	}
	for p, v := range before {
		w, ok := after[p]
		if !ok {
			out = append(out, "deleted "+rel(p))
		} else if w != v {
			out = append(out, "modified "+rel(p))
		}
	}
	for p := range after {
		if _, ok := before[p]; !ok {
			out = append(out, "created "+rel(p))
		}
	}
	sort.Strings(out)
	if len(out) > 6 {
		out = append(out[:6], fmt.Sprintf("... (%d changes)", len(out)))
	}
	return strings.Join(out, ", ")
}

// leaked reports the sentinel whose content appears in payload ("" if none).
func (b *box) leaked(payload []byte) string {
	var paths []string
	for p := range b.sentinels {
		paths = append(paths, p)
	}
	sort.Strings(paths)
	for _, p := range paths {
		c := b.sentinels[p]
		if len(c) < 16 {
			continue // not unique ("false")
		}
		if bytes.Contains(payload, c) {
			r, _ := filepath.Rel(b.root, p)
			return r
		}
		// "data" sentinels are "sha256:<hex>"; a server may re-render the digest, so
		// the bare hex is searched as well.
		if i := bytes.IndexByte(c, ':'); i >= 0 && filepath.Base(p) == "data" && bytes.Contains(payload, c[i+1:]) {
			r, _ := filepath.Rel(b.root, p)
			return r
		}
	}
	return ""
}

// findFileWithContent reports whether a regular file below dir has exactly this content.
func findFileWithContent(dir string, content []byte) bool {
	found := false
	filepath.WalkDir(dir, func(p string, d fs.DirEntry, err error) error {
		if err != nil || found || d.IsDir() {
			return nil
		}
		if info, err := d.Info(); err == nil && info.Mode().IsRegular() && info.Size() == int64(len(content)) {
			if c, err := os.ReadFile(p); err == nil && bytes.Equal(c, content) {
				found = true
			}
		}
		return nil
	})
	return found
}

// listFiles returns the regular files and symlinks below dir, relative to dir.
func listFiles(dir string) []string {
	var out []string
	filepath.WalkDir(dir, func(p string, d fs.DirEntry, err error) error {
		if err != nil || d.IsDir() {
			return nil
		}
		r, _ := filepath.Rel(dir, p)
		out = append(out, r)
		return nil
	})
	sort.Strings(out)
	return out
}

func readFile(p string) ([]byte, error) { return os.ReadFile(p) }
