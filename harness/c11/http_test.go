package c11

import (
	"bufio"
	"bytes"
	"fmt"
	"io"
	stdlog "log"
	"net"
	"net/http"
	"os"
	"sort"
	"strings"
	"time"
)

// testServer runs a handler on a loopback TCP socket.
type testServer struct {
	addr string
	srv  *http.Server
	done chan struct{}
}

func startServer(h http.Handler) (*testServer, error) {
	l, err := net.Listen("tcp", "127.0.0.1:0")
	if err != nil {
		return nil, err
	}
	ts := &testServer{addr: l.Addr().String(), done: make(chan struct{})}
	ts.srv = &http.Server{Handler: h, ErrorLog: stdlog.New(io.Discard, "", 0)}
	go func() {
		defer close(ts.done)
		ts.srv.Serve(l)
	}()
	return ts, nil
}

func (ts *testServer) stop() {
	ts.srv.Close()
	<-ts.done
}

// response is what came back for one raw request.
type response struct {
	status  int    // 0: no parseable response (connection closed, handler panicked)
	payload []byte // status line, headers and body
	header  http.Header
	body    []byte
}

// rawRequest writes an HTTP/1.1 request with the target text *exactly* as given
// (no client-side cleaning or re-encoding) and reads the response.
func rawRequest(addr, method, target string, hdr map[string]string, body []byte) response {
	conn, err := net.DialTimeout("tcp", addr, 30*time.Second)
	if err != nil {
		return response{}
	}
	defer conn.Close()
	conn.SetDeadline(time.Now().Add(60 * time.Second))
	var req bytes.Buffer
	fmt.Fprintf(&req, "%s %s HTTP/1.1\r\nHost: c11\r\nConnection: close\r\n", method, target)
	keys := make([]string, 0, len(hdr))
	for k := range hdr {
		keys = append(keys, k)
	}
	sort.Strings(keys)
	for _, k := range keys {
		fmt.Fprintf(&req, "%s: %s\r\n", k, hdr[k])
	}
	fmt.Fprintf(&req, "Content-Length: %d\r\n\r\n", len(body))
	req.Write(body)
	if _, err := conn.Write(req.Bytes()); err != nil {
		return response{}
	}
	resp, err := http.ReadResponse(bufio.NewReader(conn), &http.Request{Method: method})
	if err != nil {
		return response{}
	}
	defer resp.Body.Close()
	b, _ := io.ReadAll(resp.Body)
	var pl bytes.Buffer
	fmt.Fprintf(&pl, "%s\n", resp.Status)
	resp.Header.Write(&pl)
	pl.Write(b)
	return response{status: resp.StatusCode, payload: pl.Bytes(), header: resp.Header, body: b}
}

func statusClass(prefix string, st int) string {
	switch {
	case st == 0:
		return prefix + "status:none"
	case st < 300:
		return prefix + "status:2xx"
	case st < 400:
		return prefix + "status:3xx"
	case st < 500:
		return prefix + fmt.Sprintf("status:%d", st)
	default:
		return prefix + "status:5xx"
	}
}

type classSet map[string]struct{}

func (cs classSet) add(c ...string) {
	for _, x := range c {
		cs[x] = struct{}{}
	}
}

func (cs classSet) list() []string {
	out := make([]string, 0, len(cs))
	for c := range cs {
		out = append(out, c)
	}
	sort.Strings(out)
	return out
}

func short(s string) string {
	if len(s) > 120 {
		return s[:60] + "..." + s[len(s)-40:] + fmt.Sprintf("(%d bytes)", len(s))
	}
	return strings.ToValidUTF8(s, "?")
}

var debugOn = os.Getenv("C11_DEBUG") != ""

func debugf(format string, args ...interface{}) {
	if debugOn {
		fmt.Fprintf(os.Stderr, "c11: "+format+"\n", args...)
	}
}
