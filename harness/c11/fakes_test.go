package c11

import (
	"bytes"
	"io"
	"sync"

	"github.com/uber/kraken/core"
	"github.com/uber/kraken/lib/backend"
	"github.com/uber/kraken/lib/backend/backenderrors"
	"github.com/uber/kraken/lib/persistedretry"
	"github.com/uber/kraken/origin/blobclient"
	"github.com/uber/kraken/utils/log"
	"github.com/uber/kraken/utils/stringset"

	"go.uber.org/zap"
)

func init() {
	// The servers log every request; keep the shard logs empty.
	zc := zap.NewProductionConfig()
	zc.OutputPaths = []string{}
	zc.ErrorOutputPaths = []string{}
	log.ConfigureLogger(zc)
}

// memBackend is an in-memory remote storage backend (no files at all).
type memBackend struct {
	mu    sync.Mutex
	blobs map[string][]byte
}

func newMemBackend() *memBackend { return &memBackend{blobs: map[string][]byte{}} }

func (m *memBackend) Stat(namespace, name string) (*core.BlobInfo, error) {
	m.mu.Lock()
	defer m.mu.Unlock()
	b, ok := m.blobs[name]
	if !ok {
		return nil, backenderrors.ErrBlobNotFound
	}
	return core.NewBlobInfo(int64(len(b))), nil
}

func (m *memBackend) Upload(namespace, name string, src io.Reader) error {
	b, err := io.ReadAll(src)
	if err != nil {
		return err
	}
	m.mu.Lock()
	defer m.mu.Unlock()
	m.blobs[name] = b
	return nil
}

func (m *memBackend) Download(namespace, name string, dst io.Writer) error {
	m.mu.Lock()
	b, ok := m.blobs[name]
	m.mu.Unlock()
	if !ok {
		return backenderrors.ErrBlobNotFound
	}
	_, err := io.Copy(dst, bytes.NewReader(b))
	return err
}

func (m *memBackend) List(prefix string, opts ...backend.ListOption) (*backend.ListResult, error) {
	return &backend.ListResult{}, nil
}

func (m *memBackend) Close() error { return nil }

// syncManager is a persisted-retry manager that runs every task at once through the
// real executor (what the real manager does a moment later for a zero delay).
type syncManager struct{ exec persistedretry.Executor }

func (m *syncManager) Add(t persistedretry.Task) error      { return m.exec.Exec(t) }
func (m *syncManager) SyncExec(t persistedretry.Task) error { return m.exec.Exec(t) }
func (m *syncManager) Close()                               {}
func (m *syncManager) Find(q interface{}) ([]persistedretry.Task, error) {
	return nil, nil
}

// nopManager accepts and forgets tasks.
type nopManager struct{}

func (nopManager) Add(persistedretry.Task) error                     { return nil }
func (nopManager) SyncExec(persistedretry.Task) error                { return nil }
func (nopManager) Close()                                            {}
func (nopManager) Find(q interface{}) ([]persistedretry.Task, error) { return nil, nil }

// noDeps resolves every tag to no dependencies.
type noDeps struct{}

func (noDeps) Resolve(tag string, d core.Digest) (core.DigestList, error) { return nil, nil }

// unusedCluster stands in for the origin cluster client; no request of this check reaches it.
type unusedCluster struct{ blobclient.ClusterClient }

func (unusedCluster) CheckReadiness() error { return nil }

// noHosts is an empty host list (no neighbours, no replicas).
type noHosts struct{}

func (noHosts) Resolve() stringset.Set { return stringset.New() }
