package c11

import (
	"crypto/sha256"
	"encoding/hex"
	"fmt"
	"strings"

	"github.com/uber-go/tally"
	"github.com/uber/kraken/build-index/tagserver"
	"github.com/uber/kraken/build-index/tagstore"
	"github.com/uber/kraken/lib/backend"
	"github.com/uber/kraken/lib/persistedretry/tagreplication"
	"github.com/uber/kraken/lib/persistedretry/writeback"
	"github.com/uber/kraken/lib/store"
	"go.opentelemetry.io/otel/trace/noop"
	"pgregory.net/rapid"

	"verif/internal/pbt"
)

// Build-index operations.
const (
	biPut = iota
	biDupPut
	biGet
	biHead
	biReplicate
	biDupReplicate
	biListRepo
	biNumOps
)

var biOpNames = []string{"PUT-tag", "PUT-duplicate-tag", "GET-tag", "HEAD-tag", "POST-remotes-tag", "POST-duplicate-remotes-tag", "GET-repository-tags"}

// BIReq is one request to the build-index.
type BIReq struct {
	Op   int    `json:"op"`
	Name int    `json:"name"` // index into BICase.Names
	Dig  string `json:"dig"`  // "" = a fresh valid digest; otherwise this text goes into the {digest} slot
}

// BICase is a sequence of requests over a small pool of generated names.
type BICase struct {
	Salt  int      `json:"salt"`
	Names []string `json:"names"` // URL text of the tag / repo names
	Reqs  []BIReq  `json:"reqs"`
}

var hostileDigests = []string{
	"sha256:..", "..", "sha256:%2E%2E", "sha256:" + strings.Repeat("..%2F", 12) + "data",
	"sha256:" + strings.Repeat("../", 21) + ".",               // 64 characters of traversal
	"sha256:" + strings.Repeat("..%2F", 21) + ".",             // the same with escaped separators
	"sha256:" + strings.Repeat("%2E%2E%2F", 20) + "data",      // 64 characters ending in the data file name
	"sha256:" + strings.Repeat("A", 64),                       // valid upper-case hex
	"sha256:" + strings.Repeat("0", 63),                       // short
	"sha1:" + strings.Repeat("0", 40),                         // other algorithm
	"sha256:" + strings.Repeat("0", 62) + "%2F.",              // 64 characters with a separator
	"sha256:" + strings.Repeat("0", 64) + "%2F..%2F..%2Fdata", // valid prefix then traversal
	// 64 characters that a content-addressed store (<cache>/<n[0:2]>/<n[2:4]>/<n>/data) would
	// resolve to the "data" file next to the store directories, resp. one level further up:
	"sha256:" + strings.Repeat(".%2F", 31) + "..",
	"sha256:" + strings.Repeat("%2E%2F", 31) + "%2E%2E",
	"sha256:..%2F" + strings.Repeat(".%2F", 30) + ".",
	"sha256:" + strings.Repeat("./", 31) + "..",
}

func genBICase(t *rapid.T) BICase {
	c := BICase{Salt: rapid.IntRange(0, 1<<20).Draw(t, "salt")}
	nn := rapid.IntRange(1, 3).Draw(t, "nnames")
	for i := 0; i < nn; i++ {
		c.Names = append(c.Names, genName(t, "a"))
	}
	nr := rapid.IntRange(1, 6).Draw(t, "nreqs")
	for i := 0; i < nr; i++ {
		r := BIReq{Name: rapid.IntRange(0, nn-1).Draw(t, "name")}
		// PUT and GET dominate: they are the requests that write and read the store.
		r.Op = rapid.SampledFrom([]int{biPut, biPut, biPut, biPut, biDupPut, biDupPut, biGet, biGet, biGet,
			biHead, biReplicate, biReplicate, biDupReplicate, biListRepo}).Draw(t, "op")
		if rapid.IntRange(0, 9).Draw(t, "hostiledig") == 0 {
			r.Dig = rapid.SampledFrom(hostileDigests).Draw(t, "dig")
		}
		c.Reqs = append(c.Reqs, r)
	}
	return c
}

func freshDigest(kind string, salt, i int) string {
	s := sha256.Sum256([]byte(fmt.Sprintf("c11-%s-%d-%d", kind, salt, i)))
	return "sha256:" + hex.EncodeToString(s[:])
}

type bindex struct {
	ss  *store.SimpleStore
	srv *testServer
}

// newBindex wires a build-index exactly as build-index/cmd does, with the real tag
// server, tag store, SimpleStore and write-back executor; only the remote backend
// (in memory), the persisted-retry queue (runs tasks at once) and the cluster
// clients (no neighbours, no remotes reached) are stand-ins.
func newBindex(b *box) (*bindex, error) {
	ss, err := store.NewSimpleStore(store.SimpleStoreConfig{UploadDir: b.upload + "/", CacheDir: b.cache + "/"}, tally.NoopScope)
	if err != nil {
		return nil, err
	}
	backends := backend.ManagerFixture()
	if err := backends.Register(".*", newMemBackend(), false); err != nil {
		ss.Close()
		return nil, err
	}
	wb := &syncManager{exec: writeback.NewExecutor(tally.NoopScope, ss, backends)}
	ts := tagstore.New(tagstore.Config{}, ss, backends, wb)
	remotes, err := tagreplication.RemotesConfig{"remote-build-index": []string{".*"}}.Build()
	if err != nil {
		ss.Close()
		return nil, err
	}
	s := tagserver.New(tagserver.Config{}, tally.NoopScope, backends, "origin-dns", unusedCluster{}, noHosts{}, ts,
		remotes, nopManager{}, nil, noDeps{}, noop.NewTracerProvider().Tracer("c11"))
	srv, err := startServer(s.Handler())
	if err != nil {
		ss.Close()
		return nil, err
	}
	return &bindex{ss: ss, srv: srv}, nil
}

func (bi *bindex) close() {
	bi.srv.stop()
	bi.ss.Close()
}

func runBICase(c BICase) pbt.Verdict {
	if len(c.Names) == 0 || len(c.Reqs) == 0 {
		return pbt.Verdict{Discard: true}
	}
	b, err := newBox()
	if err != nil {
		debugf("box: %v", err)
		return pbt.Verdict{Discard: true, Classes: []string{"infra:box"}}
	}
	defer b.remove()
	bi, err := newBindex(b)
	if err != nil {
		debugf("server: %v", err)
		return pbt.Verdict{Discard: true, Classes: []string{"infra:server"}}
	}
	defer bi.close()

	cs := classSet{}
	var keys []string
	anyPutOK := false
	before := b.snap()
	for i, r := range c.Reqs {
		if r.Name < 0 || r.Name >= len(c.Names) || r.Op < 0 || r.Op >= biNumOps {
			return pbt.Verdict{Discard: true}
		}
		raw := c.Names[r.Name]
		ni := classifyName(raw)
		dig := r.Dig
		fresh := dig == ""
		if fresh {
			dig = freshDigest("bi", c.Salt, i)
		}
		var method, target string
		var body []byte
		switch r.Op {
		case biPut:
			method, target = "PUT", "/tags/"+raw+"/digest/"+dig
		case biDupPut:
			method, target, body = "PUT", "/internal/duplicate/tags/"+raw+"/digest/"+dig, []byte(`{"delay":0}`)
		case biGet:
			method, target = "GET", "/tags/"+raw
		case biHead:
			method, target = "HEAD", "/tags/"+raw
		case biReplicate:
			method, target = "POST", "/remotes/tags/"+raw
		case biDupReplicate:
			method, target, body = "POST", "/internal/duplicate/remotes/tags/"+raw+"/digest/"+dig, []byte(`{"delay":0,"dependencies":[]}`)
		case biListRepo:
			method, target = "GET", "/repositories/"+raw+"/tags"
		}
		resp := rawRequest(bi.srv.addr, method, target, nil, body)
		after := b.snap()
		what := fmt.Sprintf("request %d: %s %s -> %d", i, method, short(target), resp.status)
		debugf("%s body=%q diff=%q", what, short(string(resp.body)), b.diff(before, after))

		if d := b.diff(before, after); d != "" {
			return pbt.Fail("build-index: a request changed files outside the store directories\n%s\nname after unescaping: %q\noutside changes: %s", what, ni.decoded, d)
		}
		if s := b.leaked(resp.payload); s != "" {
			return pbt.Fail("build-index: a response carries the content of a file outside the store directories\n%s\nname after unescaping: %q\nleaked file: %s", what, ni.decoded, s)
		}
		ok2xx := resp.status >= 200 && resp.status < 300
		if (r.Op == biPut || r.Op == biDupPut) && ok2xx {
			// An accepted name is stored: first accepted PUT of the case into an empty
			// store, so nothing older can shadow it (tags are write-once).
			if fresh && !anyPutOK {
				if !findFileWithContent(b.cache, []byte(dig)) {
					return pbt.Fail("build-index: an accepted tag was not stored inside the cache directory\n%s\nname after unescaping: %q\ncache directory holds: %v", what, ni.decoded, listFiles(b.cache))
				}
				g := rawRequest(bi.srv.addr, "GET", "/tags/"+raw, nil, nil)
				// status 0 = no response at all (infrastructure), never a verdict
				if g.status != 0 && (g.status != 200 || string(g.body) != dig) {
					return pbt.Fail("build-index: an accepted tag does not read back\n%s\nname after unescaping: %q\nGET -> %d %q", what, ni.decoded, g.status, short(string(g.body)))
				}
				if d := b.diff(after, b.snap()); d != "" {
					return pbt.Fail("build-index: a request changed files outside the store directories\nread-back of %s\noutside changes: %s", what, d)
				}
				cs.add("bi:roundtrip-checked")
			}
			anyPutOK = true
		}
		before = after

		cs.add(statusClass("bi:", resp.status))
		cs.add(ni.classes("bi:")...)
		cs.add("bi:op:" + biOpNames[r.Op])
		if !fresh {
			cs.add("bi:hostile-digest")
		}
		if ni.nontrivial() && !ni.rawSlash && resp.status != 0 {
			keys = append(keys, fmt.Sprintf("bi|%d|%s", r.Op, raw))
			if ok2xx {
				cs.add("bi:nontrivial-name-accepted")
			}
		}
	}
	return pbt.Verdict{NonTrivial: len(keys) > 0, Classes: cs.list(), Evals: len(c.Reqs), NonTrivialKeys: keys}
}
