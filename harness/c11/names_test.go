package c11

import (
	"fmt"
	"net/url"
	"strings"

	"pgregory.net/rapid"
)

// ---- generated names -------------------------------------------------------
//
// A name is generated in its *decoded* form from a small path grammar (plain
// segments, dot segments, empty segments, "/" and "\" separators, a few specials)
// and then encoded character by character into the text that is put into the URL
// (raw, %XX, %xx or the doubly encoded %25XX). The case stores only the encoded
// text, so a replay file shows exactly what went over the wire.

var plainSegs = []string{"a", "b", "repo", "x.y", "data", "_persist", "cache", "upload", "nginx",
	"..a", "a..", "...", ".h", "v1:latest", "sha256", "a+b", "a b", "l2", "svc", "%2E%2E", "~",
	"upload.bak", "cache.bak", "upload2", "cache-old", "victim"}

// Names of directories next to a store root, as seen from inside it: the other
// services' directories, the two roots themselves, and names that only extend a
// root's base name (existing ones from the sandbox, and ones that do not exist yet,
// which a store that accepts them would create).
var siblingBases = []string{"upload", "cache"}
var siblingSuffixes = []string{".bak", "2", "-old", "s", "_tmp", "-x", ".d", "~", " ", "..", ".bak.1"}
var siblingRests = []string{"", "", siblingEntry, siblingEntry, "x", "data", "evil/deep", siblingEntry + "/..", "."}

// genSiblingName climbs out of a store root (one level; sometimes two and back down
// through "svc") into a sibling directory, optionally naming an entry below it.
func genSiblingName(t *rapid.T, real string) string {
	var sib string
	switch k := rapid.IntRange(0, 9).Draw(t, "sibkind"); {
	case k < 5: // a sibling of the sandbox whose name starts with a root's base name
		sib = rapid.SampledFrom(prefixSiblings).Draw(t, "sib")
	case k < 8: // a root's base name plus a suffix (mostly not existing)
		sib = rapid.SampledFrom(siblingBases).Draw(t, "base") + rapid.SampledFrom(siblingSuffixes).Draw(t, "suffix")
	default: // unrelated siblings and the roots themselves
		sib = rapid.SampledFrom([]string{"nginx", "localdb", "upload", "cache", "up", "c"}).Draw(t, "sib")
	}
	up := "../"
	switch rapid.IntRange(0, 7).Draw(t, "upkind") {
	case 0:
		up = "../../svc/"
	case 1:
		up = "x/../../"
	}
	rest := rapid.SampledFrom(siblingRests).Draw(t, "rest")
	if rest == "x" && real != "" && rapid.Bool().Draw(t, "restreal") {
		rest = real
	}
	if rest == "" {
		return up + sib
	}
	return up + sib + "/" + rest
}

func genDecodedName(t *rapid.T, real string) string {
	sep := func() string {
		if rapid.IntRange(0, 7).Draw(t, "sepkind") == 0 {
			return "\\"
		}
		return "/"
	}
	switch k := rapid.IntRange(0, 25).Draw(t, "namekind"); {
	case k >= 20: // escapes into a sibling directory of the store root
		return genSiblingName(t, real)
	case k < 8: // dot-escape attempts
		n := rapid.IntRange(1, 4).Draw(t, "ntok")
		toks := make([]string, n)
		for i := range toks {
			toks[i] = rapid.SampledFrom([]string{"..", "..", "..", "..", "..", ".", ".", "x", "x", ""}).Draw(t, "tok")
		}
		s := strings.Join(toks, "/")
		if rapid.IntRange(0, 5).Draw(t, "lead") == 0 {
			s = "/" + s
		}
		if rapid.IntRange(0, 5).Draw(t, "trail") == 0 {
			s += "/"
		}
		return s
	case k < 16: // general grammar
		n := rapid.IntRange(1, 4).Draw(t, "nseg")
		var sb strings.Builder
		if rapid.IntRange(0, 7).Draw(t, "lead") == 0 {
			sb.WriteString(sep())
		}
		for i := 0; i < n; i++ {
			if i > 0 {
				sb.WriteString(sep())
			}
			switch rapid.IntRange(0, 9).Draw(t, "segkind") {
			case 0, 1:
				sb.WriteString("..")
			case 2:
				sb.WriteString(".")
			case 3:
				// empty segment
			default:
				sb.WriteString(rapid.SampledFrom(plainSegs).Draw(t, "seg"))
			}
		}
		if rapid.IntRange(0, 7).Draw(t, "trail") == 0 {
			sb.WriteString(sep())
		}
		return sb.String()
	case k < 18: // aliases of a name that really exists (the upload id handed out by the server)
		if real == "" {
			real = "a"
		}
		return rapid.SampledFrom([]string{real, "./" + real, real + "/.", "x/../" + real, real + "/../" + real,
			"../upload/" + real, real + "/..", real + "/../..", "../cache/" + real, "/" + real, real + "/"}).Draw(t, "alias")
	default: // specials
		switch rapid.IntRange(0, 4).Draw(t, "special") {
		case 0:
			return strings.Repeat("a", rapid.SampledFrom([]int{255, 256, 300}).Draw(t, "len"))
		case 1:
			return strings.Repeat("../", rapid.IntRange(2, 8).Draw(t, "ups")) + "data"
		case 2:
			return "a\x00" + rapid.SampledFrom([]string{"", "/..", ".."}).Draw(t, "nul")
		case 3:
			return strings.Repeat("ab/", 1500) + ".."
		default:
			return ".." + rapid.SampledFrom([]string{"\x00", " ", "\t", "?", "#", ";x", "%"}).Draw(t, "suffix")
		}
	}
}

func urlSafe(c byte) bool {
	switch {
	case c >= 'a' && c <= 'z', c >= 'A' && c <= 'Z', c >= '0' && c <= '9':
		return true
	}
	return strings.IndexByte("-._~:+@!$&'()*,;=/", c) >= 0
}

// encodeName turns a decoded name into URL text. Characters that may not appear
// raw in a request target are always escaped; dots and separators are escaped
// about half of the time; '/' is rarely left raw (a raw slash changes the route).
func encodeName(t *rapid.T, decoded string) string {
	style := rapid.IntRange(0, 5).Draw(t, "encstyle") // 0: minimal, 1: all dots/seps escaped, else: per character
	var sb strings.Builder
	for i := 0; i < len(decoded); i++ {
		c := decoded[i]
		special := c == '.' || c == '/' || c == '\\'
		mode := 0 // 0 raw, 1 %XX, 2 %xx, 3 %25XX
		switch {
		case !urlSafe(c) || c == '\\':
			mode = 1
			if style >= 2 && len(decoded) < 64 {
				mode = rapid.SampledFrom([]int{1, 1, 1, 2, 3}).Draw(t, "enc")
			}
		case special && style == 1:
			mode = 1
		case special && style >= 2 && len(decoded) < 64:
			if c == '/' {
				mode = rapid.SampledFrom([]int{0, 1, 1, 1, 1, 2, 2, 3}).Draw(t, "enc")
			} else {
				mode = rapid.SampledFrom([]int{0, 0, 0, 1, 1, 1, 2, 3}).Draw(t, "enc")
			}
		case special && style == 0 && c == '/':
			mode = 1 // keep the name in one route segment
		case !special && style >= 4 && len(decoded) < 16:
			mode = rapid.SampledFrom([]int{0, 0, 0, 0, 0, 1}).Draw(t, "enc")
		}
		switch mode {
		case 0:
			sb.WriteByte(c)
		case 1:
			fmt.Fprintf(&sb, "%%%02X", c)
		case 2:
			fmt.Fprintf(&sb, "%%%02x", c)
		default:
			fmt.Fprintf(&sb, "%%25%02X", c)
		}
	}
	return sb.String()
}

func genName(t *rapid.T, real string) string {
	return encodeName(t, genDecodedName(t, real))
}

// ---- classification (used by Run; no rapid) ---------------------------------

type nameInfo struct {
	decoded    string
	unescapeOK bool
	dotSeg     bool // decoded name has a "." or ".." segment (separators "/" and "\")
	escSep     bool // decoded name has a separator that was produced by an escape
	exactUp    bool // decoded name is exactly ".."
	sibPrefix  bool // a ".." segment is followed by a segment that extends a store root's base name ("upload.bak")
	rawSlash   bool
}

// climbsToPrefixSibling reports whether a ".." segment of the decoded name is
// directly followed by a segment that has a store root's base name as a proper prefix.
func climbsToPrefixSibling(decoded string) bool {
	segs := strings.FieldsFunc(decoded, func(r rune) bool { return r == '/' || r == '\\' })
	for i := 1; i < len(segs); i++ {
		if segs[i-1] != ".." {
			continue
		}
		for _, b := range siblingBases {
			if strings.HasPrefix(segs[i], b) && len(segs[i]) > len(b) {
				return true
			}
		}
	}
	return false
}

func classifyName(raw string) nameInfo {
	var ni nameInfo
	ni.rawSlash = strings.Contains(raw, "/")
	d, err := url.PathUnescape(raw)
	if err != nil {
		return ni
	}
	ni.unescapeOK = true
	ni.decoded = d
	ni.exactUp = d == ".."
	ni.sibPrefix = climbsToPrefixSibling(d)
	for _, seg := range strings.FieldsFunc(d, func(r rune) bool { return r == '/' || r == '\\' }) {
		if seg == "." || seg == ".." {
			ni.dotSeg = true
		}
	}
	cnt := func(s string) int { return strings.Count(s, "/") + strings.Count(s, "\\") }
	ni.escSep = cnt(d) > cnt(raw)
	return ni
}

func (ni nameInfo) nontrivial() bool { return ni.unescapeOK && (ni.dotSeg || ni.escSep) }

func (ni nameInfo) classes(prefix string) []string {
	var out []string
	switch {
	case !ni.unescapeOK:
		out = append(out, prefix+"name:bad-escape")
	case ni.exactUp:
		out = append(out, prefix+"name:exactly-dotdot")
	case ni.dotSeg && ni.escSep:
		out = append(out, prefix+"name:dotseg+escaped-sep")
	case ni.dotSeg:
		out = append(out, prefix+"name:dotseg")
	case ni.escSep:
		out = append(out, prefix+"name:escaped-sep")
	default:
		out = append(out, prefix+"name:plain")
	}
	if ni.sibPrefix {
		out = append(out, prefix+"name:climbs-to-prefix-sibling")
	}
	return out
}
