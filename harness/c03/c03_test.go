// C03 — an agent commits a blob only after every piece is verified.
//
// Part "history": generated piece-write histories with owned concurrency (payload
// readers that block inside WritePiece until the case releases them) run against a
// real TorrentArchive + CADownloadStore in lock-step with a piece state-machine
// model. Part "stress": batches of writers released together (un-owned schedule)
// with interleaving-independent invariants.
package c03

import (
	"os"
	"testing"

	"github.com/uber/kraken/utils/log"
	"go.uber.org/zap"

	"verif/internal/pbt"
)

func TestMain(m *testing.M) {
	log.SetGlobalLogger(zap.NewNop().Sugar())
	os.Exit(m.Run())
}

func TestProp(t *testing.T) {
	pbt.Main(t, pbt.Spec{
		ID:    "C03",
		Level: "exploration",
		Rule: "history: rapid draws a blob (0-2048 bytes, mostly 2-64, small alphabets so equal pieces occur), a piece length giving 0-8 pieces, and a history of steps: WritePiece run to completion, WritePiece on its own goroutine whose payload reader blocks after a drawn number of bytes until a later 'release' step (up to 4 writers held inside WritePiece at once, on the same or different pieces), release of a chosen held writer, re-creation of the Torrent through the archive, and HasPiece/GetPieceReader probes; payloads are the piece, one flipped bit, a shorter or longer buffer, another piece's bytes, a reader that fails after a strict prefix, a stream that ends early; indices are valid, N..N+3, -1, -2, MinInt32, MaxInt32. Every history writes each piece correctly at a drawn position (sometimes only some) and ends by releasing all writers and writing the missing pieces. Oracle = piece state machine written from the statement: a write returns nil exactly when its index is valid, its length and delivered bytes are the piece and the piece is neither verified nor being written; a write to a verified piece returns ErrPieceComplete; a write to a piece held by another writer is refused without consuming its payload; everything else is an error and leaves the piece writable. After every step Bitfield, Stat, HasPiece, MissingPieces, TorrentArchive.Stat equal the model's verified set, BytesDownloaded equals the verified bytes (a complete short last piece may count as a full piece), Complete() <=> all verified, cache file = blob <=> all verified (absent before, download file gone after), every verified piece is served with the blob's bytes and no unverified piece is served. non-trivial = a write to a writable piece was rejected for its content, or a same-piece conflict was forced; every case ends committed. stress: 1-3 batches of 2-8 writes (60% correct) over 0-4 pieces released together on goroutines, repeated 8 (quick) / 40 (thorough) times on fresh stores, with an observer goroutine; invariants: no panic, nil only for correct payloads and at most once per piece, nil/ErrPieceComplete imply HasPiece afterwards, reported pieces never disappear and are served with the blob's bytes, Complete() implies all bits and cache file = blob, after each batch Bitfield = accepted set, finally the missing pieces are accepted and the committed file = blob. non-trivial = some batch has several correct writers, or a correct and an incorrect writer, on one piece; evaluations = repetitions.",
		Assumptions: []string{
			"the metainfo handed to the agent is the blob's (fake metainfo client built with core.NewMetaInfo)",
			"a payload reader never delivers more bytes than its Length() (connection payload buffers have len == Length)",
			"one Torrent instance per blob at a time (documented precondition); re-creation only while no writer is in flight",
			"owned schedules pause writers at payload-read granularity only; the stress part samples the Go scheduler and cannot shrink interleavings",
			"payloads that differ from the piece but collide on CRC32 are discarded (none observed)",
		},
		Parts: []pbt.Part{
			pbt.NewPart("history", 30, genCase, runCase),
			pbt.NewPart("stress", 1, genStress, runStress),
		},
	})
}
