package c03

import (
	"bytes"
	"errors"
	"fmt"
	"hash/crc32"
	"io"
	"math"
	"os"
	"path/filepath"

	"github.com/uber-go/tally"
	"github.com/uber/kraken/core"
	"github.com/uber/kraken/lib/store"
	"github.com/uber/kraken/lib/torrent/storage"
	"github.com/uber/kraken/lib/torrent/storage/agentstorage"
	"github.com/willf/bitset"
)

// ---- blob / pieces ----

// Layout is the blob and its split into pieces; shared by both parts.
type Layout struct {
	Blob     []byte `json:"blob"`
	PieceLen int    `json:"piece_len"`
}

func (l Layout) n() int {
	if len(l.Blob) == 0 {
		return 0
	}
	return (len(l.Blob) + l.PieceLen - 1) / l.PieceLen
}

func (l Layout) piece(i int) []byte {
	lo := i * l.PieceLen
	hi := lo + l.PieceLen
	if hi > len(l.Blob) {
		hi = len(l.Blob)
	}
	return l.Blob[lo:hi]
}

func (l Layout) valid(i int) bool { return i >= 0 && i < l.n() }

// hostile piece indices (remote peers send int32 indices).
var hostileIdx = []int{-1, -2, math.MinInt32, math.MaxInt32, math.MinInt32 + 1}

// resolveIndex maps the generated index code to the index passed to the torrent:
// code >= 0 is taken literally (so n, n+1, ... are "one past the end" indices),
// code < 0 selects a hostile constant.
func resolveIndex(code int) int {
	if code >= 0 {
		return code
	}
	return hostileIdx[(-code-1)%len(hostileIdx)]
}

// ---- payloads ----

// Payload modes.
const (
	mCorrect   = 0 // the piece's bytes
	mFlip      = 1 // one bit flipped
	mShort     = 2 // shorter buffer (Length() = len)
	mLong      = 3 // longer buffer (Length() = len)
	mOther     = 4 // the bytes of another piece
	mReadErr   = 5 // a strict prefix of the piece, then the reader fails; Length() = piece length
	mTruncated = 6 // a strict prefix of the piece, then EOF; Length() = piece length
	numModes   = 7
)

var modeName = []string{"correct", "bit-flip", "short", "long", "other-piece", "reader-error", "truncated-stream"}

// payload is what a writer hands to WritePiece.
type payload struct {
	data    []byte // bytes the reader delivers
	length  int    // what Length() reports
	failEnd bool   // after data the reader returns an error instead of io.EOF
}

var errReader = errors.New("c03: simulated payload reader failure")

// makePayload builds the payload of a write from (mode, arg) relative to the
// piece the index addresses (for an invalid index: relative to some piece, or
// empty when the torrent has no pieces).
func makePayload(l Layout, idx, mode, arg int) payload {
	var base []byte
	if n := l.n(); n > 0 {
		base = l.piece(((idx % n) + n) % n)
	}
	if arg < 0 {
		arg = -arg
	}
	if !l.valid(idx) && arg%2 == 1 {
		// What reaches WritePiece through the dispatcher for an index outside the
		// torrent: PieceLength(idx) is 0 there, so only empty payloads pass its check.
		return payload{}
	}
	cp := append([]byte{}, base...)
	switch mode {
	case mFlip:
		if len(cp) > 0 {
			cp[arg%len(cp)] ^= 1 << uint((arg/len(cp))%8)
		}
		return payload{data: cp, length: len(cp)}
	case mShort:
		if len(cp) > 0 {
			cp = cp[:len(cp)-1-arg%len(cp)]
		}
		return payload{data: cp, length: len(cp)}
	case mLong:
		for k := 0; k <= arg%3; k++ {
			cp = append(cp, byte(0x77+k))
		}
		return payload{data: cp, length: len(cp)}
	case mOther:
		if n := l.n(); n > 0 {
			cp = append([]byte{}, l.piece(arg%n)...)
		}
		return payload{data: cp, length: len(cp)}
	case mReadErr:
		if len(cp) > 0 {
			return payload{data: cp[:arg%len(cp)], length: len(cp), failEnd: true}
		}
		return payload{data: cp, length: 0, failEnd: true}
	case mTruncated:
		if len(cp) > 0 {
			return payload{data: cp[:arg%len(cp)], length: len(cp)}
		}
		return payload{data: cp, length: 0}
	}
	return payload{data: cp, length: len(cp)}
}

// good says whether this payload is the piece: right index, right announced
// length, the reader delivers exactly the piece's bytes and ends cleanly.
func (p payload) good(l Layout, idx int) bool {
	return l.valid(idx) && p.length == len(l.piece(idx)) && !p.failEnd && bytes.Equal(p.data, l.piece(idx))
}

// collides says whether a payload that is NOT the piece nevertheless has the
// piece's CRC32 (2^-32 per payload; such a case cannot be judged).
func (p payload) collides(l Layout, idx int) bool {
	if !l.valid(idx) || p.good(l, idx) {
		return false
	}
	return crc32.ChecksumIEEE(p.data) == crc32.ChecksumIEEE(l.piece(idx))
}

// gatedReader is a storage.PieceReader. It delivers pre bytes, then (if gated)
// announces on entered that the writer is inside the copy and blocks until
// release is closed, then delivers the rest.
type gatedReader struct {
	p       payload
	pre     int
	pos     int
	gated   bool
	passed  bool
	entered chan struct{}
	release chan struct{}
	reads   int
}

func newReader(p payload) *gatedReader { return &gatedReader{p: p, passed: true} }

func newGatedReader(p payload, pre int) *gatedReader {
	if pre > len(p.data) {
		pre = len(p.data)
	}
	if pre < 0 {
		pre = 0
	}
	return &gatedReader{p: p, pre: pre, gated: true, entered: make(chan struct{}), release: make(chan struct{})}
}

func (r *gatedReader) Read(b []byte) (int, error) {
	r.reads++
	if r.gated && !r.passed && r.pos >= r.pre {
		close(r.entered)
		<-r.release
		r.passed = true
	}
	limit := len(r.p.data)
	if !r.passed {
		limit = r.pre
	}
	if r.pos >= limit {
		if r.p.failEnd {
			return 0, errReader
		}
		return 0, io.EOF
	}
	if len(b) == 0 {
		return 0, nil
	}
	n := copy(b, r.p.data[r.pos:limit])
	r.pos += n
	return n, nil
}

func (r *gatedReader) Close() error { return nil }
func (r *gatedReader) Length() int  { return r.p.length }

// ---- agent ----

type fakeMetaInfoClient struct{ mi *core.MetaInfo }

func (f fakeMetaInfoClient) Download(namespace string, d core.Digest) (*core.MetaInfo, error) {
	return f.mi, nil
}

type agent struct {
	l       Layout
	root    string
	cads    *store.CADownloadStore
	archive *agentstorage.TorrentArchive
	mi      *core.MetaInfo
	digest  core.Digest
}

func newAgent(l Layout) (*agent, error) {
	root, err := os.MkdirTemp("", "c03-")
	if err != nil {
		return nil, err
	}
	d, err := core.NewDigester().FromBytes(l.Blob)
	if err != nil {
		os.RemoveAll(root)
		return nil, err
	}
	mi, err := core.NewMetaInfo(d, bytes.NewReader(l.Blob), int64(l.PieceLen))
	if err != nil {
		os.RemoveAll(root)
		return nil, err
	}
	cads, err := store.NewCADownloadStore(store.CADownloadStoreConfig{
		DownloadDir:     filepath.Join(root, "download"),
		CacheDir:        filepath.Join(root, "cache"),
		DownloadCleanup: store.CleanupConfig{Disabled: true},
		CacheCleanup:    store.CleanupConfig{Disabled: true},
	}, tally.NoopScope)
	if err != nil {
		os.RemoveAll(root)
		return nil, err
	}
	return &agent{l: l, root: root, cads: cads, mi: mi, digest: d,
		archive: agentstorage.NewTorrentArchive(tally.NoopScope, cads, fakeMetaInfoClient{mi})}, nil
}

func (a *agent) close() {
	a.cads.Close()
	os.RemoveAll(a.root)
}

func (a *agent) readCache() ([]byte, error) {
	r, err := a.cads.Cache().GetFileReader(a.digest.Hex())
	if err != nil {
		return nil, err
	}
	defer r.Close()
	return io.ReadAll(r)
}

func (a *agent) inDownload() bool {
	_, err := a.cads.Download().GetFileStat(a.digest.Hex())
	return err == nil
}

// ---- guarded calls (a panic of the code under test becomes a value) ----

type callResult struct {
	err      error
	panicked string
}

func (r callResult) String() string {
	if r.panicked != "" {
		return "PANIC " + r.panicked
	}
	if r.err == nil {
		return "nil"
	}
	return fmt.Sprintf("error %q", r.err.Error())
}

func guardedWrite(t storage.Torrent, src storage.PieceReader, idx int) (res callResult) {
	defer func() {
		if r := recover(); r != nil {
			res.panicked = fmt.Sprint(r)
		}
	}()
	res.err = t.WritePiece(src, idx)
	return
}

func guardedHasPiece(t storage.Torrent, idx int) (has bool, panicked string) {
	defer func() {
		if r := recover(); r != nil {
			panicked = fmt.Sprint(r)
		}
	}()
	return t.HasPiece(idx), ""
}

// guardedReadPiece returns the bytes GetPieceReader(idx) serves.
func guardedReadPiece(t storage.Torrent, idx int) (data []byte, length int, getErr, readErr error, panicked string) {
	defer func() {
		if r := recover(); r != nil {
			panicked = fmt.Sprint(r)
		}
	}()
	pr, err := t.GetPieceReader(idx)
	if err != nil {
		return nil, 0, err, nil, ""
	}
	defer pr.Close()
	length = pr.Length()
	data, readErr = io.ReadAll(pr)
	return data, length, nil, readErr, ""
}

func bitsOf(b *bitset.BitSet, n int) []bool {
	out := make([]bool, n)
	for i := 0; i < n; i++ {
		out[i] = b.Test(uint(i))
	}
	return out
}

func boolsString(b []bool) string {
	s := make([]byte, len(b))
	for i, x := range b {
		s[i] = '0'
		if x {
			s[i] = '1'
		}
	}
	return string(s)
}
