package c03

import (
	"bytes"
	"fmt"
	"os"
	"sort"
	"sync"
	"sync/atomic"

	"github.com/uber/kraken/lib/torrent/storage"
	"pgregory.net/rapid"

	"verif/internal/pbt"
)

// SW is one write of a stress batch.
type SW struct {
	Index int `json:"i"`
	Mode  int `json:"m,omitempty"`
	Arg   int `json:"a,omitempty"`
}

// StressCase: batches of writes; the writes of one batch are released together
// on separate goroutines (un-owned schedule), batches run one after another.
type StressCase struct {
	Layout
	Batches [][]SW `json:"batches"`
}

func genStress(t *rapid.T) StressCase {
	c := StressCase{Layout: genLayout(t, 4)}
	n := c.n()
	nb := rapid.IntRange(1, 3).Draw(t, "batches")
	for b := 0; b < nb; b++ {
		k := rapid.IntRange(2, 8).Draw(t, "writers")
		var batch []SW
		// One batch in three is what the end of a download looks like: several peers deliver
		// the same piece at the same moment, all of them (or all but one) with the right bytes.
		dup := rapid.IntRange(0, 2).Draw(t, "duplicates") == 0
		dupIndex := genIndexCode(t, n)
		for i := 0; i < k; i++ {
			w := SW{Index: genIndexCode(t, n), Arg: rapid.IntRange(0, 4096).Draw(t, "arg")}
			if dup {
				w.Index = dupIndex
				if i == k-1 && rapid.IntRange(0, 3).Draw(t, "oneWrong") == 0 {
					w.Mode = rapid.IntRange(1, numModes-1).Draw(t, "mode")
				}
			} else if rapid.IntRange(0, 9).Draw(t, "correct") >= 6 {
				w.Mode = rapid.IntRange(1, numModes-1).Draw(t, "mode")
			}
			batch = append(batch, w)
		}
		c.Batches = append(c.Batches, batch)
	}
	return c
}

func stressReps() int {
	if os.Getenv("VERIF_TIER") == "thorough" {
		return 40
	}
	return 8
}

type swResult struct {
	res      callResult
	hasAfter bool
}

// stressOnce runs the case once on a fresh store. Returns a violation message.
func stressOnce(c StressCase, rep int, stats map[string]bool) string {
	l := c.Layout
	n := l.n()
	a, err := newAgent(l)
	if err != nil {
		return ""
	}
	defer a.close()
	t, err := a.archive.CreateTorrent("ns", a.digest)
	if err != nil {
		return fmt.Sprintf("CreateTorrent failed on a fresh store: %v", err)
	}
	accepted := make([]int, n) // nil returns per piece
	where := func(b int) string { return fmt.Sprintf("repetition %d, batch %d", rep, b) }

	for b, batch := range c.Batches {
		results := make([]swResult, len(batch))
		start := make(chan struct{})
		var wg sync.WaitGroup
		for k, w := range batch {
			idx := resolveIndex(w.Index)
			pl := makePayload(l, idx, w.Mode, w.Arg)
			wg.Add(1)
			go func(k, idx int, pl payload) {
				defer wg.Done()
				<-start
				r := guardedWrite(t, newReader(pl), idx)
				results[k].res = r
				if l.valid(idx) && r.panicked == "" {
					results[k].hasAfter, _ = guardedHasPiece(t, idx)
				}
			}(k, idx, pl)
		}
		// Observer: what is reported while writers run must already be true.
		var stop atomic.Bool
		obsDone := make(chan string, 1)
		go func() {
			defer func() {
				if r := recover(); r != nil {
					obsDone <- fmt.Sprintf("observer: panic while reading torrent state: %v", r)
				}
			}()
			prev := make([]bool, n)
			for {
				last := stop.Load()
				complete := t.Complete()
				bits := bitsOf(t.Bitfield(), n)
				for i := range bits {
					if prev[i] && !bits[i] {
						obsDone <- fmt.Sprintf("piece %d was reported complete and later incomplete while writers ran", i)
						return
					}
					if bits[i] {
						data, _, getErr, readErr, p := guardedReadPiece(t, i)
						if p == "" && getErr == nil && readErr == nil && !bytes.Equal(data, l.piece(i)) {
							obsDone <- fmt.Sprintf("piece %d is reported complete while it is served as %x, the blob has %x there", i, clip(data), clip(l.piece(i)))
							return
						}
					}
				}
				prev = bits
				if complete {
					for i := range bits {
						// Bitfield was read after Complete(): pieces never become incomplete again.
						if !bits[i] {
							obsDone <- fmt.Sprintf("Complete() was true while piece %d was not reported complete", i)
							return
						}
					}
					data, err := a.readCache()
					if err != nil {
						obsDone <- fmt.Sprintf("Complete() was true while the blob could not be read from the cache: %v", err)
						return
					}
					if !bytes.Equal(data, l.Blob) {
						obsDone <- fmt.Sprintf("Complete() was true while the committed file differs from the blob: got %d bytes %x", len(data), clip(data))
						return
					}
				} else if n > 0 {
					if data, err := a.readCache(); err == nil && !bytes.Equal(data, l.Blob) {
						obsDone <- fmt.Sprintf("the cache serves %d bytes that differ from the blob: %x", len(data), clip(data))
						return
					}
				}
				if last {
					obsDone <- ""
					return
				}
			}
		}()
		close(start)
		wg.Wait()
		stop.Store(true)
		if msg := <-obsDone; msg != "" {
			return msg + "\n  " + where(b)
		}
		for k, w := range batch {
			idx := resolveIndex(w.Index)
			pl := makePayload(l, idx, w.Mode, w.Arg)
			r := results[k]
			d := fmt.Sprintf("%s: WritePiece(index %d, payload %d bytes announced length %d, good=%v) returned %s", where(b), idx, len(pl.data), pl.length, pl.good(l, idx), r.res)
			if r.res.panicked != "" {
				return "WritePiece panicked instead of rejecting the write\n  " + d
			}
			good := pl.good(l, idx)
			switch {
			case r.res.err == nil:
				if !good {
					return "a write whose content is not the piece (or whose index/length is invalid) was accepted\n  " + d
				}
				accepted[idx]++
				if accepted[idx] > 1 {
					return fmt.Sprintf("piece %d was accepted twice\n  %s", idx, d)
				}
				if !r.hasAfter {
					return fmt.Sprintf("a write returned nil but HasPiece(%d) was false afterwards\n  %s", idx, d)
				}
			case r.res.err == storage.ErrPieceComplete:
				if l.valid(idx) && !r.hasAfter {
					return fmt.Sprintf("a write returned ErrPieceComplete but HasPiece(%d) was false afterwards\n  %s", idx, d)
				}
				if l.valid(idx) {
					stats["race:duplicate-of-complete"] = true
				}
			default:
				if good {
					stats["race:good-write-refused"] = true
				}
			}
		}
		// Quiescent state after the batch.
		want := make([]bool, n)
		all := true
		for i := range want {
			want[i] = accepted[i] == 1
			all = all && want[i]
		}
		if got := bitsOf(t.Bitfield(), n); boolsString(got) != boolsString(want) {
			return fmt.Sprintf("Bitfield differs from the accepted pieces after a concurrent batch: got %s want %s\n  %s", boolsString(got), boolsString(want), where(b))
		}
		if t.Complete() != all {
			return fmt.Sprintf("Complete() = %v, all pieces accepted = %v after a concurrent batch\n  %s", t.Complete(), all, where(b))
		}
		if all && n > 0 && b < len(c.Batches)-1 {
			stats["commit-before-last-batch"] = true
		}
	}
	// Fill what is missing; the blob must be committed intact.
	for i := 0; i < n; i++ {
		if accepted[i] == 1 {
			continue
		}
		r := guardedWrite(t, newReader(makePayload(l, i, mCorrect, 0)), i)
		if r.err != nil || r.panicked != "" {
			return fmt.Sprintf("after the concurrent batches a correct write to unverified piece %d was rejected: %s\n  repetition %d", i, r, rep)
		}
		accepted[i]++
	}
	if !t.Complete() {
		return fmt.Sprintf("every piece was accepted but Complete() is false\n  repetition %d", rep)
	}
	data, err := a.readCache()
	if err != nil {
		return fmt.Sprintf("every piece was accepted but the blob cannot be read from the cache: %v\n  repetition %d", err, rep)
	}
	if !bytes.Equal(data, l.Blob) {
		return fmt.Sprintf("committed file differs from the blob after concurrent writers: got %d bytes %x want %x\n  repetition %d", len(data), clip(data), clip(l.Blob), rep)
	}
	if bd := t.BytesDownloaded(); bd != int64(len(l.Blob)) {
		return fmt.Sprintf("BytesDownloaded = %d after completion of a %d byte blob\n  repetition %d", bd, len(l.Blob), rep)
	}
	return ""
}

func runStress(c StressCase) pbt.Verdict {
	if c.PieceLen <= 0 {
		return pbt.Verdict{Discard: true, Classes: []string{"bad-case"}}
	}
	l := c.Layout
	perPiece := map[int]int{}
	goodPerPiece := map[int]int{}
	mixed := false
	for _, batch := range c.Batches {
		seen := map[int][2]int{}
		for _, w := range batch {
			idx := resolveIndex(w.Index)
			pl := makePayload(l, idx, w.Mode, w.Arg)
			if pl.collides(l, idx) {
				return pbt.Verdict{Discard: true, Classes: []string{"crc-collision"}}
			}
			if l.valid(idx) && pl.length == len(l.piece(idx)) {
				perPiece[idx]++
				s := seen[idx]
				if pl.good(l, idx) {
					goodPerPiece[idx]++
					s[0]++
				} else {
					s[1]++
				}
				seen[idx] = s
			}
		}
		for _, s := range seen {
			if s[0] > 0 && s[1] > 0 {
				mixed = true
			}
		}
	}
	stats := map[string]bool{}
	reps := stressReps()
	for rep := 0; rep < reps; rep++ {
		if msg := stressOnce(c, rep, stats); msg != "" {
			return pbt.Fail("%s", msg)
		}
	}
	contended := false
	for _, k := range goodPerPiece {
		if k > 1 {
			contended = true
		}
	}
	v := pbt.Verdict{Evals: reps, NonTrivial: contended || mixed}
	if contended {
		stats["same-piece-good-writers"] = true
	}
	if mixed {
		stats["same-piece-good-and-bad-in-one-batch"] = true
	}
	if len(goodPerPiece) == l.n() && l.n() > 1 {
		stats["batches-can-complete-blob"] = true
	}
	for cl := range stats {
		v.Classes = append(v.Classes, cl)
	}
	sort.Strings(v.Classes)
	return v
}
