package c03

import (
	"bytes"
	"fmt"
	"runtime"
	"sort"
	"strconv"
	"sync"

	"github.com/uber/kraken/lib/torrent/storage"
	"github.com/uber/kraken/lib/torrent/storage/agentstorage"
	"pgregory.net/rapid"

	"verif/internal/pbt"
)

// Step kinds of the "history" part.
const (
	kWrite   = "w" // WritePiece, runs to completion
	kHold    = "h" // WritePiece on its own goroutine; the payload reader blocks after Pre bytes until released
	kRelease = "r" // release the Which-th held writer and wait for its result
	kReopen  = "o" // drop the Torrent and CreateTorrent again (only while no writer is in flight)
	kProbe   = "p" // HasPiece / GetPieceReader / PieceLength of an arbitrary index
	kPark    = "k" // WritePiece on its own goroutine, parked after it found the piece writable and before it claims it (verif scheduling point)
	kUnpark  = "u" // let the Which-th parked writer go on and wait for its result
	kMove    = "m" // a correct WritePiece on its own goroutine; if it completes the torrent it is parked right before it moves the file to the cache
	kMoveOn  = "n" // let the writer parked before the move go on and wait for its result
	kSecond  = "2" // while a writer is parked before the move: CreateTorrent again (what every further Download does); the first instance stays in use
)

type Step struct {
	Kind  string `json:"k"`
	Index int    `json:"i,omitempty"` // index code, see resolveIndex
	Mode  int    `json:"m,omitempty"`
	Arg   int    `json:"a,omitempty"`
	Pre   int    `json:"p,omitempty"`
	Which int    `json:"x,omitempty"`
}

type Case struct {
	Layout
	Steps        []Step `json:"steps"`
	DrainReverse bool   `json:"drain_reverse,omitempty"`
}

// ---- generator ----

func genLayout(t *rapid.T, maxPieces int) Layout {
	var l Layout
	size := 0
	switch rapid.IntRange(0, 19).Draw(t, "sizeclass") {
	case 0:
		size = 0
	case 1:
		size = 1
	case 2, 3:
		size = rapid.IntRange(65, 2048).Draw(t, "size")
	default:
		size = rapid.IntRange(2, 64).Draw(t, "size")
	}
	// A small alphabet makes equal pieces (and pieces equal to the zero-filled
	// download file) frequent.
	var bg *rapid.Generator[byte]
	switch rapid.IntRange(0, 3).Draw(t, "alphabet") {
	case 0:
		bg = rapid.ByteRange(0, 1)
	case 1:
		bg = rapid.ByteRange(0, 3)
	default:
		bg = rapid.Byte()
	}
	l.Blob = rapid.SliceOfN(bg, size, size).Draw(t, "blob")
	minPL := 1
	if size > maxPieces {
		minPL = (size + maxPieces - 1) / maxPieces
	}
	l.PieceLen = rapid.IntRange(minPL, size+2).Draw(t, "piece_len")
	return l
}

func genIndexCode(t *rapid.T, n int) int {
	k := rapid.IntRange(0, 9).Draw(t, "idxclass")
	switch {
	case n > 0 && k < 7:
		return rapid.IntRange(0, n-1).Draw(t, "idx")
	case k < 8:
		return n + rapid.IntRange(0, 3).Draw(t, "past")
	default:
		return -1 - rapid.IntRange(0, len(hostileIdx)-1).Draw(t, "hostile")
	}
}

func genMode(t *rapid.T) int {
	if rapid.IntRange(0, 9).Draw(t, "correct") < 4 {
		return mCorrect
	}
	return rapid.IntRange(1, numModes-1).Draw(t, "mode")
}

func genNoise(t *rapid.T, l Layout) Step {
	n := l.n()
	switch k := rapid.IntRange(0, 14).Draw(t, "kind"); {
	case k < 4:
		return Step{Kind: kWrite, Index: genIndexCode(t, n), Mode: genMode(t), Arg: rapid.IntRange(0, 4096).Draw(t, "arg")}
	case k < 8:
		return Step{Kind: kHold, Index: genIndexCode(t, n), Mode: genMode(t), Arg: rapid.IntRange(0, 4096).Draw(t, "arg"),
			Pre: rapid.IntRange(0, l.PieceLen).Draw(t, "pre")}
	case k < 11:
		return Step{Kind: kRelease, Which: rapid.IntRange(0, 3).Draw(t, "which")}
	case k < 12:
		if rapid.Bool().Draw(t, "park") {
			return Step{Kind: kPark, Index: genIndexCode(t, n), Mode: genMode(t), Arg: rapid.IntRange(0, 4096).Draw(t, "arg")}
		}
		return Step{Kind: kUnpark, Which: rapid.IntRange(0, 3).Draw(t, "which")}
	case k < 14:
		return Step{Kind: kReopen}
	default:
		return Step{Kind: kProbe, Index: genIndexCode(t, n)}
	}
}

func genCase(t *rapid.T) Case {
	c := Case{Layout: genLayout(t, 8)}
	n := c.n()
	order := rapid.Permutation(seqInts(n)).Draw(t, "order")
	keep := n
	if n > 0 && rapid.IntRange(0, 3).Draw(t, "partial") == 0 {
		keep = rapid.IntRange(0, n).Draw(t, "keep")
	}
	for _, pi := range order[:keep] {
		for k := rapid.IntRange(0, 2).Draw(t, "noise"); k > 0; k-- {
			c.Steps = append(c.Steps, genNoise(t, c.Layout))
		}
		if rapid.IntRange(0, 2).Draw(t, "bad_first") == 0 {
			// A write of the same piece whose content is not the piece, possibly
			// still in flight when the correct write arrives.
			bad := Step{Kind: kWrite, Index: pi, Arg: rapid.IntRange(0, 4096).Draw(t, "arg"),
				Mode: rapid.SampledFrom([]int{mFlip, mFlip, mOther, mReadErr, mTruncated}).Draw(t, "bad_mode")}
			if rapid.Bool().Draw(t, "bad_held") {
				bad.Kind = kHold
				bad.Pre = rapid.IntRange(0, c.PieceLen).Draw(t, "pre")
			}
			c.Steps = append(c.Steps, bad)
		}
		// One piece in four is delivered twice at the same moment (the end of a download):
		// a second writer has found the piece writable and is parked before it claims it,
		// the first one writes the piece, then the second one goes on.
		dup := rapid.IntRange(0, 3).Draw(t, "duplicate") == 0
		if dup {
			c.Steps = append(c.Steps, Step{Kind: kPark, Index: pi, Mode: rapid.SampledFrom([]int{mCorrect, mCorrect, mCorrect, mFlip}).Draw(t, "dup_mode"), Arg: rapid.IntRange(0, 4096).Draw(t, "arg")})
		}
		st := Step{Kind: kWrite, Index: pi}
		if rapid.IntRange(0, 2).Draw(t, "held") == 0 {
			st.Kind = kHold
			st.Pre = rapid.IntRange(0, c.PieceLen).Draw(t, "pre")
		}
		c.Steps = append(c.Steps, st)
		if dup && rapid.IntRange(0, 3).Draw(t, "unpark_now") != 0 {
			c.Steps = append(c.Steps, Step{Kind: kUnpark})
		}
	}
	// One case in three ends the download through the commit window: the write of a still
	// missing piece is issued as a "move" step (it parks before the move to the cache if it
	// completes the torrent), optionally another instance is opened, then it goes on.
	if n > 0 && rapid.IntRange(0, 2).Draw(t, "commit_window") == 0 {
		last := order[n-1]
		if keep == n && len(c.Steps) > 0 {
			// turn the main loop's write of the last piece into the parked one
			for k := len(c.Steps) - 1; k >= 0; k-- {
				if (c.Steps[k].Kind == kWrite || c.Steps[k].Kind == kHold) && c.Steps[k].Index == last && c.Steps[k].Mode == mCorrect {
					c.Steps[k] = Step{Kind: kMove, Index: last}
					break
				}
			}
		} else {
			for _, pi := range order[keep:] {
				c.Steps = append(c.Steps, Step{Kind: kMove, Index: pi})
			}
		}
		for k := rapid.IntRange(0, 2).Draw(t, "in_window"); k > 0; k-- {
			c.Steps = append(c.Steps, genNoise(t, c.Layout))
		}
		if rapid.Bool().Draw(t, "second") {
			c.Steps = append(c.Steps, Step{Kind: kSecond})
		}
		if rapid.IntRange(0, 3).Draw(t, "move_on") != 0 {
			c.Steps = append(c.Steps, Step{Kind: kMoveOn})
		}
	}
	for k := rapid.IntRange(0, 5).Draw(t, "tail"); k > 0; k-- {
		c.Steps = append(c.Steps, genNoise(t, c.Layout))
	}
	c.DrainReverse = rapid.Bool().Draw(t, "drain_reverse")
	return c
}

func seqInts(n int) []int {
	s := make([]int, n)
	for i := range s {
		s[i] = i
	}
	return s
}

// ---- model ----

const (
	psEmpty = iota
	psDirty
	psComplete
)

// expectation of a write, fixed when the write is issued.
const (
	exReject     = iota // invalid index or wrong announced length: any error
	exComplete          // piece already complete: storage.ErrPieceComplete
	exConflict          // piece being written by a held writer: an error other than ErrPieceComplete, payload not consumed
	exAcceptGood        // writable piece, payload is the piece: nil, piece becomes complete
	exRejectBad         // writable piece, payload is not the piece: an error other than ErrPieceComplete, piece stays writable
)

type writer struct {
	id      int
	step    int
	idx     int
	pl      payload
	rd      *gatedReader
	expect  int
	claimed bool // model marked the piece dirty for this writer
	done    chan callResult
	// parked writers
	atPoint chan struct{}
	goOn    chan struct{}
	point   string // scheduling point this writer parks at
}

type histRun struct {
	c   Case
	a   *agent
	t   storage.Torrent
	n   int
	st  []int // model piece status
	com bool  // model: committed
	// held writers in issue order
	held []*writer
	// writers parked before their claim of the piece, in issue order
	parked []*writer
	mu     sync.Mutex
	byG    map[uint64]*writer
	// the writer parked right before the move to the cache (all pieces verified, not committed yet)
	mover *writer
	// statistics
	cls            map[string]bool
	rejectedOnOpen map[int]bool // pieces that had a payload-rejected write
	conflicts      int
	payloadRejects int
}

func (h *histRun) class(s string) { h.cls[s] = true }

func (h *histRun) describe(w *writer) string {
	return fmt.Sprintf("step %d WritePiece(index %d, payload %d bytes announced length %d, good=%v)",
		w.step, w.idx, len(w.pl.data), w.pl.length, w.pl.good(h.c.Layout, w.idx))
}

// issue computes the expectation from the model state and claims the piece.
func (h *histRun) issue(w *writer) {
	l := h.c.Layout
	switch {
	case !l.valid(w.idx):
		w.expect = exReject
		h.class("index-invalid")
		if w.idx < 0 {
			h.class("index-negative")
		}
	case w.pl.length != len(l.piece(w.idx)):
		w.expect = exReject
		h.class("wrong-length")
	case h.st[w.idx] == psComplete:
		w.expect = exComplete
		h.class("write-to-complete-piece")
		if h.com {
			h.class("write-after-commit")
		}
	case h.st[w.idx] == psDirty:
		w.expect = exConflict
		h.conflicts++
		h.class("conflict-same-piece")
	case w.pl.good(l, w.idx):
		w.expect = exAcceptGood
		h.st[w.idx] = psDirty
		w.claimed = true
	default:
		w.expect = exRejectBad
		h.st[w.idx] = psDirty
		w.claimed = true
	}
}

// settle judges the result of a write and updates the model.
func (h *histRun) settle(w *writer, res callResult) string {
	d := h.describe(w)
	if res.panicked != "" {
		return fmt.Sprintf("WritePiece panicked instead of rejecting the write\n  %s: panic: %s", d, res.panicked)
	}
	switch w.expect {
	case exReject:
		if res.err == nil {
			return fmt.Sprintf("a write with an invalid index or wrong length was accepted\n  %s returned nil", d)
		}
	case exComplete:
		if res.err != storage.ErrPieceComplete {
			return fmt.Sprintf("a write to an already complete piece did not return ErrPieceComplete\n  %s returned %s", d, res)
		}
	case exConflict:
		if res.err == nil || res.err == storage.ErrPieceComplete {
			return fmt.Sprintf("a write to a piece that another writer is still writing was not refused as a conflict\n  %s returned %s", d, res)
		}
	case exAcceptGood:
		h.st[w.idx] = psEmpty
		if res.err != nil {
			return fmt.Sprintf("a correct write to a writable piece was rejected\n  %s returned %s (model pieces %s)", d, res, h.modelString())
		}
		h.st[w.idx] = psComplete
		if h.rejectedOnOpen[w.idx] {
			h.class("rejected-then-accepted")
		}
		if h.allComplete() {
			h.com = true
			if w.rd.gated {
				h.class("commit-by-held-writer")
			}
		}
	case exRejectBad:
		h.st[w.idx] = psEmpty
		if res.err == nil {
			return fmt.Sprintf("a write whose content is not the piece was accepted\n  %s returned nil", d)
		}
		if res.err == storage.ErrPieceComplete {
			return fmt.Sprintf("a rejected write reported the piece complete although it is not\n  %s returned %s", d, res)
		}
		h.payloadRejects++
		h.rejectedOnOpen[w.idx] = true
		h.class("payload-rejected")
	}
	return ""
}

func (h *histRun) allComplete() bool {
	for _, s := range h.st {
		if s != psComplete {
			return false
		}
	}
	return true
}

func (h *histRun) modelString() string {
	b := make([]byte, len(h.st))
	for i, s := range h.st {
		b[i] = "EDC"[s]
	}
	return string(b)
}

// check compares everything the torrent reports with the model.
func (h *histRun) check(where string) string {
	l := h.c.Layout
	t := h.t
	want := make([]bool, h.n)
	var missing []int
	count, verified := 0, int64(0)
	for i, s := range h.st {
		if s == psComplete {
			want[i] = true
			count++
			verified += int64(len(l.piece(i)))
		} else {
			missing = append(missing, i)
		}
	}
	fail := func(f string, args ...interface{}) string {
		return fmt.Sprintf(f, args...) + fmt.Sprintf("\n  %s; verified pieces per model %s (E empty, D being written, C complete)", where, h.modelString())
	}
	if t.NumPieces() != h.n {
		return fail("torrent reports %d pieces, the blob has %d", t.NumPieces(), h.n)
	}
	bf := t.Bitfield()
	if int(bf.Len()) != h.n {
		return fail("Bitfield has %d bits for %d pieces", bf.Len(), h.n)
	}
	if got := bitsOf(bf, h.n); boolsString(got) != boolsString(want) {
		return fail("Bitfield differs from the verified pieces: got %s want %s", boolsString(got), boolsString(want))
	}
	if got := bitsOf(t.Stat().Bitfield(), h.n); boolsString(got) != boolsString(want) {
		return fail("Stat().Bitfield differs from the verified pieces: got %s want %s", boolsString(got), boolsString(want))
	}
	for i := 0; i < h.n; i++ {
		if t.HasPiece(i) != want[i] {
			return fail("HasPiece(%d) = %v, verified = %v", i, t.HasPiece(i), want[i])
		}
	}
	got := append([]int{}, t.MissingPieces()...)
	sort.Ints(got)
	if fmt.Sprint(got) != fmt.Sprint(append([]int{}, missing...)) {
		return fail("MissingPieces = %v, unverified pieces = %v", got, missing)
	}
	// Progress: exact, except that a complete final (shorter) piece may be counted as a full piece.
	hi := int64(count) * int64(l.PieceLen)
	if hi > int64(len(l.Blob)) {
		hi = int64(len(l.Blob))
	}
	if bd := t.BytesDownloaded(); bd < verified || bd > hi {
		return fail("BytesDownloaded = %d, but %d pieces (%d bytes) are verified (allowed %d..%d)", bd, count, verified, verified, hi)
	}
	// While the completing writer is parked before the move, its instance must not report
	// completion yet (even if another instance has committed the file meanwhile).
	// (If another instance has committed the file meanwhile, either answer is accepted until
	// the parked writer has gone on.)
	if h.mover != nil && h.com {
		// not judged
	} else if t.Complete() != h.com {
		return fail("Complete() = %v, blob committed to the cache = %v (completing writer still before its move to the cache = %v)", t.Complete(), h.com, h.mover != nil)
	}
	// Persisted piece status, as the archive reports it (what the scheduler announces).
	if info, err := h.a.archive.Stat("ns", h.a.digest); err != nil {
		return fail("TorrentArchive.Stat failed: %v", err)
	} else if got := bitsOf(info.Bitfield(), h.n); int(info.Bitfield().Len()) != h.n || boolsString(got) != boolsString(want) {
		return fail("TorrentArchive.Stat bitfield differs from the verified pieces: got %s (%d bits) want %s", boolsString(got), info.Bitfield().Len(), boolsString(want))
	}
	// Cache: holds the blob iff committed.
	data, err := h.a.readCache()
	if h.com {
		if err != nil {
			return fail("all pieces are verified but the blob cannot be read from the cache: %v", err)
		}
		if !bytes.Equal(data, l.Blob) {
			return fail("committed file differs from the blob: got %d bytes %x want %d bytes %x", len(data), clip(data), len(l.Blob), clip(l.Blob))
		}
		if h.a.inDownload() {
			return fail("blob is committed but still present in the download directory")
		}
	} else {
		if err == nil {
			return fail("the cache serves the blob (%d bytes) before every piece is verified", len(data))
		}
		if !h.a.inDownload() {
			return fail("download file disappeared before the blob was committed")
		}
	}
	// Every verified piece is served with the blob's bytes; unverified pieces are not served.
	for i := 0; i < h.n; i++ {
		data, length, getErr, readErr, p := guardedReadPiece(t, i)
		if p != "" {
			return fail("GetPieceReader(%d) panicked: %s", i, p)
		}
		if !want[i] {
			if getErr == nil {
				return fail("GetPieceReader(%d) serves a piece that is not verified", i)
			}
			continue
		}
		if getErr != nil || readErr != nil {
			return fail("verified piece %d cannot be read back: get=%v read=%v", i, getErr, readErr)
		}
		if length != len(l.piece(i)) || !bytes.Equal(data, l.piece(i)) {
			return fail("verified piece %d is served as %d bytes %x (Length %d), the blob has %x there", i, len(data), clip(data), length, clip(l.piece(i)))
		}
	}
	return ""
}

func clip(b []byte) []byte {
	if len(b) > 48 {
		return b[:48]
	}
	return b
}

// ---- interpreter ----

func (h *histRun) startWriter(i int, s Step, gated bool) (*writer, string) {
	idx := resolveIndex(s.Index)
	w := &writer{id: i, step: i, idx: idx, pl: makePayload(h.c.Layout, idx, s.Mode, s.Arg)}
	h.issue(w)
	if !gated {
		w.rd = newReader(w.pl)
		res := guardedWrite(h.t, w.rd, idx)
		return w, h.settle(w, res)
	}
	w.rd = newGatedReader(w.pl, s.Pre)
	w.done = make(chan callResult, 1)
	t := h.t
	go func() { w.done <- guardedWrite(t, w.rd, idx) }()
	select {
	case <-w.rd.entered:
		// The writer is inside the copy of WritePiece, holding the piece.
		switch w.expect {
		case exConflict:
			close(w.rd.release)
			<-w.done
			return w, fmt.Sprintf("a second writer was admitted to a piece while another write of the same piece was in flight\n  %s started consuming its payload", h.describe(w))
		case exAcceptGood, exRejectBad:
			h.class("writer-held-in-copy")
			dirty := map[int]bool{}
			for _, o := range h.held {
				if o.claimed {
					dirty[o.idx] = true
				}
			}
			if len(dirty) > 0 && !dirty[idx] {
				h.class("held-on-different-pieces")
			}
		}
		h.held = append(h.held, w)
		return w, ""
	case res := <-w.done:
		// Returned without reaching the gate.
		return w, h.settle(w, res)
	}
}

func goid() uint64 {
	var buf [64]byte
	n := runtime.Stack(buf[:], false)
	f := bytes.Fields(buf[:n])
	if len(f) < 2 {
		return 0
	}
	id, _ := strconv.ParseUint(string(f[1]), 10, 64)
	return id
}

// yield is the verif scheduling-point callback: a writer started by a park step stops here.
func (h *histRun) yield(point string, pi int) {
	h.mu.Lock()
	w := h.byG[goid()]
	h.mu.Unlock()
	if w == nil || w.point != point {
		return
	}
	w.atPoint <- struct{}{}
	<-w.goOn
}

// startParked starts a write that parks after WritePiece found the piece writable and
// before it claims it. A write that is refused earlier returns at once and is judged now;
// a parked one is judged, against the model state of that moment, when it goes on.
func (h *histRun) startParked(i int, s Step) string {
	idx := resolveIndex(s.Index)
	w := &writer{id: i, step: i, idx: idx, pl: makePayload(h.c.Layout, idx, s.Mode, s.Arg),
		done: make(chan callResult, 1), atPoint: make(chan struct{}), goOn: make(chan struct{}), point: "writePiece.beforeClaim"}
	w.rd = newReader(w.pl)
	t := h.t
	go func() {
		g := goid()
		h.mu.Lock()
		h.byG[g] = w
		h.mu.Unlock()
		res := guardedWrite(t, w.rd, idx)
		h.mu.Lock()
		delete(h.byG, g)
		h.mu.Unlock()
		w.done <- res
	}()
	select {
	case <-w.atPoint:
		h.parked = append(h.parked, w)
		h.class("writer-parked-before-claim")
		return ""
	case res := <-w.done:
		h.issue(w)
		if w.expect == exAcceptGood || w.expect == exRejectBad {
			return fmt.Sprintf("a write to a writable piece returned before it could claim the piece\n  %s returned %s", h.describe(w), res)
		}
		return h.settle(w, res)
	}
}

// startMover issues a correct write of piece idx on its own goroutine. If it is the write
// that completes the torrent, WritePiece stops right before the move to the cache: every
// piece is verified and reported, the blob is not committed yet.
func (h *histRun) startMover(i int, idx int) string {
	w := &writer{id: i, step: i, idx: idx, pl: makePayload(h.c.Layout, idx, mCorrect, 0),
		done: make(chan callResult, 1), atPoint: make(chan struct{}), goOn: make(chan struct{}), point: "writePiece.beforeMove"}
	w.rd = newReader(w.pl)
	h.issue(w)
	t := h.t
	go func() {
		g := goid()
		h.mu.Lock()
		h.byG[g] = w
		h.mu.Unlock()
		res := guardedWrite(t, w.rd, idx)
		h.mu.Lock()
		delete(h.byG, g)
		h.mu.Unlock()
		w.done <- res
	}()
	select {
	case <-w.atPoint:
		if w.expect != exAcceptGood {
			close(w.goOn)
			<-w.done
			return fmt.Sprintf("a write that had to be refused went on to commit the torrent\n  %s", h.describe(w))
		}
		// the piece is verified and reported; the commit has not happened
		h.st[w.idx] = psComplete
		if !h.allComplete() {
			close(w.goOn)
			<-w.done
			return fmt.Sprintf("WritePiece set out to move the file to the cache while the model has unverified pieces (%s)\n  %s", h.modelString(), h.describe(w))
		}
		h.mover = w
		h.class("writer-parked-before-move-to-cache")
		return ""
	case res := <-w.done:
		return h.settle(w, res)
	}
}

// moveOn lets the writer parked before the move go on.
func (h *histRun) moveOn() string {
	w := h.mover
	h.mover = nil
	close(w.goOn)
	res := <-w.done
	if res.panicked != "" || res.err != nil {
		return fmt.Sprintf("the write that completed the torrent failed after every piece was verified\n  %s returned %s", h.describe(w), res)
	}
	h.com = true
	return ""
}

func (h *histRun) unparkAt(k int) string {
	w := h.parked[k]
	h.parked = append(h.parked[:k:k], h.parked[k+1:]...)
	h.issue(w) // what must happen now, given what happened to the piece while the writer was parked
	switch w.expect {
	case exComplete:
		h.class("parked-writer-finds-piece-complete")
	case exConflict:
		h.class("parked-writer-finds-piece-being-written")
	}
	close(w.goOn)
	return h.settle(w, <-w.done)
}

func (h *histRun) releaseAt(k int) string {
	w := h.held[k]
	h.held = append(h.held[:k:k], h.held[k+1:]...)
	close(w.rd.release)
	res := <-w.done
	return h.settle(w, res)
}

func (h *histRun) drainAll() {
	if h.mover != nil {
		close(h.mover.goOn)
		<-h.mover.done
		h.mover = nil
	}
	for _, w := range h.parked {
		close(w.goOn)
		<-w.done
	}
	h.parked = nil
	for _, w := range h.held {
		close(w.rd.release)
		<-w.done
	}
	h.held = nil
}

func runCase(c Case) pbt.Verdict {
	if c.PieceLen <= 0 {
		return pbt.Verdict{Discard: true, Classes: []string{"bad-case"}}
	}
	l := c.Layout
	// CRC collisions cannot be judged (never seen; 2^-32 per payload).
	for _, s := range c.Steps {
		if s.Kind == kWrite || s.Kind == kHold || s.Kind == kPark {
			idx := resolveIndex(s.Index)
			if makePayload(l, idx, s.Mode, s.Arg).collides(l, idx) {
				return pbt.Verdict{Discard: true, Classes: []string{"crc-collision"}}
			}
		}
	}
	a, err := newAgent(l)
	if err != nil {
		return pbt.Verdict{Discard: true, Classes: []string{"setup-error"}}
	}
	defer a.close()
	h := &histRun{c: c, a: a, n: l.n(), st: make([]int, l.n()), cls: map[string]bool{}, rejectedOnOpen: map[int]bool{}, byG: map[uint64]*writer{}}
	agentstorage.VerifSetYield(h.yield)
	defer agentstorage.VerifSetYield(nil)
	defer h.drainAll()
	h.com = h.n == 0 // an empty blob has nothing to verify
	h.t, err = a.archive.CreateTorrent("ns", a.digest)
	if err != nil {
		return pbt.Fail("CreateTorrent failed on a fresh store: %v", err)
	}
	if msg := h.check("after CreateTorrent"); msg != "" {
		return pbt.Fail("%s", msg)
	}
	commitStep := -1
	if h.com {
		commitStep = 0
	}
	for i, s := range c.Steps {
		var msg string
		switch s.Kind {
		case kWrite:
			_, msg = h.startWriter(i, s, false)
		case kHold:
			if len(h.held) >= 4 {
				h.class("skipped-hold")
				continue
			}
			_, msg = h.startWriter(i, s, true)
		case kRelease:
			if len(h.held) == 0 {
				h.class("skipped-release")
				continue
			}
			msg = h.releaseAt(s.Which % len(h.held))
		case kPark:
			if len(h.parked) >= 3 {
				h.class("skipped-park")
				continue
			}
			msg = h.startParked(i, s)
		case kUnpark:
			if len(h.parked) == 0 {
				h.class("skipped-unpark")
				continue
			}
			msg = h.unparkAt(s.Which % len(h.parked))
		case kMove:
			idx := resolveIndex(s.Index)
			if h.mover != nil || !l.valid(idx) {
				h.class("skipped-move")
				continue
			}
			msg = h.startMover(i, idx)
		case kMoveOn:
			if h.mover == nil {
				h.class("skipped-moveon")
				continue
			}
			msg = h.moveOn()
		case kSecond:
			if h.mover == nil || len(h.held) > 0 || len(h.parked) > 0 {
				h.class("skipped-second-instance")
				continue
			}
			// Every further Download of the blob opens the torrent again while the first
			// instance is still in use. All pieces are verified, so the new instance commits.
			if _, err := a.archive.CreateTorrent("ns", a.digest); err != nil {
				return pbt.Fail("CreateTorrent of a torrent whose pieces are all verified failed\n  step %d: %v", i, err)
			}
			h.com = true
			h.class("second-instance-commits-while-first-is-before-its-move")
		case kReopen:
			if len(h.held) > 0 || len(h.parked) > 0 || h.mover != nil {
				h.class("skipped-reopen")
				continue
			}
			nt, err := a.archive.CreateTorrent("ns", a.digest)
			if err != nil {
				return pbt.Fail("CreateTorrent of a torrent already on disk failed\n  step %d: %v (model pieces %s)", i, err, h.modelString())
			}
			h.t = nt
			switch {
			case h.com:
				h.class("reopen-committed")
			case h.modelString() != string(bytes.Repeat([]byte("E"), h.n)):
				h.class("reopen-partial")
			}
		case kProbe:
			idx := resolveIndex(s.Index)
			if l.valid(idx) {
				continue // covered by check
			}
			h.class("probe-invalid-index")
			if has, p := guardedHasPiece(h.t, idx); p != "" {
				return pbt.Fail("HasPiece panicked for an index outside the torrent\n  step %d: HasPiece(%d): panic: %s", i, idx, p)
			} else if has {
				return pbt.Fail("HasPiece reports a piece outside the torrent as complete\n  step %d: HasPiece(%d) = true, %d pieces", i, idx, h.n)
			}
			if _, _, getErr, _, p := guardedReadPiece(h.t, idx); p != "" {
				return pbt.Fail("GetPieceReader panicked for an index outside the torrent\n  step %d: GetPieceReader(%d): panic: %s", i, idx, p)
			} else if getErr == nil {
				return pbt.Fail("GetPieceReader serves a piece outside the torrent\n  step %d: GetPieceReader(%d) returned no error, %d pieces", i, idx, h.n)
			}
		default:
			continue
		}
		if msg != "" {
			return pbt.Fail("%s", msg)
		}
		if msg := h.check(fmt.Sprintf("after step %d %+v", i, s)); msg != "" {
			return pbt.Fail("%s", msg)
		}
		if h.com && commitStep < 0 {
			commitStep = i
		}
	}
	if h.com && commitStep >= 0 && commitStep < len(c.Steps)-1 && h.n > 0 {
		h.class("commit-mid-history")
	}
	// Epilogue: let every parked and held writer finish, then write what is still missing.
	if h.mover != nil {
		if msg := h.moveOn(); msg != "" {
			return pbt.Fail("%s", msg)
		}
		if msg := h.check("epilogue, after the completing writer moved on"); msg != "" {
			return pbt.Fail("%s", msg)
		}
	}
	for len(h.parked) > 0 {
		if msg := h.unparkAt(0); msg != "" {
			return pbt.Fail("%s", msg)
		}
		if msg := h.check("epilogue, after letting a parked writer go on"); msg != "" {
			return pbt.Fail("%s", msg)
		}
	}
	for len(h.held) > 0 {
		k := 0
		if c.DrainReverse {
			k = len(h.held) - 1
		}
		if msg := h.releaseAt(k); msg != "" {
			return pbt.Fail("%s", msg)
		}
		if msg := h.check("epilogue, after releasing a held writer"); msg != "" {
			return pbt.Fail("%s", msg)
		}
	}
	for i := 0; i < h.n; i++ {
		if h.st[i] == psComplete {
			continue
		}
		w := &writer{step: len(c.Steps), idx: i, pl: makePayload(l, i, mCorrect, 0)}
		h.issue(w)
		w.rd = newReader(w.pl)
		if msg := h.settle(w, guardedWrite(h.t, w.rd, i)); msg != "" {
			return pbt.Fail("%s", msg)
		}
		if msg := h.check(fmt.Sprintf("epilogue, after writing missing piece %d", i)); msg != "" {
			return pbt.Fail("%s", msg)
		}
	}
	if !h.com {
		return pbt.Fail("model error: not committed after epilogue")
	}
	switch {
	case h.n == 0:
		h.class("pieces:0")
	case h.n == 1:
		h.class("pieces:1")
	default:
		h.class("pieces:2+")
	}
	if h.n > 1 && len(l.Blob)%l.PieceLen != 0 {
		h.class("short-last-piece")
	}
	v := pbt.Verdict{NonTrivial: h.payloadRejects > 0 || h.conflicts > 0}
	for cl := range h.cls {
		v.Classes = append(v.Classes, cl)
	}
	sort.Strings(v.Classes)
	return v
}
