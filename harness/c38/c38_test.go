// C38 — registry path parsing recovers exactly the components it was built from.
//
// Registry storage paths are built from generated repositories, tags, digests,
// upload ids and hash-state coordinates; ParsePath must name the kind of path
// that was built and the Get* extractors must return exactly the components
// used. Single edits of such paths must either still be valid layout paths
// (then the same holds for what they now spell), or be rejected, or — where only
// kraken's leniency about the prefix/components accepts them — be parsed into the
// components their own text spells.
package c38

import (
	"encoding/hex"
	"fmt"
	"strconv"
	"strings"
	"testing"

	"github.com/uber/kraken/lib/dockerregistry"
	"pgregory.net/rapid"

	"verif/internal/pbt"
)

// Components are the parts a path is built from (fields unused by a kind are ignored).
type Components struct {
	Kind   string `json:"kind"`
	Repo   string `json:"repo"`
	Tag    string `json:"tag"`
	Hex    string `json:"hex"`
	UUID   string `json:"uuid"`
	Algo   string `json:"algo"`
	Offset string `json:"offset"`
}

// Edit is one textual edit of a path.
type Edit struct {
	Op string `json:"op"`
	I  int    `json:"i"`
	S  string `json:"s"`
}

// MutCase is a valid path (given by its components) plus one edit.
type MutCase struct {
	Base Components `json:"base"`
	Edit Edit       `json:"edit"`
}

// ---------------------------------------------------------------- generators

const lowerAlnum = "abcdefghijklmnopqrstuvwxyz0123456789"

func strOf(alphabet string, min, max int) *rapid.Generator[string] {
	return rapid.Custom(func(t *rapid.T) string {
		n := rapid.IntRange(min, max).Draw(t, "n")
		var sb strings.Builder
		for i := 0; i < n; i++ {
			sb.WriteByte(alphabet[rapid.IntRange(0, len(alphabet)-1).Draw(t, "c")])
		}
		return sb.String()
	})
}

// Valid repository components that are also words of the storage layout.
var repoWords = []string{"repositories", "blobs", "tags", "current", "link", "data", "sha256", "revisions",
	"index", "startedat", "hashstates", "docker", "registry", "v2", "manifests", "layers", "uploads", "kraken", "library", "ab"}

// Valid tags that are also words of the storage layout.
var tagWords = []string{"_uploads", "_layers", "_manifests", "latest", "current", "index", "link", "tags",
	"revisions", "data", "sha256", "repositories", "_", "v1.0.0", "startedat", "hashstates"}

func repoComponent(t *rapid.T) string {
	if rapid.IntRange(0, 1).Draw(t, "dict") == 0 {
		return rapid.SampledFrom(repoWords).Draw(t, "word")
	}
	s := strOf(lowerAlnum, 1, 5).Draw(t, "head")
	for i, n := 0, rapid.IntRange(0, 2).Draw(t, "groups"); i < n; i++ {
		tail := strOf(lowerAlnum, 1, 4).Draw(t, "tail")
		// A valid component may end (or continue) with a layout word behind a separator, e.g.
		// team_uploads, base__layers, ci-manifests.x: only whole segments are layout markers.
		if rapid.IntRange(0, 3).Draw(t, "wordtail") == 0 {
			tail = rapid.SampledFrom([]string{"uploads", "layers", "manifests", "repositories", "blobs", "tags"}).Draw(t, "tailword")
		}
		s += rapid.SampledFrom([]string{".", "_", "__", "-", "--"}).Draw(t, "sep") + tail
	}
	return s
}

func genRepo(t *rapid.T) string {
	n := rapid.IntRange(1, 4).Draw(t, "components")
	cs := make([]string, n)
	for i := range cs {
		cs[i] = repoComponent(t)
	}
	return strings.Join(cs, "/")
}

func genTag(t *rapid.T) string {
	if rapid.IntRange(0, 2).Draw(t, "dict") == 0 {
		return rapid.SampledFrom(tagWords).Draw(t, "word")
	}
	const first = "abcdefghijklmnopqrstuvwxyzABCDEFGHIJKLMNOPQRSTUVWXYZ0123456789_"
	// The Docker tag grammar allows 1-128 characters: mostly short tags, one in five of
	// any length, with the longest ones favoured.
	rest := 12
	if rapid.IntRange(0, 4).Draw(t, "long") == 0 {
		rest = rapid.SampledFrom([]int{127, 127, 126, 125, 63, 64, rapid.IntRange(13, 127).Draw(t, "len")}).Draw(t, "restlen")
		return strOf(first, 1, 1).Draw(t, "first") + strOf(first+".-", rest, rest).Draw(t, "rest")
	}
	return strOf(first, 1, 1).Draw(t, "first") + strOf(first+".-", 0, rest).Draw(t, "rest")
}

func genHex(t *rapid.T) string {
	return hex.EncodeToString(rapid.SliceOfN(rapid.Byte(), 32, 32).Draw(t, "digest"))
}

func genUUID(t *rapid.T) string {
	b := rapid.SliceOfN(rapid.Byte(), 16, 16).Draw(t, "uuid")
	h := hex.EncodeToString(b)
	return h[0:8] + "-" + h[8:12] + "-" + h[12:16] + "-" + h[16:20] + "-" + h[20:32]
}

func genOffset(t *rapid.T) string {
	if rapid.Bool().Draw(t, "small") {
		return strconv.Itoa(rapid.IntRange(0, 20).Draw(t, "off"))
	}
	return strconv.FormatInt(rapid.Int64Range(0, 1<<62).Draw(t, "off64"), 10)
}

func genComponents(t *rapid.T) Components {
	return Components{
		Kind:   rapid.SampledFrom(allKinds).Draw(t, "kind"),
		Repo:   genRepo(t),
		Tag:    genTag(t),
		Hex:    genHex(t),
		UUID:   genUUID(t),
		Algo:   rapid.SampledFrom([]string{"sha256", "sha512", "sha384"}).Draw(t, "algo"),
		Offset: genOffset(t),
	}
}

var charOps = []string{"ins", "del", "sub"}
var segOps = []string{"delseg", "dupseg", "insseg", "subseg", "swapseg", "trunc", "append", "cutprefix", "cutprefix-rel"}

const editChars = "abcdef0123456789ghzAFZ_-.:/ "

var editWords = []string{"_manifests", "_layers", "_uploads", "tags", "revisions", "current", "index", "link", "data",
	"startedat", "hashstates", "sha256", "blobs", "repositories", "docker", "registry", "v2", "", "x", "0", "ab", "extra",
	"ff3a5c916c92643ff77519ffa742d3ec61b7f591b6b7504599d95a4a41134e28", "6a0ae8b6-1f39-4c13-b2a5-d1d3b3c1c0de"}

func genMut(t *rapid.T) MutCase {
	m := MutCase{Base: genComponents(t)}
	if rapid.IntRange(0, 9).Draw(t, "charOp") < 4 {
		m.Edit.Op = rapid.SampledFrom(charOps).Draw(t, "op")
		m.Edit.S = string(editChars[rapid.IntRange(0, len(editChars)-1).Draw(t, "ch")])
		// Positions are counted from the end of the path, where the layout lives.
		if rapid.Bool().Draw(t, "nearEnd") {
			m.Edit.I = rapid.IntRange(0, 40).Draw(t, "pos")
		} else {
			m.Edit.I = rapid.IntRange(0, 300).Draw(t, "pos")
		}
	} else {
		m.Edit.Op = rapid.SampledFrom(segOps).Draw(t, "op")
		m.Edit.S = rapid.SampledFrom(editWords).Draw(t, "word")
		m.Edit.I = rapid.IntRange(0, 12).Draw(t, "seg")
	}
	return m
}

// apply performs the edit. Positions count from the end and wrap around.
func apply(p string, e Edit) string {
	ch := "x"
	if e.S != "" {
		ch = e.S[:1]
	}
	i := e.I
	if i < 0 {
		i = -i
	}
	switch e.Op {
	case "ins":
		at := len(p) - i%(len(p)+1)
		return p[:at] + ch + p[at:]
	case "del":
		at := len(p) - 1 - i%len(p)
		return p[:at] + p[at+1:]
	case "sub":
		at := len(p) - 1 - i%len(p)
		return p[:at] + ch + p[at+1:]
	}
	segs := strings.Split(p, "/") // segs[0] == "" (leading slash)
	n := len(segs) - 1            // real segments are segs[1..n]
	if n < 2 {
		return p
	}
	idx := n - i%n // 1..n, counted from the end
	var out []string
	switch e.Op {
	case "delseg":
		out = append(append(out, segs[:idx]...), segs[idx+1:]...)
	case "dupseg":
		out = append(append(append(out, segs[:idx+1]...), segs[idx]), segs[idx+1:]...)
	case "insseg":
		out = append(append(append(out, segs[:idx]...), e.S), segs[idx:]...)
	case "subseg":
		out = append(out, segs...)
		out[idx] = e.S
	case "swapseg":
		out = append(out, segs...)
		if idx < n {
			out[idx], out[idx+1] = out[idx+1], out[idx]
		} else if n >= 2 {
			out[idx], out[idx-1] = out[idx-1], out[idx]
		}
	case "trunc":
		k := 1 + i%3
		if k >= n {
			k = n - 1
		}
		out = append(out, segs[:len(segs)-k]...)
	case "append":
		out = append(append(out, segs...), e.S)
	case "cutprefix", "cutprefix-rel":
		// Drop the leading 1..n-1 segments, keeping ("/x/y") or dropping ("x/y")
		// the leading slash: little or nothing is left in front of the marker.
		k := 1 + i%(n-1)
		if e.Op == "cutprefix" {
			out = append(out, "")
		}
		out = append(out, segs[1+k:]...)
	default:
		return p
	}
	return strings.Join(out, "/")
}

// ------------------------------------------------------------------- oracles

// checkValid: p is a layout path that spells the components in want (strict
// reading). Returns "" or the violation.
func checkValid(p string, want *parsed) string {
	wt, ws := typeOf(want.Kind)
	pt, st, err := dockerregistry.ParsePath(p)
	if err != nil {
		return fmt.Sprintf("ParsePath rejects a valid %s path (path=%q): %v", want.Kind, p, err)
	}
	if string(pt) != wt || string(st) != ws {
		return fmt.Sprintf("ParsePath misclassifies a %s path: want (%s,%s) got (%s,%s) (path=%q)", want.Kind, wt, ws, pt, st, p)
	}
	if want.Kind != kBlobData {
		repo, err := dockerregistry.GetRepo(p)
		if err != nil {
			return fmt.Sprintf("GetRepo rejects a valid %s path (repo=%q path=%q): %v", want.Kind, want.Repo, p, err)
		}
		if repo != want.Repo {
			return fmt.Sprintf("GetRepo returns a different repository than the path was built from (kind=%s want=%q got=%q path=%q)", want.Kind, want.Repo, repo, p)
		}
	}
	digest := func(name string, f func(string) (d interface {
		Hex() string
		String() string
	}, err error)) string {
		d, err := f(p)
		if err != nil {
			return fmt.Sprintf("%s rejects a valid %s path (path=%q): %v", name, want.Kind, p, err)
		}
		if d.Hex() != want.Hex || d.String() != "sha256:"+want.Hex {
			return fmt.Sprintf("%s returns a different digest than the path was built from (kind=%s want=%q got=%q path=%q)", name, want.Kind, want.Hex, d.String(), p)
		}
		return ""
	}
	type dg = interface {
		Hex() string
		String() string
	}
	switch want.Kind {
	case kTagCurrent, kTagIndex:
		tag, cur, err := dockerregistry.GetManifestTag(p)
		if err != nil {
			return fmt.Sprintf("GetManifestTag rejects a valid %s path (tag=%q path=%q): %v", want.Kind, want.Tag, p, err)
		}
		if tag != want.Tag {
			return fmt.Sprintf("GetManifestTag returns a different tag than the path was built from (kind=%s want=%q got=%q path=%q)", want.Kind, want.Tag, tag, p)
		}
		if cur != (want.Kind == kTagCurrent) {
			return fmt.Sprintf("GetManifestTag reports isCurrent=%v for a %s path (path=%q)", cur, want.Kind, p)
		}
		if want.Kind == kTagIndex {
			return digest("GetManifestDigest", func(s string) (dg, error) { return dockerregistry.GetManifestDigest(s) })
		}
	case kRevision:
		return digest("GetManifestDigest", func(s string) (dg, error) { return dockerregistry.GetManifestDigest(s) })
	case kLayerLink, kLayerData:
		return digest("GetLayerDigest", func(s string) (dg, error) { return dockerregistry.GetLayerDigest(s) })
	case kBlobData:
		return digest("GetBlobDigest", func(s string) (dg, error) { return dockerregistry.GetBlobDigest(s) })
	case kUploadData, kUploadStart, kHashAlgo, kHashOffset:
		id, err := dockerregistry.GetUploadUUID(p)
		if err != nil {
			return fmt.Sprintf("GetUploadUUID rejects a valid %s path (path=%q): %v", want.Kind, p, err)
		}
		if id != want.UUID {
			return fmt.Sprintf("GetUploadUUID returns a different upload id than the path was built from (kind=%s want=%q got=%q path=%q)", want.Kind, want.UUID, id, p)
		}
		if want.Kind == kHashOffset {
			algo, off, err := dockerregistry.GetUploadAlgoAndOffset(p)
			if err != nil {
				return fmt.Sprintf("GetUploadAlgoAndOffset rejects a valid %s path (path=%q): %v", want.Kind, p, err)
			}
			if algo != want.Algo || off != want.Offset {
				return fmt.Sprintf("GetUploadAlgoAndOffset returns different values than the path was built from (want=%s/%s got=%s/%s path=%q)", want.Algo, want.Offset, algo, off, p)
			}
		}
	}
	return ""
}

// accepted reports what the storage driver's pipeline (ParsePath, then the
// extractors for the reported type) makes of p; nil = rejected. The repository is
// not part of it: kraken's extractors deliberately work on any prefix.
func accepted(p string) *parsed {
	pt, st, err := dockerregistry.ParsePath(p)
	if err != nil {
		return nil
	}
	switch string(pt) {
	case "_manifests":
		if !strings.HasSuffix(p, "/link") {
			// Directory form, served by List without any extractor.
			if string(st) == "tags" {
				return &parsed{Kind: kTagsDir}
			}
			return &parsed{Kind: kRevisionsDir}
		}
		if string(st) == "tags" {
			tag, cur, err := dockerregistry.GetManifestTag(p)
			if err != nil {
				return nil
			}
			if cur {
				return &parsed{Kind: kTagCurrent, Tag: tag}
			}
			d, err := dockerregistry.GetManifestDigest(p)
			if err != nil {
				return nil
			}
			return &parsed{Kind: kTagIndex, Tag: tag, Hex: d.Hex()}
		}
		d, err := dockerregistry.GetManifestDigest(p)
		if err != nil {
			return nil
		}
		return &parsed{Kind: kRevision, Hex: d.Hex()}
	case "_layers":
		d, err := dockerregistry.GetLayerDigest(p)
		if err != nil {
			return nil
		}
		if string(st) == "link" {
			return &parsed{Kind: kLayerLink, Hex: d.Hex()}
		}
		return &parsed{Kind: kLayerData, Hex: d.Hex()}
	case "blobs":
		d, err := dockerregistry.GetBlobDigest(p)
		if err != nil {
			return nil
		}
		return &parsed{Kind: kBlobData, Hex: d.Hex()}
	case "_uploads":
		id, err := dockerregistry.GetUploadUUID(p)
		if err != nil {
			return nil
		}
		switch string(st) {
		case "data":
			return &parsed{Kind: kUploadData, UUID: id}
		case "startedat":
			return &parsed{Kind: kUploadStart, UUID: id}
		}
		if algo, off, err := dockerregistry.GetUploadAlgoAndOffset(p); err == nil {
			return &parsed{Kind: kHashOffset, UUID: id, Algo: algo, Offset: off}
		}
		return &parsed{Kind: kHashAlgo, UUID: id}
	}
	return &parsed{Kind: "unknown-type:" + string(pt)}
}

func sameTail(got, ref *parsed) bool {
	if got.Kind != ref.Kind || got.Tag != ref.Tag || got.Hex != ref.Hex || got.UUID != ref.UUID {
		return false
	}
	if got.Kind == kHashOffset && (got.Algo != ref.Algo || got.Offset != ref.Offset) {
		return false
	}
	return true
}

// Classes of judged paths.
const (
	clValid    = "valid-layout-path"      // strict reading exists: full round trip demanded
	clReject   = "not-layout:must-reject" // no reading at all: must be rejected
	clLenientA = "lenient-only:accepted"  // only a lenient reading: accepted, components compared
	clLenientR = "lenient-only:rejected"  // only a lenient reading: rejected (nothing demanded)
	clAmbig    = "lenient-only:ambiguous" // several lenient readings
)

// checkFunctions judges every parsing function on its own: whatever a function
// accepts must be spelled by the text (kraken's paths_test.go demands rejection
// at the level of the individual functions too).
func checkFunctions(p string) string {
	shapes := parseLenient(p, modeShape)
	lenient := parseLenient(p, modeLenient)
	find := func(rs []*parsed, ok func(*parsed) bool) bool {
		for _, r := range rs {
			if ok(r) {
				return true
			}
		}
		return false
	}
	if tag, cur, err := dockerregistry.GetManifestTag(p); err == nil {
		if !find(shapes, func(r *parsed) bool {
			return r.Tag == tag && (cur && r.Kind == kTagCurrent || !cur && r.Kind == kTagIndex)
		}) {
			return fmt.Sprintf("GetManifestTag accepts a path that does not spell that tag link (tag=%q isCurrent=%v path=%q)", tag, cur, p)
		}
	}
	if d, err := dockerregistry.GetManifestDigest(p); err == nil {
		if !find(lenient, func(r *parsed) bool { return r.Hex == d.Hex() && (r.Kind == kTagIndex || r.Kind == kRevision) }) {
			return fmt.Sprintf("GetManifestDigest accepts a path that does not spell that manifest link (digest=%q path=%q)", d.Hex(), p)
		}
	}
	if d, err := dockerregistry.GetLayerDigest(p); err == nil {
		if !find(lenient, func(r *parsed) bool { return r.Hex == d.Hex() && (r.Kind == kLayerLink || r.Kind == kLayerData) }) {
			return fmt.Sprintf("GetLayerDigest accepts a path that does not spell that layer path (digest=%q path=%q)", d.Hex(), p)
		}
	}
	if d, err := dockerregistry.GetBlobDigest(p); err == nil {
		if !find(lenient, func(r *parsed) bool { return r.Hex == d.Hex() && r.Kind == kBlobData }) {
			return fmt.Sprintf("GetBlobDigest accepts a path that does not spell that blob path (digest=%q path=%q)", d.Hex(), p)
		}
	}
	if id, err := dockerregistry.GetUploadUUID(p); err == nil {
		if !find(shapes, func(r *parsed) bool {
			return r.UUID == id && (r.Kind == kUploadData || r.Kind == kUploadStart || r.Kind == kHashAlgo || r.Kind == kHashOffset)
		}) {
			return fmt.Sprintf("GetUploadUUID accepts a path that does not spell that upload path (id=%q path=%q)", id, p)
		}
	}
	if algo, off, err := dockerregistry.GetUploadAlgoAndOffset(p); err == nil {
		if !find(shapes, func(r *parsed) bool { return r.Kind == kHashOffset && r.Algo == algo && r.Offset == off }) {
			return fmt.Sprintf("GetUploadAlgoAndOffset accepts a path that does not spell that hash state (algo=%q offset=%q path=%q)", algo, off, p)
		}
	}
	// ParsePath: for _layers, blobs and _uploads the classification itself is
	// shape-checked (paths_test.go); for _manifests it is documented as loose
	// ("/.+/link") and only judged together with the extractors.
	if pt, st, err := dockerregistry.ParsePath(p); err == nil && string(pt) != "_manifests" {
		if !find(shapes, func(r *parsed) bool {
			t, s := typeOf(r.Kind)
			return t == string(pt) && s == string(st)
		}) {
			return fmt.Sprintf("ParsePath classifies a path as (%s,%s) although it does not have that shape (path=%q)", pt, st, p)
		}
	}
	return ""
}

// judge applies the oracle to an arbitrary path text.
func judge(p string) (violation string, class string) {
	if want := parseStrict(p); want != nil {
		if v := checkValid(p, want); v != "" {
			return v, clValid
		}
		return checkFunctions(p), clValid
	}
	refs := parseLenient(p, modeLenient)
	got := accepted(p)
	switch {
	case len(refs) == 0:
		class = clReject
	case got == nil:
		class = clLenientR
	case len(refs) > 1:
		class = clAmbig
	default:
		class = clLenientA
	}
	if v := checkFunctions(p); v != "" {
		return v, class
	}
	if got == nil {
		return "", class
	}
	if len(refs) == 0 {
		return fmt.Sprintf("a path that does not follow the layout is accepted as %s (path=%q parsed=%+v)", got.Kind, p, *got), class
	}
	for _, r := range refs {
		if sameTail(got, r) {
			return "", class
		}
	}
	return fmt.Sprintf("accepted path is parsed into components its text does not spell (path=%q parsed=%+v layout reading=%+v)", p, *got, *refs[0]), class
}

// ---------------------------------------------------------------------- runs

func hasWord(s string, sep string, words []string) bool {
	for _, c := range strings.Split(s, sep) {
		for _, w := range words {
			if c == w {
				return true
			}
		}
	}
	return false
}

var confusingRepoWords = []string{"repositories", "blobs", "tags", "current", "link", "data", "sha256", "revisions", "index", "startedat", "hashstates"}

func runBuild(c Components) pbt.Verdict {
	p := build(c)
	want := parseStrict(p)
	if want == nil {
		// generator bug, not a property violation
		return pbt.Verdict{Discard: true, Classes: []string{"harness:built-path-not-strict"}}
	}
	exp := parsed{Kind: c.Kind}
	switch c.Kind {
	case kTagCurrent:
		exp.Tag = c.Tag
	case kTagIndex:
		exp.Tag, exp.Hex = c.Tag, c.Hex
	case kRevision, kLayerLink, kLayerData, kBlobData:
		exp.Hex = c.Hex
	case kUploadData, kUploadStart:
		exp.UUID = c.UUID
	case kHashAlgo:
		exp.UUID, exp.Algo = c.UUID, c.Algo
	case kHashOffset:
		exp.UUID, exp.Algo, exp.Offset = c.UUID, c.Algo, c.Offset
	}
	if c.Kind != kBlobData {
		exp.Repo = c.Repo
	}
	if *want != exp {
		return pbt.Verdict{Discard: true, Classes: []string{"harness:reference-disagrees-with-builder"}}
	}
	if v := checkValid(p, &exp); v != "" {
		return pbt.Fail("%s", v)
	}
	classes := []string{"kind:" + c.Kind}
	usesRepo := c.Kind != kBlobData
	usesTag := c.Kind == kTagCurrent || c.Kind == kTagIndex
	if usesRepo && strings.Contains(c.Repo, "/") {
		classes = append(classes, "repo:nested")
	}
	if usesRepo && hasWord(c.Repo, "/", confusingRepoWords) {
		classes = append(classes, "repo:has-layout-word")
	}
	if usesRepo && hasWord(c.Repo, "/", []string{"repositories"}) {
		classes = append(classes, "repo:has-component-repositories")
	}
	if usesTag && strings.HasPrefix(c.Tag, "_") {
		classes = append(classes, "tag:leading-underscore")
	}
	if usesTag && hasWord(c.Tag, "/", []string{"_uploads", "_layers", "_manifests"}) {
		classes = append(classes, "tag:is-marker-word")
	}
	return pbt.OK(true, classes...)
}

func runMutate(m MutCase) pbt.Verdict {
	base := build(m.Base)
	if parseStrict(base) == nil {
		return pbt.Verdict{Discard: true, Classes: []string{"harness:built-path-not-strict"}}
	}
	p := apply(base, m.Edit)
	v, class := judge(p)
	if v != "" {
		return pbt.Fail("%s [base=%q edit=%+v]", v, base, m.Edit)
	}
	classes := []string{class, "op:" + m.Edit.Op}
	if p == base {
		classes = append(classes, "edit:no-op")
	}
	return pbt.OK(p != base && class != clLenientR, classes...)
}

func TestProp(t *testing.T) {
	pbt.Main(t, pbt.Spec{
		ID: "C38",
		Rule: "part build: a path of one of 12 kinds (manifest tag/revision directories and links, layer link/data, blob data, upload data/startedat/hashstates with and without offset) is built under /docker/registry/v2 " +
			"from a Docker-grammar repository of 1-4 components (half of them layout words such as repositories, blobs, tags, current, link, data, sha256), a Docker-grammar tag of 1-128 characters (a third of them layout words incl. _uploads/_layers/_manifests; one in eight long, favouring 126-128 characters), " +
			"a random sha256 hex digest, a uuid, an algorithm and an offset; ParsePath must return the documented (type, subtype) of that kind and GetRepo/GetManifestTag/GetManifestDigest/GetLayerDigest/GetBlobDigest/GetUploadUUID/GetUploadAlgoAndOffset " +
			"must return exactly the components used; every build case is non-trivial. part mutate: one character or segment edit (insert/delete/substitute/duplicate/swap/truncate/append, layout words as material) of such a path; " +
			"judged by a segment-based reference of the layout: still a valid layout path => full round trip for what it now spells; no reading even with arbitrary prefix/tag/id => the ParsePath+extractor pipeline must reject it; " +
			"only a lenient reading => if accepted, tag/digest/upload id/algo/offset must be the ones the text spells; non-trivial = edited path differs from the original and something was demanded (all but lenient-only:rejected). Distinct by case hash",
		Assumptions: []string{
			"the layout reference (harness/c38/ref_test.go) transcribed from docker/distribution's path layout comment and kraken's paths_test.go shapes",
			"valid components: Docker repository/tag grammar (lowercase repo components never start with '_'), 64 lowercase hex digests, 8-4-4-4-12 hex upload ids, [A-Za-z0-9]+ algorithm, decimal offset",
			"type/subtype names are compared as the documented strings (_manifests, _uploads, _layers, blobs; tags, revisions, data, link, startedat, hashstates)",
			"a path counts as accepted when ParsePath succeeds and the extractors the storage driver calls for that type succeed; repository extraction is only judged on fully valid paths",
		},
		Parts: []pbt.Part{
			pbt.NewPart("build", 1, genComponents, runBuild),
			pbt.NewPart("mutate", 1, genMut, runMutate),
		},
	})
}
