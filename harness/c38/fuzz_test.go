package c38

import "testing"

// FuzzParse applies the same oracle as the "mutate" part (judge) to arbitrary
// path texts found by coverage-guided fuzzing: valid layout paths must round-trip,
// texts with no layout reading must be rejected, leniently accepted texts must be
// parsed into the components they spell.
func FuzzParse(f *testing.F) {
	base := Components{
		Repo: "library/repositories/app", Tag: "_uploads",
		Hex:  "ff3a5c916c92643ff77519ffa742d3ec61b7f591b6b7504599d95a4a41134e28",
		UUID: "6a0ae8b6-1f39-4c13-b2a5-d1d3b3c1c0de", Algo: "sha256", Offset: "1234",
	}
	for _, k := range allKinds {
		c := base
		c.Kind = k
		f.Add(build(c))
	}
	for _, s := range []string{
		"", "/", "kraken/_manifests", "kraken/_manifests/tags", "kraken/_manifests/tags/sometag/current",
		"kraken/_manifests/tags/sometag/current/link", "kraken/_manifests/tags/sometag/sometag/index/sha256/manifestdigest/link",
		"kraken/_uploads/uuid/data/extra", "kraken/_uploads/uuid/uuid/data", "kraken/_uploads/uuid/hashstates/sha256/a",
		"kraken/_uploads/uuid/hashstates/sha256/0", "kraken/_uploads/_uploads/hashstates/data",
		"/v2/blobs/sha256/1234/ff3a5c916c92643ff77519ffa742d3ec61b7f591b6b7504599d95a4a41134e28/data",
		"/v2/blobs/sha256/3Z/ff3a5c916c92643ff77519ffa742d3ec61b7f591b6b7504599d95a4a41134e28/data",
		"/v2/repositories/kraken/_layers", "/v2/repositories/_manifests", "kraken/_layers/sha256/digest5678/data",
		"x/_manifests/tags/_manifests/revisions/index/sha256/ff3a5c916c92643ff77519ffa742d3ec61b7f591b6b7504599d95a4a41134e28/link",
		"a\n/_uploads/b/data", "a/_uploads/\xff/startedat",
	} {
		f.Add(s)
	}
	f.Fuzz(func(t *testing.T, p string) {
		if len(p) > 512 {
			return
		}
		if v, _ := judge(p); v != "" {
			t.Fatalf("VIOLATION C38/fuzz: %s", v)
		}
	})
}
