package c38

// Reference description of the registry storage layout, written from the layout
// comment of docker/distribution registry/storage/paths.go and the path shapes
// kraken's own paths_test.go accepts/rejects. It works on path segments and does
// not use regular expressions.
//
//	/docker/registry/v2/repositories/<repo>/_manifests/tags
//	/docker/registry/v2/repositories/<repo>/_manifests/revisions
//	/docker/registry/v2/repositories/<repo>/_manifests/tags/<tag>/current/link
//	/docker/registry/v2/repositories/<repo>/_manifests/tags/<tag>/index/sha256/<hex>/link
//	/docker/registry/v2/repositories/<repo>/_manifests/revisions/sha256/<hex>/link
//	/docker/registry/v2/repositories/<repo>/_layers/sha256/<hex>/link|data
//	/docker/registry/v2/repositories/<repo>/_uploads/<id>/data|startedat
//	/docker/registry/v2/repositories/<repo>/_uploads/<id>/hashstates/<algo>[/<offset>]
//	/docker/registry/v2/blobs/sha256/<first two of hex>/<hex>/data

import "strings"

const repoRoot = "/docker/registry/v2/repositories"
const blobRoot = "/docker/registry/v2/blobs"

// Path kinds built by the generator.
const (
	kTagsDir      = "manifests-tags-dir"
	kRevisionsDir = "manifests-revisions-dir"
	kTagCurrent   = "tag-current-link"
	kTagIndex     = "tag-index-link"
	kRevision     = "revision-link"
	kLayerLink    = "layer-link"
	kLayerData    = "layer-data"
	kBlobData     = "blob-data"
	kUploadData   = "upload-data"
	kUploadStart  = "upload-startedat"
	kHashAlgo     = "upload-hashstates-algo"
	kHashOffset   = "upload-hashstates-offset"
)

var allKinds = []string{kTagsDir, kRevisionsDir, kTagCurrent, kTagIndex, kRevision, kLayerLink, kLayerData,
	kBlobData, kUploadData, kUploadStart, kHashAlgo, kHashOffset}

// parsed is what a path means according to the reference.
type parsed struct {
	Kind   string
	Repo   string // only set by the strict parser
	Tag    string
	Hex    string
	UUID   string
	Algo   string
	Offset string
}

// typeOf returns the (path type, sub type) names kraken documents for a kind:
// types "_manifests", "_uploads", "_layers", "blobs"; sub types "tags",
// "revisions", "data", "link", "startedat", "hashstates".
func typeOf(kind string) (string, string) {
	switch kind {
	case kTagsDir, kTagCurrent, kTagIndex:
		return "_manifests", "tags"
	case kRevisionsDir, kRevision:
		return "_manifests", "revisions"
	case kLayerLink:
		return "_layers", "link"
	case kLayerData:
		return "_layers", "data"
	case kBlobData:
		return "blobs", "data"
	case kUploadData:
		return "_uploads", "data"
	case kUploadStart:
		return "_uploads", "startedat"
	case kHashAlgo, kHashOffset:
		return "_uploads", "hashstates"
	}
	return "", ""
}

func build(c Components) string {
	r := repoRoot + "/" + c.Repo
	switch c.Kind {
	case kTagsDir:
		return r + "/_manifests/tags"
	case kRevisionsDir:
		return r + "/_manifests/revisions"
	case kTagCurrent:
		return r + "/_manifests/tags/" + c.Tag + "/current/link"
	case kTagIndex:
		return r + "/_manifests/tags/" + c.Tag + "/index/sha256/" + c.Hex + "/link"
	case kRevision:
		return r + "/_manifests/revisions/sha256/" + c.Hex + "/link"
	case kLayerLink:
		return r + "/_layers/sha256/" + c.Hex + "/link"
	case kLayerData:
		return r + "/_layers/sha256/" + c.Hex + "/data"
	case kBlobData:
		return blobRoot + "/sha256/" + c.Hex[:2] + "/" + c.Hex + "/data"
	case kUploadData:
		return r + "/_uploads/" + c.UUID + "/data"
	case kUploadStart:
		return r + "/_uploads/" + c.UUID + "/startedat"
	case kHashAlgo:
		return r + "/_uploads/" + c.UUID + "/hashstates/" + c.Algo
	case kHashOffset:
		return r + "/_uploads/" + c.UUID + "/hashstates/" + c.Algo + "/" + c.Offset
	}
	return ""
}

func all(s string, ok func(byte) bool) bool {
	if s == "" {
		return false
	}
	for i := 0; i < len(s); i++ {
		if !ok(s[i]) {
			return false
		}
	}
	return true
}

func isLowerAlnum(b byte) bool { return b >= 'a' && b <= 'z' || b >= '0' && b <= '9' }
func isAlnum(b byte) bool      { return isLowerAlnum(b) || b >= 'A' && b <= 'Z' }
func isDigit(b byte) bool      { return b >= '0' && b <= '9' }
func isLowerHex(b byte) bool   { return b >= '0' && b <= '9' || b >= 'a' && b <= 'f' }
func isAnyHex(b byte) bool     { return isLowerHex(b) || b >= 'A' && b <= 'F' }

// validRepoComponent: alpha-numeric ((. | _ | __ | -+) alpha-numeric)*, lowercase.
func validRepoComponent(s string) bool {
	i := 0
	run := func() bool {
		j := i
		for i < len(s) && isLowerAlnum(s[i]) {
			i++
		}
		return i > j
	}
	if !run() {
		return false
	}
	for i < len(s) {
		switch {
		case s[i] == '.':
			i++
		case s[i] == '_':
			i++
			if i < len(s) && s[i] == '_' {
				i++
			}
		case s[i] == '-':
			for i < len(s) && s[i] == '-' {
				i++
			}
		default:
			return false
		}
		if !run() {
			return false
		}
	}
	return true
}

// validTag: [A-Za-z0-9_][A-Za-z0-9_.-]{0,127}.
func validTag(s string) bool {
	if s == "" || len(s) > 128 || !(isAlnum(s[0]) || s[0] == '_') {
		return false
	}
	return all(s, func(b byte) bool { return isAlnum(b) || b == '_' || b == '.' || b == '-' })
}

// validUUID: 8-4-4-4-12 lowercase hex, the form docker generates upload ids in.
func validUUID(s string) bool {
	if len(s) != 36 {
		return false
	}
	for i := 0; i < len(s); i++ {
		if i == 8 || i == 13 || i == 18 || i == 23 {
			if s[i] != '-' {
				return false
			}
		} else if !isLowerHex(s[i]) {
			return false
		}
	}
	return true
}

type match struct {
	p *parsed
	k int // number of trailing segments consumed
}

// Reading modes of the layout reference.
const (
	// modeStrict demands components that are valid in the sense of the
	// property's quantifier (Docker tag grammar, 64 lowercase hex, uuid upload
	// id, shard directory = first two hex characters).
	modeStrict = iota
	// modeLenient only demands the shape with a well-formed digest: any
	// non-empty tag / upload id segment, 64 hex digits of either case, any two
	// alphanumerics as shard directory.
	modeLenient
	// modeShape additionally lets the digest segment be any alphanumeric word
	// (the extractors that do not return the digest do not validate it:
	// paths_test.go uses "manifestdigest" and "digest5678").
	modeShape
)

// tails matches the end of the segment list against every tail of the layout.
// More than one match is possible only for non-strict upload paths whose id or
// algorithm segment is itself a layout word.
func tails(segs []string, mode int) []match {
	strict := mode == modeStrict
	n := len(segs)
	at := func(k int) string { // k-th segment from the end, 1-based
		if k > n {
			return "\x00"
		}
		return segs[n-k]
	}
	hexOK := func(s string) bool {
		if mode == modeShape {
			return all(s, isAlnum)
		}
		if len(s) != 64 {
			return false
		}
		if strict {
			return all(s, isLowerHex)
		}
		return all(s, isAnyHex)
	}
	tagOK := func(s string) bool {
		if strict {
			return validTag(s)
		}
		return s != ""
	}
	idOK := func(s string) bool {
		if strict {
			return validUUID(s)
		}
		return s != ""
	}
	algoOK := func(s string) bool { return all(s, isAlnum) }
	offOK := func(s string) bool { return all(s, isDigit) }

	var out []match
	add := func(p *parsed, k int) { out = append(out, match{p, k}) }

	if at(1) == "tags" && at(2) == "_manifests" {
		add(&parsed{Kind: kTagsDir}, 2)
	}
	if at(1) == "revisions" && at(2) == "_manifests" {
		add(&parsed{Kind: kRevisionsDir}, 2)
	}
	if at(1) == "link" {
		if at(2) == "current" && tagOK(at(3)) && at(4) == "tags" && at(5) == "_manifests" {
			add(&parsed{Kind: kTagCurrent, Tag: at(3)}, 5)
		}
		if hexOK(at(2)) && at(3) == "sha256" {
			if at(4) == "index" && tagOK(at(5)) && at(6) == "tags" && at(7) == "_manifests" {
				add(&parsed{Kind: kTagIndex, Tag: at(5), Hex: at(2)}, 7)
			}
			if at(4) == "revisions" && at(5) == "_manifests" {
				add(&parsed{Kind: kRevision, Hex: at(2)}, 5)
			}
			if at(4) == "_layers" {
				add(&parsed{Kind: kLayerLink, Hex: at(2)}, 4)
			}
		}
	}
	if at(1) == "data" {
		if hexOK(at(2)) && at(3) == "sha256" && at(4) == "_layers" {
			add(&parsed{Kind: kLayerData, Hex: at(2)}, 4)
		}
		if hexOK(at(2)) && len(at(3)) == 2 && at(4) == "sha256" && at(5) == "blobs" {
			shardOK := all(at(3), isAlnum)
			if strict {
				shardOK = at(3) == at(2)[:2]
			}
			if shardOK {
				add(&parsed{Kind: kBlobData, Hex: at(2)}, 5)
			}
		}
		if idOK(at(2)) && at(3) == "_uploads" {
			add(&parsed{Kind: kUploadData, UUID: at(2)}, 3)
		}
	}
	if at(1) == "startedat" && idOK(at(2)) && at(3) == "_uploads" {
		add(&parsed{Kind: kUploadStart, UUID: at(2)}, 3)
	}
	if offOK(at(1)) && algoOK(at(2)) && at(3) == "hashstates" && idOK(at(4)) && at(5) == "_uploads" {
		add(&parsed{Kind: kHashOffset, UUID: at(4), Algo: at(2), Offset: at(1)}, 5)
	}
	if algoOK(at(1)) && at(2) == "hashstates" && idOK(at(3)) && at(4) == "_uploads" {
		add(&parsed{Kind: kHashAlgo, UUID: at(3), Algo: at(1)}, 4)
	}
	return out
}

// parseLenient returns every reading of p as "<something>/<layout tail>" in the
// given non-strict mode. Empty = p does not follow the layout.
func parseLenient(p string, mode int) []*parsed {
	segs := strings.Split(p, "/")
	var out []*parsed
	for _, m := range tails(segs, mode) {
		if len(segs)-m.k == 0 || strings.Join(segs[:len(segs)-m.k], "/") == "" {
			continue // nothing before "/<marker>/..."
		}
		out = append(out, m.p)
	}
	return out
}

// parseStrict accepts exactly the paths build() produces from valid components.
func parseStrict(p string) *parsed {
	if rest, ok := strings.CutPrefix(p, blobRoot+"/"); ok {
		segs := append([]string{"blobs"}, strings.Split(rest, "/")...)
		for _, m := range tails(segs, modeStrict) {
			if m.p.Kind == kBlobData && m.k == len(segs) {
				return m.p
			}
		}
		return nil
	}
	rest, ok := strings.CutPrefix(p, repoRoot+"/")
	if !ok {
		return nil
	}
	segs := strings.Split(rest, "/")
	// Repository components never start with an underscore, so the repository
	// ends at the first segment that does.
	i := 0
	for i < len(segs) && !strings.HasPrefix(segs[i], "_") {
		i++
	}
	if i == 0 || i == len(segs) {
		return nil
	}
	for _, c := range segs[:i] {
		if !validRepoComponent(c) {
			return nil
		}
	}
	var found *parsed
	for _, m := range tails(segs[i:], modeStrict) {
		if m.p.Kind == kBlobData || m.k != len(segs)-i {
			continue
		}
		if found != nil {
			return nil // cannot happen for valid components; refuse to judge
		}
		found = m.p
	}
	if found != nil {
		found.Repo = strings.Join(segs[:i], "/")
	}
	return found
}
