//go:build verif

package c16

import (
	"fmt"
	"net"
	"sync"
	"time"

	"github.com/uber/kraken/core"
	"github.com/uber/kraken/lib/torrent/scheduler/connstate"
	"pgregory.net/rapid"

	"verif/internal/pbt"
	"verif/internal/schedh"
)

// Part "dial": blacklisted peers are not dialled until their blacklist expires.
//
// An in-progress torrent runs in the owned scheduler harness. Peers are real TCP
// listeners that accept and immediately close, so every dial fails its handshake and
// the scheduler blacklists that peer for BlacklistDuration. Announce responses and
// clock advances are generated; a peer must be dialled by an announce response iff
// it is not blacklisted at that time.

type DialStep struct {
	Kind    string `json:"kind"` // "announce" or "advance"
	Peers   []int  `json:"peers,omitempty"`
	Advance int    `json:"advance,omitempty"`
}

type DialCase struct {
	NPeers   int        `json:"n_peers"`
	Duration int        `json:"blacklist_s"`
	Origins  []bool     `json:"origins,omitempty"` // which peers the tracker marks as origins
	Steps    []DialStep `json:"steps"`
}

func genDial(t *rapid.T) DialCase {
	c := DialCase{NPeers: rapid.IntRange(1, 4).Draw(t, "npeers"), Duration: rapid.IntRange(5, 20).Draw(t, "dur")}
	// the tracker marks origins in its hand-out; they are peers like any other for this rule
	c.Origins = rapid.SliceOfN(rapid.Bool(), c.NPeers, c.NPeers).Draw(t, "origins")
	n := rapid.IntRange(2, 8).Draw(t, "nsteps")
	for i := 0; i < n; i++ {
		if rapid.IntRange(0, 2).Draw(t, "k") == 0 {
			c.Steps = append(c.Steps, DialStep{Kind: "advance", Advance: rapid.IntRange(1, 25).Draw(t, "adv")})
		} else {
			c.Steps = append(c.Steps, DialStep{Kind: "announce", Peers: rapid.SliceOfNDistinct(rapid.IntRange(0, c.NPeers-1), 1, c.NPeers, rapid.ID[int]).Draw(t, "peers")})
		}
	}
	return c
}

type dialPeer struct {
	l    net.Listener
	info *core.PeerInfo
	mu   sync.Mutex
	n    int
}

func (p *dialPeer) count() int {
	p.mu.Lock()
	defer p.mu.Unlock()
	return p.n
}

func runDial(c DialCase) pbt.Verdict {
	dur := time.Duration(c.Duration) * time.Second
	h, err := schedh.New(schedh.Config{Blobs: [][]byte{[]byte("0123456789abcdef")}, PieceLen: 4,
		SeederTTI: time.Hour, LeecherTTI: 1000 * time.Hour, ConnState: connstate.Config{BlacklistDuration: dur}})
	if err != nil {
		return pbt.Verdict{Discard: true, Classes: []string{"harness-setup-failed"}}
	}
	defer func() {
		h.DrainAndStop(3 * time.Second)
		h.Close()
	}()
	var peers []*dialPeer
	defer func() {
		for _, p := range peers {
			p.l.Close()
		}
	}()
	for i := 0; i < c.NPeers; i++ {
		l, err := net.Listen("tcp", "127.0.0.1:0")
		if err != nil {
			return pbt.Verdict{Discard: true, Classes: []string{"no-port"}}
		}
		id, _ := core.AddrHashPeerIDFactory.GeneratePeerID("127.0.0.1", l.Addr().(*net.TCPAddr).Port)
		origin := i < len(c.Origins) && c.Origins[i]
		p := &dialPeer{l: l, info: core.NewPeerInfo(id, "127.0.0.1", l.Addr().(*net.TCPAddr).Port, origin, false)}
		peers = append(peers, p)
		go func() {
			for {
				nc, err := l.Accept()
				if err != nil {
					return
				}
				p.mu.Lock()
				p.n++
				p.mu.Unlock()
				nc.Close()
			}
		}()
	}
	ih := h.Blobs[0].MetaInfo.InfoHash()
	h.StartDownload(0)
	for _, e := range h.VH.Pending() {
		if e.Kind == "newTorrentEvent" {
			h.ApplyID(e)
		}
	}
	for _, e := range h.VH.Pending() {
		if e.Kind == "announceResultEvent" {
			h.ApplyID(e)
		}
	}
	if h.VH.Dispatcher(ih) == nil {
		return pbt.Verdict{Discard: true, Classes: []string{"torrent-not-added"}}
	}
	until := make([]time.Time, c.NPeers) // model: blacklisted until
	var hist []string
	history := func() string {
		s := ""
		for _, l := range hist {
			s += "\n    " + l
		}
		return s
	}
	skippedBlacklisted, redialAfterExpiry := false, false
	for si, s := range c.Steps {
		if s.Kind == "advance" {
			h.Clock.Add(time.Duration(s.Advance) * time.Second)
			hist = append(hist, fmt.Sprintf("%d: +%ds", si, s.Advance))
			continue
		}
		now := h.Clock.Now()
		before := make([]int, c.NPeers)
		for i, p := range peers {
			before[i] = p.count()
		}
		var infos []*core.PeerInfo
		want := map[int]bool{}
		judged := map[int]bool{}
		for _, i := range s.Peers {
			infos = append(infos, peers[i].info)
			if now.Equal(until[i]) {
				continue // exactly at expiry: not judged
			}
			judged[i] = true
			if now.After(until[i]) {
				want[i] = true
				if !until[i].IsZero() {
					redialAfterExpiry = true
				}
			} else {
				skippedBlacklisted = true
			}
		}
		h.VH.ApplyAnnounceResult(ih, infos)
		// The event has been applied on this goroutine: which peers the scheduler decided to
		// dial is now recorded in its connection state (a dialled peer is "pending" until the
		// harness applies the event that ends the dial). Read it without waiting for anything:
		// reserving a pending slot fails for exactly those peers.
		decided := map[int]bool{}
		for _, i := range s.Peers {
			switch err := h.VH.Conns().AddPending(peers[i].info.PeerID, ih, nil); err {
			case nil:
				h.VH.Conns().DeletePending(peers[i].info.PeerID, ih)
			case connstate.ErrConnAlreadyPending:
				decided[i] = true
			default:
				return pbt.Verdict{Discard: true, Classes: []string{"probe-error:" + err.Error()}}
			}
		}
		dialledNow := func(i int) bool { return decided[i] }
		countFailed := func() int {
			k := 0
			for _, e := range h.VH.Pending() {
				if e.Kind == "failedOutgoingHandshakeEvent" {
					k++
				}
			}
			return k
		}
		// Every dial ends in an event (the listeners close accepted connections at once). A
		// machine too busy to get there in 60 s makes the case inconclusive, not a violation.
		if !schedh.WaitFor(60*time.Second, func() bool { return countFailed() >= len(decided) }) {
			return pbt.Verdict{Discard: true, Classes: []string{"dials-did-not-finish-in-60s"}}
		}
		hist = append(hist, fmt.Sprintf("%d: announce peers %v at +%s (expected dials %v)", si, s.Peers, now.Sub(time.Unix(0, 0).Add(24*time.Hour)).String(), want))
		for _, i := range s.Peers {
			if !judged[i] {
				continue
			}
			dialled := dialledNow(i)
			if want[i] && !dialled {
				return pbt.Fail("peer %d is not blacklisted (blacklist expired %s ago or never set) but an announce response listing it did not dial it\n  history:%s", i, now.Sub(until[i]), history())
			}
			if !want[i] && dialled {
				return pbt.Fail("peer %d is blacklisted for another %s but an announce response listing it dialled it\n  history:%s", i, until[i].Sub(now), history())
			}
		}
		// every dial has failed its handshake by now: apply the failure events, which blacklist the peers
		for _, e := range h.VH.Pending() {
			if e.Kind == "failedOutgoingHandshakeEvent" {
				h.ApplyID(e)
			}
		}
		for i := range want {
			until[i] = now.Add(dur)
		}
		// a peer listed exactly at its expiry instant is not judged, but whatever happened is tracked
		for _, i := range s.Peers {
			if !judged[i] && decided[i] {
				until[i] = now.Add(dur)
			}
		}
	}
	cl := []string{}
	if skippedBlacklisted {
		cl = append(cl, "announce-lists-blacklisted-peer")
	}
	if redialAfterExpiry {
		cl = append(cl, "redial-after-expiry")
	}
	return pbt.Verdict{NonTrivial: skippedBlacklisted, Classes: cl}
}

// conclusive turns a verdict of a run in which the harness could not get a call into the
// event loop within a minute (machine too busy) into a discard.
func conclusive(v pbt.Verdict) pbt.Verdict {
	if schedh.TakeInconclusive() {
		return pbt.Verdict{Discard: true, Classes: []string{"call-did-not-reach-the-loop-in-60s"}}
	}
	return v
}
