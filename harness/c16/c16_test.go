//go:build verif

// C16 — connection limits and connection states are never violated.
//
// Stateful property-based test of connstate.State: a generated history of AddPending /
// MovePendingToActive / DeletePending / DeleteActive / conn close / Blacklist /
// ClearBlacklist / clock advances over 2 torrents x 5 peers runs against the real
// State (real *conn.Conn values made through Handshaker.Accept/Establish over
// net.Pipe) in lock-step with a reference model written from the property statement
// and the documentation of State.
//
// The scheduler-level clause "blacklisted peers are not dialled until their blacklist
// expires" needs the scheduler export hook and is NOT covered here (see NOTES.md); at
// this level only State.Blacklisted — the predicate the scheduler consults — is judged.
package c16

import (
	"fmt"
	"sort"
	"testing"
	"time"

	"github.com/andres-erbsen/clock"
	"go.uber.org/zap"
	"pgregory.net/rapid"

	"github.com/uber/kraken/core"
	"github.com/uber/kraken/lib/torrent/scheduler/conn"
	"github.com/uber/kraken/lib/torrent/scheduler/connstate"

	"verif/internal/pbt"
)

const (
	opAddPending = iota
	opMoveToActive
	opDeletePending
	opDeleteActive
	opCloseConn
	opBlacklist
	opClearBlacklist
	opAdvance
)

// Op is one step of a history.
type Op struct {
	K      int   `json:"k"`
	T      int   `json:"t,omitempty"`      // torrent index
	P      int   `json:"p,omitempty"`      // peer index
	N      []int `json:"n,omitempty"`      // addPending: neighbour peer indexes (== Peers: a peer we never heard of)
	C      int   `json:"c,omitempty"`      // move/deleteActive: conn selector (0 = fresh conn / current active conn, k>0 = an older conn of the pair, -1 = fresh conn)
	Sel    int   `json:"sel,omitempty"`    // guided key / conn selector
	Guided bool  `json:"guided,omitempty"` // take the key from the model (Sel-th pending / active key) instead of T,P; addPending: neighbours from the model
	Adv    int   `json:"adv,omitempty"`    // advance: whole seconds
}

// Case is one generated history.
type Case struct {
	Torrents         int  `json:"torrents"`
	Peers            int  `json:"peers"`
	MaxConns         int  `json:"max_conns"`  // MaxOpenConnectionsPerTorrent
	MaxMutual        int  `json:"max_mutual"` // MaxMutualConnections; 0 = documented default "no limit"
	DisableBlacklist bool `json:"disable_blacklist"`
	BlacklistHalfSec int  `json:"blacklist_half_sec"` // odd: the clock moves in whole seconds and never stands on an expiry instant
	Ops              []Op `json:"ops"`
}

func gen(t *rapid.T) Case {
	c := Case{
		Torrents:         2,
		Peers:            5,
		MaxConns:         rapid.IntRange(1, 4).Draw(t, "maxConns"),
		MaxMutual:        rapid.SampledFrom([]int{0, 1, 1, 2, 2}).Draw(t, "maxMutual"),
		DisableBlacklist: rapid.IntRange(0, 9).Draw(t, "disableBlacklist") == 0,
		BlacklistHalfSec: rapid.SampledFrom([]int{5, 11, 21}).Draw(t, "blacklist"),
	}
	opGen := rapid.Custom(func(t *rapid.T) Op {
		// weights: add 7, move 6, delPending 2, delActive 5, close 1, blacklist 3, clearBlacklist 1, advance 3
		w := rapid.IntRange(0, 27).Draw(t, "w")
		op := Op{T: rapid.IntRange(0, c.Torrents-1).Draw(t, "t"), P: rapid.IntRange(0, c.Peers-1).Draw(t, "p")}
		switch {
		case w < 7:
			op.K = opAddPending
			// neighbours: distinct peers other than P, sometimes one we never heard of
			op.Guided = rapid.Bool().Draw(t, "guidedNb") // neighbours = every peer we are connected to, minus Sel of them
			op.Sel = rapid.SampledFrom([]int{0, 0, 0, 1, 2}).Draw(t, "drop")
			for q := 0; q <= c.Peers; q++ {
				if q != op.P && rapid.IntRange(0, 2).Draw(t, "nb") == 0 {
					op.N = append(op.N, q)
				}
			}
		case w < 13:
			op.K = opMoveToActive
			op.Guided = rapid.IntRange(0, 3).Draw(t, "guided") != 0
			op.Sel = rapid.IntRange(0, 7).Draw(t, "sel")
			if rapid.IntRange(0, 3).Draw(t, "oldConn") == 0 {
				op.C = rapid.IntRange(1, 4).Draw(t, "c")
			}
		case w < 15:
			op.K = opDeletePending
			op.Guided = rapid.IntRange(0, 3).Draw(t, "guided") != 0
			op.Sel = rapid.IntRange(0, 7).Draw(t, "sel")
		case w < 20:
			op.K = opDeleteActive
			op.Guided = rapid.IntRange(0, 3).Draw(t, "guided") != 0
			op.Sel = rapid.IntRange(0, 7).Draw(t, "sel")
			switch rapid.IntRange(0, 3).Draw(t, "which") {
			case 0:
				op.C = rapid.IntRange(1, 4).Draw(t, "c") // an older conn of the pair
			case 1:
				op.C = -1 // a conn of the pair that never became active
			}
		case w < 21:
			op.K = opCloseConn
			op.Sel = rapid.IntRange(0, 15).Draw(t, "sel")
		case w < 24:
			op.K = opBlacklist
		case w < 25:
			op.K = opClearBlacklist
		default:
			op.K = opAdvance
			op.Adv = rapid.IntRange(1, 12).Draw(t, "adv")
		}
		return op
	})
	minLen := rapid.IntRange(1, 30).Draw(t, "minLen")
	c.Ops = rapid.SliceOfN(opGen, minLen, 45).Draw(t, "ops")
	return c
}

func peerID(i int) core.PeerID {
	var p core.PeerID
	p[0] = byte(i + 1)
	p[19] = byte(0xD0 + i)
	return p
}

// manualClock: the library mock with Now under direct control (State only reads the time).
type manualClock struct {
	clock.Clock
	now time.Time
}

func (c *manualClock) Now() time.Time { return c.now }

const (
	stNone = iota
	stPending
	stActive
)

type key struct{ t, p int }

type runner struct {
	c       Case
	f       *fixtures
	cf      *connFactory
	st      *connstate.State
	clk     *manualClock
	classes map[string]bool

	// reference model
	status map[key]int
	active map[key]*conn.Conn
	black  map[key]int // expiry, half seconds
	now    int         // half seconds

	made map[key][]*conn.Conn // every conn ever made for the key, in order
	all  []*conn.Conn
}

func (r *runner) hash(t int) core.InfoHash { return r.f.infos[t].InfoHash() }

func (r *runner) maxMutual() int {
	if r.c.MaxMutual == 0 {
		return 1 << 30 // "Defaults to no mutual connection limit."
	}
	return r.c.MaxMutual
}

func (r *runner) count(t int) (pending, active int) {
	for p := 0; p < r.c.Peers; p++ {
		switch r.status[key{t, p}] {
		case stPending:
			pending++
		case stActive:
			active++
		}
	}
	return
}

func (r *runner) keysWith(st int) []key {
	var out []key
	for t := 0; t < r.c.Torrents; t++ {
		for p := 0; p < r.c.Peers; p++ {
			if r.status[key{t, p}] == st {
				out = append(out, key{t, p})
			}
		}
	}
	return out
}

func (r *runner) blacklisted(k key) bool {
	exp, ok := r.black[k]
	return ok && exp > r.now
}

func (r *runner) newConn(k key) (*conn.Conn, error) {
	c, err := r.cf.get(peerID(k.p), k.t)
	if err != nil {
		return nil, err
	}
	r.made[k] = append(r.made[k], c)
	r.all = append(r.all, c)
	return c, nil
}

func (r *runner) connName(c *conn.Conn) string {
	for k, cs := range r.made {
		for i, x := range cs {
			if x == c {
				return fmt.Sprintf("conn#%d(torrent %d, peer %d)", i+1, k.t, k.p)
			}
		}
	}
	return "conn?"
}

// observe compares every public observer of State with the model.
func (r *runner) observe(step int, what string) string {
	// ActiveConns
	got := r.st.ActiveConns()
	sort.Slice(got, func(a, b int) bool { return r.connName(got[a]) < r.connName(got[b]) }) // map order -> stable messages
	seen := map[*conn.Conn]bool{}
	for _, c := range got {
		if seen[c] {
			return fmt.Sprintf("ActiveConns lists a connection twice\nstep %d (%s): %s", step, what, r.connName(c))
		}
		seen[c] = true
	}
	for t := 0; t < r.c.Torrents; t++ {
		for p := 0; p < r.c.Peers; p++ {
			k := key{t, p}
			if r.status[k] == stActive && !seen[r.active[k]] {
				// was it replaced by / removed on behalf of another conn?
				for _, c := range got {
					if c.PeerID() == peerID(p) && c.InfoHash() == r.hash(t) {
						return fmt.Sprintf("active connection is a different one than the model's\nstep %d (%s): torrent %d peer %d: State has %s, model %s", step, what, t, p, r.connName(c), r.connName(r.active[k]))
					}
				}
				return fmt.Sprintf("active connection missing from ActiveConns\nstep %d (%s): torrent %d peer %d %s", step, what, t, p, r.connName(r.active[k]))
			}
		}
	}
	for _, c := range got {
		found := false
		for k, a := range r.active {
			if a == c && r.status[k] == stActive {
				found = true
			}
		}
		if !found {
			return fmt.Sprintf("ActiveConns lists a connection that is not active\nstep %d (%s): %s", step, what, r.connName(c))
		}
	}
	// Saturated: "true if h is at capacity and all the conns are active"
	for t := 0; t < r.c.Torrents; t++ {
		pending, active := r.count(t)
		if pending+active > r.c.MaxConns {
			return fmt.Sprintf("pending plus active connections exceed the maximum\nstep %d (%s): torrent %d has %d pending + %d active, max %d", step, what, t, pending, active, r.c.MaxConns)
		}
		want := pending+active == r.c.MaxConns && pending == 0
		if g := r.st.Saturated(r.hash(t)); g != want {
			return fmt.Sprintf("Saturated disagrees with the model\nstep %d (%s): torrent %d: got %v, model has %d pending %d active of max %d", step, what, t, g, pending, active, r.c.MaxConns)
		}
		if want {
			r.classes["saturated"] = true
		}
	}
	// Blacklisted
	nblack := 0
	for t := 0; t < r.c.Torrents; t++ {
		for p := 0; p < r.c.Peers; p++ {
			k := key{t, p}
			want := r.blacklisted(k)
			if want {
				nblack++
			}
			if g := r.st.Blacklisted(peerID(p), r.hash(t)); g != want {
				if want {
					return fmt.Sprintf("blacklisted connection reported as not blacklisted before its expiry\nstep %d (%s): torrent %d peer %d, expires at %.1fs, now %.1fs", step, what, t, p, float64(r.black[k])/2, float64(r.now)/2)
				}
				return fmt.Sprintf("connection reported as blacklisted although it is not\nstep %d (%s): torrent %d peer %d, now %.1fs", step, what, t, p, float64(r.now)/2)
			}
		}
	}
	// BlacklistSnapshot: every unexpired entry must be the model's, with the model's remaining
	// time; all model entries must be present. (Entries with no time remaining are ignored: the
	// code keeps expired entries in the snapshot and the statement is silent on it.)
	live := 0
	for _, b := range r.st.BlacklistSnapshot() {
		if b.Remaining <= 0 {
			r.classes["snapshot-lists-expired-entry"] = true
			continue
		}
		live++
		var k key
		k.t, k.p = -1, -1
		for t := 0; t < r.c.Torrents; t++ {
			if r.hash(t) == b.InfoHash {
				k.t = t
			}
		}
		for p := 0; p < r.c.Peers; p++ {
			if peerID(p) == b.PeerID {
				k.p = p
			}
		}
		if k.t < 0 || k.p < 0 || !r.blacklisted(k) {
			return fmt.Sprintf("BlacklistSnapshot lists a connection that is not blacklisted\nstep %d (%s): torrent %d peer %d remaining %s", step, what, k.t, k.p, b.Remaining)
		}
		if want := time.Duration(r.black[k]-r.now) * 500 * time.Millisecond; b.Remaining != want {
			return fmt.Sprintf("BlacklistSnapshot remaining time disagrees with the model\nstep %d (%s): torrent %d peer %d got %s want %s", step, what, k.t, k.p, b.Remaining, want)
		}
	}
	if live != nblack {
		return fmt.Sprintf("BlacklistSnapshot omits a blacklisted connection\nstep %d (%s): %d unexpired entries, model has %d", step, what, live, nblack)
	}
	return ""
}

func run(c Case) pbt.Verdict {
	if c.Torrents < 1 || c.Torrents > 3 || c.Peers < 1 || c.Peers > 8 || c.MaxConns < 1 || c.MaxMutual < 0 ||
		c.BlacklistHalfSec < 1 || c.BlacklistHalfSec%2 == 0 {
		return pbt.Verdict{Discard: true}
	}
	f, err := getFixtures()
	if err != nil {
		return pbt.Verdict{Discard: true}
	}
	r := &runner{c: c, f: f, cf: &connFactory{f: f}, classes: map[string]bool{},
		status: map[key]int{}, active: map[key]*conn.Conn{}, black: map[key]int{}, made: map[key][]*conn.Conn{}}
	defer r.cf.cleanup()
	r.clk = &manualClock{Clock: clock.NewMock(), now: time.Unix(1_600_000_000, 0)}
	var local core.PeerID
	local[0], local[19] = 0xEE, 0x01
	r.st = connstate.New(connstate.Config{
		MaxOpenConnectionsPerTorrent: c.MaxConns,
		MaxMutualConnections:         c.MaxMutual,
		DisableBlacklist:             c.DisableBlacklist,
		BlacklistDuration:            time.Duration(c.BlacklistHalfSec) * 500 * time.Millisecond,
	}, r.clk, local, discardProducer(), zap.NewNop().Sugar())

	infra := func(err error) pbt.Verdict {
		// a handshake over net.Pipe failed (only possible under extreme load): not judged
		return pbt.Verdict{Discard: true, Classes: []string{"infrastructure: " + err.Error()}}
	}

	var capacityRefusals, mutualRefusals, staleDeletes int

	// moveToActive applies MovePendingToActive(cn) for key k and judges the result.
	moveToActive := func(step int, what string, k key, cn *conn.Conn) string {
		closed := cn.IsClosed()
		pending := r.status[k] == stPending
		err := r.st.MovePendingToActive(cn)
		switch err {
		case nil:
			if closed {
				return fmt.Sprintf("closed connection became active\nstep %d (%s)", step, what)
			}
			if !pending {
				return fmt.Sprintf("connection became active without being pending\nstep %d (%s): model status of torrent %d peer %d is %d (0 none, 2 active)", step, what, k.t, k.p, r.status[k])
			}
			r.status[k] = stActive
			r.active[k] = cn
			r.classes["moved-to-active"] = true
		case connstate.ErrConnClosed:
			if !closed {
				return fmt.Sprintf("MovePendingToActive reports an open connection as closed\nstep %d (%s)", step, what)
			}
			r.classes["move-refused-closed"] = true
		case connstate.ErrInvalidActiveTransition:
			if pending && !closed {
				return fmt.Sprintf("MovePendingToActive refuses a pending connection\nstep %d (%s): torrent %d peer %d is pending in the model", step, what, k.t, k.p)
			}
			if pending {
				return fmt.Sprintf("MovePendingToActive reports a pending connection as not pending\nstep %d (%s)", step, what)
			}
			r.classes["move-refused-not-pending"] = true
		default:
			return fmt.Sprintf("MovePendingToActive returns an undocumented error\nstep %d (%s): %v", step, what, err)
		}
		return ""
	}

	for step, op := range c.Ops {
		if op.T < 0 || op.T >= c.Torrents || op.P < 0 || op.P >= c.Peers {
			return pbt.Verdict{Discard: true}
		}
		k := key{op.T, op.P}
		var what string
		switch op.K {
		case opAddPending:
			if op.Guided {
				op.N = nil
				skip := op.Sel
				for q := 0; q < c.Peers; q++ {
					if q != op.P && r.status[key{op.T, q}] != stNone {
						if skip > 0 {
							skip--
							continue
						}
						op.N = append(op.N, q)
					}
				}
			}
			var nbs []core.PeerID
			mutual := 0
			dup := map[int]bool{}
			for _, q := range op.N {
				if q < 0 || q > c.Peers || q == op.P || dup[q] {
					return pbt.Verdict{Discard: true}
				}
				dup[q] = true
				nbs = append(nbs, peerID(q))
				if q < c.Peers && r.status[key{op.T, q}] != stNone {
					mutual++
				}
			}
			what = fmt.Sprintf("AddPending(torrent %d, peer %d, neighbours %v)", op.T, op.P, op.N)
			pending, active := r.count(op.T)
			atCapacity := pending+active >= c.MaxConns
			tooManyMutual := mutual > r.maxMutual()
			err := r.st.AddPending(peerID(op.P), r.hash(op.T), nbs)
			switch err {
			case nil:
				switch {
				case atCapacity:
					return pbt.Fail("AddPending accepted although the torrent is at capacity\nstep %d (%s): %d pending + %d active, max %d", step, what, pending, active, c.MaxConns)
				case r.status[k] == stPending:
					return pbt.Fail("AddPending accepted for a peer that is already pending\nstep %d (%s)", step, what)
				case r.status[k] == stActive:
					return pbt.Fail("AddPending accepted for a peer that is already active (peer both pending and active)\nstep %d (%s)", step, what)
				case tooManyMutual:
					return pbt.Fail("AddPending accepted although too many neighbours are already connected\nstep %d (%s): %d mutual connections, max %d", step, what, mutual, r.maxMutual())
				}
				r.status[k] = stPending
				r.classes["added-pending"] = true
				if mutual > 0 && mutual == r.maxMutual() {
					r.classes["mutual-at-limit-accepted"] = true
				}
			case connstate.ErrTorrentAtCapacity:
				if !atCapacity {
					return pbt.Fail("AddPending refused for capacity although the torrent has room\nstep %d (%s): %d pending + %d active, max %d", step, what, pending, active, c.MaxConns)
				}
				capacityRefusals++
				r.classes["refused-at-capacity"] = true
			case connstate.ErrConnAlreadyPending:
				if r.status[k] != stPending {
					return pbt.Fail("AddPending reports a connection as pending that is not\nstep %d (%s): model status %d", step, what, r.status[k])
				}
				r.classes["refused-already-pending"] = true
			case connstate.ErrConnAlreadyActive:
				if r.status[k] != stActive {
					return pbt.Fail("AddPending reports a connection as active that is not\nstep %d (%s): model status %d", step, what, r.status[k])
				}
				r.classes["refused-already-active"] = true
			case connstate.ErrTooManyMutualConns:
				if !tooManyMutual {
					return pbt.Fail("AddPending refused for mutual connections although within the limit\nstep %d (%s): %d mutual connections, max %d", step, what, mutual, r.maxMutual())
				}
				mutualRefusals++
				r.classes["refused-mutual"] = true
			default:
				return pbt.Fail("AddPending returns an undocumented error\nstep %d (%s): %v", step, what, err)
			}
		case opMoveToActive:
			if op.Guided {
				if ks := r.keysWith(stPending); len(ks) > 0 {
					k = ks[op.Sel%len(ks)]
				}
			}
			var cn *conn.Conn
			if op.C > 0 && len(r.made[k]) > 0 {
				cn = r.made[k][(op.C-1)%len(r.made[k])]
				r.classes["move-with-old-conn"] = true
			} else {
				var err error
				if cn, err = r.newConn(k); err != nil {
					return infra(err)
				}
			}
			what = fmt.Sprintf("MovePendingToActive(%s)", r.connName(cn))
			if msg := moveToActive(step, what, k, cn); msg != "" {
				return pbt.Verdict{Violation: msg, NonTrivial: true}
			}
		case opDeletePending:
			if op.Guided {
				if ks := r.keysWith(stPending); len(ks) > 0 {
					k = ks[op.Sel%len(ks)]
				}
			}
			what = fmt.Sprintf("DeletePending(torrent %d, peer %d)", k.t, k.p)
			r.st.DeletePending(peerID(k.p), r.hash(k.t))
			switch r.status[k] {
			case stPending:
				r.status[k] = stNone
				r.classes["deleted-pending"] = true
			case stActive:
				r.classes["delete-pending-on-active-noop"] = true
			}
		case opDeleteActive:
			if op.Guided {
				if ks := r.keysWith(stActive); len(ks) > 0 {
					k = ks[op.Sel%len(ks)]
				}
			}
			var cn *conn.Conn
			var older []*conn.Conn
			for _, x := range r.made[k] {
				if r.status[k] != stActive || x != r.active[k] {
					older = append(older, x)
				}
			}
			switch {
			case op.C > 0 && len(older) > 0:
				cn = older[(op.C-1)%len(older)]
			case op.C == 0 && r.status[k] == stActive:
				cn = r.active[k]
			default:
				var err error
				if cn, err = r.newConn(k); err != nil {
					return infra(err)
				}
			}
			what = fmt.Sprintf("DeleteActive(%s)", r.connName(cn))
			r.st.DeleteActive(cn)
			switch {
			case r.status[k] == stActive && r.active[k] == cn:
				r.status[k] = stNone
				delete(r.active, k)
				r.classes["deleted-active"] = true
			case r.status[k] == stActive:
				// an older (or never activated) conn of the same peer and torrent: must not touch the current one
				staleDeletes++
				r.classes["stale-delete-vs-replaced-conn"] = true
				still := false
				for _, a := range r.st.ActiveConns() {
					if a == r.active[k] {
						still = true
					}
				}
				if !still {
					return pbt.Fail("DeleteActive of another connection removed the current connection of the same peer and torrent\nstep %d (%s): current %s is gone", step, what, r.connName(r.active[k]))
				}
			case r.status[k] == stPending:
				r.classes["delete-active-on-pending-noop"] = true
			}
		case opCloseConn:
			if len(r.all) == 0 {
				r.classes["close-skipped-no-conn"] = true
				continue
			}
			cn := r.all[op.Sel%len(r.all)]
			what = fmt.Sprintf("close %s", r.connName(cn))
			r.cf.close(cn)
			r.classes["conn-closed"] = true
		case opBlacklist:
			what = fmt.Sprintf("Blacklist(torrent %d, peer %d)", k.t, k.p)
			was := r.blacklisted(k)
			err := r.st.Blacklist(peerID(k.p), r.hash(k.t))
			switch {
			case c.DisableBlacklist:
				if err != nil {
					return pbt.Fail("Blacklist fails although blacklisting is disabled\nstep %d (%s): %v", step, what, err)
				}
			case was && err == nil:
				return pbt.Fail("Blacklist of an already blacklisted connection reports success\nstep %d (%s)", step, what)
			case !was && err != nil:
				return pbt.Fail("Blacklist refuses a connection that is not blacklisted\nstep %d (%s): %v", step, what, err)
			case !was:
				if _, ok := r.black[k]; ok {
					r.classes["re-blacklist-after-expiry"] = true
				}
				r.black[k] = r.now + c.BlacklistHalfSec
				r.classes["blacklisted"] = true
			default:
				r.classes["blacklist-refused-already"] = true
			}
		case opClearBlacklist:
			what = fmt.Sprintf("ClearBlacklist(torrent %d)", op.T)
			r.st.ClearBlacklist(r.hash(op.T))
			for p := 0; p < c.Peers; p++ {
				if r.blacklisted(key{op.T, p}) {
					r.classes["cleared-live-blacklist"] = true
				}
				delete(r.black, key{op.T, p})
			}
		case opAdvance:
			if op.Adv < 0 || op.Adv > 3600 {
				return pbt.Verdict{Discard: true}
			}
			what = fmt.Sprintf("advance %ds", op.Adv)
			before := 0
			for k := range r.black {
				if r.blacklisted(k) {
					before++
				}
			}
			r.clk.now = r.clk.now.Add(time.Duration(op.Adv) * time.Second)
			r.now += 2 * op.Adv
			for k := range r.black {
				if r.blacklisted(k) {
					before--
				}
			}
			if before > 0 {
				r.classes["blacklist-expired"] = true
			}
		default:
			return pbt.Verdict{Discard: true}
		}
		if msg := r.observe(step, what); msg != "" {
			return pbt.Verdict{Violation: msg, NonTrivial: true}
		}
	}

	// Final probe of the pending set (the only state with no read accessor): a fresh
	// connection can become active exactly for the peers the model has pending.
	for t := 0; t < c.Torrents; t++ {
		for p := 0; p < c.Peers; p++ {
			k := key{t, p}
			cn, err := r.newConn(k)
			if err != nil {
				return infra(err)
			}
			what := fmt.Sprintf("final probe MovePendingToActive(%s)", r.connName(cn))
			if msg := moveToActive(len(c.Ops), what, k, cn); msg != "" {
				return pbt.Verdict{Violation: msg, NonTrivial: true}
			}
			if msg := r.observe(len(c.Ops), what); msg != "" {
				return pbt.Verdict{Violation: msg, NonTrivial: true}
			}
		}
	}

	var cl []string
	for k := range r.classes {
		cl = append(cl, k)
	}
	sort.Strings(cl)
	kinds := 0
	for _, n := range []int{capacityRefusals, mutualRefusals, staleDeletes} {
		if n > 0 {
			kinds++
		}
	}
	return pbt.Verdict{NonTrivial: kinds >= 2, Classes: cl, Evals: len(c.Ops) + c.Torrents*c.Peers}
}

func TestProp(t *testing.T) {
	pbt.Main(t, pbt.Spec{
		ID:   "C16",
		Rule: "part state: histories of <=45 operations (AddPending with a generated neighbour list, MovePendingToActive with a fresh or an older connection, DeletePending, DeleteActive with the current, an older or a never-activated connection of the same peer and torrent, closing a connection, Blacklist, ClearBlacklist, clock advances of 1-12 s against a blacklist duration of 2.5/5.5/10.5 s) over 2 torrents x 5 peers with MaxOpenConnectionsPerTorrent 1-4 and MaxMutualConnections 0(=no limit)-2, applied to the real connstate.State with real conn.Conn values (Handshaker.Accept/Establish over net.Pipe) on a controlled clock; a reference model (torrent,peer) -> none|pending|active(conn) plus blacklist expiry predicts every result: an accepted operation must be allowed by the model and every returned error must name a cause that is true in the model; after every step ActiveConns, Saturated, Blacklisted of every pair and the unexpired part of BlacklistSnapshot are compared with the model; at the end a fresh connection per pair probes the pending set; evaluations = steps + probes; non-trivial = the history contains at least two of: a refusal at capacity, a refusal for too many mutual connections, a DeleteActive of an older/never-active connection while a newer one is active; distinct by case hash. part dial: an in-progress torrent in the owned scheduler harness with 1-4 peers that are real TCP listeners (accept and close, so each dial fails and the peer is blacklisted); generated announce responses and clock advances; a listed peer must be dialled iff it is not blacklisted at that time (listener accept counts), non-trivial = an announce lists a blacklisted peer",
		Assumptions: []string{
			"reference model of connection states written from the property statement and the doc comments of connstate.State",
			"when several refusal causes apply to one AddPending/MovePendingToActive any of the applicable errors is accepted",
			"the clock never stands exactly on a blacklist expiry instant (durations x.5 s, whole-second advances)",
			"entries of BlacklistSnapshot with no remaining time are ignored",
			"part dial: the scheduler-level clause (blacklisted peers are not dialled) is exercised through the owned scheduler harness with real TCP listeners standing in for peers",
		},
		Parts: []pbt.Part{pbt.NewPart("state", 40, gen, run), pbt.NewPart("dial", 1, genDial, func(c DialCase) pbt.Verdict { return conclusive(runDial(c)) })},
	})
}
