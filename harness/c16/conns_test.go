package c16

import (
	"bytes"
	"encoding/binary"
	"fmt"
	"io"
	"net"
	"sync"
	"sync/atomic"
	"time"

	"github.com/andres-erbsen/clock"
	"github.com/golang/protobuf/proto"
	"github.com/uber-go/tally"
	"go.uber.org/zap"

	"github.com/uber/kraken/core"
	"github.com/uber/kraken/gen/go/proto/p2p"
	"github.com/uber/kraken/lib/torrent/networkevent"
	"github.com/uber/kraken/lib/torrent/scheduler/conn"
	"github.com/uber/kraken/lib/torrent/storage"
	"github.com/uber/kraken/utils/bitsetutil"
)

// closeCounter is the conn.Events sink of the harness handshaker.
type closeCounter struct{ n int64 }

func (e *closeCounter) ConnClosed(*conn.Conn) { atomic.AddInt64(&e.n, 1) }

// fixtures are built once per process: our handshaker and the torrents.
type fixtures struct {
	hs     *conn.Handshaker
	events *closeCounter
	infos  []*storage.TorrentInfo
}

var (
	fixOnce sync.Once
	fix     *fixtures
	fixErr  error
)

func discardProducer() networkevent.Producer { return discard{} }

type discard struct{}

func (discard) Produce(*networkevent.Event) {}
func (discard) Close() error                { return nil }

func getFixtures() (*fixtures, error) {
	fixOnce.Do(func() {
		f := &fixtures{events: &closeCounter{}}
		var local core.PeerID
		local[0], local[19] = 0xEE, 0x01
		hs, err := conn.NewHandshaker(conn.Config{}, tally.NoopScope, clock.New(), discardProducer(), local, f.events, zap.NewNop().Sugar())
		if err != nil {
			fixErr = err
			return
		}
		f.hs = hs
		for i := 0; i < 3; i++ {
			blob := bytes.Repeat([]byte{byte('a' + i)}, 64)
			d, err := core.NewDigester().FromBytes(blob)
			if err != nil {
				fixErr = err
				return
			}
			mi, err := core.NewMetaInfo(d, bytes.NewReader(blob), 16)
			if err != nil {
				fixErr = err
				return
			}
			bools := make([]bool, mi.NumPieces())
			f.infos = append(f.infos, storage.NewTorrentInfo(mi, bitsetutil.FromBools(bools...)))
		}
		fix = f
	})
	return fix, fixErr
}

// connFactory makes real *conn.Conn values with a chosen remote peer id and torrent
// through the exported handshake path (Handshaker.Accept + Establish) over net.Pipe.
// The remote side is a goroutine that writes a handshake frame (4-byte big-endian
// length + protobuf BITFIELD message, the documented wire format) and swallows ours.
type connFactory struct {
	f     *fixtures
	conns []*conn.Conn // conns handed to the current case
}

type poolKey struct {
	torrent int
	peer    core.PeerID
}

// Open conns are kept between cases of one process (State never changes a conn; conns
// are never started), which saves most handshakes. A case never gets the same conn twice.
var (
	connPool   = map[poolKey][]*conn.Conn{}
	remoteEnds = map[*conn.Conn]net.Conn{}
)

// get returns an open conn for (peer, torrent) that the current case has not seen yet.
func (cf *connFactory) get(peer core.PeerID, torrent int) (*conn.Conn, error) {
	k := poolKey{torrent, peer}
	for len(connPool[k]) > 0 {
		n := len(connPool[k])
		c := connPool[k][n-1]
		connPool[k] = connPool[k][:n-1]
		if !c.IsClosed() {
			cf.conns = append(cf.conns, c)
			return c, nil
		}
	}
	return cf.newConn(peer, torrent)
}

func (cf *connFactory) newConn(peer core.PeerID, torrent int) (*conn.Conn, error) {
	info := cf.f.infos[torrent]
	bf, err := info.Bitfield().MarshalBinary()
	if err != nil {
		return nil, err
	}
	msg := &p2p.Message{
		Type: p2p.Message_BITFIELD,
		Bitfield: &p2p.BitfieldMessage{
			PeerID:        peer.String(),
			Name:          info.Digest().Hex(),
			InfoHash:      info.InfoHash().String(),
			BitfieldBytes: bf,
		},
	}
	data, err := proto.Marshal(msg)
	if err != nil {
		return nil, err
	}
	local, remote := net.Pipe()
	errc := make(chan error, 1)
	go func() {
		var hdr [4]byte
		binary.BigEndian.PutUint32(hdr[:], uint32(len(data)))
		if _, err := remote.Write(append(hdr[:], data...)); err != nil {
			errc <- err
			return
		}
		if _, err := io.ReadFull(remote, hdr[:]); err != nil {
			errc <- err
			return
		}
		_, err := io.CopyN(io.Discard, remote, int64(binary.BigEndian.Uint32(hdr[:])))
		errc <- err
	}()
	fail := func(err error) (*conn.Conn, error) {
		local.Close()
		remote.Close()
		<-errc
		return nil, err
	}
	pc, err := cf.f.hs.Accept(local)
	if err != nil {
		return fail(err)
	}
	c, err := cf.f.hs.Establish(pc, info, nil)
	if err != nil {
		return fail(err)
	}
	if err := <-errc; err != nil {
		local.Close()
		remote.Close()
		return nil, err
	}
	if c.PeerID() != peer || c.InfoHash() != info.InfoHash() {
		local.Close()
		remote.Close()
		return nil, fmt.Errorf("handshake produced conn for %s/%s", c.PeerID(), c.InfoHash())
	}
	cf.conns = append(cf.conns, c)
	remoteEnds[c] = remote
	return c, nil
}

// closesRequested counts Close calls on open conns; each ends in one ConnClosed callback.
var closesRequested int64

func (cf *connFactory) close(c *conn.Conn) {
	if !c.IsClosed() {
		atomic.AddInt64(&closesRequested, 1)
	}
	c.Close()
}

// cleanup returns open conns to the pool, releases closed ones and waits (structurally,
// generously) for the close goroutines started by the case.
func (cf *connFactory) cleanup() {
	for _, c := range cf.conns {
		if c.IsClosed() {
			if r := remoteEnds[c]; r != nil {
				r.Close()
			}
			delete(remoteEnds, c)
			continue
		}
		k := poolKey{-1, c.PeerID()}
		for t, info := range cf.f.infos {
			if info.InfoHash() == c.InfoHash() {
				k.torrent = t
			}
		}
		connPool[k] = append(connPool[k], c)
	}
	cf.conns = nil
	deadline := time.Now().Add(10 * time.Second)
	for atomic.LoadInt64(&cf.f.events.n) < atomic.LoadInt64(&closesRequested) && time.Now().Before(deadline) {
		time.Sleep(100 * time.Microsecond)
	}
}
