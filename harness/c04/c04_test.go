// C04 — an agent crash at any point never yields a wrong cached blob.
//
// Engine E2 (internal/crashfs): a generated download workload (CreateTorrent,
// piece writes in a drawn order with some rejected writes, automatic commit) runs
// in a child under ptrace; the agent's download+cache directories are snapshotted
// before every mutating system call; every snapshot is restarted from in-process.
package c04

import (
	"bytes"
	"encoding/json"
	"fmt"
	"io"
	"os"
	"path/filepath"
	"sort"
	"testing"

	"github.com/uber-go/tally"
	"github.com/uber/kraken/core"
	"github.com/uber/kraken/lib/store"
	"github.com/uber/kraken/lib/torrent/storage"
	"github.com/uber/kraken/lib/torrent/storage/agentstorage"
	"github.com/uber/kraken/lib/torrent/storage/piecereader"
	"github.com/uber/kraken/utils/log"
	"go.uber.org/zap"
	"pgregory.net/rapid"

	"verif/internal/crashfs"
	"verif/internal/pbt"
)

// Op kinds: "create" (CreateTorrent), "piece" (WritePiece; Mode 0 correct, 1 corrupted byte, 2 wrong length).
type Op struct {
	Kind  string `json:"kind"`
	Index int    `json:"index,omitempty"`
	Mode  int    `json:"mode,omitempty"`
}

type Case struct {
	Blob     []byte `json:"blob"`
	PieceLen int    `json:"piece_len"`
	Ops      []Op   `json:"ops"`
}

func numPieces(c Case) int {
	if len(c.Blob) == 0 {
		return 0
	}
	return (len(c.Blob) + c.PieceLen - 1) / c.PieceLen
}

func gen(t *rapid.T) Case {
	var c Case
	l := rapid.IntRange(0, 48).Draw(t, "len")
	if l > 0 && rapid.IntRange(0, 9).Draw(t, "tiny") == 0 {
		l = 1
	}
	c.Blob = rapid.SliceOfN(rapid.Byte(), l, l).Draw(t, "blob")
	minPL := 1
	if l > 8 {
		minPL = (l + 7) / 8
	}
	c.PieceLen = rapid.IntRange(minPL, l+1).Draw(t, "pl")
	n := numPieces(c)
	c.Ops = append(c.Ops, Op{Kind: "create"})
	order := rapid.Permutation(seq(n)).Draw(t, "order")
	keep := n
	if n > 0 && rapid.IntRange(0, 3).Draw(t, "partial") == 0 {
		keep = rapid.IntRange(0, n).Draw(t, "keep")
	}
	for _, pi := range order[:keep] {
		if rapid.IntRange(0, 4).Draw(t, "bad") == 0 {
			c.Ops = append(c.Ops, Op{Kind: "piece", Index: pi, Mode: rapid.IntRange(1, 2).Draw(t, "mode")})
		}
		c.Ops = append(c.Ops, Op{Kind: "piece", Index: pi})
		if rapid.IntRange(0, 7).Draw(t, "again") == 0 {
			c.Ops = append(c.Ops, Op{Kind: "create"})
		}
	}
	return c
}

func seq(n int) []int {
	s := make([]int, n)
	for i := range s {
		s[i] = i
	}
	return s
}

// ---- environment shared by child and recovery ----

type fakeMetaInfoClient struct{ mi *core.MetaInfo }

func (f fakeMetaInfoClient) Download(namespace string, d core.Digest) (*core.MetaInfo, error) {
	return f.mi, nil
}

type agent struct {
	cads    *store.CADownloadStore
	archive *agentstorage.TorrentArchive
	mi      *core.MetaInfo
	digest  core.Digest
}

func newAgent(c Case, root string) (*agent, error) {
	d, err := core.NewDigester().FromBytes(c.Blob)
	if err != nil {
		return nil, err
	}
	mi, err := core.NewMetaInfo(d, bytes.NewReader(c.Blob), int64(c.PieceLen))
	if err != nil {
		return nil, err
	}
	cads, err := store.NewCADownloadStore(store.CADownloadStoreConfig{
		DownloadDir:     filepath.Join(root, "download"),
		CacheDir:        filepath.Join(root, "cache"),
		DownloadCleanup: store.CleanupConfig{Disabled: true},
		CacheCleanup:    store.CleanupConfig{Disabled: true},
	}, tally.NoopScope)
	if err != nil {
		return nil, err
	}
	return &agent{cads: cads, archive: agentstorage.NewTorrentArchive(tally.NoopScope, cads, fakeMetaInfoClient{mi}), mi: mi, digest: d}, nil
}

func pieceBytes(c Case, i int) []byte {
	lo := i * c.PieceLen
	hi := lo + c.PieceLen
	if hi > len(c.Blob) {
		hi = len(c.Blob)
	}
	return c.Blob[lo:hi]
}

func payload(c Case, op Op) []byte {
	p := append([]byte{}, pieceBytes(c, op.Index)...)
	switch op.Mode {
	case 1:
		if len(p) > 0 {
			p[len(p)/2] ^= 0x5a
		}
	case 2:
		p = append(p, 0x77)
	}
	return p
}

func TestMain(m *testing.M) {
	log.SetGlobalLogger(zap.NewNop().Sugar())
	if cf := os.Getenv(crashfs.ChildEnv); cf != "" {
		childMain(cf)
		os.Exit(0)
	}
	os.Exit(m.Run())
}

func childMain(caseFile string) {
	b, err := os.ReadFile(caseFile)
	if err != nil {
		os.Exit(3)
	}
	var c Case
	if json.Unmarshal(b, &c) != nil {
		os.Exit(3)
	}
	a, err := newAgent(c, os.Getenv("VERIF_CRASH_ROOT"))
	if err != nil {
		fmt.Println("child: agent:", err)
		os.Exit(3)
	}
	var t storage.Torrent
	var errs []string
	for i, op := range c.Ops {
		crashfs.Mark(i, 0)
		var err error
		switch op.Kind {
		case "create":
			t, err = a.archive.CreateTorrent("ns", a.digest)
		case "piece":
			if t != nil {
				err = t.WritePiece(piecereader.NewBuffer(payload(c, op)), op.Index)
			}
		}
		crashfs.Mark(i, 1)
		if err != nil {
			errs = append(errs, fmt.Sprintf("%d:%v", i, err))
		}
	}
	ob, _ := json.Marshal(errs)
	os.WriteFile(os.Getenv("VERIF_CRASH_OUT"), ob, 0644)
}

// judge restarts an agent on a copy of the snapshot.
func judge(c Case, snapDir, work string) (string, []string) {
	root := filepath.Join(work, "recover")
	os.RemoveAll(root)
	if err := crashfs.CopyTree(snapDir, root); err != nil {
		return "", []string{"copy-error"}
	}
	defer os.RemoveAll(root)
	a, err := newAgent(c, root)
	if err != nil {
		return fmt.Sprintf("agent store cannot be reopened after the crash: %v", err), nil
	}
	defer a.cads.Close()
	hex := a.digest.Hex()
	var classes []string

	readCache := func() ([]byte, error) {
		r, err := a.cads.Cache().GetFileReader(hex)
		if err != nil {
			return nil, err
		}
		defer r.Close()
		return io.ReadAll(r)
	}
	// Anything already served from the cache must be the blob.
	if got, err := readCache(); err == nil {
		classes = append(classes, "restart-finds-cache-file")
		if !bytes.Equal(got, c.Blob) {
			return fmt.Sprintf("after restart the cache serves %d bytes that differ from the blob (%d bytes): got %x want %x", len(got), len(c.Blob), got, c.Blob), nil
		}
	}
	t, err := a.archive.CreateTorrent("ns", a.digest)
	if err != nil {
		return fmt.Sprintf("the download cannot be started again after the crash: CreateTorrent: %v", err), nil
	}
	if t.NumPieces() != numPieces(c) {
		return fmt.Sprintf("restarted torrent has %d pieces, the blob has %d", t.NumPieces(), numPieces(c)), nil
	}
	if t.Complete() {
		classes = append(classes, "restart-reports-complete")
		got, err := readCache()
		if err != nil {
			return fmt.Sprintf("restarted agent reports the blob complete but the cache file cannot be read: %v", err), nil
		}
		if !bytes.Equal(got, c.Blob) {
			return fmt.Sprintf("restarted agent reports the blob complete but cached bytes differ: got %x want %x", got, c.Blob), nil
		}
	}
	// Every piece the restored bitfield reports complete would be served to peers: it must hold the blob's bytes.
	have := 0
	for i := 0; i < t.NumPieces(); i++ {
		if !t.HasPiece(i) {
			continue
		}
		have++
		pr, err := t.GetPieceReader(i)
		if err != nil {
			return fmt.Sprintf("restarted torrent reports piece %d complete but GetPieceReader fails: %v", i, err), nil
		}
		got, err := io.ReadAll(pr)
		pr.Close()
		if err != nil {
			return fmt.Sprintf("restarted torrent reports piece %d complete but reading it fails: %v", i, err), nil
		}
		if !bytes.Equal(got, pieceBytes(c, i)) {
			return fmt.Sprintf("restarted torrent reports piece %d complete but it holds %x, the blob has %x there", i, got, pieceBytes(c, i)), nil
		}
	}
	if have > 0 && !t.Complete() {
		classes = append(classes, "restart-resumes-partial")
	}
	// The download can be continued and completes with the right content.
	for _, i := range t.MissingPieces() {
		if err := t.WritePiece(piecereader.NewBuffer(pieceBytes(c, i)), i); err != nil {
			return fmt.Sprintf("after restart piece %d cannot be written: %v", i, err), nil
		}
	}
	if !t.Complete() {
		return fmt.Sprintf("after restart all pieces were written but the torrent is not complete (bitfield %s)", t.Bitfield().String()), nil
	}
	got, err := readCache()
	if err != nil {
		return fmt.Sprintf("after restart and completion the cache file cannot be read: %v", err), nil
	}
	if !bytes.Equal(got, c.Blob) {
		return fmt.Sprintf("after restart and completion the cached bytes differ from the blob: got %x want %x", got, c.Blob), nil
	}
	// Later life of the same directories: the blob is evicted / removed from the cache and
	// downloaded once more. Whatever the crash left behind must not make that download
	// report pieces it does not have or commit anything but the blob.
	if err := a.archive.DeleteTorrent(a.digest); err != nil {
		return fmt.Sprintf("after restart the completed torrent cannot be deleted: %v", err), nil
	}
	t2, err := a.archive.CreateTorrent("ns", a.digest)
	if err != nil {
		return fmt.Sprintf("after restart, completion and removal the download cannot be started again: CreateTorrent: %v", err), nil
	}
	for i := 0; i < t2.NumPieces(); i++ {
		if !t2.HasPiece(i) {
			continue
		}
		pr, err := t2.GetPieceReader(i)
		if err != nil {
			return fmt.Sprintf("re-download after removal: piece %d is reported complete but GetPieceReader fails: %v", i, err), nil
		}
		gotp, _ := io.ReadAll(pr)
		pr.Close()
		if !bytes.Equal(gotp, pieceBytes(c, i)) {
			return fmt.Sprintf("re-download after removal: piece %d is reported complete before it was written and holds %x, the blob has %x there", i, gotp, pieceBytes(c, i)), nil
		}
	}
	if t2.Complete() {
		if got, err := readCache(); err != nil || !bytes.Equal(got, c.Blob) {
			return fmt.Sprintf("re-download after removal: torrent reports complete at once but the cache holds %x, %v (blob %x)", got, err, c.Blob), nil
		}
	}
	for _, i := range t2.MissingPieces() {
		if err := t2.WritePiece(piecereader.NewBuffer(pieceBytes(c, i)), i); err != nil {
			return fmt.Sprintf("re-download after removal: piece %d cannot be written: %v", i, err), nil
		}
	}
	if got, err := readCache(); !t2.Complete() || err != nil || !bytes.Equal(got, c.Blob) {
		return fmt.Sprintf("re-download after removal does not end with the blob in the cache: complete=%v err=%v got %x", t2.Complete(), err, got), nil
	}
	classes = append(classes, "redownload-after-removal-checked")
	return "", classes
}

func run(c Case) pbt.Verdict {
	work, err := os.MkdirTemp("", "c04-")
	if err != nil {
		return pbt.Verdict{Discard: true}
	}
	defer os.RemoveAll(work)
	root := filepath.Join(work, "agent")
	os.MkdirAll(root, 0755)
	caseFile := filepath.Join(work, "case.json")
	cb, _ := json.Marshal(c)
	os.WriteFile(caseFile, cb, 0644)
	tr, err := crashfs.Run(crashfs.Config{Root: root, SnapDir: filepath.Join(work, "snaps"),
		Env: []string{crashfs.ChildEnv + "=" + caseFile, "VERIF_CRASH_ROOT=" + root, "VERIF_CRASH_OUT=" + filepath.Join(work, "out.json")}})
	if err != nil || tr.ExitCode != 0 {
		return pbt.Verdict{Discard: true, Classes: []string{"trace-error"}}
	}
	hashes := make([]string, len(tr.Snapshots))
	firstOf := map[int]string{}
	for i, sn := range tr.Snapshots {
		hashes[i] = crashfs.TreeHash(sn.Dir)
		if sn.InOp >= 0 {
			if _, ok := firstOf[sn.InOp]; !ok {
				firstOf[sn.InOp] = hashes[i]
			}
		}
	}
	endOf := func(j int) string {
		for i, sn := range tr.Snapshots {
			if sn.OpsDone > j {
				return hashes[i]
			}
		}
		return hashes[len(hashes)-1]
	}
	v := pbt.Verdict{}
	classSet := map[string]bool{}
	seen := map[string]bool{}
	blobKey := fmt.Sprintf("%x/%d", c.Blob, c.PieceLen)
	for i, sn := range tr.Snapshots {
		if seen[hashes[i]] {
			continue // identical tree: identical recovery
		}
		seen[hashes[i]] = true
		msg, cls := judge(c, sn.Dir, work)
		v.Evals++
		for _, cl := range cls {
			classSet[cl] = true
		}
		if msg != "" {
			where := "between operations"
			if sn.InOp >= 0 && sn.InOp < len(c.Ops) {
				where = fmt.Sprintf("inside op %d (%s %d mode %d)", sn.InOp, c.Ops[sn.InOp].Kind, c.Ops[sn.InOp].Index, c.Ops[sn.InOp].Mode)
			}
			return pbt.Fail("%s\n  crash point: snapshot %d, %d ops returned, %s, next syscall %s\n  tree at crash:\n%s", msg, sn.Index, sn.OpsDone, where, sn.Syscall, crashfs.DumpTree(sn.Dir))
		}
		if sn.InOp >= 0 && hashes[i] != firstOf[sn.InOp] && hashes[i] != endOf(sn.InOp) {
			v.NonTrivial = true
			v.NonTrivialKeys = append(v.NonTrivialKeys, blobKey+"/"+hashes[i])
			classSet["mid-op:"+c.Ops[sn.InOp].Kind] = true
		}
	}
	for cl := range classSet {
		v.Classes = append(v.Classes, cl)
	}
	sort.Strings(v.Classes)
	if numPieces(c) > 1 {
		v.Classes = append(v.Classes, "multi-piece")
	}
	return v
}

func TestProp(t *testing.T) {
	pbt.Main(t, pbt.Spec{
		ID:    "C04",
		Level: "fault_enumeration",
		Rule: "rapid generates agent download workloads (blob 0-48 bytes, piece length so that there are 0-8 pieces; CreateTorrent through a TorrentArchive with a fake metainfo client, pieces written in a drawn permutation, some preceded by a corrupted or over-long write, sometimes only a prefix of the pieces, sometimes a repeated CreateTorrent); each runs in a child under ptrace and EVERY prefix of its mutating system calls under the agent's download+cache directories is snapshotted (evaluations = distinct crash trees per workload). Restart oracle on a copy: the cache never serves bytes different from the blob; CreateTorrent succeeds; Complete() implies cached bytes = blob; every piece the restored bitfield reports complete reads back the blob's bytes; writing the missing pieces completes the torrent with cached bytes = blob; then the blob is removed (DeleteTorrent) and downloaded once more on the same directories, which must again report only pieces it has and end with cached bytes = blob. non-trivial = crash state strictly inside an operation whose tree differs from the trees at that operation's start and end; distinct by (blob, piece length, tree hash)",
		Assumptions: []string{
			"process-crash model: completed system calls persist; a single write system call is atomic",
			"metainfo is available again after restart (fake metainfo client), as it is from the tracker in production",
			"ptrace tracer (internal/crashfs) sees every mutating system call under the agent directories",
		},
		Parts: []pbt.Part{pbt.NewPart("crash", 1, gen, run)},
	})
}
