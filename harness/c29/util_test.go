package c29

import (
	"fmt"
	"regexp"
	"runtime"
	"strconv"
	"strings"
	"sync/atomic"
	"time"

	"github.com/andres-erbsen/clock"

	"verif/internal/pbt"
)

// ---- goroutine observation -------------------------------------------------
//
// The harness owns the schedule: every goroutine it starts is either parked at
// a harness gate or expected to reach one. To wait for "that goroutine has
// finished" or "that goroutine is now blocked inside kraken" without sleeping
// for a guessed duration, the harness reads the runtime's goroutine dump and
// looks the goroutine up by id.

var gidRe = regexp.MustCompile(`^goroutine (\d+) \[([^\]]*)\]`)

// gid returns the id of the calling goroutine.
func gid() int64 {
	var buf [64]byte
	n := runtime.Stack(buf[:], false)
	m := gidRe.FindSubmatch(buf[:n])
	if m == nil {
		return -1
	}
	v, _ := strconv.ParseInt(string(m[1]), 10, 64)
	return v
}

type ginfo struct {
	state string
	text  string
}

// blocked reports whether the goroutine is parked on a synchronisation object
// (as opposed to running or waiting for a CPU).
func (g ginfo) blocked() bool {
	s := g.state
	return !(strings.HasPrefix(s, "running") || strings.HasPrefix(s, "runnable") || strings.HasPrefix(s, "syscall"))
}

func dump() map[int64]ginfo {
	buf := make([]byte, 1<<18)
	for {
		n := runtime.Stack(buf, true)
		if n < len(buf) {
			buf = buf[:n]
			break
		}
		buf = make([]byte, 2*len(buf))
	}
	out := map[int64]ginfo{}
	for _, blk := range strings.Split(string(buf), "\n\n") {
		m := gidRe.FindStringSubmatch(blk)
		if m == nil {
			continue
		}
		id, _ := strconv.ParseInt(m[1], 10, 64)
		out[id] = ginfo{state: m[2], text: blk}
	}
	return out
}

// poll evaluates cond until it holds or limit has passed.
func poll(limit time.Duration, cond func() bool) bool {
	deadline := time.Now().Add(limit)
	for i := 0; ; i++ {
		if cond() {
			return true
		}
		if time.Now().After(deadline) {
			return false
		}
		if i < 40 {
			runtime.Gosched()
		} else {
			time.Sleep(100 * time.Microsecond)
		}
	}
}

// stallLimit bounds every wait for something that the code under test must do
// without any further input from the harness. It is deliberately generous and
// it is never the correctness signal: running into it discards the case.
const stallLimit = 30 * time.Second

const dogTick = 25 * time.Millisecond

// dog decides, while the harness waits for the code under test, whether the wait
// can still end. The correctness signal is structural: if at three consecutive
// samples every goroutine that executes kraken or harness code (other than the
// waiting harness goroutine itself) is parked on a synchronisation object, nothing
// can make progress any more - the awaited event will never happen ("deadlock").
// Mere slowness ends in "timeout", which discards the case.
type dog struct {
	self  int64
	quiet int
	start time.Time
}

func newDog() *dog { return &dog{self: gid(), start: time.Now()} }

func (d *dog) tick() string {
	if quiescent(d.self) {
		d.quiet++
		if d.quiet >= 3 {
			return "deadlock"
		}
	} else {
		d.quiet = 0
	}
	if time.Since(d.start) > stallLimit {
		return "timeout"
	}
	return ""
}

func quiescent(self int64) bool {
	for id, g := range dump() {
		if id == self {
			continue
		}
		if !strings.Contains(g.text, "github.com/uber/kraken/") && !strings.Contains(g.text, "verif/c29") {
			continue
		}
		if !g.blocked() || strings.HasPrefix(g.state, "sleep") {
			return false
		}
	}
	return true
}

// waitUntil polls cond; it returns "" once cond holds, else "deadlock" or "timeout".
func waitUntil(cond func() bool) string {
	if poll(dogTick, cond) {
		return ""
	}
	d := newDog()
	for {
		if poll(dogTick, cond) {
			return ""
		}
		if k := d.tick(); k != "" {
			return k
		}
	}
}

// waitGone waits until the goroutine with the given id has exited.
func waitGone(id int64) string {
	return waitUntil(func() bool {
		_, ok := dump()[id]
		return !ok
	})
}

// stall turns a wait that ended without the awaited event into a verdict.
func stall(kind, what string, ids ...int64) pbt.Verdict {
	if kind != "deadlock" {
		return pbt.Verdict{Discard: true, Classes: []string{"discard-slow-machine"}}
	}
	d := dump()
	var where []string
	for _, id := range ids {
		if g, ok := d[id]; ok {
			st := g.state
			if i := strings.IndexByte(st, ','); i > 0 {
				st = st[:i]
			}
			where = append(where, fmt.Sprintf("[%s] %s", st, frames(g.text)))
		}
	}
	return pbt.Fail("%s: every goroutine is parked, so it never will (%s)", what, strings.Join(where, "; "))
}

// frames returns the kraken and sync function names of a goroutine dump block.
func frames(text string) string {
	var out []string
	for _, l := range strings.Split(text, "\n") {
		if strings.HasPrefix(l, "github.com/uber/kraken/") || strings.HasPrefix(l, "sync.") {
			if i := strings.LastIndexByte(l, '('); i > 0 {
				l = l[:i]
			}
			out = append(out, strings.TrimPrefix(l, "github.com/uber/kraken/utils/"))
		}
	}
	return strings.Join(out, " < ")
}

// spinBarrier releases a group of goroutines as simultaneously as the machine
// allows: they poll a flag instead of sleeping on a channel, so those that hold a
// CPU leave the barrier within nanoseconds of each other.
type spinBarrier struct{ flag int32 }

func (b *spinBarrier) wait() {
	for atomic.LoadInt32(&b.flag) == 0 {
		runtime.Gosched()
	}
}

func (b *spinBarrier) open() { atomic.StoreInt32(&b.flag, 1) }

// ---- clock -------------------------------------------------------------------

// cclock is the library mock clock plus a counter of After registrations, so
// that the harness can wait for "the goroutine has registered its timer".
type cclock struct {
	*clock.Mock
	afters int64
}

func newCClock() *cclock { return &cclock{Mock: clock.NewMock()} }

func (c *cclock) After(d time.Duration) <-chan time.Time {
	ch := c.Mock.After(d)
	atomic.AddInt64(&c.afters, 1)
	return ch
}

func (c *cclock) nAfters() int64 { return atomic.LoadInt64(&c.afters) }

func ms(v int) time.Duration { return time.Duration(v) * time.Millisecond }

func classList(m map[string]bool) []string {
	var out []string
	for k, v := range m {
		if v {
			out = append(out, k)
		}
	}
	// deterministic order
	for i := 1; i < len(out); i++ {
		for j := i; j > 0 && out[j] < out[j-1]; j-- {
			out[j], out[j-1] = out[j-1], out[j]
		}
	}
	return out
}
