// C29 — request deduplication runs at most one execution per key.
//
// Engine E3 (harness-owned schedules): a mock clock that only the case moves,
// gates inside every request / task (the caller-supplied code blocks on a harness
// channel), and the verif scheduling point "limiter.afterLookup" in
// dedup.Limiter.Run. The whole schedule - who starts, who is released, which
// execution finishes with what, how far the clock moves - is the generated case.
package c29

import (
	"testing"

	"verif/internal/pbt"
)

func TestProp(t *testing.T) {
	pbt.Main(t, pbt.Spec{
		ID: "C29",
		Rule: "generated schedules (<=30 steps, 1-3 keys) over a mock clock: reqcache = start/complete(success|error|not-found)/advance against dedup.RequestCache with 1-2 workers and gated requests; " +
			"limiter = call/release-parked-caller/finish(ttl)/advance/pair against dedup.Limiter with callers parked between task lookup and getOutput (and, in a pair step, two callers held between a missed lookup and the slow path) and a gated runner; " +
			"trap = concurrent Trap callers/finish/advance against dedup.IntervalTrap with a gated task. " +
			"Compared: a per-key in-flight counter inside the gate (must never exceed 1; total never above NumWorkers) and every Start/Run/Trap result against a reference model written from the statement " +
			"(pending => ErrRequestPending, unexpired cached error/output => that value and no execution, expired => a new execution, waiting callers get the run's output, ErrWorkersBusy leaves the key startable, trap runs at most once per interval). " +
			"Non-trivial: reqcache = >=1 start answered from pending/cached-error state and >=2 executions; limiter = >=1 caller answered without an execution of its own and >=1 execution; trap = >=1 run and >=1 declined Trap. Distinct by case hash.",
		Assumptions: []string{
			"reference models of RequestCache, Limiter and IntervalTrap written from the property statement and the package documentation",
			"interleavings are explored at the granularity of the gates and of the limiter.afterLookup / limiter.beforeSlowPath scheduling points; races inside a critical section are not visible",
			"behaviour exactly at a TTL/interval boundary (now == expiry) is accepted either way",
			"a start for a key whose previous start is still waiting for a worker is not generated (statement silent)",
		},
		Parts: []pbt.Part{
			pbt.NewPart("reqcache", 4, genRC, runRC),
			pbt.NewPart("limiter", 4, genL, runL),
			pbt.NewPart("trap", 1, genT, runT),
		},
	})
}
