package c29

import (
	"fmt"
	"strings"
	"sync"
	"sync/atomic"
	"time"

	"github.com/andres-erbsen/clock"
	"github.com/uber/kraken/utils/dedup"
	"pgregory.net/rapid"

	"verif/internal/pbt"
)

// Part "limiter": dedup.Limiter on a harness clock with a gated TaskRunner.
// Every caller of Limiter.Run is parked at the verif scheduling point
// "limiter.afterLookup" (after the task garbage collector trap and the task
// lookup, before getOutput) and released in the order the case says; every
// execution of the runner blocks on a harness gate and is finished with the
// ttl the case says.

// LStep kinds: 0 call(key), 1 release(idx-th parked caller), 2 finish(key, ttl ms), 3 advance(adv ms),
// 4 burst(key, n, ttl): n callers call Run(key) at the same moment, nobody parked, runner not gated
// (the Go scheduler picks the interleaving),
// 5 pair(key): two callers call Run(key); both are held before the slow path (scheduling point
// "limiter.beforeSlowPath") until both have done the lookup, then go on one after the other.
type LStep struct {
	K   int `json:"k"`
	Key int `json:"key,omitempty"`
	Idx int `json:"idx,omitempty"`
	TTL int `json:"ttl,omitempty"`
	Adv int `json:"adv,omitempty"`
	N   int `json:"n,omitempty"`
	R   int `json:"r,omitempty"` // burst rounds; before every round but the first the clock moves past the ttl
}

type LCase struct {
	Keys  int     `json:"keys"`
	Steps []LStep `json:"steps"`
}

const (
	lMaxCallers = 10
	lMaxParked  = 4
)

func genL(t *rapid.T) LCase {
	c := LCase{Keys: rapid.IntRange(1, 3).Draw(t, "keys")}
	gcMs := int(dedup.TaskGCInterval / time.Millisecond)
	ttls := []int{0, 1000, 30000, gcMs + 30000, 5 * gcMs}
	advs := []int{500, 1000, 2000, 30000 + 1000, gcMs + 1000, 2*gcMs + 1000, 6 * gcMs}
	// One case in four starts with two callers that both miss the lookup of input 0, run the
	// task once and both return, so that the tail works on a task two callers have left.
	if rapid.IntRange(0, 3).Draw(t, "pair_prefix") == 0 {
		c.Steps = append(c.Steps, LStep{K: 5}, LStep{K: 1}, LStep{K: 2, TTL: rapid.SampledFrom([]int{0, 1000}).Draw(t, "pair_ttl")}, LStep{K: 1})
	}
	n := rapid.IntRange(3, 28).Draw(t, "nsteps")
	for i := 0; i < n; i++ {
		s := LStep{K: rapid.SampledFrom([]int{0, 0, 0, 0, 1, 1, 1, 1, 2, 2, 2, 3, 3, 3, 4, 5}).Draw(t, "k")}
		switch s.K {
		case 0, 5:
			s.Key = rapid.IntRange(0, c.Keys-1).Draw(t, "key")
		case 1:
			s.Idx = rapid.IntRange(0, lMaxParked-1).Draw(t, "idx")
		case 2:
			s.Key = rapid.IntRange(0, c.Keys-1).Draw(t, "key")
			s.TTL = rapid.SampledFrom(ttls).Draw(t, "ttl")
		case 3:
			s.Adv = rapid.SampledFrom(advs).Draw(t, "adv")
		case 4:
			s.Key = rapid.IntRange(0, c.Keys-1).Draw(t, "key")
			s.N = rapid.IntRange(2, 6).Draw(t, "n")
			s.TTL = rapid.SampledFrom(ttls).Draw(t, "ttl")
			s.R = rapid.IntRange(1, 6).Draw(t, "r")
		}
		c.Steps = append(c.Steps, s)
	}
	return c
}

type lOut struct {
	out interface{}
	ttl time.Duration
}

type lEntry struct {
	key     int
	n       int32
	release chan lOut
}

type lCaller struct {
	id    int
	key   int
	gid   int64
	gate  chan struct{}
	state int // 0 parked, 1 waiting for a run, 2 running, 3 returned
	since int64
}

type lResult struct {
	c   *lCaller
	out interface{}
}

type lRun struct {
	key     int
	entry   *lEntry
	callers []*lCaller
}

type lKey struct {
	run *lRun
	has bool
	out string
	exp int64
}

type lRunner struct{ h *lH }

func (r *lRunner) Run(input interface{}) (interface{}, time.Duration) {
	h := r.h
	key := -1
	if s, ok := input.(string); ok {
		fmt.Sscanf(s, "k%d", &key)
	}
	if key < 0 || key >= len(h.inflight) {
		key = 0
	}
	e := &lEntry{key: key, release: make(chan lOut, 1)}
	e.n = atomic.AddInt32(&h.inflight[key], 1)
	if a, ok := h.auto.Load().(*lOut); ok && a != nil {
		e.release <- *a
	}
	h.entered <- e
	o := <-e.release
	atomic.AddInt32(&h.inflight[key], -1)
	return o.out, o.ttl
}

type lH struct {
	clk *clock.Mock
	lim *dedup.Limiter
	now int64

	arrivals chan chan struct{}
	slowArr  chan chan struct{} // callers held before the slow path (pair step)
	holdSlow int32
	entered  chan *lEntry
	results  chan lResult
	inflight [4]int32
	tearing  int32
	pass     int32        // scheduling point lets callers through (burst)
	auto     atomic.Value // *lOut: runner returns this at once (burst)
	wg       sync.WaitGroup
	entries  []*lEntry

	keys    []*lKey
	callers []*lCaller
	parked  []*lCaller
	seq     int

	cls        map[string]bool
	dedups     int // callers answered without an execution of their own
	runs       int
	lastGC     int64
}

func (h *lH) yield(point string, input interface{}) {
	if atomic.LoadInt32(&h.tearing) != 0 || atomic.LoadInt32(&h.pass) != 0 {
		return
	}
	if point == "limiter.beforeSlowPath" {
		// A caller that missed the lookup is held here only during a "pair" step.
		if atomic.LoadInt32(&h.holdSlow) == 0 {
			return
		}
		g := make(chan struct{})
		h.slowArr <- g
		<-g
		return
	}
	g := make(chan struct{})
	h.arrivals <- g
	<-g
}

// next returns the next arrival (only if wanted), result or entry; kind is
// "deadlock" or "timeout" if none can / did come.
func (h *lH) next(wantArrival bool) (g chan struct{}, r *lResult, e *lEntry, kind string) {
	arr := h.arrivals
	if !wantArrival {
		arr = nil
	}
	var d *dog
	for {
		select {
		case g := <-arr:
			return g, nil, nil, ""
		case rr := <-h.results:
			return nil, &rr, nil, ""
		case e := <-h.entered:
			return nil, nil, e, ""
		case <-time.After(dogTick):
			if d == nil {
				d = newDog()
			}
			if k := d.tick(); k != "" {
				return nil, nil, nil, k
			}
		}
	}
}

func (h *lH) open(c *lCaller) {
	if c.gate != nil {
		close(c.gate)
		c.gate = nil
	}
}

func (h *lH) checkEntry(e *lEntry) *pbt.Verdict {
	h.entries = append(h.entries, e)
	if e.n > 1 {
		v := pbt.Fail("Limiter: %d executions of the task for one input in flight at once (input k%d)", e.n, e.key)
		return &v
	}
	return nil
}

func (h *lH) call(key int) *pbt.Verdict {
	if len(h.callers) >= lMaxCallers || len(h.parked) >= lMaxParked {
		h.cls["skip-call-cap"] = true
		return nil
	}
	// A call later than the GC interval after the previous collection runs the task
	// garbage collector first; that matters when a parked caller holds a task.
	if h.now-h.lastGC > int64(dedup.TaskGCInterval/time.Millisecond) {
		h.lastGC = h.now
		if len(h.parked) > 0 {
			h.cls["gc-ran-while-caller-parked"] = true
		} else {
			h.cls["gc-ran"] = true
		}
	}
	c := h.launch(key)
	g, r, e, kind := h.next(true)
	switch {
	case kind != "":
		v := stall(kind, "Limiter: Run did not get past the task lookup", c.gid)
		return &v
	case e != nil:
		return h.unexpectedEntry(e, "its caller has not been released from the scheduling point yet")
	case r != nil:
		// Run returned without passing the scheduling point: only possible if the
		// hook is missing from the build.
		return &pbt.Verdict{Violation: fmt.Sprintf("harness: Limiter.Run returned %v without reaching the limiter.afterLookup scheduling point (hook missing?)", r.out), NonTrivial: true}
	}
	c.gate = g
	h.parked = append(h.parked, c)
	return nil
}

// launch starts a caller of Run(key) on its own goroutine.
func (h *lH) launch(key int) *lCaller {
	c := &lCaller{id: len(h.callers), key: key, since: h.now}
	h.callers = append(h.callers, c)
	ready := make(chan struct{})
	h.wg.Add(1)
	go func() {
		defer h.wg.Done()
		c.gid = gid()
		close(ready)
		var out interface{}
		func() {
			defer func() {
				if r := recover(); r != nil {
					out = fmt.Sprintf("c29: Limiter.Run panicked: %v", r)
				}
			}()
			out = h.lim.Run(rcName(key))
		}()
		h.results <- lResult{c, out}
	}()
	<-ready
	return c
}

// pair lets two callers call Run(key) such that both have finished the read-locked
// lookup before either enters the slow path: if the input has no task yet, both missed
// it, one creates the task and the other finds it under the write lock. Afterwards both
// are parked at limiter.afterLookup like any other caller.
func (h *lH) pair(key int) *pbt.Verdict {
	if len(h.callers)+2 > lMaxCallers || len(h.parked)+2 > lMaxParked {
		h.cls["skip-call-cap"] = true
		return nil
	}
	if h.now-h.lastGC > int64(dedup.TaskGCInterval/time.Millisecond) {
		h.lastGC = h.now
		if len(h.parked) > 0 {
			h.cls["gc-ran-while-caller-parked"] = true
		} else {
			h.cls["gc-ran"] = true
		}
	}
	atomic.StoreInt32(&h.holdSlow, 1)
	type held struct {
		c    *lCaller
		slow chan struct{}
	}
	var hs []held
	for i := 0; i < 2; i++ {
		c := h.launch(key)
		var d *dog
		var got bool
		for !got {
			select {
			case g := <-h.slowArr:
				hs = append(hs, held{c, g})
				got = true
			case g := <-h.arrivals:
				// the input already has a task: the caller went the fast path
				c.gate = g
				h.parked = append(h.parked, c)
				got = true
			case e := <-h.entered:
				atomic.StoreInt32(&h.holdSlow, 0)
				return h.unexpectedEntry(e, "its caller has not been released from the scheduling point yet")
			case r := <-h.results:
				atomic.StoreInt32(&h.holdSlow, 0)
				return &pbt.Verdict{Violation: fmt.Sprintf("harness: Limiter.Run returned %v without reaching a scheduling point (hook missing?)", r.out), NonTrivial: true}
			case <-time.After(dogTick):
				if d == nil {
					d = newDog()
				}
				if k := d.tick(); k != "" {
					atomic.StoreInt32(&h.holdSlow, 0)
					v := stall(k, "Limiter: Run did not get past the task lookup", c.gid)
					return &v
				}
			}
		}
	}
	atomic.StoreInt32(&h.holdSlow, 0)
	if len(hs) == 2 {
		h.cls["two-callers-both-missed-the-lookup"] = true
	}
	for _, x := range hs {
		close(x.slow)
		g, r, e, kind := h.next(true)
		switch {
		case kind != "":
			v := stall(kind, "Limiter: Run did not get past the slow path", x.c.gid)
			return &v
		case e != nil:
			return h.unexpectedEntry(e, "its caller has not been released from the scheduling point yet")
		case r != nil:
			return &pbt.Verdict{Violation: fmt.Sprintf("harness: Limiter.Run returned %v without reaching the limiter.afterLookup scheduling point (hook missing?)", r.out), NonTrivial: true}
		}
		x.c.gate = g
		h.parked = append(h.parked, x.c)
	}
	return nil
}

func (h *lH) unexpectedEntry(e *lEntry, why string) *pbt.Verdict {
	if v := h.checkEntry(e); v != nil {
		return v
	}
	v := pbt.Fail("Limiter: the task for input k%d was executed although %s", e.key, why)
	return &v
}

func (h *lH) keyWhy(k *lKey) string {
	if k.run != nil {
		return "an execution for that input is in flight"
	}
	if k.has && h.now < k.exp {
		return fmt.Sprintf("the output of the previous execution is valid for another %d ms", k.exp-h.now)
	}
	return "no caller was released for it"
}

func (h *lH) release(idx int) *pbt.Verdict {
	if len(h.parked) == 0 {
		h.cls["skip-release-none-parked"] = true
		return nil
	}
	c := h.parked[idx%len(h.parked)]
	out := h.parked[:0]
	for _, p := range h.parked {
		if p != c {
			out = append(out, p)
		}
	}
	h.parked = out
	if c.since != h.now {
		h.cls["released-after-clock-moved"] = true
	}
	k := h.keys[c.key]
	switch {
	case k.run != nil:
		// Arrives during a run: must wait for it and must not execute.
		c.state = 1
		k.run.callers = append(k.run.callers, c)
		h.open(c)
		// Best effort: give the caller the chance to really block behind the run,
		// so that the wake-up path is what gets exercised. Not a correctness signal.
		confirmed := poll(2*time.Second, func() bool {
			if len(h.entered) > 0 || len(h.results) > 0 {
				return true
			}
			g, ok := dump()[c.gid]
			return ok && strings.Contains(g.state, "Cond.Wait")
		})
		select {
		case e := <-h.entered:
			return h.unexpectedEntry(e, "its caller arrived while an execution for that input was in flight")
		case r := <-h.results:
			v := pbt.Fail("Limiter: a caller for input k%d that arrived while an execution was in flight returned %v before that execution finished", r.c.key, r.out)
			return &v
		default:
		}
		if confirmed {
			h.cls["caller-blocked-behind-run"] = true
		}
		h.dedups++
		return nil
	case k.has && h.now < k.exp:
		h.open(c)
		_, r, e, kind := h.next(false)
		switch {
		case kind != "":
			v := stall(kind, "Limiter: Run did not return the cached output", c.gid)
			return &v
		case e != nil:
			return h.unexpectedEntry(e, h.keyWhy(k))
		}
		if r.c != c {
			v := pbt.Fail("harness: result of caller %d while waiting for caller %d", r.c.id, c.id)
			return &v
		}
		if r.out != interface{}(k.out) {
			v := pbt.Fail("Limiter: caller for input k%d got %v, want the unexpired output %q of the last execution", c.key, r.out, k.out)
			return &v
		}
		c.state = 3
		h.cls["cached-output-returned"] = true
		h.dedups++
		return nil
	default:
		either := k.has && h.now == k.exp
		h.open(c)
		_, r, e, kind := h.next(false)
		switch {
		case kind != "":
			v := stall(kind, "Limiter: Run neither executed the task nor returned", c.gid)
			return &v
		case e != nil:
			if v := h.checkEntry(e); v != nil {
				return v
			}
			if e.key != c.key {
				v := pbt.Fail("harness: execution for input k%d while releasing a caller of k%d", e.key, c.key)
				return &v
			}
			c.state = 2
			k.run = &lRun{key: c.key, entry: e, callers: []*lCaller{c}}
			h.runs++
			if k.has {
				h.cls["rerun-after-ttl"] = true
			}
			return nil
		}
		if either && r.c == c && r.out == interface{}(k.out) {
			c.state = 3
			h.cls["ttl-boundary"] = true
			return nil
		}
		if !k.has {
			v := pbt.Fail("Limiter: caller for input k%d returned %v without any execution of the task having produced an output", r.c.key, r.out)
			return &v
		}
		v := pbt.Fail("Limiter: caller for input k%d returned %v although the last output expired %d ms ago and no execution is in flight", r.c.key, r.out, h.now-k.exp)
		return &v
	}
}

func (h *lH) finish(key, ttl int) *pbt.Verdict {
	k := h.keys[key]
	if k.run == nil {
		h.cls["skip-finish-nothing-running"] = true
		return nil
	}
	h.seq++
	out := fmt.Sprintf("out-%d", h.seq)
	run := k.run
	run.entry.release <- lOut{out, ms(ttl)}
	pending := map[*lCaller]bool{}
	for _, c := range run.callers {
		pending[c] = true
	}
	for len(pending) > 0 {
		_, r, e, kind := h.next(false)
		switch {
		case kind != "":
			var ids []int64
			for c := range pending {
				ids = append(ids, c.gid)
			}
			v := stall(kind, fmt.Sprintf("Limiter: %d caller(s) of input k%d did not return after the execution they ran or waited for finished", len(pending), key), ids...)
			return &v
		case e != nil:
			return h.unexpectedEntry(e, "its callers were waiting for an execution that has just finished with a fresh output")
		}
		if !pending[r.c] {
			v := pbt.Fail("harness: unexpected result of caller %d", r.c.id)
			return &v
		}
		if r.out != interface{}(out) {
			v := pbt.Fail("Limiter: caller for input k%d that ran or waited for execution %q got %v", key, out, r.out)
			return &v
		}
		r.c.state = 3
		delete(pending, r.c)
	}
	if len(run.callers) > 1 {
		h.cls["waiters-got-run-output"] = true
	}
	k.run = nil
	k.has, k.out, k.exp = true, out, h.now+int64(ttl)
	return nil
}

// burst lets n callers race through Run(key) with an ungated runner and an open
// scheduling point. Whatever the interleaving, at most one execution may happen,
// none if an unexpired output exists, and everybody gets the valid output.
func (h *lH) burst(key, n, ttl int) *pbt.Verdict {
	k := h.keys[key]
	if k.run != nil || n < 2 || n > 8 || (k.has && h.now == k.exp) {
		h.cls["skip-burst"] = true
		return nil
	}
	if h.now-h.lastGC > int64(dedup.TaskGCInterval/time.Millisecond) {
		h.lastGC = h.now
		h.cls["gc-ran-in-burst"] = true
	}
	cachedValid := k.has && h.now < k.exp
	h.seq++
	out := fmt.Sprintf("out-%d", h.seq)
	h.auto.Store(&lOut{out, ms(ttl)})
	atomic.StoreInt32(&h.pass, 1)
	defer func() {
		atomic.StoreInt32(&h.pass, 0)
		h.auto.Store((*lOut)(nil))
	}()
	barrier := &spinBarrier{}
	set := map[*lCaller]bool{}
	var ids []int64
	for i := 0; i < n; i++ {
		c := &lCaller{id: 1000 + i, key: key}
		ready := make(chan struct{})
		h.wg.Add(1)
		go func() {
			defer h.wg.Done()
			c.gid = gid()
			close(ready)
			barrier.wait()
			var o interface{}
			func() {
				defer func() {
					if r := recover(); r != nil {
						o = fmt.Sprintf("c29: Limiter.Run panicked: %v", r)
					}
				}()
				o = h.lim.Run(rcName(key))
			}()
			h.results <- lResult{c, o}
		}()
		<-ready
		set[c] = true
		ids = append(ids, c.gid)
	}
	barrier.open()
	ran := 0
	want := interface{}(out)
	if cachedValid {
		want = k.out
	}
	onEntry := func(e *lEntry) *pbt.Verdict {
		if v := h.checkEntry(e); v != nil {
			return v
		}
		if e.key != key {
			return h.unexpectedEntry(e, h.keyWhy(h.keys[e.key]))
		}
		ran++
		return nil
	}
	for len(set) > 0 {
		_, r, e, kind := h.next(false)
		switch {
		case kind != "":
			v := stall(kind, fmt.Sprintf("Limiter: concurrent callers of input k%d did not return", key), ids...)
			return &v
		case e != nil:
			if v := onEntry(e); v != nil {
				return v
			}
			continue
		}
		if !set[r.c] {
			v := pbt.Fail("Limiter: caller %d for input k%d returned %v at a point where it had to be blocked", r.c.id, r.c.key, r.out)
			return &v
		}
		if r.out != want {
			v := pbt.Fail("Limiter: one of %d concurrent callers for input k%d got %v, want %v", n, key, r.out, want)
			return &v
		}
		delete(set, r.c)
	}
	for {
		select {
		case e := <-h.entered:
			if v := onEntry(e); v != nil {
				return v
			}
			continue
		default:
		}
		break
	}
	switch {
	case cachedValid && ran > 0:
		v := pbt.Fail("Limiter: the task for input k%d was executed although the output of the previous execution is valid for another %d ms (%d concurrent callers)", key, k.exp-h.now, n)
		return &v
	case ran > 1 && ttl > 0: // with ttl 0 the first output expires at the instant it is produced (boundary)
		v := pbt.Fail("Limiter: the task for input k%d was executed %d times for %d concurrent callers although the first output was still valid", key, ran, n)
		return &v
	case !cachedValid && ran == 0:
		v := pbt.Fail("Limiter: %d concurrent callers for input k%d returned without any execution although no valid output existed", n, key)
		return &v
	}
	if ran >= 1 {
		k.has, k.out, k.exp = true, out, h.now+int64(ttl)
		h.runs++
		h.cls["burst-one-run"] = true
	} else {
		h.cls["burst-served-from-cache"] = true
	}
	h.dedups += n - ran
	return nil
}

func (h *lH) advance(d int) *pbt.Verdict {
	h.clk.Add(ms(d))
	h.now += int64(d)
	return nil
}

func (h *lH) settle() *pbt.Verdict {
	select {
	case e := <-h.entered:
		return h.unexpectedEntry(e, h.keyWhy(h.keys[e.key]))
	case r := <-h.results:
		v := pbt.Fail("Limiter: caller %d for input k%d returned %v at a point where it had to be blocked", r.c.id, r.c.key, r.out)
		return &v
	default:
		return nil
	}
}

func (h *lH) teardown() {
	atomic.StoreInt32(&h.tearing, 1)
	done := make(chan struct{})
	var dwg sync.WaitGroup
	dwg.Add(1)
	go func() {
		defer dwg.Done()
		for {
			select {
			case g := <-h.arrivals:
				close(g)
			case g := <-h.slowArr:
				close(g)
			case e := <-h.entered:
				e.release <- lOut{nil, 0}
			case <-h.results:
			case <-done:
				return
			}
		}
	}()
	for _, c := range h.callers {
		if c.gate != nil {
			func() {
				defer func() { recover() }()
				h.open(c)
			}()
		}
	}
	for _, e := range h.entries {
		select {
		case e.release <- lOut{nil, 0}:
		default:
		}
	}
	fin := make(chan struct{})
	go func() { h.wg.Wait(); close(fin) }()
	select {
	case <-fin:
	case <-time.After(10 * time.Second):
	}
	close(done)
	dwg.Wait()
	dedup.VerifSetYield(nil)
}

func runL(c LCase) pbt.Verdict {
	if c.Keys < 1 || c.Keys > 4 {
		return pbt.Verdict{Discard: true}
	}
	h := &lH{
		clk:      clock.NewMock(),
		arrivals: make(chan chan struct{}, 64), slowArr: make(chan chan struct{}, 64), entered: make(chan *lEntry, 64), results: make(chan lResult, 64),
		cls: map[string]bool{},
	}
	for i := 0; i < c.Keys; i++ {
		h.keys = append(h.keys, &lKey{})
	}
	dedup.VerifSetYield(h.yield)
	h.lim = dedup.NewLimiter(h.clk, &lRunner{h})
	defer h.teardown()

	for _, s := range c.Steps {
		var v *pbt.Verdict
		switch s.K {
		case 0:
			if s.Key < 0 || s.Key >= c.Keys {
				continue
			}
			v = h.call(s.Key)
		case 1:
			if s.Idx < 0 {
				continue
			}
			v = h.release(s.Idx)
		case 2:
			if s.Key < 0 || s.Key >= c.Keys || s.TTL < 0 {
				continue
			}
			v = h.finish(s.Key, s.TTL)
		case 3:
			if s.Adv <= 0 {
				continue
			}
			v = h.advance(s.Adv)
		case 5:
			if s.Key < 0 || s.Key >= c.Keys {
				continue
			}
			v = h.pair(s.Key)
		case 4:
			if s.Key < 0 || s.Key >= c.Keys || s.TTL < 0 {
				continue
			}
			for r := 0; r < s.R && r < 6 && v == nil; r++ {
				if r > 0 {
					v = h.advance(s.TTL + 1)
					if v == nil {
						v = h.settle()
					}
					if v != nil {
						break
					}
				}
				v = h.burst(s.Key, s.N, s.TTL)
			}
		}
		if v == nil {
			v = h.settle()
		}
		if v != nil {
			return *v
		}
	}
	// Epilogue: release everybody, finish every execution; every caller returns.
	for guard := 0; guard < 100 && (len(h.parked) > 0 || h.anyRun()); guard++ {
		var v *pbt.Verdict
		if len(h.parked) > 0 {
			v = h.release(0)
		} else {
			for k := range h.keys {
				if h.keys[k].run != nil {
					v = h.finish(k, 1000)
					break
				}
			}
		}
		if v == nil {
			v = h.settle()
		}
		if v != nil {
			return *v
		}
	}
	for _, cl := range h.callers {
		if cl.state != 3 {
			return pbt.Fail("harness: caller %d of k%d in state %d after the epilogue", cl.id, cl.key, cl.state)
		}
	}
	nontrivial := h.dedups >= 1 && h.runs >= 1
	return pbt.OK(nontrivial, classList(h.cls)...)
}

func (h *lH) anyRun() bool {
	for _, k := range h.keys {
		if k.run != nil {
			return true
		}
	}
	return false
}
