package c29

import (
	"fmt"
	"sync"
	"sync/atomic"
	"time"

	"github.com/andres-erbsen/clock"
	"github.com/uber/kraken/utils/dedup"
	"pgregory.net/rapid"

	"verif/internal/pbt"
)

// Part "trap": dedup.IntervalTrap on a harness clock with a gated task.

// TStep kinds: 0 trap (a new concurrent caller of Trap), 1 finish the running task, 2 advance(adv ms),
// 3 burst: N callers call Trap at the same moment (task not gated; the Go scheduler picks the interleaving).
type TStep struct {
	K   int `json:"k"`
	Adv int `json:"adv,omitempty"`
	N   int `json:"n,omitempty"`
	R   int `json:"r,omitempty"` // burst rounds; before every round but the first the clock moves past the interval
}

type TCase struct {
	Interval int     `json:"interval_ms"`
	Steps    []TStep `json:"steps"`
}

const tMaxCallers = 16

func genT(t *rapid.T) TCase {
	c := TCase{Interval: rapid.SampledFrom([]int{1000, 10000, 60000}).Draw(t, "interval")}
	advs := []int{c.Interval / 2, c.Interval - 1, c.Interval, c.Interval + 1, c.Interval + 1, 2 * c.Interval, 3 * c.Interval, 100}
	n := rapid.IntRange(2, 24).Draw(t, "nsteps")
	for i := 0; i < n; i++ {
		s := TStep{K: rapid.SampledFrom([]int{0, 0, 0, 1, 2, 2, 2, 3, 3}).Draw(t, "k")}
		if s.K == 2 {
			s.Adv = rapid.SampledFrom(advs).Draw(t, "adv")
		}
		if s.K == 3 {
			s.N = rapid.IntRange(2, 6).Draw(t, "n")
			s.R = rapid.IntRange(1, 10).Draw(t, "r")
		}
		c.Steps = append(c.Steps, s)
	}
	return c
}

type tEntry struct {
	n       int32
	release chan struct{}
}

type tCaller struct {
	id  int
	gid int64
}

type tTask struct{ h *tH }

func (t *tTask) Run() {
	h := t.h
	e := &tEntry{release: make(chan struct{})}
	e.n = atomic.AddInt32(&h.inflight, 1)
	auto := atomic.LoadInt32(&h.auto) != 0
	if auto {
		close(e.release)
	}
	h.entered <- e
	<-e.release
	atomic.AddInt32(&h.inflight, -1)
}

type tH struct {
	c    TCase
	clk  *clock.Mock
	trap *dedup.IntervalTrap
	now  int64

	entered  chan *tEntry
	results  chan *tCaller
	inflight int32
	auto     int32
	wg       sync.WaitGroup
	entries  []*tEntry

	// model
	lastEnd int64 // end of the last run (creation time before the first)
	running *tEntry
	behind  map[*tCaller]bool // callers that arrived while the task was running
	ncall   int

	cls      map[string]bool
	runs     int
	declined int
}

func (h *tH) checkEntry(e *tEntry) *pbt.Verdict {
	h.entries = append(h.entries, e)
	if e.n > 1 {
		v := pbt.Fail("IntervalTrap: %d executions of the task in flight at once", e.n)
		return &v
	}
	return nil
}

func (h *tH) next() (r *tCaller, e *tEntry, kind string) {
	var d *dog
	for {
		select {
		case r := <-h.results:
			return r, nil, ""
		case e := <-h.entered:
			return nil, e, ""
		case <-time.After(dogTick):
			if d == nil {
				d = newDog()
			}
			if k := d.tick(); k != "" {
				return nil, nil, k
			}
		}
	}
}

func (h *tH) spawn() *tCaller { return h.spawnAt(nil) }

func (h *tH) spawnAt(barrier *spinBarrier) *tCaller {
	c := &tCaller{id: h.ncall}
	h.ncall++
	ready := make(chan struct{})
	h.wg.Add(1)
	go func() {
		defer h.wg.Done()
		c.gid = gid()
		close(ready)
		if barrier != nil {
			barrier.wait()
		}
		func() {
			defer func() { recover() }()
			h.trap.Trap()
		}()
		h.results <- c
	}()
	<-ready
	return c
}

func (h *tH) doTrap() *pbt.Verdict {
	if h.ncall >= tMaxCallers {
		h.cls["skip-trap-cap"] = true
		return nil
	}
	since := h.now - h.lastEnd
	iv := int64(h.c.Interval)
	if h.running != nil {
		// The task is running: this caller must not start a second execution.
		c := h.spawn()
		h.behind[c] = true
		confirmed := poll(2*time.Second, func() bool {
			if len(h.entered) > 0 {
				return true
			}
			g, ok := dump()[c.gid]
			return !ok || g.blocked()
		})
		select {
		case e := <-h.entered:
			if v := h.checkEntry(e); v != nil {
				return v
			}
			v := pbt.Fail("harness: entry with inflight=1 while the model says the task is running")
			return &v
		default:
		}
		if confirmed {
			h.cls["caller-arrived-during-run"] = true
		}
		return nil
	}
	c := h.spawn()
	r, e, kind := h.next()
	switch {
	case kind != "":
		v := stall(kind, "IntervalTrap: Trap neither ran the task nor returned", c.gid)
		return &v
	case e != nil:
		if v := h.checkEntry(e); v != nil {
			return v
		}
		if since < iv {
			v := pbt.Fail("IntervalTrap: the task ran again %d ms after its previous run ended (interval %d ms)", since, iv)
			return &v
		}
		if since == iv {
			h.cls["interval-boundary"] = true
		}
		h.running = e
		h.behind = map[*tCaller]bool{c: true}
		h.runs++
		return nil
	}
	if r != c {
		v := pbt.Fail("harness: unexpected return of trap caller %d", r.id)
		return &v
	}
	if since > iv {
		v := pbt.Fail("IntervalTrap: Trap returned without running the task although %d ms have passed since its last run (interval %d ms)", since, iv)
		return &v
	}
	if since == iv {
		h.cls["interval-boundary"] = true
	}
	h.declined++
	h.cls["declined-within-interval"] = true
	return nil
}

// burst lets n callers race through Trap with an ungated task. Whatever the
// interleaving, the task may run at most once (and must run once if it is due).
func (h *tH) burst(n int) *pbt.Verdict {
	if h.running != nil || n < 2 || n > 8 {
		h.cls["skip-burst"] = true
		return nil
	}
	since := h.now - h.lastEnd
	iv := int64(h.c.Interval)
	atomic.StoreInt32(&h.auto, 1)
	defer atomic.StoreInt32(&h.auto, 0)
	barrier := &spinBarrier{}
	set := map[*tCaller]bool{}
	var ids []int64
	for i := 0; i < n; i++ {
		c := h.spawnAt(barrier)
		set[c] = true
		ids = append(ids, c.gid)
	}
	h.ncall -= n // burst callers do not count towards the cap
	barrier.open()
	ran := 0
	for len(set) > 0 {
		r, e, kind := h.next()
		switch {
		case kind != "":
			v := stall(kind, "IntervalTrap: concurrent Trap callers did not return", ids...)
			return &v
		case e != nil:
			if v := h.checkEntry(e); v != nil {
				return v
			}
			ran++
			continue
		}
		if !set[r] {
			v := pbt.Fail("harness: unexpected return of trap caller %d", r.id)
			return &v
		}
		delete(set, r)
	}
	for {
		select {
		case e := <-h.entered:
			if v := h.checkEntry(e); v != nil {
				return v
			}
			ran++
			continue
		default:
		}
		break
	}
	switch {
	case ran > 1:
		v := pbt.Fail("IntervalTrap: the task ran %d times within one interval (%d concurrent Trap callers, clock not moved, interval %d ms)", ran, n, iv)
		return &v
	case ran == 1 && since < iv:
		v := pbt.Fail("IntervalTrap: the task ran again %d ms after its previous run ended (interval %d ms)", since, iv)
		return &v
	case ran == 0 && since > iv:
		v := pbt.Fail("IntervalTrap: %d concurrent Trap calls returned without running the task although %d ms have passed since its last run (interval %d ms)", n, since, iv)
		return &v
	}
	if ran == 1 {
		h.lastEnd = h.now
		h.runs++
		h.declined += n - 1
		h.cls["burst-one-run"] = true
	} else {
		h.declined += n
		h.cls["burst-no-run"] = true
	}
	return nil
}

func (h *tH) finish() *pbt.Verdict {
	if h.running == nil {
		h.cls["skip-finish-nothing-running"] = true
		return nil
	}
	close(h.running.release)
	h.running = nil
	h.lastEnd = h.now
	nb := len(h.behind)
	for len(h.behind) > 0 {
		r, e, kind := h.next()
		switch {
		case kind != "":
			var ids []int64
			for c := range h.behind {
				ids = append(ids, c.gid)
			}
			v := stall(kind, "IntervalTrap: Trap callers did not return after the task finished", ids...)
			return &v
		case e != nil:
			if v := h.checkEntry(e); v != nil {
				return v
			}
			v := pbt.Fail("IntervalTrap: the task ran again 0 ms after its previous run ended (interval %d ms): a caller that arrived during the run executed it a second time", h.c.Interval)
			return &v
		}
		if !h.behind[r] {
			v := pbt.Fail("harness: unexpected return of trap caller %d", r.id)
			return &v
		}
		delete(h.behind, r)
	}
	if nb > 1 {
		h.cls["callers-behind-run-returned-without-rerun"] = true
		h.declined += nb - 1
	}
	return nil
}

func (h *tH) teardown() {
	done := make(chan struct{})
	var dwg sync.WaitGroup
	dwg.Add(1)
	go func() {
		defer dwg.Done()
		for {
			select {
			case e := <-h.entered:
				close(e.release)
			case <-h.results:
			case <-done:
				return
			}
		}
	}()
	if h.running != nil {
		close(h.running.release)
		h.running = nil
	}
	for _, e := range h.entries {
		func() {
			defer func() { recover() }()
			select {
			case <-e.release:
			default:
				close(e.release)
			}
		}()
	}
	fin := make(chan struct{})
	go func() { h.wg.Wait(); close(fin) }()
	select {
	case <-fin:
	case <-time.After(10 * time.Second):
	}
	close(done)
	dwg.Wait()
}

func runT(c TCase) pbt.Verdict {
	if c.Interval <= 0 {
		return pbt.Verdict{Discard: true}
	}
	h := &tH{c: c, clk: clock.NewMock(), entered: make(chan *tEntry, 64), results: make(chan *tCaller, 64),
		behind: map[*tCaller]bool{}, cls: map[string]bool{}}
	h.trap = dedup.NewIntervalTrap(ms(c.Interval), h.clk, &tTask{h})
	defer h.teardown()
	for _, s := range c.Steps {
		var v *pbt.Verdict
		switch s.K {
		case 0:
			v = h.doTrap()
		case 1:
			v = h.finish()
		case 2:
			if s.Adv > 0 {
				h.clk.Add(ms(s.Adv))
				h.now += int64(s.Adv)
			}
		case 3:
			for r := 0; r < s.R && r < 10 && v == nil; r++ {
				if r > 0 {
					h.clk.Add(ms(c.Interval + 1))
					h.now += int64(c.Interval + 1)
				}
				v = h.burst(s.N)
			}
		}
		if v != nil {
			return *v
		}
	}
	if v := h.finish(); v != nil {
		return *v
	}
	select {
	case e := <-h.entered:
		if v := h.checkEntry(e); v != nil {
			return *v
		}
		return pbt.Fail("IntervalTrap: the task was executed although no Trap call was outstanding")
	default:
	}
	_ = fmt.Sprint
	return pbt.OK(h.runs >= 1 && h.declined >= 1, classList(h.cls)...)
}
