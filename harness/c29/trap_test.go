package c29

import (
	"fmt"
	"sync"
	"sync/atomic"
	"time"

	"github.com/andres-erbsen/clock"
	"github.com/uber/kraken/utils/dedup"
	"pgregory.net/rapid"

	"verif/internal/pbt"
)

// Part "trap": dedup.IntervalTrap on a harness clock with a gated task.

// TStep kinds: 0 trap (a new concurrent caller of Trap), 1 finish the running task, 2 advance(adv ms).
type TStep struct {
	K   int `json:"k"`
	Adv int `json:"adv,omitempty"`
}

type TCase struct {
	Interval int     `json:"interval_ms"`
	Steps    []TStep `json:"steps"`
}

const tMaxCallers = 16

func genT(t *rapid.T) TCase {
	c := TCase{Interval: rapid.SampledFrom([]int{1000, 10000, 60000}).Draw(t, "interval")}
	advs := []int{c.Interval / 2, c.Interval - 1, c.Interval, c.Interval + 1, 2 * c.Interval, 100}
	n := rapid.IntRange(2, 24).Draw(t, "nsteps")
	for i := 0; i < n; i++ {
		s := TStep{K: rapid.SampledFrom([]int{0, 0, 0, 1, 2, 2}).Draw(t, "k")}
		if s.K == 2 {
			s.Adv = rapid.SampledFrom(advs).Draw(t, "adv")
		}
		c.Steps = append(c.Steps, s)
	}
	return c
}

type tEntry struct {
	n       int32
	release chan struct{}
}

type tCaller struct {
	id  int
	gid int64
}

type tTask struct{ h *tH }

func (t *tTask) Run() {
	h := t.h
	e := &tEntry{release: make(chan struct{})}
	e.n = atomic.AddInt32(&h.inflight, 1)
	h.entered <- e
	<-e.release
	atomic.AddInt32(&h.inflight, -1)
}

type tH struct {
	c    TCase
	clk  *clock.Mock
	trap *dedup.IntervalTrap
	now  int64

	entered  chan *tEntry
	results  chan *tCaller
	inflight int32
	wg       sync.WaitGroup
	entries  []*tEntry

	// model
	lastEnd int64 // end of the last run (creation time before the first)
	running *tEntry
	behind  map[*tCaller]bool // callers that arrived while the task was running
	ncall   int

	cls      map[string]bool
	runs     int
	declined int
}

func (h *tH) checkEntry(e *tEntry) *pbt.Verdict {
	h.entries = append(h.entries, e)
	if e.n > 1 {
		v := pbt.Fail("IntervalTrap: %d executions of the task in flight at once", e.n)
		return &v
	}
	return nil
}

func (h *tH) spawn() *tCaller {
	c := &tCaller{id: h.ncall}
	h.ncall++
	ready := make(chan struct{})
	h.wg.Add(1)
	go func() {
		defer h.wg.Done()
		c.gid = gid()
		close(ready)
		func() {
			defer func() { recover() }()
			h.trap.Trap()
		}()
		h.results <- c
	}()
	<-ready
	return c
}

func (h *tH) doTrap() *pbt.Verdict {
	if h.ncall >= tMaxCallers {
		h.cls["skip-trap-cap"] = true
		return nil
	}
	since := h.now - h.lastEnd
	iv := int64(h.c.Interval)
	if h.running != nil {
		// The task is running: this caller must not start a second execution.
		c := h.spawn()
		h.behind[c] = true
		confirmed := poll(2*time.Second, func() bool {
			if len(h.entered) > 0 {
				return true
			}
			g, ok := dump()[c.gid]
			return !ok || g.blocked()
		})
		select {
		case e := <-h.entered:
			if v := h.checkEntry(e); v != nil {
				return v
			}
			v := pbt.Fail("harness: entry with inflight=1 while the model says the task is running")
			return &v
		default:
		}
		if confirmed {
			h.cls["caller-arrived-during-run"] = true
		}
		return nil
	}
	c := h.spawn()
	select {
	case e := <-h.entered:
		if v := h.checkEntry(e); v != nil {
			return v
		}
		if since < iv {
			v := pbt.Fail("IntervalTrap: the task ran again %d ms after its previous run ended (interval %d ms)", since, iv)
			return &v
		}
		if since == iv {
			h.cls["interval-boundary"] = true
		}
		h.running = e
		h.behind = map[*tCaller]bool{c: true}
		h.runs++
		return nil
	case r := <-h.results:
		if r != c {
			v := pbt.Fail("harness: unexpected return of trap caller %d", r.id)
			return &v
		}
		if since > iv {
			v := pbt.Fail("IntervalTrap: Trap returned without running the task although %d ms have passed since its last run (interval %d ms)", since, iv)
			return &v
		}
		if since == iv {
			h.cls["interval-boundary"] = true
		}
		h.declined++
		h.cls["declined-within-interval"] = true
		return nil
	case <-time.After(stallLimit):
		v := stall("IntervalTrap: Trap neither ran the task nor returned", c.gid)
		return &v
	}
}

func (h *tH) finish() *pbt.Verdict {
	if h.running == nil {
		h.cls["skip-finish-nothing-running"] = true
		return nil
	}
	close(h.running.release)
	h.running = nil
	h.lastEnd = h.now
	nb := len(h.behind)
	for len(h.behind) > 0 {
		select {
		case r := <-h.results:
			if !h.behind[r] {
				v := pbt.Fail("harness: unexpected return of trap caller %d", r.id)
				return &v
			}
			delete(h.behind, r)
		case e := <-h.entered:
			if v := h.checkEntry(e); v != nil {
				return v
			}
			v := pbt.Fail("IntervalTrap: the task ran again 0 ms after its previous run ended (interval %d ms): a caller that arrived during the run executed it a second time", h.c.Interval)
			return &v
		case <-time.After(stallLimit):
			var ids []int64
			for c := range h.behind {
				ids = append(ids, c.gid)
			}
			v := stall("IntervalTrap: Trap callers did not return after the task finished", ids...)
			return &v
		}
	}
	if nb > 1 {
		h.cls["callers-behind-run-returned-without-rerun"] = true
		h.declined += nb - 1
	}
	return nil
}

func (h *tH) teardown() {
	done := make(chan struct{})
	var dwg sync.WaitGroup
	dwg.Add(1)
	go func() {
		defer dwg.Done()
		for {
			select {
			case e := <-h.entered:
				close(e.release)
			case <-h.results:
			case <-done:
				return
			}
		}
	}()
	if h.running != nil {
		close(h.running.release)
		h.running = nil
	}
	for _, e := range h.entries {
		func() {
			defer func() { recover() }()
			select {
			case <-e.release:
			default:
				close(e.release)
			}
		}()
	}
	fin := make(chan struct{})
	go func() { h.wg.Wait(); close(fin) }()
	select {
	case <-fin:
	case <-time.After(10 * time.Second):
	}
	close(done)
	dwg.Wait()
}

func runT(c TCase) pbt.Verdict {
	if c.Interval <= 0 {
		return pbt.Verdict{Discard: true}
	}
	h := &tH{c: c, clk: clock.NewMock(), entered: make(chan *tEntry, 64), results: make(chan *tCaller, 64),
		behind: map[*tCaller]bool{}, cls: map[string]bool{}}
	h.trap = dedup.NewIntervalTrap(ms(c.Interval), h.clk, &tTask{h})
	defer h.teardown()
	for _, s := range c.Steps {
		var v *pbt.Verdict
		switch s.K {
		case 0:
			v = h.doTrap()
		case 1:
			v = h.finish()
		case 2:
			if s.Adv > 0 {
				h.clk.Add(ms(s.Adv))
				h.now += int64(s.Adv)
			}
		}
		if v != nil {
			return *v
		}
	}
	if v := h.finish(); v != nil {
		return *v
	}
	select {
	case e := <-h.entered:
		if v := h.checkEntry(e); v != nil {
			return *v
		}
		return pbt.Fail("IntervalTrap: the task was executed although no Trap call was outstanding")
	default:
	}
	_ = fmt.Sprint
	return pbt.OK(h.runs >= 1 && h.declined >= 1, classList(h.cls)...)
}
